#!/bin/bash
# tools/seedregress.sh [prefix]: every seeded change against the check of the property it was aimed at (first three letters of its
# directory name); prints one line per seed. Seeds whose result.json says the planted code belongs to a neighbour stay "OK" by design.
cd /verif
for d in $(ls seeded | grep "^${1:-C}"); do
  p=${d:0:3}
  r=$(tools/seedrun.sh $d $p 2>&1 | grep "VIOLATION —\|: OK\|no-failing-input-found" | tr '\n' ' ' | cut -c1-90)
  echo "$d -> $r"
done
