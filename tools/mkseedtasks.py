#!/usr/bin/env python3
"""tools/mkseedtasks.py <wave> : write /tmp/seed/<wave>cXX.task.md for the 20 properties and create the scratch worktrees.
A task holds only the property (statement, quantifier, anchors, mechanisms), a theme, and one-line summaries of what earlier
sub-agents planted for that property (so that the new plant differs) — nothing about /verif."""
import json, os, sys, glob, subprocess
wave = sys.argv[1]
THEMES = {
 "A": "arithmetic / width / sign: an integer conversion, overflow, signed-vs-unsigned comparison, truncation to 32 bits, a length or "
      "offset computed near a limit, a shift or mask one bit off — it must only show for values beyond an unusual magnitude or at an exact boundary.",
 "B": "ordering / lifecycle: two statements in the wrong order, a resource released or reused too early or too late, a check-then-act gap, "
      "state updated before the action it records has succeeded (or not rolled back when it fails), a defer that runs at the wrong moment.",
 "C": "rare branch / fallback path: the slip sits in a path only taken for unusual but legal inputs or peers — a legacy encoding, an alternative "
      "reply form, an optional field, an empty or maximal collection, a retry or fallback route, a second attempt after a refusal.",
 "D": "two cooperating sites: the change is spread over two places (a helper and its caller, a constant and one of its users, a producer and a "
      "consumer) so that each place looks fine when read alone; only their combination breaks the property, and only for a specific input or sequence.",
}
THEMES.update({
 "E": "glue and conversions: option handling, text<->number conversion, []byte<->string conversion, a slice that aliases another (append into shared "
      "backing storage, a sub-slice kept after its buffer is reused), copy versus reference, a value captured where a fresh one was meant.",
 "F": "the callers of the anchored code: the mode drivers and set-up code that wire readers, channels, goroutines and parameters together — a wrong "
      "parameter handed down, two arguments of the same type swapped, a reader or connection wrapped twice or handed over at the wrong moment, a size or "
      "count taken from the wrong object.",
 "G": "Go-specific slips: a variable shadowed by := (an error or a counter that the outer scope never sees), a loop variable captured by a goroutine or "
      "closure, a defer inside a loop, a method on a value receiver that was meant to mutate, a map iterated where order matters, an integer division "
      "before a multiplication, a nil-versus-empty distinction lost.",
 "H": "boundaries of collections and batches: the first or last element, the empty and the one-element collection, exact multiples of a batch or page "
      "size, the element that straddles a batch boundary, off-by-one in a slice expression — it must only show at such a boundary.",
})
THEMES.update({
 "I": "a performance optimisation gone wrong: a cache or memo, batching, a reused buffer, a fast path for the common case, an early exit, lazy "
      "initialisation, fewer round trips or system calls — correct for the common case, wrong for a specific legal one.",
 "J": "a defensive or hardening change gone wrong: extra validation that rejects or alters legal input, a clamp or limit, a new timeout or retry "
      "bound, a nil/empty check that silently skips work, an error that is now swallowed or turned into a default.",
 "K": "an API migration: a library call replaced by an 'equivalent' one with subtly different semantics (ReadBytes->ReadSlice, Split->Fields, "
      "Atoi->ParseInt with another base or size, io.ReadFull->Read, bytes.Buffer->strings.Builder misuse, sort stability, map->slice order, "
      "time.After->Ticker, Sprintf verbs, TrimRight vs TrimSuffix, HasPrefix vs Contains).",
 "L": "a small feature or observability addition that perturbs behaviour: a new counter, log line, metric, progress report or configuration option "
      "whose evaluation has a side effect (consumes from a reader or channel, advances an iterator, takes a lock, changes a default).",
})
order = {"w8": "BCDA", "w9": "FGHE", "w10": "IJKL"}.get(wave, "ABCD")
props = [json.loads(l) for l in open("/verif/properties.jsonl")]
planted = {}
for m in sorted(glob.glob("/verif/seeded/*/meta.json")):
    try:
        d = json.load(open(m))
    except Exception:
        continue
    pid = str(d.get("property", os.path.basename(os.path.dirname(m))[:3]))[:3]
    name = os.path.basename(os.path.dirname(m))
    planted.setdefault(pid, []).append("  - %s: %s" % (name[4:], str(d.get("summary", ""))[:170].replace("\n", " ")))
os.makedirs("/tmp/seed", exist_ok=True)
for i, p in enumerate(props):
    pid = p["id"]
    name = "%sc%s" % (wave, pid[1:])
    if wave == "w10":
        name = "wac%s" % pid[1:]
    T = "/tmp/seed/" + name
    theme = THEMES[order[i % 4]]
    mech = "; ".join("%s (%s)" % (m["name"], m["where"]) for m in p["anchors"].get("mechanism", []))
    txt = "# Task for worktree %s   (export T=%s)\n\n" % (T, T)
    txt += 'Property to break — id "%s" — it currently holds on this tree (apart from any known exceptions named below):\n\n"%s"\n\n' % (pid, p["statement"])
    txt += "Quantified over: %s\n\n" % p["quantifier"]["text"]
    txt += "Anchored in: %s\nMechanisms: %s\n\n" % (", ".join(p["anchors"]["files"]), mech)
    txt += "THEME for this plant — %s If the theme is impossible for this property, take the closest thing. Choose the place yourself — in the anchored functions or in any helper, caller or data table they rely on. Already planted by others (do something different from all of these):\n%s\n\n" % (theme, "\n".join(planted.get(pid, ["  (nothing yet)"])))
    txt += 'In meta.json use "property": "%s".\n' % pid
    open("/tmp/seed/%s.task.md" % name, "w").write(txt)
    if not os.path.isdir(T):
        subprocess.run(["git", "-C", "/repo", "worktree", "add", "--detach", T, "HEAD", "-q"], check=True)
print("ok")
