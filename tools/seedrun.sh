#!/bin/bash
# tools/seedrun.sh <seeded-dir-name> <Cxx> [Cyy…]: apply seeded/<name>/patch.diff to /repo, run the checks, revert.
d=/verif/seeded/$1; shift
git -C /repo apply $d/patch.diff || exit 2
for p in "$@"; do
  (cd /verif && ./check $p 2>&1 | grep -v KNOWN-FINDING | tail -2; head -5 evidence/replay/$p-0.case 2>/dev/null | cut -c1-300)
done
git -C /repo checkout -- .
