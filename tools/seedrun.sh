#!/bin/bash
# tools/seedrun.sh <seeded-dir-name> <Cxx> [Cyy…]: apply seeded/<name>/patch.diff to /repo, run the checks, revert.
# Evidence and replays of these runs go to build/evidence-seed (the registered evidence/ describes the unchanged tree).
d=/verif/seeded/$1; shift
export VERIF_EVIDENCE_DIR=/verif/build/evidence-seed
git -C /repo apply $d/patch.diff || exit 2
for p in "$@"; do
  (cd /verif && ./check $p 2>&1 | grep -v KNOWN-FINDING | tail -2; head -5 $VERIF_EVIDENCE_DIR/replay/$p-0.case 2>/dev/null | cut -c1-300)
done
git -C /repo checkout -- .
