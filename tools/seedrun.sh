#!/bin/bash
# tools/seedrun.sh <seeded-dir-name> <Cxx> [Cyy…]: run the checks against /repo + seeded/<name>/patch.diff.
# The patch is applied to a scratch worktree of /repo's HEAD (so that background runs against /repo are not disturbed;
# `git -C /repo apply …; ./check …; git -C /repo checkout -- .` gives the same verdicts) and the checks are pointed at it.
# Evidence and replays of these runs go to build/evidence-seed (the registered evidence/ describes the unchanged tree).
d=/verif/seeded/$1; shift
export VERIF_EVIDENCE_DIR=/verif/build/evidence-seed
w=/tmp/seedrun.$$
git -C /repo worktree add --detach $w HEAD -q || exit 2
git -C $w apply $d/patch.diff || { git -C /repo worktree remove --force $w; exit 2; }
for p in "$@"; do
  (cd /verif && VERIF_REPO=$w ./check $p 2>&1 | grep -v "KNOWN-FINDING\|^NOTE" | tail -2; head -5 $VERIF_EVIDENCE_DIR/replay/$p-0.case 2>/dev/null | cut -c1-300)
done
git -C /repo worktree remove --force $w
