#!/usr/bin/env python3
"""tools/merge.py <workname>: bring a builder's per-property files from /work/<workname>/verif into /verif.
Reports (does not overwrite) files that both sides changed since the common base."""
import subprocess, sys, os, shutil
name = sys.argv[1]
W = "/work/%s/verif" % name
def git(d, *a):
    return subprocess.run(["git", "-C", d] + list(a), stdout=subprocess.PIPE, stderr=subprocess.DEVNULL).stdout.decode()
# common base: newest commit of the copy that exists in /verif
base = None
for sha in git(W, "log", "--format=%H").split():
    if subprocess.run(["git", "-C", "/verif", "cat-file", "-e", sha], stderr=subprocess.DEVNULL).returncode == 0:
        base = sha
        break
print("base", base[:8])
dirty = git(W, "status", "--short").strip()
if dirty:
    print("WARNING: uncommitted changes in work copy:\n" + dirty)
changed = [l.split("\t") for l in git(W, "diff", "--name-status", base, "HEAD").strip().split("\n") if l]
ours = set(l.split("\t")[-1] for l in git("/verif", "diff", "--name-status", base, "HEAD").strip().split("\n") if l)
conflicts, copied = [], []
for st in changed:
    f = st[-1]
    if f.startswith("evidence/") or f == "MANIFEST.json":
        continue
    src, dst = os.path.join(W, f), os.path.join("/verif", f)
    if st[0].startswith("D"):
        print("deleted in work copy (ignored):", f)
        continue
    if f in ours and os.path.exists(dst) and open(src, "rb").read() != open(dst, "rb").read():
        conflicts.append(f)
        continue
    os.makedirs(os.path.dirname(dst), exist_ok=True)
    shutil.copyfile(src, dst)
    shutil.copymode(src, dst)
    copied.append(f)
print("copied %d files" % len(copied))
for f in copied:
    print("  ", f)
if conflicts:
    print("CONFLICTS (both sides changed; merge by hand):")
    for f in conflicts:
        print("  ", f)
