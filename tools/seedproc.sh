#!/bin/bash
# tools/seedproc.sh <seedname> <seeded-dir> <pkg> <run-pattern> <changed file> <Cxx…>: copy, confirm, run checks
n=$1; d=$2; pkg=$3; pat=$4; f=$5; shift 5
mkdir -p /verif/seeded/$d; cp /tmp/seed/$n/SEED/* /verif/seeded/$d/
echo "##### $n -> $d"; /verif/tools/seedconfirm.sh $n $pkg "$pat" $f 2>&1 | tail -5
/verif/tools/seedrun.sh $d "$@" 2>&1 | cut -c1-260
