#!/bin/sh
# tools/mkwork.sh <name>: private working copy of /verif (with build cache) + a git worktree of /repo for one builder.
set -e
W=/work/$1
mkdir -p /work
rm -rf "$W/verif"
mkdir -p "$W"
cp -a /verif "$W/verif"
if [ ! -d "$W/repo" ]; then git -C /repo worktree add --detach "$W/repo" HEAD >/dev/null 2>&1; fi
echo "$W"
