#!/bin/bash
# tools/refacrun.sh <tree> [Cxx…]: run the checks against a behaviour-preserving refactoring of /repo kept in <tree>
t=$1; shift
ps=${@:-C01 C02 C03 C04 C05 C06 C07 C08 C09 C10 C11 C12 C13 C14 C15 C16 C17 C18 C19 C20}
for p in $ps; do VERIF_REPO=$t ./check $p 2>&1 | grep -v "KNOWN\|INFO\]" | grep -E "NOTE|VIOLATION|: OK|^  \| (case|impl|expected|broken)" | cut -c1-330; done
