#!/bin/bash
# tools/regress_fixes.sh: every `fixed:` entry of known_findings.txt, undone on a scratch copy of /repo (git revert of that one
# commit), must make the check of its property report a VIOLATION again ("a fixed entry suppresses nothing").
cd /verif
export VERIF_EVIDENCE_DIR=/verif/build/evidence-regress
grep "^fixed:" known_findings.txt | awk '{print $2, $3}' | sed 's/property=//' | sort -u | while read pid sha; do
  w=/tmp/regress.$$
  git -C /repo worktree add --detach $w HEAD -q || continue
  if git -C $w revert --no-commit $sha >/dev/null 2>&1; then
    out=$(VERIF_REPO=$w ./check $pid 2>&1 | grep -v "^NOTE" | grep "VIOLATION\|: OK\|KNOWN-FINDING" | tail -2 | cut -c1-160 | tr '\n' ' ')
    echo "$pid $sha -> $out"
  else
    echo "$pid $sha -> revert does not apply cleanly (later fixes touch the same lines)"
  fi
  git -C /repo worktree remove --force $w
done
