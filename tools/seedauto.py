#!/usr/bin/env python3
"""tools/seedauto.py <seedname> <seeded-dir-name> <Cxx> [Cyy…]
Copies /tmp/seed/<seedname>/SEED/* to seeded/<dir>/, confirms the demonstration (fails with the change, passes without:
the changed files are taken from patch.diff, the test package and the test names from the demo file), then runs the
checks through tools/seedrun.sh."""
import glob, json, os, re, subprocess, sys
name, d = sys.argv[1], sys.argv[2]
checks = sys.argv[3:]
T = "/tmp/seed/" + name
dst = "/verif/seeded/" + d
os.makedirs(dst, exist_ok=True)
subprocess.run("cp %s/SEED/* %s/" % (T, dst), shell=True, check=True)
patch = open(dst + "/patch.diff").read()
changed = sorted(set(re.findall(r"^\+\+\+ b/src/(\S+)", patch, re.M)))
demos = [f for f in glob.glob(T + "/SEED/*_test.go")]
env = dict(os.environ, GOFLAGS="-mod=mod", GOPROXY="off", GOSUMDB="off", GOTOOLCHAIN="local")
ov = ["-overlay", T + "/overlay.json"] if os.path.exists(T + "/overlay.json") else []
print("##### %s -> %s   changed: %s" % (name, d, ", ".join(changed)))
for demo in demos:
    base = os.path.basename(demo)
    hits = subprocess.run(["find", T + "/src", "-name", base], capture_output=True, text=True).stdout.split()
    if not hits:
        print("demo %s not found in the worktree" % base); continue
    pkg = "./" + os.path.relpath(os.path.dirname(hits[0]), T + "/src") + "/"
    tests = re.findall(r"^func (Test\w+)\(", open(demo).read(), re.M)
    pat = "^(" + "|".join(tests) + ")$"
    def run():
        p = subprocess.run(["go", "test"] + ov + ["-vet=off", "-count=1", "-run", pat, pkg], cwd=T + "/src", env=env,
                           capture_output=True)
        return (p.stdout + p.stderr).decode('utf-8', 'replace').strip().split("\n")[-1]
    print("== with change:    ", run())
    subprocess.run("git diff -- %s > %s/x.patch; git checkout -- %s" % (" ".join(changed), T, " ".join(changed)), shell=True, cwd=T + "/src")
    print("== without change: ", run())
    subprocess.run(["git", "apply", T + "/x.patch"], cwd=T + "/src")
sys.stdout.flush()
if checks:
    subprocess.run(["/verif/tools/seedrun.sh", d] + checks)
