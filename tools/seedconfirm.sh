#!/bin/bash
# tools/seedconfirm.sh <seedname> <pkg> <run-pattern> <changed files…>: demo with and without the change (no git stash)
export GOFLAGS=-mod=mod GOPROXY=off GOSUMDB=off GOTOOLCHAIN=local
T=/tmp/seed/$1; pkg=$2; pat=$3; shift 3
cd $T/src
OV=""; [ -f $T/overlay.json ] && OV="-overlay $T/overlay.json"
echo "== with change:"; go test $OV -vet=off -count=1 -run "$pat" $pkg 2>&1 | tail -2
git diff -- "$@" > $T/x.patch; git checkout -- "$@"
echo "== without change:"; go test $OV -vet=off -count=1 -run "$pat" $pkg 2>&1 | tail -2
git apply $T/x.patch
