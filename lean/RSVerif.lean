import RSVerif.Basic
import RSVerif.Audit
import RSVerif.Properties.C11
import RSVerif.Drive.C11
