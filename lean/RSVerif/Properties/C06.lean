import RSVerif.Model.Filter
import RSVerif.Lemmas.Filter
import RSVerif.Properties.C06Models
/-
C06 — Configured filters are honoured identically in every mode and phase.
Property theorems only (helper lemmas live in RSVerif.Lemmas.Filter).

Model  = RSVerif.Filter       (filter.go and the loop bodies of the four data paths, as coded)
Spec   = RSVerif.Spec.Filter  (`excluded`, written from the statement / the settings documentation)
All theorems quantify over ALL keys (arbitrary byte strings), database numbers, command names and
configurations. Hypotheses, where present, are the start-up guarantees of SanitizeOptions
(slot entries are numerals) or the range of `KeyToSlot` (< 16384).
-/
namespace RSVerif.Properties.C06
open RSVerif RSVerif.Spec.Filter RSVerif.Filter RSVerif.Lemmas.Filter

/-! ### 0. Ties to the source (re-checked against the regenerated constants on every run) -/

/-- the names `FilterCommands` compares with are the names the specification talks about -/
theorem source_command_names :
    cmdAlways = [nOpinfo] ∧ cmdUnderLua = [nEval, nScript, nEvalsha] := by
  decide

/-- every key of `innerFilterKeys` is one of the tool's checkpoint keys -/
theorem inner_keys_are_checkpoint_keys : ∀ k ∈ Generated.innerFilterKeys, isCheckpointKey k = true :=
  inner_keys_checkpoint

/-! ### 1. The four predicates of filter.go are the clauses of the specification -/

theorem filterKey_spec (cfg : Cfg) (key : Bytes) :
    filterKey cfg key = (isCheckpointKey key || keyExcluded cfg key) := filterKey_eq cfg key

theorem filterDB_spec (cfg : Cfg) (db : Int) : filterDB cfg db = dbExcluded cfg db := filterDB_eq cfg db

theorem filterSlot_spec (cfg : Cfg) (slot : Nat) (hs : slot < 16384) (hv : slotsValid cfg = true) :
    filterSlot cfg (slot : Int) = slotExcluded cfg slot := filterSlot_eq cfg slot hs hv

private theorem names_lower :
    nOpinfo.all isLower = true ∧ nEval.all isLower = true ∧ nScript.all isLower = true ∧
    nEvalsha.all isLower = true ∧ bPublish.all isLower = true := by decide

private theorem names_ascii :
    isAscii nOpinfo = true ∧ isAscii nEval = true ∧ isAscii nScript = true ∧ isAscii nEvalsha = true := by decide

/-- on ASCII command names, `FilterCommands` = "bookkeeping command, or script command while filter.lua" -/
theorem filterCommands_spec (cfg : Cfg) (cmd : Bytes) (ha : isAscii cmd = true) :
    filterCommands cfg cmd = cmdExcluded cfg cmd := by
  unfold filterCommands filterCommandsOf cmdExcluded internalCmd scriptCmd
  rw [source_command_names.1, source_command_names.2]
  simp only [List.any_cons, List.any_nil, Bool.or_false,
    equalFold_ascii cmd _ ha names_lower.1, equalFold_ascii cmd _ ha names_lower.2.1,
    equalFold_ascii cmd _ ha names_lower.2.2.1, equalFold_ascii cmd _ ha names_lower.2.2.2.1]
  cases isName cmd nOpinfo <;> cases cfg.lua <;> cases isName cmd nEval <;> cases isName cmd nScript <;>
    cases isName cmd nEvalsha <;> rfl

/-- whatever the bytes of `cmd`: a name the specification excludes is excluded by the code -/
theorem filterCommands_complete (cfg : Cfg) (cmd : Bytes) (h : cmdExcluded cfg cmd = true) :
    filterCommands cfg cmd = true := by
  have ha : isAscii cmd = true := by
    simp only [cmdExcluded, internalCmd, scriptCmd, Bool.or_eq_true, Bool.and_eq_true] at h
    rcases h with h | ⟨_, (h | h) | h⟩
    · exact isName_ascii _ _ names_ascii.1 h
    · exact isName_ascii _ _ names_ascii.2.1 h
    · exact isName_ascii _ _ names_ascii.2.2.2 h
    · exact isName_ascii _ _ names_ascii.2.2.1 h
  rw [filterCommands_spec cfg cmd ha]; exact h

/-! ### 2. `path_agrees`: every path's decision is `excluded` -/

private theorem scriptless (cmd : Bytes) (ha : isAscii cmd = true) :
    equalFold cmd bPublish = isName cmd bPublish := equalFold_ascii cmd _ ha names_lower.2.2.2.2

/-- Full sync, restore and rump decide `(db, key)` exactly as the specification says — full sync with the
    additional slot conjunct, rump (and incremental sync) with the checkpoint exception worded as in the
    statement ("nor by any path once a key filter is configured"). Incremental sync: a single-key command
    `cmd key rest…` arriving while `db` is selected is forwarded iff neither `(db, key)` nor the command
    name is excluded. -/
theorem path_agrees (cfg : Cfg) (slot : Bytes → Nat) (hslot : ∀ k, slot k < 16384)
    (hv : slotsValid cfg = true) (db : Int) (key : Bytes) :
    fullSyncDecision cfg slot db key = excludedFullSync cfg db key (slot key)
    ∧ restoreDecision cfg db key = excluded .restore cfg db key
    ∧ rumpDecision cfg db key = excluded .rump cfg db key
    ∧ (∀ (cmd : Bytes) (rest : List Bytes), isAscii cmd = true → cmd ≠ bPing → isName cmd bPublish = false →
        incrPathDecision cfg db cmd .single (key :: rest) =
          if excluded .incr cfg db key || cmdExcluded cfg cmd then .drop else .forward) := by
  refine ⟨?_, ?_, ?_, ?_⟩
  · unfold fullSyncDecision excludedFullSync excluded checkpointExcluded
    rw [filterDB_spec, filterKey_spec, filterSlot_spec cfg (slot key) (hslot key) hv]
    cases dbExcluded cfg db <;> cases isCheckpointKey key <;> cases keyExcluded cfg key <;>
      cases slotExcluded cfg (slot key) <;> rfl
  · unfold restoreDecision excluded checkpointExcluded
    rw [filterDB_spec, filterKey_spec]
    cases dbExcluded cfg db <;> cases isCheckpointKey key <;> cases keyExcluded cfg key <;> rfl
  · unfold rumpDecision excluded checkpointExcluded keyFilterOn
    rw [filterDB_spec, filterKey_spec]
    simp only [length_ne_zero]
    unfold keyExcluded
    cases dbExcluded cfg db <;> cases isCheckpointKey key <;> cases cfg.keyBlack.isEmpty <;>
      cases cfg.keyWhite.isEmpty <;> cases listed key cfg.keyBlack <;> cases listed key cfg.keyWhite <;> rfl
  · intro cmd rest ha hping hpub
    have hp : (cmd != bPing) = true := by simpa using hping
    simp only [incrPathDecision, incrDecision, incrSelect, handleFilterKey, excluded, checkpointExcluded,
      keyFilterOn, filterDB_spec, filterKey_spec, filterCommands_spec cfg cmd ha, scriptless cmd ha, hpub,
      length_eq_zero, keyExcluded]
    rw [if_pos hp]
    by_cases h1 : dbExcluded cfg db = true <;> by_cases h2 : isCheckpointKey key = true <;>
      by_cases h3 : cfg.keyBlack.isEmpty = true <;> by_cases h4 : cfg.keyWhite.isEmpty = true <;>
      by_cases h5 : listed key cfg.keyBlack = true <;> by_cases h6 : listed key cfg.keyWhite = true <;>
      by_cases h7 : cmdExcluded cfg cmd = true <;> simp [h1, h2, h3, h4, h5, h6, h7]

/-- "with the same decision for the same key in full sync, incremental sync, restore and rump":
    without a slot list, and unless the key is a checkpoint key while no key filter is configured (the
    exception the statement makes), all four paths decide alike. -/
theorem same_decision (cfg : Cfg) (slot : Bytes → Nat) (hs : cfg.slots = []) (db : Int) (key : Bytes)
    (hk : keyFilterOn cfg = true ∨ isCheckpointKey key = false) :
    fullSyncDecision cfg slot db key = restoreDecision cfg db key
    ∧ restoreDecision cfg db key = rumpDecision cfg db key
    ∧ (∀ (cmd : Bytes) (rest : List Bytes), isAscii cmd = true → cmd ≠ bPing → isName cmd bPublish = false →
        cmdExcluded cfg cmd = false →
        incrPathDecision cfg db cmd .single (key :: rest) =
          if rumpDecision cfg db key then .drop else .forward) := by
  have hv : slotsValid cfg = true := by simp [slotsValid, hs]
  have hslotex : ∀ s, slotExcluded cfg s = false := by intro s; simp [slotExcluded, hs]
  -- full sync does not look at the slot function when the list is empty, so any bound works
  have hfull : fullSyncDecision cfg slot db key = excluded .fullSync cfg db key := by
    unfold fullSyncDecision filterSlot
    rw [filterDB_spec, filterKey_spec, hs]
    unfold excluded checkpointExcluded
    cases dbExcluded cfg db <;> cases isCheckpointKey key <;> cases keyExcluded cfg key <;> rfl
  obtain ⟨_, hr, hu, hi⟩ := path_agrees cfg (fun _ => 0) (fun _ => by omega) hv db key
  have hexc : ∀ p, excluded p cfg db key = excluded .restore cfg db key := by
    intro p
    unfold excluded checkpointExcluded
    rcases hk with hk | hk
    · rw [hk]; cases p <;> simp
    · rw [hk]; simp
  refine ⟨?_, ?_, ?_⟩
  · rw [hfull, hr, hexc]
  · rw [hr, hu, hexc .rump]
  · intro cmd rest ha hp hpub hc
    rw [hi cmd rest ha hp hpub, hu, hc, hexc .incr, hexc .rump]
    simp

/-! ### 3. Scripts -/

/-- Script commands (`eval`, `evalsha`, `script`, in any letter case) are filtered exactly when
    `filter.lua` is set — for every byte string that spells one of these names. -/
theorem lua_iff (cfg : Cfg) (cmd : Bytes) (h : scriptCmd cmd = true) :
    filterCommands cfg cmd = luaExcluded cfg := by
  have ha : isAscii cmd = true := by
    simp only [scriptCmd, Bool.or_eq_true] at h
    rcases h with (h | h) | h
    · exact isName_ascii _ _ names_ascii.2.1 h
    · exact isName_ascii _ _ names_ascii.2.2.2 h
    · exact isName_ascii _ _ names_ascii.2.2.1 h
  rw [filterCommands_spec cfg cmd ha]
  unfold cmdExcluded luaExcluded
  rw [h]
  have : internalCmd cmd = false := by
    -- a script name is not the bookkeeping name
    simp only [scriptCmd, isName, Bool.or_eq_true, beq_iff_eq] at h
    simp only [internalCmd, isName]
    rcases h with (h | h) | h <;> rw [h] <;> decide
  simp [this]

/-- … and in the incremental stream: in a database that is not excluded, a script command is forwarded
    iff `filter.lua` is off (script commands have no row in the key table). -/
theorem lua_cmd_incr (cfg : Cfg) (db : Int) (cmd : Bytes) (args : List Bytes)
    (h : scriptCmd cmd = true) (hd : dbExcluded cfg db = false) :
    incrPathDecision cfg db cmd .notInTable args = if cfg.lua then .drop else .forward := by
  have hl := lua_iff cfg cmd h
  have ha : isAscii cmd = true := by
    simp only [scriptCmd, Bool.or_eq_true] at h
    rcases h with (h | h) | h
    · exact isName_ascii _ _ names_ascii.2.1 h
    · exact isName_ascii _ _ names_ascii.2.2.2 h
    · exact isName_ascii _ _ names_ascii.2.2.1 h
  have hpub : equalFold cmd bPublish = false := by
    rw [scriptless cmd ha]
    simp only [scriptCmd, isName, Bool.or_eq_true, beq_iff_eq] at h
    simp only [isName]
    rcases h with (h | h) | h <;> rw [h] <;> decide
  have hping : (cmd != bPing) = true := by
    simp only [scriptCmd, isName, Bool.or_eq_true, beq_iff_eq] at h
    simp only [bne_iff_ne, ne_eq]
    intro hc
    rw [hc] at h
    revert h
    decide
  unfold incrPathDecision incrDecision incrSelect handleFilterKey
  rw [filterDB_spec, hd, hl, hpub, hping]
  unfold luaExcluded
  cases cfg.lua <;> cases (cfg.keyWhite.length == 0 && cfg.keyBlack.length == 0) <;> simp

/-- Nothing else is excluded by name: an ASCII command that is neither a script command nor the
    bookkeeping command passes `FilterCommands` under every configuration. -/
theorem only_scripts_and_bookkeeping (cfg : Cfg) (cmd : Bytes) (ha : isAscii cmd = true)
    (h1 : scriptCmd cmd = false) (h2 : internalCmd cmd = false) : filterCommands cfg cmd = false := by
  rw [filterCommands_spec cfg cmd ha]; simp [cmdExcluded, h1, h2]

/-- EXACT behaviour of a Lua script carried by a snapshot (aux field `lua`): the loader turns it into an
    entry with key `"lua"`, so it is dropped whenever the pseudo-key `"lua"` in the database current at
    that point of the file would be dropped — and otherwise exactly when `filter.lua` is set. -/
theorem lua_aux_exact (cfg : Cfg) (slot : Bytes → Nat) (hslot : ∀ k, slot k < 16384)
    (hv : slotsValid cfg = true) (db : Int) :
    luaDecisionFullSync cfg slot db = (excludedFullSync cfg db nLua (slot nLua) || luaExcluded cfg)
    ∧ luaDecisionRestore cfg db = (excluded .restore cfg db nLua || luaExcluded cfg) := by
  obtain ⟨hf, hr, _, _⟩ := path_agrees cfg slot hslot hv db nLua
  unfold luaDecisionFullSync luaDecisionRestore luaExcluded
  rw [hf, hr]
  cases excludedFullSync cfg db nLua (slot nLua) <;> cases excluded .restore cfg db nLua <;> cases cfg.lua <;> simp

/-
FULL STATEMENT (false of the code, deviation D10):
  ∀ cfg slot db, luaDecisionFullSync cfg slot db = luaExcluded cfg ∧ luaDecisionRestore cfg db = luaExcluded cfg
"Lua scripts are excluded exactly when filter.lua is set". It fails whenever a key list, a database list
or a slot list happens to exclude the pseudo-key "lua" (counterexamples below). What is provable:
-/

/-- With no key list, no slot list and the current database not excluded, a snapshot's Lua scripts are
    excluded iff `filter.lua`. -/
theorem lua_iff_partial (cfg : Cfg) (slot : Bytes → Nat) (db : Int)
    (hk : keyFilterOn cfg = false) (hs : cfg.slots = []) (hd : dbExcluded cfg db = false) :
    luaDecisionFullSync cfg slot db = luaExcluded cfg ∧ luaDecisionRestore cfg db = luaExcluded cfg := by
  have hkb : cfg.keyBlack.isEmpty = true ∧ cfg.keyWhite.isEmpty = true := by
    simpa [keyFilterOn] using hk
  have hkey : filterKey cfg nLua = false := by
    rw [filterKey_spec]
    have : isCheckpointKey nLua = false := by decide
    simp [this, keyExcluded, hkb.1, hkb.2]
  unfold luaDecisionFullSync luaDecisionRestore fullSyncDecision restoreDecision filterSlot luaExcluded
  rw [filterDB_spec, hd, hkey, hs]
  cases cfg.lua <;> simp

/-- D10, key whitelist: `filter.key.whitelist = user:` and `filter.lua = false` — the scripts are dropped
    by full sync (whatever `KeyToSlot` is) and by restore, although the specification keeps them. -/
theorem counterexample_lua_whitelist :
    let cfg : Cfg := { keyWhite := [[0x75, 0x73, 0x65, 0x72, 0x3a]] }
    luaExcluded cfg = false ∧ (∀ slot, luaDecisionFullSync cfg slot 0 = true) ∧ luaDecisionRestore cfg 0 = true := by
  refine ⟨by decide, ?_, by decide⟩
  intro slot
  have hk : filterKey { keyWhite := [[0x75, 0x73, 0x65, 0x72, 0x3a]] } nLua = true := by decide
  have hd : filterDB { keyWhite := [[0x75, 0x73, 0x65, 0x72, 0x3a]] } 0 = false := by decide
  simp [luaDecisionFullSync, fullSyncDecision, hd, hk]

/-- D10, key blacklist naming a prefix of `lua` (here `l`): same effect. -/
theorem counterexample_lua_blacklist :
    let cfg : Cfg := { keyBlack := [[0x6c]] }
    luaExcluded cfg = false ∧ (∀ slot, luaDecisionFullSync cfg slot 0 = true) ∧ luaDecisionRestore cfg 0 = true := by
  refine ⟨by decide, ?_, by decide⟩
  intro slot
  have hk : filterKey { keyBlack := [[0x6c]] } nLua = true := by decide
  have hd : filterDB { keyBlack := [[0x6c]] } 0 = false := by decide
  simp [luaDecisionFullSync, fullSyncDecision, hd, hk]

/-- D10, database list: the scripts follow the last database of the snapshot; with that database
    blacklisted (here 0) they are dropped although `filter.lua` is off. -/
theorem counterexample_lua_dbfilter :
    let cfg : Cfg := { dbBlack := [[0x30]] }
    luaExcluded cfg = false ∧ (∀ slot, luaDecisionFullSync cfg slot 0 = true) ∧ luaDecisionRestore cfg 0 = true := by
  refine ⟨by decide, ?_, by decide⟩
  intro slot
  have hd : filterDB { dbBlack := [[0x30]] } 0 = true := by decide
  simp [luaDecisionFullSync, fullSyncDecision, hd]

/-- D10, slot list (full sync only): scripts pass only if the slot of the string `lua` is listed. -/
theorem counterexample_lua_slotfilter (slot : Bytes → Nat) (h : slot nLua ≠ 1) :
    let cfg : Cfg := { slots := [[0x31]] }
    luaExcluded cfg = false ∧ luaDecisionFullSync cfg slot 0 = true := by
  refine ⟨by decide, ?_⟩
  have h1 : atoi [0x31] = 1 := by decide
  have h2 : ((slot nLua : Int) == 1) = false := by
    simp only [beq_eq_false_iff_ne, ne_eq]; omega
  have hk : filterKey { slots := [[0x31]] } nLua = false := by decide
  have hd : filterDB { slots := [[0x31]] } 0 = false := by decide
  simp only [luaDecisionFullSync, fullSyncDecision, hd, hk, filterSlot, slotLoop, h1, h2]
  decide

/-! ### 4. Bookkeeping command, checkpoint keys -/

/-- `opinfo` (any letter case) is never forwarded by incremental sync: whatever the configuration, the
    selected database, the key-table row and the arguments. -/
theorem opinfo_never (cfg : Cfg) (bypass : Bool) (cmd : Bytes) (ks : KeySpec) (args : List Bytes)
    (h : internalCmd cmd = true) : incrDecision cfg bypass cmd ks args = .drop := by
  have hx : cmdExcluded cfg cmd = true := by simp [cmdExcluded, h]
  have hf := filterCommands_complete cfg cmd hx
  have hping : (cmd != bPing) = true := by
    simp only [internalCmd, isName, beq_iff_eq] at h
    simp only [bne_iff_ne, ne_eq]
    intro hc
    rw [hc] at h
    revert h
    decide
  unfold incrDecision
  rw [hping, hf]
  simp

/-- The tool's own checkpoint keys (`redis-shake-checkpoint…`) are not copied by full sync or restore
    under ANY configuration, nor by rump or incremental sync once a key filter is configured. -/
theorem checkpoint_key_filtered (cfg : Cfg) (slot : Bytes → Nat) (db : Int) (key : Bytes)
    (h : isCheckpointKey key = true) :
    fullSyncDecision cfg slot db key = true
    ∧ restoreDecision cfg db key = true
    ∧ (keyFilterOn cfg = true →
        rumpDecision cfg db key = true
        ∧ ∀ bypass cmd rest, incrDecision cfg bypass cmd .single (key :: rest) = .drop) := by
  have hk : filterKey cfg key = true := by rw [filterKey_spec, h]; rfl
  refine ⟨?_, ?_, ?_⟩
  · unfold fullSyncDecision; rw [hk]; cases filterDB cfg db <;> rfl
  · unfold restoreDecision; rw [hk]; cases filterDB cfg db <;> rfl
  · intro hon
    have hlen : (cfg.keyBlack.length != 0 || cfg.keyWhite.length != 0) = true := by
      simpa [keyFilterOn, length_ne_zero] using hon
    have hlen2 : (cfg.keyWhite.length == 0 && cfg.keyBlack.length == 0) = false := by
      simp only [length_eq_zero]
      simp only [keyFilterOn, Bool.or_eq_true, Bool.not_eq_eq_eq_not, Bool.not_true] at hon
      rcases hon with hon | hon <;> simp [hon]
    refine ⟨?_, ?_⟩
    · unfold rumpDecision; rw [hk, hlen]; cases filterDB cfg db <;> rfl
    · intro bypass cmd rest
      simp only [incrDecision, handleFilterKey, hlen2, hk]
      by_cases h1 : (cmd != bPing) = true <;> by_cases h2 : bypass = true <;>
        by_cases h3 : filterCommands cfg cmd = true <;> by_cases h4 : equalFold cmd bPublish = true <;>
        by_cases h5 : equalFold key bSentinelHello = true <;> simp [h1, h2, h3, h4, h5]

/-! ### 5. What the list clauses mean -/

/-- "starting with a listed prefix": `listed key l` iff `key = p ++ rest` for some listed `p`. -/
theorem listed_iff_prefix (key : Bytes) (l : List Bytes) :
    listed key l = true ↔ ∃ p ∈ l, ∃ rest, key = p ++ rest := by
  simp only [listed, List.any_eq_true, List.isPrefixOf_iff_prefix]
  constructor
  · rintro ⟨p, hp, t, ht⟩; exact ⟨p, hp, t, ht.symm⟩
  · rintro ⟨p, hp, t, ht⟩; exact ⟨p, hp, t, ht.symm⟩

/-- "database lists match database numbers exactly": a list of numerals lists `db` iff `db` is one of
    the numbers (no prefix, substring or sign confusion: 1 vs 10 vs 11 vs -1). -/
theorem db_list_numeric (db : Int) (ns : List Int) : dbListed db (ns.map decimal) = ns.contains db := by
  induction ns with
  | nil => rfl
  | cons n ns ih =>
    simp only [dbListed, List.map_cons, List.any_cons, List.contains_cons] at *
    rw [ih]
    by_cases h : n = db
    · simp [h]
    · have h1 : (decimal n == decimal db) = false := by
        simp only [beq_eq_false_iff_ne, ne_eq]; exact fun e => h (decimal_inj _ _ e)
      have h2 : (db == n) = false := by simp only [beq_eq_false_iff_ne, ne_eq]; exact fun e => h e.symm
      simp [h1, h2]

/-- for configurations the settings file allows (at most one key list) the as-written precedence IS the
    plain reading: blacklist ⇒ listed keys out, whitelist ⇒ unlisted keys out -/
theorem keyExcluded_union (cfg : Cfg) (key : Bytes) (h : cfg.keyBlack = [] ∨ cfg.keyWhite = []) :
    keyExcluded cfg key = keyExcludedUnion cfg key := by
  unfold keyExcluded keyExcludedUnion
  rcases h with h | h <;> rw [h] <;> cases cfg.keyWhite.isEmpty <;> cases cfg.keyBlack.isEmpty <;> simp

/-! ### 6. The command tail of restore mode applies the database bypass only (finding) -/

/-
FULL STATEMENT (false of the code): the `extra` command tail replayed by restore mode
(`restoreCommand`, restore.go:237-259) should decide like incremental sync. As coded it consults
`FilterDB` only; `FilterCommands` and the key filter are never called there.
-/

/-- what does hold: a command in an excluded database is not forwarded by the tail either -/
theorem restore_tail_db_partial (cfg : Cfg) (db : Int) (cmd : Bytes) (hp : cmd ≠ bPing)
    (hd : dbExcluded cfg db = true) : restoreCmdDecision (filterDB cfg db) cmd = true := by
  have : (cmd != bPing) = true := by simpa using hp
  rw [filterDB_spec, hd]; simp [restoreCmdDecision, this]

/-- the bookkeeping command IS forwarded by the restore tail (incremental sync drops it: `opinfo_never`) -/
theorem counterexample_restore_tail_opinfo :
    restoreCmdDecision false nOpinfo = false ∧ ∀ cfg ks args, incrDecision cfg false nOpinfo ks args = .drop := by
  refine ⟨by decide, ?_⟩
  intro cfg ks args
  exact opinfo_never cfg false nOpinfo ks args (by decide)

/-- … and so are script commands under `filter.lua`, and commands on blacklisted keys -/
theorem counterexample_restore_tail_lua_and_keys :
    let cfg : Cfg := { lua := true, keyBlack := [[0x61]] }
    restoreCmdDecision (filterDB cfg 0) nEval = false
    ∧ incrPathDecision cfg 0 nEval .notInTable [] = .drop
    ∧ restoreCmdDecision (filterDB cfg 0) [0x73, 0x65, 0x74] = false
    ∧ incrPathDecision cfg 0 [0x73, 0x65, 0x74] .single [[0x61, 0x62], [0x31]] = .drop := by
  decide

/-! ### Non-vacuity: concrete inhabitants of the hypotheses and both outcomes of every decision -/

-- blacklist `ab`: `abc` out, `a` (a proper prefix of the listed prefix) in, empty key in
example : let cfg : Cfg := { keyBlack := [[0x61, 0x62]] }
    keyExcluded cfg [0x61, 0x62, 0x63] = true ∧ keyExcluded cfg [0x61] = false ∧ keyExcluded cfg [] = false := by decide
-- whitelist `ab`: the reverse; an EMPTY listed prefix matches every key
example : let cfg : Cfg := { keyWhite := [[0x61, 0x62]] }
    keyExcluded cfg [0x61, 0x62, 0x63] = false ∧ keyExcluded cfg [0x61] = true ∧ keyExcluded cfg [] = true := by decide
example : keyExcluded { keyBlack := [[]] } [0x7a] = true := by decide
-- a valid slot configuration with sign and leading zeros; slot 5 listed, 6 not
example : let cfg : Cfg := { slots := [[0x2b, 0x35], [0x30, 0x30, 0x37]] }
    slotsValid cfg = true ∧ slotExcluded cfg 5 = false ∧ slotExcluded cfg 7 = false ∧ slotExcluded cfg 6 = true := by decide
-- db list "1": db 1 listed; 10, 11, -1 not; the entry "01" lists nothing
example : dbListed 1 [[0x31]] = true ∧ dbListed 10 [[0x31]] = false ∧ dbListed (-1) [[0x31]] = false
    ∧ dbListed 1 [[0x30, 0x31]] = false := by decide
-- path_agrees has both outcomes on every path
example : let cfg : Cfg := { keyBlack := [[0x61]], dbWhite := [[0x30]] }
    restoreDecision cfg 0 [0x62] = false ∧ restoreDecision cfg 0 [0x61, 0x62] = true ∧ restoreDecision cfg 1 [0x62] = true
    ∧ rumpDecision cfg 0 [0x62] = false
    ∧ incrPathDecision cfg 0 [0x73, 0x65, 0x74] .single [[0x62], [0x31]] = .forward
    ∧ incrPathDecision cfg 0 [0x53, 0x45, 0x54] .single [[0x61], [0x31]] = .drop := by decide
-- the checkpoint exception: no key filter ⇒ rump copies a checkpoint key, full sync does not
example : rumpDecision {} 0 Generated.checkpointKey = false ∧ restoreDecision {} 0 Generated.checkpointKey = true
    ∧ fullSyncDecision {} (fun _ => 0) 0 (Generated.checkpointKey ++ [0x41]) = true := by decide
-- letter case: `EvAlShA` is a script command; the hypothesis of `lua_iff` is inhabited
example : scriptCmd [0x45, 0x76, 0x41, 0x6c, 0x53, 0x68, 0x41] = true ∧ internalCmd [0x4f, 0x50, 0x69, 0x6e, 0x66, 0x6f] = true := by decide
-- beyond ASCII, Go's EqualFold also accepts U+017F for `s` (harmless superset, outside `isAscii`)
example : filterCommands { lua := true } [0xc5, 0xbf, 0x63, 0x72, 0x69, 0x70, 0x74] = true := by decide

end RSVerif.Properties.C06
