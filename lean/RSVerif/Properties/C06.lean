/- C06: property theorems (stub — not built yet) -/
namespace RSVerif.Properties.C06
end RSVerif.Properties.C06
