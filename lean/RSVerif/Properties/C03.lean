/- C03: property theorems (stub — not built yet) -/
namespace RSVerif.Properties.C03
end RSVerif.Properties.C03
