import RSVerif.Lemmas.Resume
import RSVerif.Lemmas.Routing
import RSVerif.Lemmas.ParseWF
import RSVerif.Drive.C03
/-
C03 — Incremental sync forwards the filtered command stream in order, exactly once.
Property theorems only (helper lemmas live in RSVerif.Lemmas.*). Sender part.
-/
namespace RSVerif.Properties.C03
open RSVerif RSVerif.Sync RSVerif.Sender RSVerif.Spec.IncrSync RSVerif.Spec.MiniRedis
open RSVerif.Lemmas.Sender RSVerif.Lemmas.SenderRedis RSVerif.Lemmas.Resume
open RSVerif.IncrParse RSVerif.Lemmas.IncrParse RSVerif.Lemmas.Routing RSVerif.Lemmas.ParseWF

/-! ### 0. the barrier table of the source is the one the model was written against -/

theorem barrier_table :
    barrierLookup "select" = some .add ∧ barrierLookup "multi" = some .holdStart ∧
    barrierLookup "exec" = some .holdEnd ∧
    ∀ c, c ≠ "select" → c ≠ "multi" → c ≠ "exec" → barrierLookup c = none :=
  ⟨lookup_select, lookup_multi, lookup_exec, lookup_other⟩

/-- the lookup is case-sensitive: the `SELECT` injected for `target.db` is not a barrier -/
theorem upper_select_no_barrier : barrierLookup "SELECT" = none := by decide

theorem ticker_period : Generated.SyncConsts.tickerPeriodMs = 500 := by decide

/-! ### 1. exactly once, in order, under any batching -/

/-- For every sequence of loop events (arrivals and ticks in any interleaving, any thresholds, resume on or
off): what has been written to the target followed by what is still cached is exactly the received
stream without the source's MULTI/EXEC markers — nothing lost, duplicated or reordered. -/
theorem exactly_once_in_order (cfg : Cfg) (evs : List Ev) (hwf : WF (received evs)) :
    wireData (run cfg S.init evs).2 ++ (run cfg S.init evs).1.cache =
      (received evs).filter (fun it => !marker it) := by
  have := (runG_facts cfg evs S.init inv_init hwf).items
  rw [run_eq, wireData_wireOf]
  simpa [S.init] using this

/-- source-side MULTI/EXEC never reach the target -/
theorem markers_never_sent (cfg : Cfg) (evs : List Ev) (hwf : WF (received evs)) :
    ∀ it ∈ wireData (run cfg S.init evs).2, it.cmd ≠ "multi" ∧ it.cmd ≠ "exec" := by
  intro it hit
  have h : it ∈ (received evs).filter (fun it => !marker it) := by
    rw [← exactly_once_in_order cfg evs hwf]; exact List.mem_append_left _ hit
  have := (List.mem_filter.mp h).2
  simpa [marker] using this

/-- the strict form (what a master emits) implies the hypothesis used above -/
theorem wfStrict_wf (items : List Item) (h : WFstrict items) : WF items := by
  unfold WFstrict at h; unfold WF
  generalize false = t at h ⊢
  induction items generalizing t with
  | nil => rfl
  | cons it l ih =>
    rw [strictFrom] at h; rw [wfFrom]
    by_cases c1 : it.cmd = "multi"
    · simp only [c1, if_true, Bool.and_eq_true] at h ⊢; exact ⟨h.1, ih _ h.2⟩
    · by_cases c2 : it.cmd = "exec"
      · have e : ¬ ("exec" = "multi") := by decide
        simp only [c2, e, if_true, if_false, Bool.and_eq_true] at h ⊢
        exact ih _ h.2
      · by_cases c3 : it.cmd = "select"
        · have e1 : ¬ ("select" = "multi") := by decide
          have e2 : ¬ ("select" = "exec") := by decide
          simp only [c3, e1, e2, if_true, if_false, Bool.and_eq_true] at h ⊢; exact ⟨h.1, ih _ h.2⟩
        · simp only [c1, c2, c3, if_false] at h ⊢; exact ih _ h

private def mk (c : String) (o : Int) : Item := { cmd := c, args := [], off := o, db := 0 }

/-- non-vacuity: a stream with a select, a transaction and a ping is well-formed -/
example : WFstrict [mk "select" 1, mk "set" 2, mk "multi" 3, mk "incr" 4, mk "exec" 5, mk "ping" 6] := by decide

/-- The hypothesis is needed: with a nested MULTI the automaton forwards the second MULTI
(status `holding` caches everything but `exec`). -/
theorem counterexample_nested_multi :
    let evs := [Ev.recv (mk "multi" 1), .recv (mk "multi" 2), .recv (mk "set" 3), .recv (mk "exec" 4)]
    ¬ WF (received evs) ∧
    (wireData (run ⟨false, 10, 1000⟩ S.init evs).2).map (·.cmd) = ["multi", "set"] := by
  decide

/-! ### 2. bounded delay -/

/-- a tick that finds the queue empty leaves nothing cached -/
theorem idle_flush (cfg : Cfg) (s : S) : (step cfg s (.tick true)).1.cache = [] := by
  have hs : ∀ s : S, (sendFunc cfg s).1.cache = [] := by
    intro s
    unfold sendFunc
    cases hl : s.cache.getLast? with
    | none => simpa using hl
    | some last => rfl
  show (stepG cfg s (.tick true)).1.cache = []
  simp only [stepG]
  split
  · rename_i h
    simp only [Bool.true_and, Bool.and_eq_true, Bool.not_eq_true', Bool.not_eq_false'] at h
    simpa using h.2
  · exact hs s

/-- every received command is on the wire no later than the first tick that finds the queue empty:
with the ticker trusted, at most two ticker periods (1 s) after the stream goes idle -/
theorem idle_flush_complete (cfg : Cfg) (evs : List Ev) (hwf : WF (received evs)) :
    (run cfg S.init (evs ++ [.tick true])).1.cache = [] ∧
    wireData (run cfg S.init (evs ++ [.tick true])).2 = (received evs).filter (fun it => !marker it) := by
  have hc : (run cfg S.init (evs ++ [.tick true])).1.cache = [] := by
    rw [run_append]
    have := idle_flush cfg (run cfg S.init evs).1
    simpa [run_eq, runG, step] using this
  refine ⟨hc, ?_⟩
  have hr : received (evs ++ [Ev.tick true]) = received evs := by simp [received_append, received]
  have := exactly_once_in_order cfg (evs ++ [.tick true]) (by rw [hr]; exact hwf)
  rw [hc, hr, List.append_nil] at this
  exact this

/-! ### 3. barriers -/

/-- In every reachable state, a `select`, `multi` or `exec` first flushes everything cached — as one group —
and only then is (for `select`) cached itself: it always starts a new batch. -/
theorem barrier_forces_boundary (cfg : Cfg) (evs : List Ev) (it : Item)
    (hwf : WF (received evs ++ [it])) (hb : it.cmd = "select" ∨ it.cmd = "multi" ∨ it.cmd = "exec") :
    let s := (runG cfg S.init evs).1
    (∀ x ∈ (stepG cfg s (.recv it)).1.cache, x = it) ∧
    (s.cache ≠ [] → ∃ g rest, (stepG cfg s (.recv it)).2 = g :: rest ∧ g.items = s.cache) := by
  intro s
  obtain ⟨hi, hw⟩ := runG_wf_tail cfg evs [it] S.init inv_init hwf
  rw [wfFrom_cons] at hw
  simp only [Bool.and_eq_true] at hw
  exact barrier_step cfg s it ((barrierStatus_spec it.cmd s.bs hw.1).2.2 hb)

/-- consequently a `select` can only be the first command of a group -/
theorem select_only_first (cfg : Cfg) (evs : List Ev) (hwf : WF (received evs)) :
    ∀ g ∈ (runG cfg S.init evs).2, ∀ x ∈ g.items.tail, x.cmd ≠ "select" :=
  (runG_facts cfg evs S.init inv_init hwf).heads


/-! ### 4. the parser: what is forwarded, with which arguments and tag -/

/-- (command, arguments, offset tag) of an item -/
abbrev triple : Item → String × List Bytes × Int := fun it => (it.cmd, it.args, it.off)

/-- For every valid source stream (names lower-cased by `ParseArgs`, no aborting command), every filter
configuration, start database and base offset: the items that are not SELECTs are exactly the commands that
survive the filters (database filter tracked through every SELECT, command filter, sentinel hello, key filter),
each once, in source order, with the arguments the key filter returns and the tag `base + pos`. -/
theorem parser_forwards_survivors (pcfg : PCfg) (hk : SelectNeutral pcfg) (startDb base : Int)
    (cmds : List SrcCmd) (hn : Normalized cmds) (hvalid : (parseFull pcfg startDb base cmds).2 = false) :
    ((parse pcfg startDb base cmds).filter (fun it => !isSel it)).map triple =
      (survivors pcfg false cmds).map (fun c => (c.cmd, (pcfg.keyFilter c.cmd c.args).1, base + c.pos)) := by
  have hst : (startItems startDb base).filter (fun it => !isSel it) = [] := by
    unfold startItems; split <;> simp [isSel]
  have := ploop_survivors pcfg base hk cmds hn PState.init (by simpa [parseFull_eq] using hvalid)
  simpa [parse, parseFull_eq, List.filter_append, hst, triple, PState.init] using this

/-- a filtered command is never put on the queue: every non-SELECT item stems from a survivor -/
theorem filtered_never_sent (pcfg : PCfg) (hk : SelectNeutral pcfg) (startDb base : Int)
    (cmds : List SrcCmd) (hn : Normalized cmds) (hvalid : (parseFull pcfg startDb base cmds).2 = false) :
    ∀ it ∈ parse pcfg startDb base cmds, isSel it = false →
      ∃ c ∈ survivors pcfg false cmds,
        it.cmd = c.cmd ∧ it.args = (pcfg.keyFilter c.cmd c.args).1 ∧ it.off = base + c.pos := by
  intro it hit hns
  have hmem : triple it ∈ ((parse pcfg startDb base cmds).filter (fun it => !isSel it)).map triple :=
    List.mem_map.mpr ⟨it, List.mem_filter.mpr ⟨hit, by simp [hns]⟩, rfl⟩
  rw [parser_forwards_survivors pcfg hk startDb base cmds hn hvalid] at hmem
  obtain ⟨c, hc, heq⟩ := List.mem_map.mp hmem
  simp only [triple, Prod.mk.injEq] at heq
  exact ⟨c, hc, heq.1.symm, heq.2.1.symm, heq.2.2.symm⟩

/-- a surviving command is always put on the queue -/
theorem passing_always_sent (pcfg : PCfg) (hk : SelectNeutral pcfg) (startDb base : Int)
    (cmds : List SrcCmd) (hn : Normalized cmds) (hvalid : (parseFull pcfg startDb base cmds).2 = false) :
    ∀ c ∈ survivors pcfg false cmds, ∃ it ∈ parse pcfg startDb base cmds,
      isSel it = false ∧ it.cmd = c.cmd ∧ it.args = (pcfg.keyFilter c.cmd c.args).1 ∧ it.off = base + c.pos := by
  intro c hc
  have hmem : (c.cmd, (pcfg.keyFilter c.cmd c.args).1, base + c.pos) ∈
      (survivors pcfg false cmds).map (fun c => (c.cmd, (pcfg.keyFilter c.cmd c.args).1, base + c.pos)) :=
    List.mem_map.mpr ⟨c, hc, rfl⟩
  rw [← parser_forwards_survivors pcfg hk startDb base cmds hn hvalid] at hmem
  obtain ⟨it, hit, heq⟩ := List.mem_map.mp hmem
  obtain ⟨h1, h2⟩ := List.mem_filter.mp hit
  simp only [triple, Prod.mk.injEq] at heq
  exact ⟨it, h1, by simpa using h2, heq.1, heq.2.1, heq.2.2⟩

/-- without a key filter the forwarded arguments are the source's, byte for byte -/
theorem args_identical (pcfg : PCfg) (hkf : pcfg.keyFilter = fun _ a => (a, false)) (startDb base : Int)
    (cmds : List SrcCmd) (hn : Normalized cmds) (hvalid : (parseFull pcfg startDb base cmds).2 = false) :
    ((parse pcfg startDb base cmds).filter (fun it => !isSel it)).map (fun it => (it.cmd, it.args)) =
      (survivors pcfg false cmds).map (fun c => (c.cmd, c.args)) := by
  have hk : SelectNeutral pcfg := by intro a; rw [hkf]
  have := congrArg (List.map (fun (t : String × List Bytes × Int) => (t.1, t.2.1)))
    (parser_forwards_survivors pcfg hk startDb base cmds hn hvalid)
  simpa [triple, hkf, List.map_map, Function.comp_def] using this

/-- and the sender forwards an item's command and arguments untouched -/
theorem wire_args_identical (rc : RenderCfg) (l : List Item) :
    renderWire rc (l.map Wire.fwd) = l.map (fun it => (it.cmd, it.args)) := renderWire_fwd rc l

/-! ### 5. database routing, end to end: parser → sender (any batching) → MiniRedis -/

section
variable {D : Type} (apply : Int → Cmd → D → D) (rc : RenderCfg)

/-- the common part: a flushed run executes, plainly and in order, the non-marker items of the parser -/
theorem pipeline_core (scfg : Cfg) (pcfg : PCfg) (startDb base : Int) (cmds : List SrcCmd) (evs : List Ev)
    (hrecv : received evs = parse pcfg startDb base cmds) (hwf : WF (received evs))
    (hpl : ∀ it ∈ nonMarkers (received evs), plainItem rc.ckName it = true)
    (hflush : (run scfg S.init evs).1.cache = []) (s0 : St D) (hq : s0.q = none) (hdb : s0.db = 0) :
    (replay rc.ckName apply s0 (renderWire rc (run scfg S.init evs).2)).data =
      (runItems apply rc.ckName (s0.data, startDb) (ploop pcfg base PState.init cmds).1).1 := by
  have h := (flushed_run_core apply rc scfg evs hwf s0 hq hpl hflush).1
  have hc : core s0 = (s0.data, 0) := by simp [core, hdb]
  rw [hrecv, hc] at h
  have : (replay rc.ckName apply s0 (renderWire rc (run scfg S.init evs).2)).data =
      (runItems apply rc.ckName (s0.data, 0) (parse pcfg startDb base cmds)).1 := by
    have := congrArg Prod.fst h; simpa [core, runItems] using this
  rw [this, parse, parseFull_eq, runItems_append, run_startItems]

/-- **db_routing** (no `target.db`): for every valid source stream, filter configuration, start database,
thresholds and interleaving of arrivals and ticks that ends flushed, the dataset of the target is the one
obtained by running every surviving data command once, in source order, in the database that was selected on the
source when it was issued. -/
theorem db_routing (scfg : Cfg) (pcfg : PCfg) (htdb : pcfg.targetDB = -1) (hk : SelectNeutral pcfg)
    (startDb base : Int) (cmds : List SrcCmd) (hn : Normalized cmds)
    (hvalid : (parseFull pcfg startDb base cmds).2 = false) (evs : List Ev)
    (hrecv : received evs = parse pcfg startDb base cmds) (hwf : WF (received evs))
    (hpl : ∀ it ∈ nonMarkers (received evs), plainItem rc.ckName it = true)
    (hflush : (run scfg S.init evs).1.cache = []) (s0 : St D) (hq : s0.q = none) (hdb : s0.db = 0) :
    (replay rc.ckName apply s0 (renderWire rc (run scfg S.init evs).2)).data =
      (intended pcfg startDb false cmds).foldl (execIn rc.ckName apply) s0.data := by
  rw [pipeline_core apply rc scfg pcfg startDb base cmds evs hrecv hwf hpl hflush s0 hq hdb]
  exact route_plain apply rc.ckName pcfg htdb hk base cmds hn PState.init
    (by simpa [parseFull_eq] using hvalid) s0.data startDb startDb (fun _ => rfl)

/-- **db_routing_partial** (`target.db = k`): the same with every surviving data command running in `k`, provided
no command can be forwarded before the connection has reached `k` (`routeSafe`: resumed in `k`, or the stream begins
with a SELECT — and, on the pinned tree, the first non-filtered SELECT does not select `k` itself, deviation D8).
Full statement (false on the pinned tree, see `counterexample_targetdb_equal`; true with the repair, see
`db_routing_fixed`): the same conclusion from `startDb = k ∨ stream begins with a SELECT` alone. -/
theorem db_routing_partial (scfg : Cfg) (pcfg : PCfg) (htdb : pcfg.targetDB ≠ -1) (hk : SelectNeutral pcfg)
    (startDb base : Int) (cmds : List SrcCmd) (hn : Normalized cmds)
    (hvalid : (parseFull pcfg startDb base cmds).2 = false)
    (hsafe : routeSafe pcfg (startDb == pcfg.targetDB) false cmds = true) (evs : List Ev)
    (hrecv : received evs = parse pcfg startDb base cmds) (hwf : WF (received evs))
    (hpl : ∀ it ∈ nonMarkers (received evs), plainItem rc.ckName it = true)
    (hflush : (run scfg S.init evs).1.cache = []) (s0 : St D) (hq : s0.q = none) (hdb : s0.db = 0) :
    (replay rc.ckName apply s0 (renderWire rc (run scfg S.init evs).2)).data =
      (intended pcfg startDb false cmds).foldl (execIn rc.ckName apply) s0.data := by
  rw [pipeline_core apply rc scfg pcfg startDb base cmds evs hrecv hwf hpl hflush s0 hq hdb]
  refine route_target apply rc.ckName pcfg htdb hk base cmds hn PState.init
    (by simpa [parseFull_eq] using hvalid) s0.data startDb startDb (startDb == pcfg.targetDB) hsafe ⟨?_, ?_⟩
  · intro h; simpa using h
  · intro _ h; exact absurd h.symm (by simpa [PState.init] using htdb)

/-- with the repair of D8 (`fixes/C03-targetdb-select.patch`) the side condition reduces to what a master
guarantees: the stream begins with a SELECT, or the run was resumed in `target.db` -/
theorem db_routing_fixed (scfg : Cfg) (pcfg : PCfg) (hfix : pcfg.d8fix = true) (htdb : pcfg.targetDB ≠ -1)
    (hk : SelectNeutral pcfg) (startDb base : Int) (cmds : List SrcCmd) (hn : Normalized cmds)
    (hvalid : (parseFull pcfg startDb base cmds).2 = false)
    (hstart : startDb = pcfg.targetDB ∨ ∃ c cs, cmds = c :: cs ∧ c.cmd = "select") (evs : List Ev)
    (hrecv : received evs = parse pcfg startDb base cmds) (hwf : WF (received evs))
    (hpl : ∀ it ∈ nonMarkers (received evs), plainItem rc.ckName it = true)
    (hflush : (run scfg S.init evs).1.cache = []) (s0 : St D) (hq : s0.q = none) (hdb : s0.db = 0) :
    (replay rc.ckName apply s0 (renderWire rc (run scfg S.init evs).2)).data =
      (intended pcfg startDb false cmds).foldl (execIn rc.ckName apply) s0.data := by
  refine db_routing_partial apply rc scfg pcfg htdb hk startDb base cmds hn hvalid ?_ evs hrecv hwf hpl hflush s0 hq hdb
  rcases hstart with h | ⟨c, cs, hc, hs⟩
  · exact routeSafe_fixed pcfg hfix cmds _ false (Or.inl (by simpa using h))
  · rw [hc]; exact routeSafe_fixed_leading_select pcfg hfix c cs hs _

end

/-- **C03, end to end at the wire.** For every valid source stream, filter configuration, start database, thresholds
and interleaving of arrivals and ticks that ends flushed: the commands written to the target other than SELECTs and
the tool's own `multi/hset/exec` are exactly the source commands that survive the filters minus the source's MULTI/EXEC
markers — each once, in source order, with the key filter's arguments (the source's own when no key filter is
configured, `args_identical`) and the tag `base + pos`. -/
theorem end_to_end_exactly_once (scfg : Cfg) (pcfg : PCfg) (hk : SelectNeutral pcfg) (startDb base : Int)
    (cmds : List SrcCmd) (hn : Normalized cmds) (hvalid : (parseFull pcfg startDb base cmds).2 = false)
    (evs : List Ev) (hrecv : received evs = parse pcfg startDb base cmds) (hwf : WF (received evs))
    (hflush : (run scfg S.init evs).1.cache = []) :
    ((wireData (run scfg S.init evs).2).filter (fun it => !isSel it)).map triple =
      ((survivors pcfg false cmds).filter (fun c => !(c.cmd == "multi" || c.cmd == "exec"))).map
        (fun c => (c.cmd, (pcfg.keyFilter c.cmd c.args).1, base + c.pos)) := by
  have h1 := exactly_once_in_order scfg evs hwf
  rw [hflush, List.append_nil, hrecv] at h1
  have h2 := parser_forwards_survivors pcfg hk startDb base cmds hn hvalid
  rw [h1, List.filter_filter]
  have hcomm : (parse pcfg startDb base cmds).filter (fun it => (!isSel it) && !marker it) =
      ((parse pcfg startDb base cmds).filter (fun it => !isSel it)).filter (fun it => !marker it) := by
    rw [List.filter_filter]; congr 1; funext x; exact Bool.and_comm _ _
  rw [hcomm]
  have hmf : ∀ l : List Item, (l.filter (fun it => !marker it)).map triple =
      (l.map triple).filter (fun t => !(t.1 == "multi" || t.1 == "exec")) := by
    intro l; rw [List.filter_map]; rfl
  rw [hmf, h2, List.filter_map]
  rfl

/-! ### 5b. the hypotheses on the parser's output follow from the source stream -/

/-- a well-formed source stream (no MULTI and no SELECT inside a transaction) yields a well-formed item stream,
whatever the filters drop: a transaction is forwarded or dropped as a whole, because the database filter can only
change at a SELECT -/
theorem parser_output_wf (pcfg : PCfg) (hk : SelectNeutral pcfg) (hm : MarkerNeutral pcfg) (startDb base : Int)
    (cmds : List SrcCmd) (hn : Normalized cmds) (hvalid : (parseFull pcfg startDb base cmds).2 = false)
    (hsrc : srcWfFrom false cmds = true) : WF (parse pcfg startDb base cmds) := by
  have h := ploop_wf pcfg base hk hm cmds hn PState.init (by simpa [parseFull_eq] using hvalid) false hsrc
  simp only [Bool.false_and] at h
  unfold WF
  rw [parse, parseFull_eq]
  unfold startItems
  split
  · simp only [List.cons_append, List.nil_append, wfFrom_cons, okIn, nextTx]
    simpa using h
  · simpa using h

/-- … and every non-marker item is read by the target as SELECT, PING or a data command, unless the source itself
writes the checkpoint hash -/
theorem parser_output_plain (ck : Bytes) (pcfg : PCfg) (hk : SelectNeutral pcfg) (startDb base : Int)
    (cmds : List SrcCmd) (hn : Normalized cmds) (hvalid : (parseFull pcfg startDb base cmds).2 = false)
    (hnock : ∀ c ∈ survivors pcfg false cmds, ∀ f v,
      classify ck (c.cmd, (pcfg.keyFilter c.cmd c.args).1) ≠ .ckpt f v) :
    ∀ it ∈ nonMarkers (parse pcfg startDb base cmds), plainItem ck it = true :=
  parse_plain ck pcfg hk startDb base cmds hn hvalid hnock

/-- **C03 from hypotheses on the source stream only** (no `target.db`): for every valid, well-formed source stream
that does not itself write the checkpoint hash, every filter configuration, start database, base offset, resume
on/off, thresholds and every interleaving of arrivals and ticks that ends flushed (by `idle_flush_complete`: no later
than the first tick on an empty queue), the target has executed exactly the surviving data commands — each once, in
source order, with the key filter's arguments, each in the database selected on the source when it was issued. -/
theorem c03_main {D : Type} (apply : Int → Cmd → D → D) (rc : RenderCfg)
    (scfg : Cfg) (pcfg : PCfg) (htdb : pcfg.targetDB = -1) (hk : SelectNeutral pcfg) (hm : MarkerNeutral pcfg)
    (startDb base : Int) (cmds : List SrcCmd) (hn : Normalized cmds)
    (hvalid : (parseFull pcfg startDb base cmds).2 = false) (hsrc : srcWfFrom false cmds = true)
    (hnock : ∀ c ∈ survivors pcfg false cmds, ∀ f v,
      classify rc.ckName (c.cmd, (pcfg.keyFilter c.cmd c.args).1) ≠ .ckpt f v)
    (evs : List Ev) (hrecv : received evs = parse pcfg startDb base cmds)
    (hflush : (run scfg S.init evs).1.cache = []) (s0 : St D) (hq : s0.q = none) (hdb : s0.db = 0) :
    (replay rc.ckName apply s0 (renderWire rc (run scfg S.init evs).2)).data =
      (intended pcfg startDb false cmds).foldl (execIn rc.ckName apply) s0.data := by
  have hwf : WF (received evs) := by
    rw [hrecv]; exact parser_output_wf pcfg hk hm startDb base cmds hn hvalid hsrc
  have hpl : ∀ it ∈ nonMarkers (received evs), plainItem rc.ckName it = true := by
    rw [hrecv]; exact parser_output_plain rc.ckName pcfg hk startDb base cmds hn hvalid hnock
  exact db_routing apply rc scfg pcfg htdb hk startDb base cmds hn hvalid evs hrecv hwf hpl hflush s0 hq hdb

private def demoCfg : PCfg :=
  { targetDB := -1, filterDB := fun n => n == 5, filterCmd := fun c => c == "opinfo",
    keyFilter := fun _ a => (a, false), d8fix := false }

private def demoStream : List SrcCmd :=
  [{ cmd := "select", args := [[49]], pos := 23 }, { cmd := "set", args := [[107], [118]], pos := 54 },
   { cmd := "multi", args := [], pos := 69 }, { cmd := "incr", args := [[107]], pos := 91 },
   { cmd := "exec", args := [], pos := 105 }, { cmd := "select", args := [[53]], pos := 128 },
   { cmd := "set", args := [[120], [121]], pos := 159 }, { cmd := "ping", args := [], pos := 173 },
   { cmd := "select", args := [[50]], pos := 196 }, { cmd := "opinfo", args := [[120]], pos := 220 },
   { cmd := "ping", args := [], pos := 234 }]

/-- non-vacuity of the hypotheses of `c03_main`: two selected databases, a filtered one, a transaction, a filtered
command, pings; five commands survive (two of them the MULTI/EXEC markers) -/
example : SelectNeutral demoCfg ∧ MarkerNeutral demoCfg ∧ Normalized demoStream ∧
    (parseFull demoCfg 0 1000 demoStream).2 = false ∧ srcWfFrom false demoStream = true ∧
    (intended demoCfg 0 false demoStream).map (·.1) = [1, 1, 2] ∧
    (survivors demoCfg false demoStream).length = 5 :=
  ⟨fun _ => rfl, ⟨rfl, rfl, fun _ => rfl, fun _ => rfl⟩, by unfold Normalized; decide, by decide, by decide,
    by decide, by decide⟩

/-! ### 6. deviation D8 on the pinned tree -/

private def d8cfg (fixed : Bool) : PCfg :=
  { targetDB := 1, filterDB := fun _ => false, filterCmd := fun _ => false,
    keyFilter := fun _ a => (a, false), d8fix := fixed }

private def d8stream : List SrcCmd :=
  [{ cmd := "select", args := [[49]], pos := 23 }, { cmd := "set", args := [[107], [118]], pos := 54 }]

private def d8rc : RenderCfg := { ckName := Generated.SyncConsts.checkpointKeyBytes, source := [115], runId := [114] }

/-- the dataset (log instance) after the canonical run of the pipeline on `d8stream` -/
private def d8log (fixed : Bool) : Log :=
  let items := parse (d8cfg fixed) 0 0 d8stream
  (replay d8rc.ckName logApply Drive.C03.st0
    (renderWire d8rc (run ⟨false, 10, 1000⟩ S.init (items.map Ev.recv ++ [.tick true])).2)).data

/-- **D8.** `target.db = 1`, the source stream is `select 1; set k v`: the pinned parser forwards `set` without any
SELECT, so it runs in database 0 although it is intended for database 1 — `routeSafe` is exactly what fails; with
the repair a `SELECT 1` is injected and the command runs in database 1. -/
theorem counterexample_targetdb_equal :
    routeSafe (d8cfg false) false false d8stream = false ∧
    (parse (d8cfg false) 0 0 d8stream).map (·.cmd) = ["set"] ∧
    d8log false = [(0, ("set", [[107], [118]]))] ∧
    intended (d8cfg false) 0 false d8stream = [(1, ("set", [[107], [118]]))] ∧
    (parse (d8cfg true) 0 0 d8stream).map (·.cmd) = ["SELECT", "set"] ∧
    d8log true = [(1, ("set", [[107], [118]]))] := by
  decide

/-! ### 7. the verdict of the trace check is sound -/

/-- A recorded trace accepted by the driver (`Drive.C03.accepts`) is a run of the automaton: there is an event
sequence receiving exactly these items, producing exactly the recorded groups and ending with an empty cache —
so every theorem above applies to it. -/
theorem accepts_sound (cfg : Cfg) (rc : RenderCfg) (items : List Item) (tr : List (List Cmd))
    (h : Drive.C03.accepts cfg rc items tr = true) :
    ∃ evs, received evs = items ∧ Drive.C03.renderGroups rc (runG cfg S.init evs).2 = tr ∧
      (runG cfg S.init evs).1.cache = [] := by
  unfold Drive.C03.accepts at h
  simp only [Bool.and_eq_true, beq_iff_eq, List.isEmpty_iff] at h
  exact ⟨_, h.1.1, h.1.2, h.2⟩

end RSVerif.Properties.C03
