/- C10: property theorems (stub — not built yet) -/
namespace RSVerif.Properties.C10
end RSVerif.Properties.C10
