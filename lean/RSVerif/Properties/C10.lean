import RSVerif.Model.Resp
import RSVerif.Lemmas.Resp
import RSVerif.Properties.C10Models
/-
C10 — RESP codec round-trips, rejects malformed input and counts bytes exactly.
Property theorems only (helper lemmas live in RSVerif.Lemmas.Resp).

Model: RSVerif.Resp (`decode` = the decoder with fixes/C10-inline-offset.patch applied, `decodePinned` = the pinned
tree, deviation D13).  Specification: RSVerif.Spec.Resp (`enc`, `WF`, `fmtInt`).
All statements are over ALL inputs: value trees of any depth and size, any number of keep-alive newlines, any
following bytes, any starting offset; `offset_exact` is over every byte string, not only encoder images.
-/
namespace RSVerif.Properties.C10
open RSVerif RSVerif.Spec.Resp RSVerif.Resp RSVerif.Lemmas.Resp

/-! ### 0. Facts regenerated from the source on every run -/

/-- `imap[n] = Itoa(n - 1024)` is looked up at `i + 1024`: the two offsets cancel; the table is not empty. -/
theorem imap_bounds :
    Generated.C10.imapFillOff + Generated.C10.imapLookupOff = 0 ∧ 0 ≤ Generated.C10.imapLookupOff ∧
    Generated.C10.imapLookupOff ≤ 9223372036854775807 ∧ 0 < Generated.C10.imapLen := by decide

/-- the five type bytes of resp.go are the RESP ones the specification uses -/
theorem type_bytes :
    Generated.C10.respTypeString = 43 ∧ Generated.C10.respTypeError = 45 ∧ Generated.C10.respTypeInt = 58 ∧
    Generated.C10.respTypeBulkBytes = 36 ∧ Generated.C10.respTypeArray = 42 := by decide

/-- `itos` (pre-rendered table inside its bounds, `strconv.FormatInt` outside) is the decimal rendering,
for every 64-bit integer -/
theorem itos_spec (i : Int) (h : isInt64 i) : itos i = fmtInt i :=
  itos_eq_fmtInt i h imap_bounds.1 ⟨imap_bounds.2.1, imap_bounds.2.2.1⟩

/-- the encoder emits exactly the specified wire format -/
theorem encode_spec (v : Resp) (h : WF v = true) : encodeResp v = enc v :=
  encodeResp_eq itos_spec v h

/-! ### 1. The nesting budget of the model never matters -/

theorem decode_ne_fuel (inp : Bytes) (off : Nat) : decode inp off ≠ .error .fuel :=
  decodeRespG_ne_fuel true _ 0 inp off (by omega)

theorem decodePinned_ne_fuel (inp : Bytes) (off : Nat) : decodePinned inp off ≠ .error .fuel :=
  decodeRespG_ne_fuel false _ 0 inp off (by omega)

/-- any larger budget gives the same result (the Go recursion has none) -/
theorem decode_fuel_irrelevant (inp : Bytes) (off k : Nat) :
    decodeRespG true (inp.length + 1 + k) 0 inp off = decode inp off :=
  decodeRespG_fuel_irrelevant true 0 inp off k

/-- the stream loop of the model (one unit of budget per value) never runs out of budget either -/
theorem decodeStream_ne_fuel (fx : Bool) : ∀ (n : Nat) (inp : Bytes) (off : Nat), inp.length < n →
    (decodeStream fx n inp off).2 ≠ .fuel
  | 0, _, _, h => by omega
  | n + 1, inp, off, h => by
    unfold decodeStream
    split
    · rename_i e he
      intro hc
      simp at hc
      subst hc
      exact decodeRespG_ne_fuel fx _ 0 inp off (by omega) he
    · rename_i v rest off' hd
      obtain ⟨pre, e1, e2, _⟩ := decodeRespG_consumes fx _ _ _ _ _ _ _ hd
      have : 0 < pre.length := List.length_pos_iff.mpr e2
      have hl : rest.length < n := by rw [e1] at h; simp at h; omega
      exact decodeStream_ne_fuel fx n rest off' hl

/-! ### 2. Round trip -/

/-- Decoding `\n^k ++ enc v ++ rest` gives `v`, leaves `rest`, and advances the offset by `k + |enc v|`. -/
theorem roundtrip (v : Resp) (hwf : WF v = true) (k : Nat) (rest : Bytes) (off : Nat) :
    decode (List.replicate k 10 ++ enc v ++ rest) off = .ok (v, rest, off + k + (enc v).length) := by
  unfold decode
  apply roundtripG true v hwf
  have := depth_le v
  simp; omega

/-- the same through the encoder model (table-driven `itos`) -/
theorem roundtrip_encoder (v : Resp) (hwf : WF v = true) (k : Nat) (rest : Bytes) (off : Nat) :
    decode (List.replicate k 10 ++ encodeResp v ++ rest) off = .ok (v, rest, off + k + (encodeResp v).length) := by
  rw [encode_spec v hwf]; exact roundtrip v hwf k rest off

/-- RESP values round-trip through the pinned decoder too (D13 only concerns inline commands) -/
theorem roundtrip_pinned (v : Resp) (hwf : WF v = true) (k : Nat) (rest : Bytes) (off : Nat) :
    decodePinned (List.replicate k 10 ++ enc v ++ rest) off = .ok (v, rest, off + k + (enc v).length) := by
  unfold decodePinned
  apply roundtripG false v hwf
  have := depth_le v
  simp; omega

/-- a whole array body: `n` values one after the other (what `decodeArray` loops over), at any depth -/
theorem roundtrip_seq (l : List Resp) (hwf : WFL l = true) (d : Nat) (rest : Bytes) (off : Nat) :
    decodeSeq (decodeRespG true (depthL l) d) l.length (encL l ++ rest) off = .ok (l, rest, off + (encL l).length) :=
  roundtripL true l hwf _ d rest off (Nat.le_refl _)

/-- A whole stream of well-formed values with interleaved keep-alive newlines (and trailing ones) decodes to exactly
these values, with exact offsets after each, and ends with EOF. -/
theorem roundtrip_stream : ∀ (items : List (Nat × Resp)), (∀ x ∈ items, WF x.2 = true) →
    ∀ (k off n : Nat), items.length < n →
    decodeStream true n (wire items ++ List.replicate k 10) off = (observed items off k, .eof)
  | [], _, k, off, n, hn => by
    obtain ⟨n', rfl⟩ : ∃ n', n = n' + 1 := ⟨n - 1, by simp at hn; omega⟩
    simp only [wire, List.nil_append, decodeStream, observed]
    rw [decodeRespG, decodeBody, decodeType_eof]
  | (j, v) :: xs, hwf, k, off, n, hn => by
    obtain ⟨n', rfl⟩ : ∃ n', n = n' + 1 := ⟨n - 1, by simp at hn; omega⟩
    have hv : WF v = true := hwf (j, v) (by simp)
    have hxs : ∀ x ∈ xs, WF x.2 = true := fun x hx => hwf x (by simp [hx])
    have e : wire ((j, v) :: xs) ++ List.replicate k 10 = List.replicate j 10 ++ enc v ++ (wire xs ++ List.replicate k 10) := by
      simp [wire]
    have h1 := roundtrip v hv j (wire xs ++ List.replicate k 10) off
    unfold decode at h1
    have ih := roundtrip_stream xs hxs k (off + j + (enc v).length) n' (by simp at hn; omega)
    rw [e]
    simp only [decodeStream, h1, ih, observed]
    simp

/-- the wire format is injective on well-formed values … -/
theorem enc_injective (v w : Resp) (hv : WF v = true) (hw : WF w = true) (h : enc v = enc w) : v = w := by
  have h1 := roundtrip v hv 0 [] 0
  have h2 := roundtrip w hw 0 [] 0
  rw [h] at h1
  rw [h1] at h2
  simp at h2
  exact h2

/-- … in particular nil and empty are told apart, for bulk strings and for arrays -/
theorem nil_ne_empty :
    decode (enc (.bulk none)) 0 = .ok (.bulk none, [], 5) ∧
    decode (enc (.bulk (some []))) 0 = .ok (.bulk (some []), [], 6) ∧
    decode (enc (.arr none)) 0 = .ok (.arr none, [], 5) ∧
    decode (enc (.arr (some []))) 0 = .ok (.arr (some []), [], 4) := by
  have e : ∀ v : Resp, enc v = List.replicate 0 10 ++ enc v ++ [] := by simp
  refine ⟨?_, ?_, ?_, ?_⟩
  · rw [e, roundtrip _ (by decide)]; rfl
  · rw [e, roundtrip _ (by decide)]; rfl
  · rw [e, roundtrip _ (by decide)]; rfl
  · rw [e, roundtrip _ (by decide)]; rfl

/-- all 64-bit integers, incl. both ends -/
example : decode (enc (.int (-9223372036854775808)) ++ enc (.int 9223372036854775807)) 7
    = .ok (.int (-9223372036854775808), enc (.int 9223372036854775807), 7 + 0 + (enc (.int (-9223372036854775808))).length) :=
  roundtrip (.int (-9223372036854775808)) (by decide) 0 _ 7

/-- non-vacuity: a nested value with binary payloads (CR, LF, type bytes inside a bulk), nil and empty -/
example : WF (.arr (some [.bulk (some [13, 10, 36, 42, 0, 255]), .arr (some [.int (-1024), .arr none, .bulk none]),
    .str [97, 13, 98], .err [], .arr (some [])])) = true := by decide

/-! ### 3. The offset is exactly the number of bytes consumed -/

/-- For EVERY input on which the (repaired) decoder succeeds: what it consumed is a non-empty prefix of the stream,
the rest is untouched, and the offset advanced by exactly the length of that prefix. -/
theorem offset_exact (inp : Bytes) (off : Nat) (v : Resp) (rest : Bytes) (off' : Nat)
    (h : decode inp off = .ok (v, rest, off')) :
    ∃ pre, inp = pre ++ rest ∧ pre ≠ [] ∧ off' = off + pre.length := by
  obtain ⟨pre, h1, h2, h3⟩ := decodeRespG_consumes true _ _ _ _ _ _ _ h
  exact ⟨pre, h1, h2, by simpa using h3⟩

/-- the same as a number: offset advance = bytes taken from the stream -/
theorem offset_exact_len (inp : Bytes) (off : Nat) (v : Resp) (rest : Bytes) (off' : Nat)
    (h : decode inp off = .ok (v, rest, off')) : off' - off = inp.length - rest.length ∧ rest.length < inp.length := by
  obtain ⟨pre, h1, h2, h3⟩ := offset_exact inp off v rest off' h
  have : 0 < pre.length := List.length_pos_iff.mpr h2
  subst h1; simp; omega

/-- at every nesting depth and for every budget (array elements) -/
theorem offset_exact_nested (f d : Nat) (inp : Bytes) (off : Nat) (v : Resp) (rest : Bytes) (off' : Nat)
    (h : decodeRespG true f d inp off = .ok (v, rest, off')) :
    ∃ pre, inp = pre ++ rest ∧ pre ≠ [] ∧ off' = off + pre.length := by
  obtain ⟨pre, h1, h2, h3⟩ := decodeRespG_consumes true _ _ _ _ _ _ _ h
  exact ⟨pre, h1, h2, by simpa using h3⟩

/-- along a whole stream: after every value, offset + bytes still unread = starting offset + stream length
(keep-alive newlines and inline commands included) -/
theorem offset_exact_stream (n : Nat) (inp : Bytes) (off : Nat) :
    ∀ x ∈ (decodeStream true n inp off).1, x.2.1 + x.2.2 = off + inp.length :=
  decodeStream_offsets n inp off

/-- The pinned decoder (D13): the offset runs ahead by one exactly when the value is an inline command line. -/
theorem offset_pinned (inp : Bytes) (off : Nat) (v : Resp) (rest : Bytes) (off' : Nat)
    (h : decodePinned inp off = .ok (v, rest, off')) :
    ∃ pre, inp = pre ++ rest ∧ pre ≠ [] ∧ off' = off + pre.length + (if startsInline inp then 1 else 0) := by
  obtain ⟨pre, h1, h2, h3⟩ := decodeRespG_consumes false _ _ _ _ _ _ _ h
  exact ⟨pre, h1, h2, by simpa using h3⟩

/-- what is true of the pinned tree: exact for every value that starts with a RESP type byte -/
theorem offset_exact_pinned_partial (inp : Bytes) (off : Nat) (v : Resp) (rest : Bytes) (off' : Nat)
    (h : decodePinned inp off = .ok (v, rest, off')) (hr : startsInline inp = false) :
    ∃ pre, inp = pre ++ rest ∧ pre ≠ [] ∧ off' = off + pre.length := by
  obtain ⟨pre, h1, h2, h3⟩ := offset_pinned inp off v rest off' h
  exact ⟨pre, h1, h2, by simpa [hr] using h3⟩

/-- D13, kernel-checked: `PING\r\n` is 6 bytes; the pinned decoder reports offset 7, the repaired one 6. -/
theorem counterexample_inline :
    decodePinned [80, 73, 78, 71, 13, 10] 0 = .ok (.arr (some [.bulk (some [80, 73, 78, 71])]), [], 7) ∧
    decode [80, 73, 78, 71, 13, 10] 0 = .ok (.arr (some [.bulk (some [80, 73, 78, 71])]), [], 6) := by
  constructor <;> rfl

/-- inline commands: split at single spaces, empty pieces dropped, every piece a bulk string; offset exact -/
example : decode ([10, 10] ++ [83, 69, 84, 32, 97, 32, 32, 98, 32, 13, 10] ++ [58, 49, 13, 10]) 100
    = .ok (.arr (some [.bulk (some [83, 69, 84]), .bulk (some [97]), .bulk (some [98])]), [58, 49, 13, 10], 113) := by rfl

/-- an empty inline line yields a nil array (which `ParseArgs` rejects) -/
example : decode [13, 10] 0 = .ok (.arr none, [], 2) ∧ parseArgs (.arr none) = .error .emptyArray := by
  constructor <;> rfl

/-! ### 4. Malformed input yields an error, never a value -/

theorem isTypeByte_ne_lf {t : UInt8} (ht : isTypeByte t = true) : t ≠ 10 := by
  intro h; subst h; simp [isTypeByte] at ht

/-- Missing CR before the LF that ends a simple string, an error, an integer, a bulk length or an array length:
rejected at any depth, after any number of keep-alive newlines. (`s` is the text of the line, LF-free, and does
not end in CR.) -/
theorem reject_missing_cr (fx : Bool) (f d k : Nat) (t : UInt8) (ht : isTypeByte t = true) (s rest : Bytes) (off : Nat)
    (hs : (10 : UInt8) ∉ s) (hcr : ¬ ∃ b, s = b ++ [13]) :
    decodeRespG fx (f + 1) d (List.replicate k 10 ++ t :: (s ++ 10 :: rest)) off = .error .crlf := by
  rw [decodeRespG, decodeBody_type _ _ _ _ _ (isTypeByte_ne_lf ht)]
  simp [isTypeByte] at ht
  rcases ht with ((((h | h) | h) | h) | h) <;> subst h <;>
    simp [decodeText_crlf _ _ _ hs hcr, decodeInt_crlf _ _ _ hs hcr, decodeBulkBytes]

theorem reject_missing_cr_top (k : Nat) (t : UInt8) (ht : isTypeByte t = true) (s rest : Bytes) (off : Nat)
    (hs : (10 : UInt8) ∉ s) (hcr : ¬ ∃ b, s = b ++ [13]) :
    decode (List.replicate k 10 ++ t :: (s ++ 10 :: rest)) off = .error .crlf :=
  reject_missing_cr true _ 0 k t ht s rest off hs hcr

example : decode [43, 79, 75, 10] 0 = .error .crlf := by rfl                       -- "+OK\n"
example : decode [36, 49, 10, 97, 13, 10] 0 = .error .crlf := by rfl               -- "$1\na\r\n"

/-- the two bytes after a bulk payload must be CR LF -/
theorem reject_bulk_terminator (fx : Bool) (f d k : Nat) (b : Bytes) (x y : UInt8) (rest : Bytes) (off : Nat)
    (hb : b.length ≤ maxLen) (hxy : ¬ (x = 13 ∧ y = 10)) :
    decodeRespG fx (f + 1) d (List.replicate k 10 ++ 36 :: (fmtInt b.length ++ crlf ++ (b ++ x :: y :: rest))) off
      = .error .crlf := by
  rw [decodeRespG, decodeBody_type _ _ _ _ _ (by decide)]
  unfold maxLen at hb
  have hi : isInt64 (b.length : Int) := by unfold isInt64; omega
  have h1 : ¬ ((b.length : Int) < -1) := by omega
  have h2 : ¬ ((b.length : Int) = -1) := by omega
  have h3 : ¬ ((b.length : Int) + 2 > 9223372036854775807) := by omega
  have h4 : ¬ ((b ++ x :: y :: rest).length < b.length + 2) := by simp
  have t : List.take (b.length + 2) (b ++ x :: y :: rest) = b ++ [x, y] := by
    have : b ++ x :: y :: rest = (b ++ [x, y]) ++ rest := by simp
    rw [this]; exact List.take_left' (by simp)
  simp only [show ¬ ((36 : UInt8) = 43) by decide, show ¬ ((36 : UInt8) = 45) by decide,
    show ¬ ((36 : UInt8) = 58) by decide, ↓reduceIte, decodeBulkBytes, decodeInt_ok _ hi, h1, h2, h3, h4,
    Int.toNat_natCast, t]
  have hg : (b ++ [x, y]).getD b.length 0 ≠ 13 ∨ (b ++ [x, y]).getD (b.length + 1) 0 ≠ 10 := by
    simp [List.getD_eq_getElem?_getD]
    by_cases hx : x = 13
    · right; intro hy; exact hxy ⟨hx, hy⟩
    · left; exact hx
  simp only [hg, ↓reduceIte]

/-- a bulk length below −1 is rejected (any accepted integer text, e.g. `-2`, `-00002`, `-9223372036854775808`) -/
theorem reject_bulk_len_below_minus_one (fx : Bool) (f d k : Nat) (s : Bytes) (n : Int) (rest : Bytes) (off : Nat)
    (hp : parseInt s = some n) (hn : n < -1) :
    decodeRespG fx (f + 1) d (List.replicate k 10 ++ 36 :: (s ++ crlf ++ rest)) off = .error .bytesLen := by
  rw [decodeRespG, decodeBody_type _ _ _ _ _ (by decide)]
  simp only [show ¬ ((36 : UInt8) = 43) by decide, show ¬ ((36 : UInt8) = 45) by decide,
    show ¬ ((36 : UInt8) = 58) by decide, ↓reduceIte, decodeBulkBytes,
    decodeInt_ok' s n (parseInt_some_noLF s n hp) hp, hn]

/-- an array length below −1 is rejected -/
theorem reject_array_len_below_minus_one (fx : Bool) (f d k : Nat) (s : Bytes) (n : Int) (rest : Bytes) (off : Nat)
    (hp : parseInt s = some n) (hn : n < -1) :
    decodeRespG fx (f + 1) d (List.replicate k 10 ++ 42 :: (s ++ crlf ++ rest)) off = .error .arrayLen := by
  rw [decodeRespG, decodeBody_type _ _ _ _ _ (by decide)]
  simp only [show ¬ ((42 : UInt8) = 43) by decide, show ¬ ((42 : UInt8) = 45) by decide,
    show ¬ ((42 : UInt8) = 58) by decide, show ¬ ((42 : UInt8) = 36) by decide, ↓reduceIte,
    decodeInt_ok' s n (parseInt_some_noLF s n hp) hp, hn]

/-- instance: every rendered 64-bit integer below −1 -/
theorem reject_len_below_minus_one (i : Int) (hi : isInt64 i) (hn : i < -1) (k : Nat) (rest : Bytes) (off : Nat) :
    decode (List.replicate k 10 ++ 36 :: (fmtInt i ++ crlf ++ rest)) off = .error .bytesLen ∧
    decode (List.replicate k 10 ++ 42 :: (fmtInt i ++ crlf ++ rest)) off = .error .arrayLen :=
  ⟨reject_bulk_len_below_minus_one true _ 0 k _ i rest off (parseInt_fmtInt i hi) hn,
   reject_array_len_below_minus_one true _ 0 k _ i rest off (parseInt_fmtInt i hi) hn⟩

example : decode [36, 45, 50, 13, 10] 0 = .error .bytesLen := by rfl                -- "$-2\r\n"
example : decode [42, 45, 50, 13, 10] 0 = .error .arrayLen := by rfl                -- "*-2\r\n"

/-- a length (or integer) text that is not a 64-bit decimal integer is rejected — for `:`, `$` and `*` -/
theorem reject_non_numeric (fx : Bool) (f d k : Nat) (t : UInt8) (ht : t = 58 ∨ t = 36 ∨ t = 42) (s rest : Bytes)
    (off : Nat) (hs : (10 : UInt8) ∉ s) (hp : parseInt s = none) :
    decodeRespG fx (f + 1) d (List.replicate k 10 ++ t :: (s ++ crlf ++ rest)) off = .error .badInt := by
  rcases ht with h | h | h <;> subst h <;> rw [decodeRespG, decodeBody_type _ _ _ _ _ (by decide)] <;>
    simp only [show ¬ ((58 : UInt8) = 43) by decide, show ¬ ((58 : UInt8) = 45) by decide,
      show ¬ ((36 : UInt8) = 43) by decide, show ¬ ((36 : UInt8) = 45) by decide, show ¬ ((36 : UInt8) = 58) by decide,
      show ¬ ((42 : UInt8) = 43) by decide, show ¬ ((42 : UInt8) = 45) by decide,
      show ¬ ((42 : UInt8) = 58) by decide, show ¬ ((42 : UInt8) = 36) by decide, ↓reduceIte,
      decodeBulkBytes, decodeInt_badInt s rest _ hs hp]

/-- which texts are "non-numeric": anything but an optional sign followed by one or more digits … -/
theorem non_numeric_of_bad_byte (s : Bytes) (b : UInt8) (hb : b ∈ s) (hd : isDigit b = false) (h1 : b ≠ 43) (h2 : b ≠ 45) :
    parseInt s = none := by
  cases hp : parseInt s with
  | none => rfl
  | some n =>
    obtain ⟨c, t, e, hc, ht, _⟩ := parseInt_some_shape s n hp
    subst e
    simp at hb
    rcases hb with hb | hb
    · subst hb; rcases hc with hc | hc | hc
      · rw [hc] at hd; cases hd
      · exact absurd hc h1
      · exact absurd hc h2
    · rw [ht b hb] at hd; cases hd

/-- … a sign anywhere but in front, the empty text and a bare sign included -/
theorem non_numeric_of_inner_sign (c : UInt8) (t : Bytes) (b : UInt8) (hb : b ∈ t) (hd : isDigit b = false) :
    parseInt (c :: t) = none := by
  cases hp : parseInt (c :: t) with
  | none => rfl
  | some n =>
    obtain ⟨c', t', e, _, ht, _⟩ := parseInt_some_shape _ n hp
    simp at e
    obtain ⟨_, rfl⟩ := e
    rw [ht b hb] at hd; cases hd

example : parseInt [] = none ∧ parseInt [45] = none ∧ parseInt [43] = none ∧ parseInt [49, 120] = none ∧
    parseInt [57, 50, 50, 51, 51, 55, 50, 48, 51, 54, 56, 53, 52, 55, 55, 53, 56, 48, 56] = none := by
  refine ⟨?_, ?_, ?_, ?_, ?_⟩ <;> rfl                          -- "", "-", "+", "1x", "9223372036854775808"
example : decode [36, 120, 13, 10] 0 = .error .badInt := by rfl                        -- "$x\r\n"

/-- An unknown type byte inside an array is rejected: after any `pre`fix of well-formed elements, where the array
still expects another element, a byte that is neither LF nor one of `+ - : $ *` — at any depth, also at depth 0
where the same byte would have started an inline command. -/
theorem reject_unknown_type_in_array (fx : Bool) (d k : Nat) (pre : List Resp) (hwf : WFL pre = true) (n : Nat)
    (hn : pre.length < n) (hmax : n ≤ maxLen) (t : UInt8) (ht : t ≠ 10) (htb : isTypeByte t = false) (tail : Bytes)
    (off : Nat) (f : Nat) (hf : depthL pre + 2 ≤ f) :
    decodeRespG fx f d (List.replicate k 10 ++ 42 :: (fmtInt n ++ crlf ++ (encL pre ++ t :: tail))) off
      = .error .badType := by
  obtain ⟨f', rfl⟩ : ∃ f', f = f' + 1 + 1 := ⟨f - 2, by omega⟩
  obtain ⟨m, rfl⟩ : ∃ m, n = pre.length + (m + 1) := ⟨n - pre.length - 1, by omega⟩
  unfold maxLen at hmax
  have hi : isInt64 ((pre.length + (m + 1) : Nat) : Int) := by unfold isInt64; omega
  have h1 : ¬ (((pre.length + (m + 1) : Nat) : Int) < -1) := by omega
  have h2 : ¬ (((pre.length + (m + 1) : Nat) : Int) = -1) := by omega
  rw [decodeRespG, decodeBody_type _ _ _ _ _ (by decide)]
  simp only [show ¬ ((42 : UInt8) = 43) by decide, show ¬ ((42 : UInt8) = 45) by decide,
    show ¬ ((42 : UInt8) = 58) by decide, show ¬ ((42 : UInt8) = 36) by decide, ↓reduceIte,
    decodeInt_ok _ hi, h1, h2, Int.toNat_natCast,
    decodeSeq_badType fx f' d t ht htb tail pre hwf (by omega) m]

theorem reject_unknown_type_in_array_top (k : Nat) (pre : List Resp) (hwf : WFL pre = true) (n : Nat)
    (hn : pre.length < n) (hmax : n ≤ maxLen) (t : UInt8) (ht : t ≠ 10) (htb : isTypeByte t = false) (tail : Bytes)
    (off : Nat) :
    decode (List.replicate k 10 ++ 42 :: (fmtInt n ++ crlf ++ (encL pre ++ t :: tail))) off = .error .badType := by
  unfold decode
  apply reject_unknown_type_in_array true 0 k pre hwf n hn hmax t ht htb tail off
  have := depthL_le pre
  have := fmtInt_ne_nil (n : Int)
  have : 0 < (fmtInt (n : Int)).length := List.length_pos_iff.mpr this
  simp [crlf]; omega

example : decode [42, 49, 13, 10, 80, 73, 78, 71, 13, 10] 0 = .error .badType := by rfl   -- "*1\r\nPING\r\n"

/-- Truncation: every strict prefix of the encoding of a well-formed value (after any keep-alive newlines) is
rejected with EOF — never a value. -/
theorem reject_truncated (v : Resp) (hwf : WF v = true) (p s : Bytes) (hs : s ≠ []) (h : p ++ s = enc v)
    (k : Nat) (off : Nat) : decode (List.replicate k 10 ++ p) off = .error .eof := by
  rcases prefixG true v hwf p s hs h _ 0 k off with h' | h'
  · exact h'
  · exact absurd h' (decode_ne_fuel _ _)

/-- … inside arrays as well (any budget that is large enough, any depth) -/
theorem reject_truncated_nested (fx : Bool) (v : Resp) (hwf : WF v = true) (p s : Bytes) (hs : s ≠ []) (h : p ++ s = enc v)
    (d k : Nat) (off : Nat) :
    decodeRespG fx ((List.replicate k 10 ++ p).length + 1) d (List.replicate k 10 ++ p) off = .error .eof := by
  rcases prefixG fx v hwf p s hs h _ d k off with h' | h'
  · exact h'
  · exact absurd h' (decodeRespG_ne_fuel fx _ d _ off (by omega))

example : decode [36, 53, 13, 10, 104, 101, 108, 108, 111, 13] 0 = .error .eof := by rfl   -- "$5\r\nhello\r"

/-! ### 5. Integer text -/

/-- `parseInt (fmtInt i) = i` for all 64-bit `i` (on the model of strconv) -/
theorem int_text (i : Int) (h : isInt64 i) : parseInt (fmtInt i) = some i := parseInt_fmtInt i h

/-- … and through the table-driven renderer the encoder really uses -/
theorem int_text_itos (i : Int) (h : isInt64 i) : parseInt (itos i) = some i := by
  rw [itos_spec i h]; exact parseInt_fmtInt i h

/-- the decoder only ever produces 64-bit integers -/
theorem parseInt_range (s : Bytes) (n : Int) (h : parseInt s = some n) : isInt64 n := by
  unfold parseInt at h
  split at h
  · simp at h
  · rename_i c t
    dsimp only at h
    split at h
    · simp at h
    · rename_i un _
      unfold isInt64
      by_cases hc : c = 45 <;> simp [hc] at h <;> omega

/-! ### 6. Command extraction -/

/-- `ParseArgs (ChangeArgsToResp cmd args)` returns the lower-cased command and the arguments unchanged
(nil arguments stay nil) -/
theorem parseArgs_changeArgs (cmd : Bytes) (hc : cmd ≠ []) (args : List (Option Bytes)) :
    parseArgs (changeArgsToResp (some cmd) args) = .ok (cmd.map lowerByte, args) := by
  unfold parseArgs changeArgsToResp
  simp [asBulks, asBulks_map, hc]

/-- an empty or nil command is refused -/
theorem parseArgs_changeArgs_empty (args : List (Option Bytes)) :
    parseArgs (changeArgsToResp none args) = .error .emptyCmd ∧
    parseArgs (changeArgsToResp (some []) args) = .error .emptyCmd := by
  unfold parseArgs changeArgsToResp
  simp [asBulks, asBulks_map]

/-- conversely, whatever `ParseArgs` accepts is an array of bulk strings, i.e. an image of `ChangeArgsToResp` -/
theorem parseArgs_inv (r : Resp) (cmd : Bytes) (args : List (Option Bytes)) (h : parseArgs r = .ok (cmd, args)) :
    ∃ c, r = changeArgsToResp c args ∧ cmd = (c.getD []).map lowerByte ∧ cmd ≠ [] := by
  unfold parseArgs at h
  split at h
  · rename_i a
    split at h
    · simp at h
    · rename_i items hne hitems
      split at h
      · simp at h
      · simp at h
      · rename_i c as hb
        dsimp only at h
        split at h
        · simp at h
        · rename_i hemp
          simp at h
          obtain ⟨h1, h2⟩ := h
          subst h2
          have hi := asBulks_inv _ _ hb
          cases a with
          | none => simp at hi
          | some l =>
            simp at hi
            refine ⟨c, by simp [changeArgsToResp, hi], h1.symm, ?_⟩
            rw [← h1]; simpa using hemp
  · simp at h

example : parseArgs (changeArgsToResp (some [83, 69, 84]) [some [107], none, some []])
    = .ok ([115, 101, 116], [some [107], none, some []]) := by rfl

/-! ### 7. The encoding is prefix-free -/

/-- **prefix-free.** No encoding of a well-formed value is a strict prefix of the encoding of another: on a command stream
    the boundary after a message is decided by the message alone, never by what follows (`roundtrip` + `reject_truncated`). -/
theorem enc_prefix_free (v w : Resp) (hv : WF v = true) (hw : WF w = true) (s : Bytes) (h : enc v ++ s = enc w) : s = [] := by
  cases s with
  | nil => rfl
  | cons a t =>
  exfalso
  have h1 := reject_truncated w hw (enc v) (a :: t) (by simp) h 0 0
  have h2 := roundtrip v hv 0 [] 0
  simp at h1 h2
  rw [h2] at h1
  cases h1

/-- … hence a value followed by anything is never the encoding of a different value -/
theorem enc_prefix_unique (v w : Resp) (hv : WF v = true) (hw : WF w = true) (s : Bytes) (h : enc v ++ s = enc w) : v = w := by
  have hs := enc_prefix_free v w hv hw s h
  subst hs
  exact enc_injective v w hv hw (by simpa using h)

example : WF (.bulk (some [1])) = true ∧ WF (.arr (some [.int 5])) = true := by decide

end RSVerif.Properties.C10
