import RSVerif.Model.DecodeMode
import RSVerif.Lemmas.DecodeMode
import RSVerif.Model.DecodeModeLoad
/-
C17 — Decode mode prints every element of the RDB, recoverably.
Property theorems only (helper lemmas live in RSVerif.Lemmas.DecodeMode).

Reading guide.  `Spec.DecodeMode`: items of a file and the records (`SRecord`) the property demands for them.
`DecodeMode` (model of src/redis-shake/decode.go): `blockOf` = the JSON objects one `decoderMain` iteration
marshals for one entry and sends with ONE channel send, `none` = it calls `log.Panic*` (= `os.Exit(1)`);
`parseRecord` = what a consumer reads back from a line (binary data only from the base64 `*64` fields);
`Pipe.Reach cfg block entries n s` = state `s` is reachable under SOME interleaving of the loader goroutine,
the `n` worker goroutines, the closer and the writer goroutine.  Every theorem about `Reach` therefore
quantifies over ALL schedules, all `n`, all channel capacities and all inputs.

What is NOT provable of the code as it stands (deviation D19), and is therefore stated `_partial`:
  (a) a sorted-set score that is ±Inf or NaN makes `json.Marshal` fail → `log.PanicError` → the process exits,
      the rest of the file is never printed (`counterexample_score_nonfinite`);
  (b) the loader splits a hash above 16 MiB into chunk entries whose payloads are not valid DUMP values
      (first chunk: member count of the whole hash but only part of the pairs; continuation chunks: no count),
      `rdb.DecodeDump` fails (or mis-parses) → abort or wrong lines (`counterexample_chunked_hash*`).
-/
namespace RSVerif.Properties.C17
open RSVerif RSVerif.Spec.DecodeMode RSVerif.DecodeMode RSVerif.DecodeMode.Pipe

/-! ### 1. base64: the `*64` fields decode to the exact original bytes -/

/-- every byte string, every length (mod 3 = 0, 1, 2), non-printable and non-UTF-8 included. -/
theorem b64_roundtrip : ∀ bs : Bytes, b64dec (b64enc bs) = some bs := DecodeMode.b64_roundtrip

example : b64enc (ascii "fo") = ascii "Zm8=" ∧ b64enc (ascii "f") = ascii "Zg==" ∧
    b64enc [0xff, 0xfe, 0x00] = ascii "//4A" := by decide
example : b64dec (ascii "Zm9v") = some (ascii "foo") ∧ b64dec (ascii "Zm9") = none ∧
    b64dec (ascii "Z=9v") = none := by decide

/-- the encoder only emits alphabet characters and `=`: nothing JSON has to escape lossily. -/
theorem b64enc_injective (a b : Bytes) (h : b64enc a = b64enc b) : a = b := by
  have := congrArg b64dec h
  rw [b64_roundtrip, b64_roundtrip] at this
  exact Option.some.inj this

/-! ### 2. toText: what is printable and what is replaced (bounds re-read from the source on every run) -/

theorem toText_byte_spec : ∀ c : UInt8, toTextByte c = textByte c :=
  forall_u8 _ (by decide +kernel)

/-- decode.go's `toText` is the specified text rendering (which is what the driver prints). -/
theorem toText_spec (p : Bytes) : toText p = textOf p := by
  simp [toText, textOf, toText_byte_spec]

theorem toText_length (p : Bytes) : (toText p).length = p.length := by simp [toText]

/-- the text fields never contain a byte JSON must escape with a non-identity meaning (`"`, control, ≥ 0x80). -/
theorem toText_printable : ∀ c : UInt8, 0x23 ≤ (toTextByte c).toNat ∧ (toTextByte c).toNat ≤ 0x7e :=
  forall_u8 _ (by decide +kernel)

example : toText [0x00, 0x20, 0x21, 0x22, 0x23, 0x41, 0x7e, 0x7f, 0xc3, 0xa9] = ascii "....#A~..." := by decide

/-! ### 3. the record kinds of the model are the ones in the source (struct tags re-read on every run) -/

/-- every JSON field the consumer (`parseRecord`) reads exists under that tag in the marshalled struct of its
    kind, and the `"type"` literals are the source's. A renamed/dropped tag makes this theorem fail. -/
theorem record_fields_in_source :
    (∀ f ∈ (recString 0 0 [] []).map Prod.fst, f ∈ Generated.C17.decodeFieldsString.map Prod.fst) ∧
    (∀ f ∈ (recList 0 0 [] 0 []).map Prod.fst, f ∈ Generated.C17.decodeFieldsList.map Prod.fst) ∧
    (∀ f ∈ (recHash 0 0 [] [] []).map Prod.fst, f ∈ Generated.C17.decodeFieldsHash.map Prod.fst) ∧
    (∀ f ∈ (recSet 0 0 [] []).map Prod.fst, f ∈ Generated.C17.decodeFieldsSet.map Prod.fst) ∧
    (∀ f ∈ (recZSet 0 0 [] [] 0).map Prod.fst, f ∈ Generated.C17.decodeFieldsZSet.map Prod.fst) ∧
    (∀ f ∈ (recAux [] []).map Prod.fst, f ∈ Generated.C17.decodeFieldsAux.map Prod.fst) ∧
    Generated.C17.decodeTypeNameString = "string" ∧ Generated.C17.decodeTypeNameList = "list" ∧
    Generated.C17.decodeTypeNameHash = "hash" ∧ Generated.C17.decodeTypeNameSet = "set" ∧
    Generated.C17.decodeTypeNameZSet = "zset" ∧ Generated.C17.decodeTypeNameAux = "aux" := by
  decide

/-- the score field has the type `zsetScore` (repair of D19): a `float64` whose `MarshalJSON` writes a finite score as
    `json.Marshal(float64)` does and +Inf / -Inf / NaN as the strings below — so `json.Marshal` refuses nothing
    (`toJson` total). The underlying type and the three spellings are re-read from decode.go on every run. -/
theorem score_is_zsetScore :
    ("score", "zsetScore") ∈ Generated.C17.decodeFieldsZSet ∧ Generated.C17.zsetScoreUnderlying = "float64" ∧
    Generated.C17.zsetScoreSpellings = ["inf", "-inf", "nan"] := by decide

/-- both channels are buffered (`base.RDBPipeSize`), as `no_deadlock` assumes. -/
theorem pipe_capacity_positive : 0 < Generated.C17.decodePipeSize := by decide

/-! ### 4. fields_recover: one line per element, attributed to its key, bytes exact -/

/-- For every item (delivered by the loader as one entry; any score, ±Inf and NaN included since the D19 repair), the
    block of lines built for it reads back — db, type, expiry, key/field/member/value bytes from the `*64` fields,
    list index, score bits — as exactly the records the property demands, in order: none missing, none extra, none
    attributed to another key. -/
theorem fields_recover (it : Item) :
    ∃ rs, blockOf (entryOf it) = some rs ∧ rs.map parseRecord = (specRecords it).map some :=
  DecodeMode.fields_recover it

/-- the individual `*64` fields: every line of a key carries that key's name, recoverable exactly. -/
theorem key64_recovers (k : KeyItem) (r : Record) (rs : List Record)
    (hb : blockOf (entryOf (.key k)) = some rs) (hr : r ∈ rs) : getB64 r "key64" = some k.key := by
  obtain ⟨db, exp, key, v⟩ := k
  simp only [entryOf, blockOf] at hb
  have hsub : ∀ {xs ys : List Record}, marshalAll xs = some ys → ys = xs := by
    intro xs
    induction xs with
    | nil => intro ys h; simp [marshalAll] at h; exact h
    | cons x xs ih =>
      intro ys h
      simp only [marshalAll] at h
      cases hx : toJson x with
      | none => simp [hx] at h
      | some j =>
        cases hm : marshalAll xs with
        | none => simp [hx, hm] at h
        | some js =>
          simp [hx, hm] at h
          have hj : j = x := by
            unfold toJson at hx
            exact (Option.some.inj hx).symm
          rw [← h, hj, ih hm]
  have := hsub hb; subst this
  cases v with
  | str v => simp [objRecords] at hr; subst hr; simp [getB64, getStr, recString, head, List.lookup, b64_roundtrip]
  | list xs =>
    obtain ⟨j, v, rfl⟩ := listLoop_mem hr
    simp [getB64, getStr, recList, head, List.lookup, b64_roundtrip]
  | hash ps =>
    simp [objRecords] at hr; obtain ⟨f, v, _, rfl⟩ := hr
    simp [getB64, getStr, recHash, head, List.lookup, b64_roundtrip]
  | set ms =>
    simp [objRecords] at hr; obtain ⟨m, _, rfl⟩ := hr
    simp [getB64, getStr, recSet, head, List.lookup, b64_roundtrip]
  | zset ms =>
    simp [objRecords] at hr; obtain ⟨m, s, _, rfl⟩ := hr
    simp [getB64, getStr, recZSet, head, List.lookup, b64_roundtrip]

/-- non-vacuity: a binary key (non-UTF-8, NUL, quote) with a list; indexes count from 0. -/
example :
    (blockOf (entryOf (.key ⟨3, 1600000000000, [0xff, 0x00, 0x22], .list [[0x80], []]⟩))).map (·.map parseRecord)
      = some [some (.data 3 1600000000000 [0xff, 0x00, 0x22] (.listElem 0 [0x80])),
              some (.data 3 1600000000000 [0xff, 0x00, 0x22] (.listElem 1 []))] := by decide

/-- non-vacuity: negative zero and a finite score survive as bit patterns. -/
example :
    (blockOf (entryOf (.key ⟨0, 0, [0x7a], .zset [([0x61], 0x8000000000000000), ([0x62], 0x3ff8000000000000)]⟩))).map
        (·.map parseRecord)
      = some [some (.data 0 0 [0x7a] (.zsetMember [0x61] 0x8000000000000000)),
              some (.data 0 0 [0x7a] (.zsetMember [0x62] 0x3ff8000000000000))] := by decide

/-! ### 5. the goroutine pipeline: every schedule, every degree of parallelism -/

/-- the lines one entry contributes (nothing if its worker aborts the process instead). -/
def recordsOf (e : Entry) : List Record := (blockOf e).getD []

theorem flatten_filterMap_blockOf (entries : List Entry) :
    (entries.filterMap blockOf).flatten = entries.flatMap recordsOf := by
  induction entries with
  | nil => rfl
  | cons e es ih =>
    cases h : blockOf e with
    | none => simp [h, recordsOf, ih]
    | some b => simp [h, recordsOf, ih]

/-- **lines_complete** (full strength over entries, N, capacities, schedules). When `decode` returns, the
    output file holds, as a multiset, exactly the lines of the entries' blocks: no omission, no duplication,
    for every number of workers `n ≥ 1` and every interleaving. (Blocks are sent with one channel send each,
    so the lines of one entry are also contiguous: `s.out` is a list of whole blocks.) -/
theorem lines_complete (cfg : Cfg) (n : Nat) (entries : List Entry) (s : St Entry (List Record))
    (hn : 0 < n) (hr : DecodeReach cfg entries n s) (he : s.ended = true) :
    s.out.flatten.Perm (entries.flatMap recordsOf) := by
  have := (ended_perm hn hr he).flatten
  rwa [flatten_filterMap_blockOf] at this

/-- the same, block-wise: the written blocks are a permutation of the entries' blocks (schedule-dependent
    order across keys, never a split or merged block). -/
theorem blocks_complete (cfg : Cfg) (n : Nat) (entries : List Entry) (s : St Entry (List Record))
    (hn : 0 < n) (hr : DecodeReach cfg entries n s) (he : s.ended = true) :
    s.out.Perm (entries.filterMap blockOf) := ended_perm hn hr he

/-- conservation in EVERY reachable state (not only at the end): each block is in exactly one place —
    written, in `opipe`, held by a worker, or still to be built from an entry in `ipipe`/the file. -/
theorem nothing_lost_in_flight (cfg : Cfg) (n : Nat) (entries : List Entry) (s : St Entry (List Record))
    (hr : DecodeReach cfg entries n s) (hna : s.aborted = false) :
    (s.out ++ s.opipe ++ held s.ws ++ (s.ipipe ++ s.src).filterMap blockOf).Perm (entries.filterMap blockOf) :=
  reach_conserved_perm hr hna

theorem items_block_flatten (items : List Item) :
    (((items.map entryOf).filterMap blockOf).flatten).map parseRecord = (items.flatMap specRecords).map some := by
  induction items with
  | nil => rfl
  | cons it items ih =>
    obtain ⟨rs, h1, h2⟩ := fields_recover it
    simp only [List.map_cons, List.filterMap_cons, h1, List.flatten_cons, List.map_append, h2, ih,
      List.flatMap_cons]

/- FULL statement of the property (false of the code, see the counterexample of section 7):
   theorem decode_complete (cfg n) (items : List Item) (s) (hn : 0 < n)
       (hr : DecodeReach cfg (loaderEntries items) n s) (hstuck : ∀ s', ¬ Step cfg blockOf s s') :
       s.ended = true ∧ (s.out.flatten.map parseRecord).Perm ((items.flatMap specRecords).map some)
   for ALL items, hashes of any size included. What is missing below is only the hash above the 16 MiB chunk limit
   (finding chunked-hash): `items.map entryOf` = every key delivered by the loader as ONE entry. -/

/-- **decode_complete_partial**: for every file whose keys are each delivered as one entry (no hash above the 16 MiB
    chunk limit) — scores of any kind, ±Inf and NaN included since the D19 repair —, every number of workers and every
    schedule: when `decode` returns, the records read back from the output file are, as a multiset, exactly the records
    the property demands — one per string / list element with index / hash field / set member / zset member /
    Lua script, each with its own db, expiry and key. -/
theorem decode_complete_partial (cfg : Cfg) (n : Nat) (items : List Item) (s : St Entry (List Record))
    (hn : 0 < n) (hr : DecodeReach cfg (items.map entryOf) n s) (he : s.ended = true) :
    (s.out.flatten.map parseRecord).Perm ((items.flatMap specRecords).map some) := by
  have := ((ended_perm hn hr he).flatten).map parseRecord
  rwa [items_block_flatten items] at this

/-- under the same hypothesis the process never aborts. -/
theorem never_aborts_partial (cfg : Cfg) (n : Nat) (items : List Item) (s : St Entry (List Record))
    (hr : DecodeReach cfg (items.map entryOf) n s) : s.aborted = false := by
  apply clean_never_aborts (block := blockOf) (entries := items.map entryOf) _ hr
  intro e he
  obtain ⟨it, hit, rfl⟩ := List.mem_map.mp he
  obtain ⟨rs, h, _⟩ := fields_recover it
  simp [h]

/-! ### 6. ends: the output closes after the last entry has been emitted -/

/-- **ends**. `decode` returns (`wait` closed) only when the loader has delivered the whole file and closed
    `ipipe`, `ipipe` is drained, ALL workers have returned, `opipe` was closed after that and is drained:
    nothing is left anywhere but in the output file. -/
theorem ends (cfg : Cfg) (n : Nat) (entries : List Entry) (s : St Entry (List Record))
    (hn : 0 < n) (hr : DecodeReach cfg entries n s) (he : s.ended = true) :
    s.src = [] ∧ s.ipipe = [] ∧ allDone s.ws ∧ s.opipe = [] ∧ s.inClosed = true ∧ s.outClosed = true ∧
    s.aborted = false := ended_all hn hr he

/-- … and then nothing moves any more (no line can be written after `decode` returned). -/
theorem ended_is_final (cfg : Cfg) (n : Nat) (entries : List Entry) (s s' : St Entry (List Record))
    (hn : 0 < n) (hr : DecodeReach cfg entries n s) (he : s.ended = true) : ¬ Step cfg blockOf s s' :=
  ended_final hn hr he

/-- no deadlock: while `decode` has neither returned nor aborted, some goroutine can take a step
    (n ≥ 1 workers, buffered channels). -/
theorem no_deadlock (cfg : Cfg) (n : Nat) (entries : List Entry) (s : St Entry (List Record))
    (hn : 0 < n) (hci : 0 < cfg.capIn) (hco : 0 < cfg.capOut)
    (hr : DecodeReach cfg entries n s) (hne : s.ended = false) (hna : s.aborted = false) :
    ∃ s', Step cfg blockOf s s' := progress hn hci hco hr hne hna

/-- every schedule is finite: a run has at most `measure s` steps (4 per entry + 1 per worker + 3). -/
theorem terminates (cfg : Cfg) (s u : St Entry (List Record)) (k : Nat)
    (h : Run cfg blockOf s k u) : k ≤ Pipe.measure s := by
  have := run_bounded h; omega

/-- **the run ends when the file is exhausted, with everything printed**: a state from which no goroutine
    can move (the end of a maximal run — and all runs are finite) is the state "decode returned", and the
    output is complete. -/
theorem maximal_run_complete_partial (cfg : Cfg) (n : Nat) (items : List Item) (s : St Entry (List Record))
    (hn : 0 < n) (hci : 0 < cfg.capIn) (hco : 0 < cfg.capOut)
    (hr : DecodeReach cfg (items.map entryOf) n s) (hstuck : ∀ s', ¬ Step cfg blockOf s s') :
    s.ended = true ∧ (s.out.flatten.map parseRecord).Perm ((items.flatMap specRecords).map some) := by
  have hna := never_aborts_partial cfg n items s hr
  have he : s.ended = true := by
    cases h : s.ended with
    | true => rfl
    | false =>
      obtain ⟨s', hs⟩ := progress hn hci hco hr h hna
      exact absurd hs (hstuck s')
  exact ⟨he, decode_complete_partial cfg n items s hn hr he⟩

/-- non-vacuity of the pipeline theorems: a concrete complete run with 2 workers and 2 entries in which the
    SECOND entry's block is written first (the order across keys is schedule dependent). -/
example : ∃ s : St Nat Nat, Reach ⟨1, 1⟩ (fun e => some (e + 10)) [1, 2] 2 s ∧ s.ended = true ∧ s.out = [12, 11] := by
  let blk : Nat → Option Nat := fun e => some (e + 10)
  let c : Cfg := ⟨1, 1⟩
  let mk (src : List Nat) (ic : Bool) (ip : List Nat) (ws : List (W Nat)) (op : List Nat) (oc : Bool)
      (out : List Nat) (en : Bool) : St Nat Nat := ⟨src, ic, ip, ws, op, oc, out, en, false⟩
  have r0 : Reach c blk [1, 2] 2 (mk [1, 2] false [] [.idle, .idle] [] false [] false) := Reach.start
  have r1 := Reach.step r0 ⟨rfl, Move.load _ 1 [2] rfl (by decide)⟩
  have r2 := Reach.step r1 ⟨rfl, Move.take _ [] [.idle] 1 [] 11 rfl rfl rfl⟩
  have r3 := Reach.step r2 ⟨rfl, Move.load _ 2 [] rfl (by decide)⟩
  have r4 := Reach.step r3 ⟨rfl, Move.take _ [.holding 11] [] 2 [] 12 rfl rfl rfl⟩
  have r5 := Reach.step r4 ⟨rfl, Move.emit _ [.holding 11] [] 12 rfl (by decide)⟩
  have r6 := Reach.step r5 ⟨rfl, Move.write _ 12 [] rfl⟩
  have r7 := Reach.step r6 ⟨rfl, Move.emit _ [] [.idle] 11 rfl (by decide)⟩
  have r8 := Reach.step r7 ⟨rfl, Move.write _ 11 [] rfl⟩
  have r9 := Reach.step r8 ⟨rfl, Move.closeIn _ rfl rfl⟩
  have r10 := Reach.step r9 ⟨rfl, Move.finish _ [] [.idle] rfl rfl rfl⟩
  have r11 := Reach.step r10 ⟨rfl, Move.finish _ [.done] [] rfl rfl rfl⟩
  have r12 := Reach.step r11 ⟨rfl, Move.closeOut _ (by intro w hw; simp at hw; rcases hw with rfl | rfl <;> rfl) rfl⟩
  have r13 := Reach.step r12 ⟨rfl, Move.finishOut _ rfl rfl rfl⟩
  exact ⟨_, r13, rfl, rfl⟩

/-! ### 7. D19: what the code does on the excluded inputs -/

/-- the block function of the PINNED tree: `json.Marshal` refused a non-finite score (`toJsonPinned`) -/
def marshalAllPinned : List Record → Option (List Record)
  | [] => some []
  | r :: rs =>
    match toJsonPinned r, marshalAllPinned rs with
    | some j, some js => some (j :: js)
    | _, _ => none

def blockOfPinned : Entry → Option (List Record)
  | .aux k v => marshalAllPinned [recAux k v]
  | .obj _ _ _ none => none
  | .obj db exp key (some v) => marshalAllPinned (objRecords db exp key v)

/-- an entry whose block cannot be built anywhere in the file ⇒ under NO schedule does `decode` return
    normally (the process exits in a worker; lines not yet written are lost). -/
theorem doomed_never_ends (cfg : Cfg) (n : Nat) (entries : List Entry) (s : St Entry (List Record))
    (hn : 0 < n) (hbad : ∃ e, e ∈ entries ∧ blockOf e = none)
    (hr : DecodeReach cfg entries n s) : s.ended = false := Pipe.doomed_never_ends hn hbad hr

/-- the witness file: key "a" = "x", then a sorted set with one member of score +Inf. -/
def infWitness : List Item :=
  [.key ⟨0, 0, [0x61], .str [0x78]⟩, .key ⟨0, 0, [0x7a], .zset [([0x6d], 0x7ff0000000000000)]⟩]

/-- **counterexample (D19 score-nonfinite, the PINNED tree; repaired by a `fix:` commit)**: the property demands two
    records for `infWitness`, but with the pinned marshaller no schedule of any number of workers ever completed the run;
    with one worker the run that loads, decodes and writes in file order ended in the abort with only the first line
    written. -/
theorem counterexample_score_nonfinite_pinned :
    (infWitness.flatMap specRecords).length = 2 ∧
    (∀ cfg n s, 0 < n → Reach cfg blockOfPinned (infWitness.map entryOf) n s → s.ended = false) ∧
    (∃ s, Reach ⟨1024, 1024⟩ blockOfPinned (infWitness.map entryOf) 1 s ∧ s.aborted = true ∧ s.out.flatten.length = 1) := by
  refine ⟨by decide, ?_, ?_⟩
  · intro cfg n s hn hr
    exact Pipe.doomed_never_ends hn ⟨entryOf (.key ⟨0, 0, [0x7a], .zset [([0x6d], 0x7ff0000000000000)]⟩),
      by simp [infWitness], by decide⟩ hr
  · let e1 := entryOf (.key ⟨0, 0, [0x61], .str [0x78]⟩)
    let e2 := entryOf (.key ⟨0, 0, [0x7a], .zset [([0x6d], 0x7ff0000000000000)]⟩)
    let c : Cfg := ⟨1024, 1024⟩
    have r0 : Reach c blockOfPinned [e1, e2] 1 _ := Reach.start
    have r1 := Reach.step r0 ⟨rfl, Move.load _ e1 [e2] rfl (by decide)⟩
    have r2 := Reach.step r1 ⟨rfl, Move.take _ [] [] e1 [] [recString 0 0 [0x61] [0x78]] rfl rfl (by decide)⟩
    have r3 := Reach.step r2 ⟨rfl, Move.emit _ [] [] _ rfl (by decide)⟩
    have r4 := Reach.step r3 ⟨rfl, Move.write _ _ [] rfl⟩
    have r5 := Reach.step r4 ⟨rfl, Move.load _ e2 [] rfl (by decide)⟩
    have r6 := Reach.step r5 ⟨rfl, Move.takeAbort _ [] [] e2 [] rfl rfl (by decide)⟩
    exact ⟨_, r6, rfl, rfl⟩

/-- … and the repaired marshaller prints both records of that file, and those of NaN and -Inf scores -/
theorem score_nonfinite_printed :
    (blockOf (entryOf (.key ⟨0, 0, [0x7a], .zset [([0x6d], 0x7ff0000000000000)]⟩))).isSome = true ∧
    (blockOf (entryOf (.key ⟨0, 0, [0x7a], .zset [([0x6d], 0x7ff8000000000001)]⟩))).isSome = true ∧
    (blockOf (entryOf (.key ⟨0, 0, [0x7a], .zset [([0x6d], 0xfff0000000000000)]⟩))).isSome = true ∧
    blockOfPinned (entryOf (.key ⟨0, 0, [0x7a], .zset [([0x6d], 0x7ff8000000000001)]⟩)) = none ∧
    blockOfPinned (entryOf (.key ⟨0, 0, [0x7a], .zset [([0x6d], 0xfff0000000000000)]⟩)) = none := by decide

/-- What the loader delivers for a hash above the chunk limit: chunk entries of the same key whose
    `DecodeDump` outcome is `o₁, o₂, …` (D19: in general an error; C01 models the split, C12 the decoder). -/
def chunkEntries (db exp : Nat) (key : Bytes) (outcomes : List (Option Value)) : List Entry :=
  match outcomes with
  | [] => []
  | o :: rest => .obj db exp key o :: rest.map (fun o' => .obj db 0 key o')

/-- **counterexample (sig=chunked-hash), abort form**: as soon as the `DecodeDump` of one chunk fails — which is
    what the real code does on the first chunk (count of the whole hash, only part of the pairs) — no schedule
    completes the run, although the property demands one record per field. -/
theorem counterexample_chunked_hash (cfg : Cfg) (n : Nat) (s : St Entry (List Record)) (hn : 0 < n)
    (f1 v1 f2 v2 : Bytes)
    (hr : DecodeReach cfg (chunkEntries 0 0 [0x68] [none, none]) n s) :
    s.ended = false ∧ (specRecords (.key ⟨0, 0, [0x68], .hash [(f1, v1), (f2, v2)]⟩)).length = 2 := by
  refine ⟨doomed_never_ends cfg n _ s hn ⟨.obj 0 0 [0x68] none, by simp [chunkEntries], rfl⟩ hr, by simp [specRecords, elemsOf]⟩

/-- **counterexample (sig=chunked-hash), byte level** — C01's model of the loader composed with C12's model of
    `rdb.DecodeDump`, on the concrete file `chunkWitnessFile` (a plain hash with three 40-byte values):
    with the real 16 MiB limit it is one entry that decodes to the item (and `decode_complete_partial` applies);
    with a 64-byte limit (the scaled build that replays this very file) the loader delivers two chunk entries,
    `DecodeDump` fails on BOTH, and no schedule of any number of workers completes the run, although the property
    demands three records. The theorems are about the limit as a parameter; 16 MiB is `Generated`'s business in C01. -/
theorem counterexample_chunked_hash_bytes :
    loaderEntries (fun _ => none) 16777216 chunkWitnessFile = [entryOf chunkWitnessItem] ∧
    loaderEntries (fun _ => none) 64 chunkWitnessFile = [.obj 0 0 [0x68] none, .obj 0 0 [0x68] none] ∧
    (specRecords chunkWitnessItem).length = 3 ∧
    (∀ cfg n s, 0 < n → DecodeReach cfg (loaderEntries (fun _ => none) 64 chunkWitnessFile) n s → s.ended = false) := by
  have h1 : loaderEntries (fun _ => none) 16777216 chunkWitnessFile = [entryOf chunkWitnessItem] := by decide +kernel
  have h2 : loaderEntries (fun _ => none) 64 chunkWitnessFile = [.obj 0 0 [0x68] none, .obj 0 0 [0x68] none] := by
    decide +kernel
  refine ⟨h1, h2, by decide, ?_⟩
  intro cfg n s hn hr
  rw [h2] at hr
  exact doomed_never_ends cfg n _ s hn ⟨.obj 0 0 [0x68] none, by simp, rfl⟩ hr

/-- the witness file is a well-formed RDB: header, one key, EOF, correct CRC-64, nothing unread. -/
theorem chunkWitnessFile_wellformed :
    (Rdb.run (fun _ => false) true 16777216 Generated.rdbFromVersion chunkWitnessFile).2 = .ok [] := by
  decide +kernel

/-- **counterexample (sig=chunked-hash), silent form** (hypothetical outcomes; on the real code the FIRST chunk
    already aborts in practice): a continuation chunk has no count, so `DecodeDump` takes the length byte of its
    first field for the count; if that field is empty the chunk "decodes" to an empty hash. Were the first chunk
    readable, the run would END with the continuation's fields silently missing. -/
theorem counterexample_chunked_hash_silent :
    ∃ s, DecodeReach ⟨1024, 1024⟩ (chunkEntries 0 0 [0x68] [some (.hash [([0x66], [0x76])]), some (.hash [])]) 1 s ∧
      s.ended = true ∧ s.out.flatten.length = 1 ∧
      (specRecords (.key ⟨0, 0, [0x68], .hash [([0x66], [0x76]), ([], [0x77])]⟩)).length = 2 := by
  let e1 : Entry := .obj 0 0 [0x68] (some (.hash [([0x66], [0x76])]))
  let e2 : Entry := .obj 0 0 [0x68] (some (.hash []))
  let c : Cfg := ⟨1024, 1024⟩
  have r0 : DecodeReach c [e1, e2] 1 _ := Reach.start
  have r1 := Reach.step r0 ⟨rfl, Move.load _ e1 [e2] rfl (by decide)⟩
  have r2 := Reach.step r1 ⟨rfl, Move.take _ [] [] e1 [] [recHash 0 0 [0x68] [0x66] [0x76]] rfl rfl (by decide)⟩
  have r3 := Reach.step r2 ⟨rfl, Move.emit _ [] [] _ rfl (by decide)⟩
  have r4 := Reach.step r3 ⟨rfl, Move.write _ _ [] rfl⟩
  have r5 := Reach.step r4 ⟨rfl, Move.load _ e2 [] rfl (by decide)⟩
  have r6 := Reach.step r5 ⟨rfl, Move.take _ [] [] e2 [] [] rfl rfl (by decide)⟩
  have r7 := Reach.step r6 ⟨rfl, Move.emit _ [] [] _ rfl (by decide)⟩
  have r8 := Reach.step r7 ⟨rfl, Move.write _ _ [] rfl⟩
  have r9 := Reach.step r8 ⟨rfl, Move.closeIn _ rfl rfl⟩
  have r10 := Reach.step r9 ⟨rfl, Move.finish _ [] [] rfl rfl rfl⟩
  have r11 := Reach.step r10 ⟨rfl, Move.closeOut _ (by intro w hw; simp at hw; exact hw) rfl⟩
  have r12 := Reach.step r11 ⟨rfl, Move.finishOut _ rfl rfl rfl⟩
  exact ⟨_, r12, rfl, rfl, by simp [specRecords, elemsOf]⟩

/-- `parallel = 0` is outside the property (`parallel = 1..N`) and indeed degenerate: with no worker the closer
    closes `opipe` at once and `decode` returns with an empty output whatever the file holds. -/
theorem zero_workers_prints_nothing (entries : List Entry) :
    ∃ s, DecodeReach ⟨1024, 1024⟩ entries 0 s ∧ s.ended = true ∧ s.out = [] := by
  have r0 : DecodeReach ⟨1024, 1024⟩ entries 0 _ := Reach.start
  have r1 := Reach.step r0 ⟨rfl, Move.closeOut _ (by intro w hw; simp [Pipe.init] at hw) rfl⟩
  have r2 := Reach.step r1 ⟨rfl, Move.finishOut _ rfl rfl rfl⟩
  exact ⟨_, r2, rfl, rfl⟩

end RSVerif.Properties.C17
