/- C17: property theorems (stub — not built yet) -/
namespace RSVerif.Properties.C17
end RSVerif.Properties.C17
