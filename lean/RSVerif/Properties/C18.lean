import RSVerif.Lemmas.Backlog
import RSVerif.Model.Pipe
/-
C18 — The backlog ring returns the bytes written at an offset, or says they are gone.

Model: RSVerif.Model.Backlog (`Sys.step`: every critical section under `bl.mu` is one atomic step; any
number of reader threads, each idle / running / parked; `Broadcast` wakes all; memory and file stores).
Spec:  RSVerif.Spec.Backlog (`Log.read/range/valid`, ghost history `runH`, reachable states `Reach`).
All theorems quantify over `Reach s h`: every capacity > 0, both backends, any initial file content,
every schedule of atomic steps (any total written, any number of wrap-arounds, any interleaving).
Property theorems only; helper lemmas live in RSVerif.Lemmas.Backlog.
-/
namespace RSVerif.Properties.C18
open RSVerif RSVerif.Backlog RSVerif.Spec.Backlog RSVerif.Lemmas.Backlog

/-! ### 0. arithmetic of the ring -/

/-- two absolute offsets less than one capacity apart never share a ring cell -/
theorem ring_window {n p q : Nat} (h : p % n = q % n) (hpq : p ≤ q) (hq : q < p + n) : p = q :=
  mod_window h hpq hq

/-- `roffset`: the slice `p.b[offset:offset+maxlen]` lies inside the ring, inside the buffer and inside
    the written data (so the Go slice expression cannot panic and `copy` copies exactly `maxlen`). -/
theorem roffset_in_bounds (k size o w : Nat) (hs : 0 < size) (how : o ≤ w) :
    (roffset k size o w).2 = o % size ∧
    (roffset k size o w).2 + (roffset k size o w).1 ≤ size ∧
    (roffset k size o w).1 ≤ k ∧ o + (roffset k size o w).1 ≤ w ∧
    ((roffset k size o w).1 = 0 ↔ k = 0 ∨ o = w) := by
  have := Nat.mod_lt o hs
  rw [roffset_eq]
  refine ⟨rfl, ?_, ?_, ?_, ?_⟩ <;> (show _; omega)

/-- `woffset`: at least one byte is accepted (a write never blocks and never spins), never more than
    fits before the seam. -/
theorem woffset_in_bounds (k size w : Nat) (hs : 0 < size) :
    (woffset k size w).2 = w % size ∧
    (woffset k size w).2 + (woffset k size w).1 ≤ size ∧
    (woffset k size w).1 ≤ k ∧ ((woffset k size w).1 = 0 ↔ k = 0) := by
  have := Nat.mod_lt w hs
  rw [woffset_eq]
  refine ⟨rfl, ?_, ?_, ?_⟩ <;> (show _; omega)

/-- `align`: a positive multiple of the unit, not below the request, less than one unit above it. -/
theorem align_spec (req unit : Nat) (hu : 0 < unit) :
    unit ≤ align req unit ∧ req ≤ align req unit ∧ align req unit % unit = 0 ∧
    align req unit < max req 1 + unit := by
  unfold align
  split
  · refine ⟨Nat.le_refl _, by omega, Nat.mod_self _, by omega⟩
  · rename_i h
    have h1 := Nat.div_add_mod (req + unit - 1) unit
    have h2 := Nat.mod_lt (req + unit - 1) hu
    rw [Nat.mul_comm] at h1
    refine ⟨by omega, by omega, Nat.mul_mod_left _ _, by omega⟩

/-- capacities start at one alignment unit (constants re-read from the source on every run) -/
theorem capacity_mem (req : Nat) :
    (Store.newMem req).size = align req Generated.C18.buffSizeAlign ∧
    Generated.C18.buffSizeAlign ≤ (Store.newMem req).size ∧ req ≤ (Store.newMem req).size :=
  ⟨rfl, (align_spec req _ (by decide)).1, (align_spec req _ (by decide)).2.1⟩

theorem capacity_file (req : Nat) (content : Array UInt8) :
    (Store.newFile req content).size = align req Generated.C18.fileSizeAlign ∧
    Generated.C18.fileSizeAlign ≤ (Store.newFile req content).size ∧ req ≤ (Store.newFile req content).size :=
  ⟨rfl, (align_spec req _ (by decide)).1, (align_spec req _ (by decide)).2.1⟩

/-- `backlog.NewSize(req)` and `backlog.NewFileBacklog(req, f)` are initial states of `Reach` -/
theorem reach_newMem (req : Nat) : Reach (Sys.newMem req) [] := by
  have := Reach.init .mem (align req Generated.C18.buffSizeAlign) #[] (Nat.lt_of_lt_of_le (by decide) (align_spec req _ (by decide)).1)
  exact this

theorem reach_newFile (req : Nat) (content : Array UInt8) : Reach (Sys.newFile req content) [] := by
  have := Reach.init .file (align req Generated.C18.fileSizeAlign) content (Nat.lt_of_lt_of_le (by decide) (align_spec req _ (by decide)).1)
  exact this


/-! ### 1. the invariant, for every capacity, total and interleaving -/

theorem reach_all (kind : Kind) (size : Nat) (content : Array UInt8) (hs : 0 < size) (ops : List Op) :
    Reach (runH (Sys.ofStore (Store.ofSize kind size content)) [] ops).1
          (runH (Sys.ofStore (Store.ofSize kind size content)) [] ops).2.1 :=
  reach_run (Reach.init kind size content hs) ops

/-- Ring invariant: the write position is the total written, `bl.err` is never set, and while the
    backlog is open every absolute offset `q` of the most recent `min (w, size)` bytes is stored in
    ring cell `q % size` — after any number of wrap-arounds. -/
theorem ring_invariant {s : Sys} {h : Bytes} (hr : Reach s h) :
    s.bl.err = none ∧ 0 < s.size ∧ s.wpos = h.length ∧
    (s.live = true → ∀ q, s.wpos - min s.wpos s.size ≤ q → q < s.wpos → s.cells[q % s.size]? = h[q]?) := by
  obtain ⟨st, hbl, ⟨hpos, hw, hlive⟩, _⟩ := reach_inv hr
  simp only [Sys.size, Sys.wpos, Sys.live, Sys.cells, hbl]
  exact ⟨trivial, hpos, hw, fun hl => (hlive hl).2.2⟩

/-- shape of the stores: the memory slice always has exactly `size` cells (with `roffset_in_bounds` /
    `woffset_in_bounds`: no slice expression of buff.go can panic), and the file always holds at least the
    retained window (so `ReadAt` never runs into `io.EOF`, cf. `done_spec`). -/
theorem store_shape {s : Sys} {h : Bytes} (hr : Reach s h) (hl : s.live = true) :
    ∃ st, s.bl.store = some st ∧ (st.kind = .mem → st.cells.size = st.size) ∧
      (st.kind = .file → min h.length st.size ≤ st.cells.size) := by
  obtain ⟨st, hbl, ⟨_, hw, hlive⟩, _⟩ := reach_inv hr
  simp only [Sys.live, hbl] at hl
  obtain ⟨h1, h2, _⟩ := hlive hl
  exact ⟨st, by rw [hbl], h1, by rw [← hw]; exact h2⟩

/-- the same, spelled out over an arbitrary operation list from a fresh backlog of arbitrary capacity -/
theorem ring_invariant_all (kind : Kind) (size : Nat) (content : Array UInt8) (hs : 0 < size) (ops : List Op) :
    let s := (runH (Sys.ofStore (Store.ofSize kind size content)) [] ops).1
    let h := (runH (Sys.ofStore (Store.ofSize kind size content)) [] ops).2.1
    s.size = size ∧ s.wpos = h.length ∧
    (s.live = true → ∀ q, h.length - min h.length size ≤ q → q < h.length → s.cells[q % size]? = h[q]?) := by
  intro s h
  have hr := reach_all kind size content hs ops
  have hsz : s.size = size := by
    have := (run_size_live (reach_inv (Reach.init kind size content hs)) ops).1
    rw [show s.size = _ from this]
    cases kind <;> rfl
  obtain ⟨_, _, hw, hring⟩ := ring_invariant hr
  refine ⟨hsz, hw, fun hl q h1 h2 => ?_⟩
  have := hring hl q (by rw [hw, hsz]; exact h1) (by rw [hw]; exact h2)
  rw [hsz] at this; exact this

/-- Refinement: one `readSomeAt` critical section of a running reader does exactly what the abstract
    log promises for `(k, o)` in the current history. -/
theorem read_refines_spec {s : Sys} {h : Bytes} (hr : Reach s h) {r seek k o : Nat} {u : Bool}
    (hrd : s.rds[r]? = some (Reader.mk seek (.running k o u))) :
    (s.step (.step r)).2 = Outcome.toEv r o ((s.log h).read k o) := by
  obtain ⟨st, hbl, _, hev⟩ := step_read (reach_inv hr) hrd
  rw [hev]; simp [Sys.log, Sys.size, Sys.live, hbl, logOf]

/-! ### 2. the statements of the property -/

/-- read_exact: a read that returns without error through a non-empty buffer returns at least one byte,
    and the bytes are exactly `hist[o … o+n)`. -/
theorem read_exact {s : Sys} {h : Bytes} (hr : Reach s h) {r seek k o : Nat} {u : Bool}
    (hrd : s.rds[r]? = some (Reader.mk seek (.running k o u))) (hk : k ≠ 0)
    {n : Nat} {bs : Bytes} (hev : (s.step (.step r)).2 = .done r o n bs none) :
    1 ≤ n ∧ n ≤ k ∧ o + n ≤ h.length ∧ bs.length = n ∧ bs = (h.drop o).take n ∧
    ∀ j, j < n → bs[j]? = h[o + j]? := by
  rw [read_refines_spec hr hrd] at hev
  obtain ⟨_, hpos, _, _⟩ := ring_invariant hr
  have hmod := Nat.mod_lt o hpos
  rcases log_read_cases (s.log h) k o with ⟨h0, _⟩ | ⟨_, _, he⟩ | ⟨_, _, _, he⟩ | ⟨_, _, _, he⟩ | ⟨_, _, ho, hv, he⟩
  · exact absurd h0 hk
  · rw [he] at hev; cases hev
  · rw [he] at hev; cases hev
  · rw [he] at hev; cases hev
  · rw [he] at hev
    simp only [Sys.log, Log.w, Log.count] at ho hv hev
    simp only [Outcome.toEv, Ev.done.injEq, true_and, and_true] at hev
    obtain ⟨hn, hbs⟩ := hev
    rw [List.length_take, List.length_drop] at hn
    have hc : min k (min (h.length - o) (s.size - o % s.size)) = n := by omega
    rw [hc] at hbs
    refine ⟨by omega, by omega, by omega, by rw [← hbs, List.length_take, List.length_drop]; omega, hbs.symm, ?_⟩
    intro j hj
    rw [← hbs, List.getElem?_take, if_pos hj, List.getElem?_drop]

/-- invalid_iff: on an open backlog a read through a non-empty buffer fails with the invalid-offset
    error exactly when the offset lies beyond the write position or has been overwritten. -/
theorem invalid_iff {s : Sys} {h : Bytes} (hr : Reach s h) {r seek k o : Nat} {u : Bool}
    (hrd : s.rds[r]? = some (Reader.mk seek (.running k o u))) (hk : k ≠ 0) (hl : s.live = true) :
    (s.step (.step r)).2 = .done r o 0 [] (some .invalidOffset) ↔ (o > h.length ∨ o + s.size < h.length) := by
  rw [read_refines_spec hr hrd]
  rcases log_read_cases (s.log h) k o with ⟨h0, _⟩ | ⟨_, hc, _⟩ | ⟨_, _, hv, he⟩ | ⟨_, _, ho, he⟩ | ⟨_, _, ho, hv, he⟩
  · exact absurd h0 hk
  · simp [Sys.log, hl] at hc
  · rw [he]; simp only [Sys.log, Log.w] at hv; simp [Outcome.toEv, hv]
  · rw [he]; simp only [Sys.log, Log.w] at ho; simp only [Outcome.toEv]
    constructor
    · intro hx; cases hx
    · intro hx; omega
  · rw [he]; simp only [Sys.log, Log.w] at ho hv; simp only [Outcome.toEv]
    constructor
    · intro hx; simp at hx
    · intro hx; omega

/-- waits_iff: a read parks (sleeps in `rwait.Wait()`) exactly when the buffer is non-empty, the
    backlog is open and the offset equals the write position. -/
theorem waits_iff {s : Sys} {h : Bytes} (hr : Reach s h) {r seek k o : Nat} {u : Bool}
    (hrd : s.rds[r]? = some (Reader.mk seek (.running k o u))) :
    (s.step (.step r)).2 = .parked r ↔ (k ≠ 0 ∧ s.live = true ∧ o = h.length) := by
  rw [read_refines_spec hr hrd]
  rcases log_read_cases (s.log h) k o with ⟨h0, he⟩ | ⟨_, hc, he⟩ | ⟨_, _, hv, he⟩ | ⟨hk, hop, ho, he⟩ | ⟨_, _, ho, hv, he⟩
  · rw [he]; simp [Outcome.toEv, h0]
  · rw [he]; simp only [Sys.log] at hc; simp [Outcome.toEv, hc]
  · rw [he]; simp only [Sys.log, Log.w] at hv; simp only [Outcome.toEv]
    constructor
    · intro hx; cases hx
    · intro hx; omega
  · rw [he]; simp only [Sys.log, Log.w] at ho hop; simp [Outcome.toEv, hk, hop, ho]
  · rw [he]; simp only [Sys.log, Log.w] at ho; simp only [Outcome.toEv]
    constructor
    · intro hx; cases hx
    · intro hx; omega

/-- no lost wake-up: whoever is parked has a non-empty buffer, sits exactly at the write position, and
    the backlog is open (every write that adds bytes and every close wakes all). -/
theorem parked_only_at_head {s : Sys} {h : Bytes} (hr : Reach s h) {r seek k o : Nat} {u : Bool}
    (hp : s.rds[r]? = some (Reader.mk seek (.parked k o u))) :
    k ≠ 0 ∧ o = h.length ∧ s.live = true := by
  obtain ⟨st, hbl, hst, hpk⟩ := reach_inv hr
  obtain ⟨h1, h2, h3⟩ := hpk r seek k o u hp
  exact ⟨by omega, by rw [h2, hst.2.1], by simp [Sys.live, hbl, h3]⟩

/-- range_exact: while open, `DataRange` is the most recent `min (total written, capacity)` bytes. -/
theorem range_exact {s : Sys} {h : Bytes} (hr : Reach s h) (hl : s.live = true) :
    (s.step .dataRange).2 = .range (h.length - min h.length s.size) h.length none := by
  obtain ⟨st, hbl, hst, _⟩ := reach_inv hr
  obtain ⟨bl, rds⟩ := s
  simp only at hbl; subst hbl
  simp only [Sys.live] at hl
  simp only [Sys.step, Backlog.dataRange, Store.dataRange, hl, Sys.size, hst.2.1]
  simp only [ne_eq, not_true_eq_false, if_false, Bool.not_true, Bool.false_eq_true]
  split
  · simp; omega
  · simp; omega

/-- The reported range only moves forward. Whatever happens between two `DataRange` calls — any schedule of writer, reader, seek and
    accessor steps in any interleaving — as long as the backlog is still open at the second call, both ends are at least what they were
    and the width never exceeds the capacity. (What the `stress` cases observe on the real code from concurrent goroutines.) -/
theorem range_monotone {s : Sys} {h : Bytes} (hr : Reach s h) (hl : s.live = true) (ops : List Op)
    (hl' : (runH s h ops).1.live = true) :
    ∃ lo hi lo' hi', (s.step .dataRange).2 = .range lo hi none ∧
      ((runH s h ops).1.step .dataRange).2 = .range lo' hi' none ∧ lo ≤ lo' ∧ hi ≤ hi' ∧ hi' - lo' ≤ s.size := by
  have hr' := reach_run hr ops
  obtain ⟨x, hx⟩ := run_hist_prefix s h ops
  have hsz := (run_size_live (reach_inv hr) ops).1
  refine ⟨_, _, _, _, range_exact hr hl, range_exact hr' hl', ?_, ?_, ?_⟩
  · rw [hx, hsz]; simp only [List.length_append]; omega
  · rw [hx]; simp
  · rw [hx, hsz]; simp only [List.length_append]; omega

/-- the promised range of the abstract log is what `DataRange` answers -/
theorem range_refines_spec {s : Sys} {h : Bytes} (hr : Reach s h) (hl : s.live = true) :
    (s.step .dataRange).2 = .range (s.log h).range.1 (s.log h).range.2 none := by
  rw [range_exact hr hl]; rfl

/-- what any completed read returned, whatever step produced it: `n` bytes that are `hist[o … o+n)`;
    an error comes with no bytes and is the closed or the invalid-offset error (never `io.EOF` out of
    the file, never anything else). -/
theorem done_spec {s : Sys} {h : Bytes} (hr : Reach s h) {op : Op} {r o n : Nat} {bs : Bytes} {err : Option Err}
    (hev : (s.step op).2 = .done r o n bs err) :
    bs.length = n ∧ bs = (h.drop o).take n ∧ (n = 0 ∨ o + n ≤ h.length) ∧
    (err = none ∨ (n = 0 ∧ (err = some .closed ∨ err = some .invalidOffset))) := by
  obtain ⟨rfl, seek, k, u, hrd⟩ := done_event hev
  rw [read_refines_spec hr hrd] at hev
  rcases log_read_cases (s.log h) k o with ⟨_, he⟩ | ⟨_, _, he⟩ | ⟨_, _, _, he⟩ | ⟨_, _, _, he⟩ | ⟨hk, _, ho, hv, he⟩
  · rw [he] at hev; simp only [Outcome.toEv, Ev.done.injEq, true_and] at hev
    obtain ⟨rfl, rfl, rfl⟩ := hev; simp
  · rw [he] at hev; simp only [Outcome.toEv, Ev.done.injEq, true_and] at hev
    obtain ⟨rfl, rfl, rfl⟩ := hev; simp
  · rw [he] at hev; simp only [Outcome.toEv, Ev.done.injEq, true_and] at hev
    obtain ⟨rfl, rfl, rfl⟩ := hev; simp
  · rw [he] at hev; cases hev
  · rw [he] at hev
    simp only [Sys.log, Log.w, Log.count] at ho hv hev
    simp only [Outcome.toEv, Ev.done.injEq, true_and] at hev
    obtain ⟨hn, hbs, rfl⟩ := hev
    rw [List.length_take, List.length_drop] at hn
    have hc : min k (min (h.length - o) (s.size - o % s.size)) = n := by omega
    rw [hc] at hbs
    refine ⟨by rw [← hbs, List.length_take, List.length_drop]; omega, hbs.symm, Or.inr (by omega), Or.inl rfl⟩

/-- …and the invalid-offset error is reported in no other situation. -/
theorem invalid_only_when_gone {s : Sys} {h : Bytes} (hr : Reach s h) {op : Op} {r o n : Nat} {bs : Bytes}
    (hev : (s.step op).2 = .done r o n bs (some .invalidOffset)) :
    n = 0 ∧ bs = [] ∧ s.live = true ∧ (o > h.length ∨ o + s.size < h.length) := by
  obtain ⟨rfl, seek, k, u, hrd⟩ := done_event hev
  rw [read_refines_spec hr hrd] at hev
  rcases log_read_cases (s.log h) k o with ⟨_, he⟩ | ⟨_, _, he⟩ | ⟨_, hop, hv, he⟩ | ⟨_, _, _, he⟩ | ⟨_, _, _, _, he⟩
  · rw [he] at hev; cases hev
  · rw [he] at hev; cases hev
  · rw [he] at hev; simp only [Outcome.toEv, Ev.done.injEq, true_and, and_true] at hev
    exact ⟨hev.1.symm, hev.2.symm, hop, hv⟩
  · rw [he] at hev; cases hev
  · rw [he] at hev; cases hev

/-- never other bytes: along ANY schedule from ANY reachable state, every read that ever completed
    returned a slice of the (final) history at its offset. -/
theorem never_other_bytes {s : Sys} {h : Bytes} (hr : Reach s h) (ops : List Op)
    {r o n : Nat} {bs : Bytes} {err : Option Err} (hev : Ev.done r o n bs err ∈ (runH s h ops).2.2) :
    bs.length = n ∧ bs = ((runH s h ops).2.1.drop o).take n ∧ (err ≠ none → n = 0) := by
  induction ops generalizing s h with
  | nil => simp [runH] at hev
  | cons op ops ih =>
    simp only [runH, List.mem_cons] at hev ⊢
    rcases hev with hev | hev
    · obtain ⟨h1, h2, h3, h4⟩ := done_spec hr hev.symm
      obtain ⟨x, hx⟩ := run_hist_prefix (s.step op).1 (histStep s h op) ops
      obtain ⟨y, hy⟩ : ∃ y, histStep s h op = h ++ y := by
        cases op with
        | writeSome bs => exact ⟨_, rfl⟩
        | _ => exact ⟨[], by simp [histStep]⟩
      refine ⟨h1, ?_, fun hne => by rcases h4 with h4 | h4; exact absurd h4 hne; exact h4.1⟩
      rw [hx, hy, h2]
      rcases h3 with h3 | h3
      · subst h3; simp
      · rw [List.append_assoc, List.drop_append_of_le_length (by omega), List.take_append_of_le_length (by rw [List.length_drop]; omega)]
    · exact ih (Reach.step op hr) hev

/-! ### 3. readers: validity -/

theorem isValid_eq {s : Sys} {h : Bytes} (hr : Reach s h) (hl : s.live = true) (seek : Nat) :
    s.bl.isValid seek = (s.log h).valid seek := by
  obtain ⟨st, hbl, hst, _⟩ := reach_inv hr
  simp only [Sys.live, hbl] at hl
  simp only [Backlog.isValid, Backlog.dataRange, Store.dataRange, hbl, hl, Log.valid, Log.lo, Log.w, Sys.log,
    Sys.size, hst.2.1, ne_eq, not_true_eq_false, if_false, Bool.not_true, Bool.false_eq_true]
  split
  · rename_i hge
    simp only [ge_iff_le, Nat.min_eq_right hge]
  · rename_i hlt
    have : min h.length st.size = h.length := by omega
    simp only [ge_iff_le, this, Nat.sub_self]

/-- valid_iff: while the backlog is open, `IsValid` says exactly whether the reader's position lies
    inside the reported data range `[w − min (w, size), w]` … -/
theorem valid_iff {s : Sys} {h : Bytes} (hr : Reach s h) (hl : s.live = true) {r : Nat} {rd : Reader}
    (hrd : s.rds[r]? = some rd) :
    ∃ b, (s.step (.isValid r)).2 = .valid r b ∧
      (b = true ↔ h.length - min h.length s.size ≤ rd.seek ∧ rd.seek ≤ h.length) := by
  have hv := isValid_eq hr hl rd.seek
  obtain ⟨bl, rds⟩ := s
  simp only at hrd hv
  refine ⟨bl.isValid rd.seek, by simp only [Sys.step, hrd], ?_⟩
  rw [hv, log_valid_iff]
  simp only [Log.lo, Log.w, Sys.log]

/-- … which is exactly when a read at that position would NOT fail with the invalid-offset error. -/
theorem valid_iff_readable {s : Sys} {h : Bytes} (hr : Reach s h) (hl : s.live = true) (seek : Nat) :
    s.bl.isValid seek = true ↔ ¬ (seek > h.length ∨ seek + s.size < h.length) := by
  rw [isValid_eq hr hl]
  rw [log_valid_iff]
  simp only [Log.lo, Log.w, Sys.log]
  omega

/-- `SeekTo` moves an idle reader and answers the validity of the new position. -/
theorem seekTo_valid {s : Sys} {h : Bytes} (hr : Reach s h) (hl : s.live = true) {r seek o : Nat}
    (hrd : s.rds[r]? = some (Reader.mk seek .idle)) :
    (s.step (.seekTo r o)).2 = .valid r ((s.log h).valid o) ∧
    (s.step (.seekTo r o)).1.rds[r]? = some (Reader.mk o .idle) := by
  have hv := isValid_eq hr hl o
  obtain ⟨bl, rds⟩ := s
  simp only at hrd hv
  have hlt : r < rds.length := by
    rcases Nat.lt_or_ge r rds.length with h | h
    · exact h
    · rw [List.getElem?_eq_none h] at hrd; cases hrd
  simp only [Sys.step, hrd, hv, List.getElem?_set, if_true, hlt]
  exact ⟨trivial, trivial⟩

/-- `NewReader` on an open backlog starts at the write position (and is therefore valid). -/
theorem newReader_at_head {s : Sys} {h : Bytes} (hr : Reach s h) (hl : s.live = true) :
    (s.step .newReader).2 = .reader s.rds.length none ∧
    (s.step .newReader).1.rds[s.rds.length]? = some (Reader.mk h.length .idle) := by
  obtain ⟨st, hbl, hst, _⟩ := reach_inv hr
  obtain ⟨bl, rds⟩ := s
  simp only at hbl; subst hbl
  simp only [Sys.live] at hl
  simp [Sys.step, Store.dataRange, hl, hst.2.1]
  split <;> rfl

/-! ### 4. writes never block; wake-ups -/

/-- one `writeSome` on an open backlog with a non-empty buffer never blocks: it accepts at least one
    byte (up to the ring seam), overwriting the oldest data, and appends exactly those bytes to the history. -/
theorem writeSome_spec {s : Sys} {h : Bytes} (hr : Reach s h) (hl : s.live = true) {bs : Bytes} (hbs : bs ≠ []) :
    ∃ n, n = min bs.length (s.size - h.length % s.size) ∧ 1 ≤ n ∧ n ≤ s.size ∧
      (s.step (.writeSome bs)).2 = .wrote n none ∧
      histStep s h (.writeSome bs) = h ++ bs.take n ∧
      (s.step (.writeSome bs)).1.live = true ∧
      (s.step (.writeSome bs)).1.rds = wakeAll s.rds := by
  obtain ⟨st, hbl, hst, _⟩ := reach_inv hr
  obtain ⟨bl, rds⟩ := s
  simp only at hbl; subst hbl
  simp only [Sys.live] at hl
  have hbs' : bs.length ≠ 0 := fun h0 => hbs (List.eq_nil_of_length_eq_zero h0)
  obtain ⟨st', hw, hn, hl', _, _, _, _⟩ := bl_write_live hst hl hbs'
  have hmod := Nat.mod_lt st.wpos hst.1
  refine ⟨_, rfl, ?_⟩
  simp only [Sys.step, histStep, Sys.size, Sys.live, hw, ← hst.2.1, hl', if_true]
  exact ⟨hn, by omega, trivial, trivial, trivial, trivial⟩

/-- close/write wake EVERY parked thread (`Broadcast`), none stays parked -/
theorem wakeAll_spec (rds : List Reader) (r : Nat) :
    (∀ seek k o u, rds[r]? = some (Reader.mk seek (.parked k o u)) →
        (wakeAll rds)[r]? = some (Reader.mk seek (.running k o u))) ∧
    (∀ seek k o u, (wakeAll rds)[r]? ≠ some (Reader.mk seek (.parked k o u))) := by
  refine ⟨fun seek k o u hp => ?_, fun seek k o u => wakeAll_not_parked rds r seek k o u⟩
  rw [wakeAll_get, hp]; rfl

/-- on a closed backlog every read through a non-empty buffer returns 0 bytes and the closed error -/
theorem closed_reads_fail {s : Sys} {h : Bytes} (hr : Reach s h) (hl : s.live = false) {r seek k o : Nat} {u : Bool}
    (hrd : s.rds[r]? = some (Reader.mk seek (.running k o u))) (hk : k ≠ 0) :
    (s.step (.step r)).2 = .done r o 0 [] (some .closed) := by
  rw [read_refines_spec hr hrd]
  simp [Log.read, hk, Sys.log, hl, Outcome.toEv]

/-- close_wakes_all_with_error: `Close`/`CloseWithError` wakes every waiting reader, leaves nobody
    parked, and — whatever else is scheduled before the woken reader runs — its `ReadAt` returns
    0 bytes and the closed-backlog error. -/
theorem close_wakes_all_with_error {s : Sys} {h : Bytes} (hr : Reach s h) (e : Option Err) :
    (s.step (.close e)).1.live = false ∧
    (∀ (r seek k o : Nat) (u : Bool), (s.step (.close e)).1.rds[r]? ≠ some (Reader.mk seek (.parked k o u))) ∧
    ∀ (r seek k o : Nat) (u : Bool), s.rds[r]? = some (Reader.mk seek (.parked k o u)) →
      (s.step (.close e)).1.rds[r]? = some (Reader.mk seek (.running k o u)) ∧
      ∀ ops : List Op, (∀ op ∈ ops, op ≠ .step r) →
        ((runH (s.step (.close e)).1 h ops).1.step (.step r)).2 = .done r o 0 [] (some .closed) := by
  have hr1 : Reach (s.step (.close e)).1 h := Reach.step (.close e) hr
  have hrds : (s.step (.close e)).1.rds = wakeAll s.rds := by
    obtain ⟨bl, rds⟩ := s; rfl
  have hlive : (s.step (.close e)).1.live = false := by
    obtain ⟨st, hbl, hst, _⟩ := reach_inv hr
    obtain ⟨bl, rds⟩ := s
    simp only at hbl; subst hbl
    simp [Sys.step, Backlog.closeWithError, Sys.live, (store_close_inv hst).2.1]
  refine ⟨hlive, fun r seek k o u => by rw [hrds]; exact (wakeAll_spec s.rds r).2 seek k o u, ?_⟩
  intro r seek k o u hp
  have hrun : (s.step (.close e)).1.rds[r]? = some (Reader.mk seek (.running k o u)) := by
    rw [hrds]; exact (wakeAll_spec s.rds r).1 seek k o u hp
  refine ⟨hrun, fun ops hops => ?_⟩
  have hk := (parked_only_at_head hr hp).1
  have hr2 := reach_run hr1 ops
  have hl2 := ((run_size_live (reach_inv hr1) ops).2 hlive).1
  exact closed_reads_fail hr2 hl2 (running_stable_run hrun ops hops) hk

/-- write_wakes_all: a write that adds bytes wakes every waiting reader, and the woken reader's
    `ReadAt` returns at least one of the bytes just written (it was waiting at the old write position). -/
theorem write_wakes_all {s : Sys} {h : Bytes} (hr : Reach s h) (hl : s.live = true) {bs : Bytes} (hbs : bs ≠ []) :
    (∀ (r seek k o : Nat) (u : Bool), (s.step (.writeSome bs)).1.rds[r]? ≠ some (Reader.mk seek (.parked k o u))) ∧
    ∀ (r seek k o : Nat) (u : Bool), s.rds[r]? = some (Reader.mk seek (.parked k o u)) →
      (s.step (.writeSome bs)).1.rds[r]? = some (Reader.mk seek (.running k o u)) ∧
      ∃ n, 1 ≤ n ∧ n ≤ k ∧
        ((s.step (.writeSome bs)).1.step (.step r)).2 = .done r o n (bs.take n) none := by
  obtain ⟨n, hn, hn1, hn2, hev, hh, hl1, hrds⟩ := writeSome_spec hr hl hbs
  have hr1 : Reach (s.step (.writeSome bs)).1 (h ++ bs.take n) := hh ▸ Reach.step (.writeSome bs) hr
  refine ⟨fun r seek k o u => by rw [hrds]; exact (wakeAll_spec s.rds r).2 seek k o u, ?_⟩
  intro r seek k o u hp
  have hrun : (s.step (.writeSome bs)).1.rds[r]? = some (Reader.mk seek (.running k o u)) := by
    rw [hrds]; exact (wakeAll_spec s.rds r).1 seek k o u hp
  obtain ⟨hk, ho, _⟩ := parked_only_at_head hr hp
  subst ho
  refine ⟨hrun, min k n, by omega, Nat.min_le_left _ _, ?_⟩
  rw [read_refines_spec hr1 hrun]
  have hsz : (s.step (.writeSome bs)).1.size = s.size := (step_size_live (reach_inv hr) _).1
  have hmod := Nat.mod_lt h.length (ring_invariant hr).2.1
  have hlen : (h ++ bs.take n).length = h.length + n := by
    rw [List.length_append, List.length_take]; omega
  rcases log_read_cases ((s.step (.writeSome bs)).1.log (h ++ bs.take n)) k h.length with
    ⟨h0, _⟩ | ⟨_, hc, _⟩ | ⟨_, _, hv, _⟩ | ⟨_, _, ho', _⟩ | ⟨_, _, _, _, he⟩
  · exact absurd h0 hk
  · simp [Sys.log, hl1] at hc
  · simp only [Sys.log, Log.w, hlen, hsz] at hv; omega
  · simp only [Sys.log, Log.w, hlen] at ho'; omega
  · rw [he]
    have hc : ((s.step (.writeSome bs)).1.log (h ++ bs.take n)).count k h.length = min k n := by
      simp only [Log.count, Sys.log, Log.w, hlen, hsz]; omega
    rw [hc]
    simp only [Sys.log]
    rw [List.drop_append_of_le_length (Nat.le_refl _), List.drop_length, List.nil_append, List.take_take,
      Nat.min_eq_left (Nat.min_le_right k n)]
    simp only [Outcome.toEv, List.length_take]
    rw [show min (min k n) bs.length = min k n by omega]

/-- `Write(b)` (the loop over `writeSome`) on an open backlog never blocks and never spins: it returns
    `len(b)` without error, and the history grows by exactly `b` — for any length, i.e. any number of
    wrap-arounds in one call. -/
theorem write_all {s : Sys} {h : Bytes} (hr : Reach s h) (hl : s.live = true) (bs : Bytes) :
    ∃ bl', Backlog.write (bs.length + 1) s.bl bs 0 = some (bl', bs.length, none) ∧
      ∃ st', bl' = ⟨some st', none⟩ ∧ StoreInv st' (h ++ bs) ∧ st'.live = true ∧ st'.size = s.size := by
  obtain ⟨st, hbl, hst, _⟩ := reach_inv hr
  simp only [Sys.live, hbl] at hl
  obtain ⟨st', hw, hinv, hl', hsz⟩ := write_loop hst hl bs (bs.length + 1) 0 (by omega)
  rw [hbl, hw]
  exact ⟨_, by simp, st', rfl, hinv, hl', by simp [Sys.size, hbl, hsz]⟩

/-! ### 5. observations about `Close` that lie outside the property (modelled as written) -/

/-- the inverted `nil` test of `CloseWithError`: the error handed in is never stored — `bl.err` stays
    nil for ever; readers get the store's closed-backlog error instead (see `close_wakes_all_with_error`). -/
theorem custom_close_error_lost {s : Sys} {h : Bytes} (hr : Reach s h) (c : Nat) :
    (s.step (.close (some (.custom c)))).1.bl.err = none :=
  (ring_invariant (Reach.step (.close (some (.custom c))) hr)).1

/-- after `Close`, `DataRange` answers `(0, 0)` without an error -/
theorem range_after_close {s : Sys} {h : Bytes} (hr : Reach s h) (hl : s.live = false) :
    (s.step .dataRange).2 = .range 0 0 none := by
  obtain ⟨st, hbl, hst, _⟩ := reach_inv hr
  obtain ⟨bl, rds⟩ := s
  simp only at hbl; subst hbl
  simp only [Sys.live] at hl
  simp [Sys.step, Backlog.dataRange, Store.dataRange, hl]

/-! ### 6. non-vacuity: a schedule on a 4-byte ring that wraps three times, parks two readers, wakes
       them by a write, overwrites a reader, and closes under a parked reader -/

def demoOps : List Op :=
  [.newReader, .newReader, .begin 0 3, .step 0, .begin 1 2, .step 1,
   .writeSome [1, 2, 3, 4, 5, 6], .step 0, .step 1,
   .writeSome [5, 6, 7], .writeSome [8, 9, 10, 11, 12], .writeSome [9, 10, 11, 12], .writeSome [13, 14, 15],
   .begin 0 3, .step 0, .seekTo 0 11, .begin 0 10, .step 0, .begin 0 10, .step 0, .isValid 1, .dataRange,
   .begin 0 5, .step 0, .close (some (.custom 7)), .step 0, .dataRange]

def demo (kind : Kind) := runH (Sys.ofStore (Store.ofSize kind 4 #[])) [] demoOps

example : (demo .mem).2.2 =
  [.reader 0 none, .reader 1 none, .began 0, .parked 0, .began 1, .parked 1,
   .wrote 4 none, .done 0 0 3 [1, 2, 3] none, .done 1 0 2 [1, 2] none,
   .wrote 3 none, .wrote 1 none, .wrote 4 none, .wrote 3 none,
   .began 0, .done 0 3 0 [] (some .invalidOffset), .valid 0 true, .began 0, .done 0 11 1 [12] none,
   .began 0, .done 0 12 3 [13, 14, 15] none, .valid 1 false, .range 11 15 none,
   .began 0, .parked 0, .closed none, .done 0 15 0 [] (some .closed), .range 0 0 none] := by decide +kernel

example : (demo .file).2.2 = (demo .mem).2.2 := by decide +kernel
example : (demo .mem).2.1 = [1, 2, 3, 4, 5, 6, 7, 8, 9, 10, 11, 12, 13, 14, 15] := by decide
example : Reach (demo .file).1 (demo .file).2.1 := reach_all .file 4 #[] (by decide) demoOps

/-- the hypotheses of `read_exact` / `read_refines_spec` hold in a state whose history has wrapped the
    ring three times (reader 0 is about to read 10 bytes at offset 12 of 15 written, capacity 4) -/
example : ∃ s h, Reach s h ∧ h.length > 3 * s.size ∧ s.live = true ∧
    s.rds[0]? = some (Reader.mk 12 (.running 10 12 true)) ∧
    (s.step (.step 0)).2 = .done 0 12 3 [13, 14, 15] none :=
  ⟨_, _, reach_all .mem 4 #[] (by decide) (demoOps.take 19), by decide +kernel, by decide +kernel,
    by decide +kernel, by decide +kernel⟩

/-- the hypotheses of `invalid_iff` (overwritten offset) and of `close_wakes_all_with_error` /
    `parked_only_at_head` (a parked reader) are satisfiable -/
example : ∃ s h, Reach s h ∧ s.live = true ∧ s.rds[0]? = some (Reader.mk 3 (.running 3 3 true)) ∧
    3 + s.size < h.length :=
  ⟨_, _, reach_all .file 4 #[] (by decide) (demoOps.take 14), by decide +kernel, by decide +kernel, by decide +kernel⟩

example : ∃ s h, Reach s h ∧ s.rds[0]? = some (Reader.mk 15 (.parked 5 15 true)) ∧ h.length = 15 :=
  ⟨_, _, reach_all .mem 4 #[] (by decide) (demoOps.take 24), by decide +kernel, by decide +kernel⟩

/-! ### capacity is the least aligned size -/

/-- **no over-allocation.** `align req unit` is the LEAST positive multiple of `unit` that holds `req` bytes: together with
    `align_spec` this pins the capacity of a backlog (and hence where offsets wrap) to one value per request. -/
theorem align_least (req unit m : Nat) (hu : 0 < unit) (hm0 : 0 < m) (hmul : m % unit = 0) (hreq : req ≤ m) :
    align req unit ≤ m := by
  have hk : m = m / unit * unit := by
    have := Nat.div_add_mod m unit; rw [hmul, Nat.mul_comm] at this; omega
  unfold align
  split
  · -- a positive multiple of `unit` is at least `unit`
    have : 1 ≤ m / unit := by
      apply Nat.pos_of_ne_zero; intro h0; rw [h0] at hk; omega
    have := Nat.mul_le_mul_right unit this
    omega
  · apply Classical.byContradiction
    intro hlt
    have hq : m / unit + 1 ≤ (req + unit - 1) / unit := by
      apply Classical.byContradiction
      intro hc
      have : (req + unit - 1) / unit ≤ m / unit := by omega
      have := Nat.mul_le_mul_right unit this
      omega
    have h1 := Nat.mul_le_mul_right unit hq
    have h2 := Nat.div_mul_le_self (req + unit - 1) unit
    rw [Nat.add_mul] at h1
    omega

/-- the pipe (C09) and the backlog (C18) models size their stores with the same function -/
theorem align_models_agree : Backlog.align = Pipe.align := rfl

example : align 5000 4096 = 8192 ∧ align 8192 4096 = 8192 ∧ align 0 4096 = 4096 := by decide
end RSVerif.Properties.C18
