/- C18: property theorems (stub — not built yet) -/
namespace RSVerif.Properties.C18
end RSVerif.Properties.C18
