/- C07: property theorems (stub — not built yet) -/
namespace RSVerif.Properties.C07
end RSVerif.Properties.C07
