import RSVerif.Lemmas.ParallelRestoreProgress
import RSVerif.Generated.C07Facts
/-
C07 — Parallel full sync restores every key exactly once into the right database.

Model: `Model/ParallelRestore.lean` (worker pool of `syncRDBFile` / `restoreRDBFile`, small-step, N workers, one FIFO queue,
`Spec/MiniRedisC07.lean` target with a selected database per connection).  Every theorem quantifies over the number of workers,
the entry list (keys spread over any databases in any order), the configuration (`target.db`, filter predicates, `restoreCmds`)
and ALL schedules `evs : List Ev` — command-granular interleavings including error replies.

  conn_db_invariant, restore_cmd_runs_in_route, lands_in_route   the db discipline
  each_once, each_once_on_success, each_once_schedule_independent, scripts_loaded_once, at_most_once
  terminates_after_all, error_reported, failure_is_real
  parallel1_in_order, value_equality_partial                     (value equality under `parallel = 1 ∨ ¬chunked`, D12)
  counterexample_restore_error_dropped (D11, pinned restore mode), counterexample_chunked_hash_parallel (D12)
  worker_progress, exists_complete_run                            (no deadlock; hypotheses satisfiable for EVERY input)
  source_facts                                                    (structural facts regenerated from the Go source)
-/
namespace RSVerif.Properties.C07
open RSVerif RSVerif.Spec.MiniRedisC07 RSVerif.Model.ParallelRestore RSVerif.Lemmas.ParallelRestore

/-! ## conn_db_invariant -/

/-- On every connection, at every moment a worker is about to send a command of `RestoreRdbEntry(c, e)`, the
    database selected on the *server side* of that connection is the worker's `lastdb`, and that is `route cfg e.DB`
    — for every number of workers, entry list and command-level interleaving. -/
theorem conn_db_invariant (cfg : Cfg) (n : Nat) (entries : List Entry) (evs : List Ev)
    (w : Nat) (e : Entry) (c : DataCmd) (rest : List DataCmd)
    (h : ((run cfg (init n entries) evs).workers w).phase = .run e (c :: rest)) :
    (run cfg (init n entries) evs).server.sel w = ((run cfg (init n entries) evs).workers w).lastdb ∧
    ((run cfg (init n entries) evs).workers w).lastdb = route cfg e.db := by
  have := (reachable cfg n entries evs).inv.worker w
  simp only [WorkerOk, h] at this
  exact ⟨this.1, this.2.1⟩

/-- … hence the very command that is then executed is logged by the server under `route cfg e.DB`. -/
theorem restore_cmd_runs_in_route (cfg : Cfg) (n : Nat) (entries : List Entry) (evs : List Ev)
    (w : Nat) (hw : w < n) (fail : Bool) (e : Entry) (c : DataCmd) (rest : List DataCmd)
    (h : ((run cfg (init n entries) evs).workers w).phase = .run e (c :: rest)) :
    (run cfg (init n entries) (evs ++ [.worker w fail])).server.log =
      (run cfg (init n entries) evs).server.log ++ [{ conn := w, db := route cfg e.db, cmd := c, ok := !fail }] := by
  obtain ⟨h1, h2⟩ := conn_db_invariant cfg n entries evs w e c rest h
  have hn : w < (run cfg (init n entries) evs).n := by rw [run_n]; exact hw
  simp only [run, List.foldl_append, List.foldl_cons, List.foldl_nil, step]
  simp only [run] at h h1 h2 hn
  rw [if_pos hn]
  unfold stepWorker
  simp only [h]
  cases fail
  · simp [h1, h2]
  · cases cfg.mode <;> simp [h1, h2]

/-- Every command the target ever executed belongs to an entry that passes the filters and ran in the database the
    property demands for that entry: its own source database, or `target.db` when configured. -/
theorem lands_in_route (cfg : Cfg) (n : Nat) (entries : List Entry) (evs : List Ev) :
    ∀ x ∈ (run cfg (init n entries) evs).server.log,
      ∃ e ∈ entries, passes cfg e = true ∧ x.cmd ∈ cfg.restoreCmds e ∧ x.db = route cfg e.db :=
  (reachable cfg n entries evs).inv.log

/-! ## terminates_after_all, error_reported -/

/-- The parent returns only when every worker has returned; a successful return (with at least one worker)
    means the queue is exhausted, no worker holds an entry, and no error slot is set; whatever the result, either
    the queue is exhausted or every worker stopped on an error. -/
theorem terminates_after_all (cfg : Cfg) (n : Nat) (entries : List Entry) (evs : List Ev) (r : Bool)
    (h : (run cfg (init n entries) evs).result = some r) :
    (∀ w, w < n → ((run cfg (init n entries) evs).workers w).phase = .returned) ∧
    (∀ w, w < n → pendingOf cfg ((run cfg (init n entries) evs).workers w) = []) ∧
    ((run cfg (init n entries) evs).queue = [] ∨ ∀ w, w < n → ((run cfg (init n entries) evs).workers w).err = true) ∧
    (r = true → 1 ≤ n → (run cfg (init n entries) evs).queue = []) ∧
    (r = true → ∀ w, w < n → ((run cfg (init n entries) evs).workers w).err = false) := by
  have hall := reachable cfg n entries evs
  have hn := run_n cfg (init n entries) evs
  generalize run cfg (init n entries) evs = s at *
  have hn' : s.n = n := hn
  obtain ⟨hret, hr⟩ := hall.term.res r h
  rw [allReturned_iff, hn'] at hret
  have herrs : r = true → ∀ w, w < n → (s.workers w).err = false := by
    intro hrt w hw
    cases he : (s.workers w).err with
    | false => rfl
    | true =>
      have h1 : anyErr s = true := (anyErr_iff s).mpr ⟨w, by rw [hn']; exact hw, he⟩
      rw [h1, hrt] at hr
      exact absurd hr (by decide)
  refine ⟨hret, ?_, ?_, ?_, herrs⟩
  · intro w hw; simp [pendingOf, hret w hw]
  · by_cases hq : s.queue = []
    · exact Or.inl hq
    · right; intro w hw
      rcases hall.term.ret w (by rw [hn']; exact hw) (hret w hw) with h1 | h1
      · exact h1
      · exact absurd h1 hq
  · intro hrt hn1
    rcases hall.term.ret 0 (by omega) (hret 0 (by omega)) with h1 | h1
    · have h2 := herrs hrt 0 (by omega)
      rw [h1] at h2
      exact absurd h2 (by decide)
    · exact h1

/-- Sync mode (and restore mode after the fix): if the target answered any restore command with an error, the run
    does not finish as a success. -/
theorem error_reported (cfg : Cfg) (hm : cfg.mode ≠ .restorePinned) (n : Nat) (entries : List Entry) (evs : List Ev)
    (r : Bool) (h : (run cfg (init n entries) evs).result = some r)
    (hfail : ∃ x ∈ (run cfg (init n entries) evs).server.log, x.ok = false) : r = false := by
  have hall := reachable cfg n entries evs
  generalize run cfg (init n entries) evs = s at *
  obtain ⟨w, hw, he⟩ := (hall.err hm).err hfail
  have := (hall.term.res r h).2
  rw [(anyErr_iff s).mpr ⟨w, hw, he⟩] at this
  simpa using this

/-- conversely, a reported failure is a real one (no spurious failure): an unsuccessful result means the target
    answered some command with an error -/
theorem failure_is_real (cfg : Cfg) (n : Nat) (entries : List Entry) (evs : List Ev)
    (h : (run cfg (init n entries) evs).result = some false) :
    ∃ x ∈ (run cfg (init n entries) evs).server.log, x.ok = false := by
  have hall := reachable cfg n entries evs
  generalize run cfg (init n entries) evs = s at *
  have h1 := (hall.term.res false h).2
  have h2 : anyErr s = true := by
    cases ha : anyErr s with
    | true => rfl
    | false => rw [ha] at h1; exact absurd h1 (by decide)
  obtain ⟨w, -, he⟩ := (anyErr_iff s).mp h2
  exact hall.src.src w he

/-! ## each_once -/

/-- When all workers have returned and no command was answered with an error, the multiset of executed
    `(database, command)` pairs is exactly the multiset the filtered entries call for — every passing entry's commands once,
    in `route cfg e.DB`; nothing of a filtered entry — whatever the schedule and the number of workers. -/
theorem each_once (cfg : Cfg) (n : Nat) (hn1 : 1 ≤ n) (entries : List Entry) (evs : List Ev)
    (hdone : ∀ w, w < n → ((run cfg (init n entries) evs).workers w).phase = .returned)
    (hok : ∀ x ∈ (run cfg (init n entries) evs).server.log, x.ok = true) :
    ((run cfg (init n entries) evs).server.executed).Perm (expected cfg entries) := by
  have hall := reachable cfg n entries evs
  have hn := run_n cfg (init n entries) evs
  generalize run cfg (init n entries) evs = s at *
  have hn' : s.n = n := hn
  have hnoerr : ∀ w, (s.workers w).err = false := by
    intro w
    cases he : (s.workers w).err with
    | false => rfl
    | true =>
      obtain ⟨x, hx, hxo⟩ := hall.src.src w he
      rw [hok x hx] at hxo
      exact absurd hxo (by decide)
  have hq : s.queue = [] := by
    rcases hall.term.ret 0 (by omega) (hdone 0 (by omega)) with h1 | h1
    · rw [hnoerr 0] at h1; exact absurd h1 (by decide)
    · exact h1
  rw [List.perm_iff_count]
  intro p
  have := hall.count hok p
  rw [hq, hn', sumW_zero (fun i hi => by simp [pendingOf, hdone i hi])] at this
  simpa [expected] using this

/-- `each_once` phrased on the parent's return value (sync mode / repaired restore mode): a successful return means
    exactly the expected multiset was executed. -/
theorem each_once_on_success (cfg : Cfg) (hm : cfg.mode ≠ .restorePinned) (n : Nat) (hn1 : 1 ≤ n) (entries : List Entry)
    (evs : List Ev) (h : (run cfg (init n entries) evs).result = some true) :
    ((run cfg (init n entries) evs).server.executed).Perm (expected cfg entries) := by
  have ht := terminates_after_all cfg n entries evs true h
  refine each_once cfg n hn1 entries evs ht.1 ?_
  intro x hx
  cases hxo : x.ok with
  | true => rfl
  | false => exact absurd (error_reported cfg hm n entries evs true h ⟨x, hx, hxo⟩) (by simp)

/-- AT MOST ONCE, unconditionally (any schedule, any error replies, finished or not): no `(database, command)` pair is
    ever executed more often than the filtered entries call for. -/
theorem at_most_once (cfg : Cfg) (n : Nat) (entries : List Entry) (evs : List Ev) (p : Nat × DataCmd) :
    List.count p (run cfg (init n entries) evs).server.executed ≤ List.count p (expected cfg entries) := by
  have := (reachable cfg n entries evs).le p
  omega

/-- independence of the schedule: any two complete error-free runs executed the same multiset -/
theorem each_once_schedule_independent (cfg : Cfg) (n m : Nat) (hn1 : 1 ≤ n) (hm1 : 1 ≤ m) (entries : List Entry)
    (evs evs' : List Ev)
    (hdone : ∀ w, w < n → ((run cfg (init n entries) evs).workers w).phase = .returned)
    (hok : ∀ x ∈ (run cfg (init n entries) evs).server.log, x.ok = true)
    (hdone' : ∀ w, w < m → ((run cfg (init m entries) evs').workers w).phase = .returned)
    (hok' : ∀ x ∈ (run cfg (init m entries) evs').server.log, x.ok = true) :
    ((run cfg (init n entries) evs).server.executed).Perm ((run cfg (init m entries) evs').server.executed) :=
  (each_once cfg n hn1 entries evs hdone hok).trans (each_once cfg m hm1 entries evs' hdone' hok').symm

/-- each Lua script is loaded exactly as often as a passing entry asks for it (once per `lua` aux record) -/
theorem scripts_loaded_once (cfg : Cfg) (n : Nat) (hn1 : 1 ≤ n) (entries : List Entry) (evs : List Ev)
    (hdone : ∀ w, w < n → ((run cfg (init n entries) evs).workers w).phase = .returned)
    (hok : ∀ x ∈ (run cfg (init n entries) evs).server.log, x.ok = true) :
    (((run cfg (init n entries) evs).server.executed).filter fun p => decide (p.2.name = .scriptLoad)).Perm
      ((expected cfg entries).filter fun p => decide (p.2.name = .scriptLoad)) :=
  (each_once cfg n hn1 entries evs hdone hok).filter _

/-! ## Order: one worker restores sequentially; many workers keep the order *per target key* unless a key is split over entries -/

/-- With a single worker (`parallel = 1`) the target executes exactly the sequential command list, in order. -/
theorem parallel1_in_order (cfg : Cfg) (entries : List Entry) (evs : List Ev)
    (hdone : ((run cfg (init 1 entries) evs).workers 0).phase = .returned)
    (hok : ∀ x ∈ (run cfg (init 1 entries) evs).server.log, x.ok = true) :
    (run cfg (init 1 entries) evs).server.executed = expected cfg entries := by
  have hall := reachable cfg 1 entries evs
  have ho : OrdInv cfg entries (fun _ => true) (run cfg (init 1 entries) evs) :=
    ordInv_run_n1 evs (allInv_init cfg 1 entries) (ordInv_init cfg 1 entries _) (Nat.le_refl 1)
  have hn := run_n cfg (init 1 entries) evs
  have := ordInv_final hall ho (by rw [hn]; exact Nat.le_refl 1)
    (fun w hw => by rw [hn] at hw; have : w = 0 := by simp only [init] at hw; omega
                    subst this; exact hdone) hok
  rw [List.filter_eq_self.mpr (fun _ _ => rfl), List.filter_eq_self.mpr (fun _ _ => rfl)] at this
  exact this

/-- "not chunked": no two passing entries write the same target key (so no hash is delivered as several chunk entries,
    and `target.db` does not merge equal key names of different databases), and an entry's commands address its own key. -/
def Unchunked (cfg : Cfg) (entries : List Entry) : Prop := (keysQ cfg entries).Nodup ∧ OwnKey cfg

/-- VALUE EQUALITY, under the explicit hypothesis `parallel = 1 ∨ ¬chunked` (deviation D12):
    after a complete error-free run, every target key holds exactly what the sequential restore leaves there.
    Full statement (false for the pinned code, see `counterexample_chunked_hash_parallel`): the same without `hyp`. -/
theorem value_equality_partial (cfg : Cfg) (n : Nat) (hn1 : 1 ≤ n) (entries : List Entry) (evs : List Ev)
    (hyp : n = 1 ∨ Unchunked cfg entries)
    (hdone : ∀ w, w < n → ((run cfg (init n entries) evs).workers w).phase = .returned)
    (hok : ∀ x ∈ (run cfg (init n entries) evs).server.log, x.ok = true) (d : Nat) (k : Bytes) :
    valueAfter (run cfg (init n entries) evs).server.log d k = valueAfter (seqLog cfg entries) d k := by
  have hseq : ((seqLog cfg entries).map fun x => (x.db, x.cmd)) = expected cfg entries := by
    simp [seqLog, List.map_map, Function.comp_def]
  have hsok : ∀ x ∈ seqLog cfg entries, x.ok = true := by
    intro x hx
    simp only [seqLog, List.mem_map] at hx
    obtain ⟨p, -, rfl⟩ := hx
    rfl
  rw [valueAfter_eq _ hok, valueAfter_eq (seqLog cfg entries) hsok, hseq]
  have hall := reachable cfg n entries evs
  have hn := run_n cfg (init n entries) evs
  have key : (run cfg (init n entries) evs).server.executed.filter (onKey (d, k)) = (expected cfg entries).filter (onKey (d, k)) := by
    rcases hyp with h1 | ⟨hnd, hown⟩
    · subst h1
      rw [parallel1_in_order cfg entries evs (hdone 0 (by omega)) hok]
    · have ho : OrdInv cfg entries (onKey (d, k)) (run cfg (init n entries) evs) :=
        ordInv_run_keys hown (d, k) evs (allInv_init cfg n entries) (uInv_init cfg n entries hnd) (ordInv_init cfg n entries _)
      exact ordInv_final hall ho (by rw [hn]; exact hn1) (fun w hw => hdone w (by rw [hn] at hw; exact hw)) hok
  simp only [Server.executed] at key
  rw [key]

/-! ## Progress: the model does not get stuck, and every input has a completing schedule -/

/-- every action of a worker that has not returned strictly decreases `mu` (entries still queued, weighted by their commands,
    plus what the worker holds): no worker can act forever, and a worker that has not returned can always act. -/
theorem worker_progress (cfg : Cfg) (s : State) (w : Nat) (hw : w < s.n) (fail : Bool)
    (h : (s.workers w).phase ≠ .returned) :
    mu cfg (step cfg s (.worker w fail)) w < mu cfg s w := by
  simp only [step, hw, if_true]
  exact mu_stepWorker cfg s w fail h

/-- a schedule that completes the run for ANY configuration, worker count and entry list: worker 0 does all the work,
    then every worker sees the closed channel, then the parent collects -/
def completeSched (cfg : Cfg) (n : Nat) (entries : List Entry) : List Ev :=
  List.replicate (mu cfg (init n entries) 0 + 1) (.worker 0 false) ++ (List.range n).map (fun w => Ev.worker w false) ++ [.main]

/-- NON-VACUITY at full generality: for every configuration, every `N ≥ 1` and every entry list there is a schedule under which
    the run completes successfully with every worker returned and no error reply — the hypotheses of `each_once`,
    `value_equality_partial`, `terminates_after_all` are satisfiable for every input, and the model cannot deadlock on it. -/
theorem exists_complete_run (cfg : Cfg) (n : Nat) (hn : 1 ≤ n) (entries : List Entry) :
    (run cfg (init n entries) (completeSched cfg n entries)).result = some true ∧
    (∀ w, w < n → ((run cfg (init n entries) (completeSched cfg n entries)).workers w).phase = .returned) ∧
    (∀ x ∈ (run cfg (init n entries) (completeSched cfg n entries)).server.log, x.ok = true) := by
  -- phase 1: worker 0 alone
  have hnf1 : NoFail (List.replicate (mu cfg (init n entries) 0 + 1) (Ev.worker 0 false)) := by
    intro ev hev w h; rw [List.eq_of_mem_replicate hev] at h; simp at h
  have hnf2 : NoFail ((List.range n).map fun w => Ev.worker w false) := by
    intro ev hev w h
    simp only [List.mem_map] at hev
    obtain ⟨v, -, rfl⟩ := hev
    simp at h
  let s1 := run cfg (init n entries) (List.replicate (mu cfg (init n entries) 0 + 1) (.worker 0 false))
  have h1ret : (s1.workers 0).phase = .returned := drained cfg 0 (init n entries) (by simp only [init]; omega)
  obtain ⟨h1n, h1res, h1oth⟩ := run_single_frame cfg 0 (mu cfg (init n entries) 0 + 1) (init n entries)
  have h1ok : ∀ x ∈ s1.server.log, x.ok = true := allOk_run cfg _ _ hnf1 (by simp [init])
  have h1all : AllInv cfg entries s1 := allInv_run _ (allInv_init cfg n entries)
  have h1n' : s1.n = n := h1n
  have h1q : s1.queue = [] := by
    rcases h1all.term.ret 0 (by rw [h1n']; omega) h1ret with h | h
    · obtain ⟨x, hx, hxo⟩ := h1all.src.src 0 h
      rw [h1ok x hx] at hxo; exact absurd hxo (by decide)
    · exact h
  have h1quiet : Quiet s1 := by
    refine ⟨h1q, fun w _ => ?_⟩
    by_cases hw0 : w = 0
    · subst hw0; exact Or.inr h1ret
    · left; rw [h1oth w hw0]; rfl
  -- phase 2: every worker once
  obtain ⟨-, h2n, h2res, h2ret, -⟩ := quiet_run cfg (List.range n) s1
    (fun w hw => by rw [h1n']; exact List.mem_range.mp hw) h1quiet
  let s2 := run cfg s1 ((List.range n).map fun w => Ev.worker w false)
  have h2ok : ∀ x ∈ s2.server.log, x.ok = true := allOk_run cfg _ _ hnf2 h1ok
  have h2all : AllInv cfg entries s2 := allInv_run _ h1all
  have h2n' : s2.n = n := h2n.trans h1n'
  have h2none : s2.result = none := h2res.trans h1res
  have h2allret : allReturned s2 = true := by
    rw [allReturned_iff]; intro w hw; exact h2ret w (List.mem_range.mpr (by rw [h2n'] at hw; exact hw))
  have h2noerr : anyErr s2 = false := by
    cases ha : anyErr s2 with
    | false => rfl
    | true =>
      obtain ⟨w, -, he⟩ := (anyErr_iff s2).mp ha
      obtain ⟨x, hx, hxo⟩ := h2all.src.src w he
      rw [h2ok x hx] at hxo; exact absurd hxo (by decide)
  -- phase 3: the parent
  have hrun : run cfg (init n entries) (completeSched cfg n entries) = stepMain s2 := by
    simp only [completeSched, run, List.foldl_append, List.foldl_cons, List.foldl_nil, step]
    rfl
  have hmain : stepMain s2 = { s2 with result := some true } := by
    simp [stepMain, h2none, h2allret, h2noerr]
  rw [hrun, hmain]
  refine ⟨rfl, fun w hw => h2ret w (List.mem_range.mpr hw), h2ok⟩

/-! ## Facts the model takes from the shape of the Go source (regenerated by factgen on every run) -/

/-- In both `syncRDBFile` and `restoreRDBFile` (current source): `lastdb` is a variable of the worker goroutine, initialised
    to 0 (the database of a fresh connection, `Worker.lastdb := 0` / `Server.sel := 0`); the SELECT bookkeeping stands before
    `RestoreRdbEntry`; the result of `RestoreRdbEntry` is looked at (restore mode: since fixes/C07-restore-error.patch —
    this is what makes `Mode.restoreFixed` the model of the current code); the parent waits with `wg.Wait()`. -/
theorem source_facts :
    Generated.C07.syncLastdbInit = 0 ∧ Generated.C07.restoreLastdbInit = 0 ∧
    Generated.C07.syncLastdbPerWorker = true ∧ Generated.C07.restoreLastdbPerWorker = true ∧
    Generated.C07.syncSelectBeforeRestore = true ∧ Generated.C07.restoreSelectBeforeRestore = true ∧
    Generated.C07.syncRestoreErrorChecked = true ∧ Generated.C07.restoreRestoreErrorChecked = true ∧
    Generated.C07.syncWaitsForWorkers = true ∧ Generated.C07.restoreWaitsForWorkers = true := by decide

/-! ## Non-vacuity witnesses and counter-examples (kernel-evaluated runs of the model) -/

/-- demo configuration: db 9 filtered, key "x" filtered, key_exists = rewrite, Lua not filtered -/
def demoCfg (mode : Mode) (tdb : Option Nat) : Cfg :=
  { mode := mode, targetDB := tdb, filterDB := fun d => d == 9, filterKey := fun k => k == [120],
    filterSlot := fun _ => false, restoreCmds := concreteCmds true false }

/-- keys spread over databases 0, 3, 5, 9 in no particular order; a Lua record; a two-field big hash that expires -/
def demoEntries : List Entry :=
  [ { db := 3, key := [97] }, { db := 0, key := [98] }, { db := 3, key := [120] }, { db := 9, key := [99] },
    { db := 0, key := [108, 117, 97], kind := 1, body := [[1, 2]] },
    { db := 5, key := [104], kind := 2, expire := true, body := [[1], [2]] }, { db := 3, key := [100] } ]

/-- three workers, commands interleaved -/
def demoSched : List Ev :=
  [ .worker 0 false, .worker 1 false, .worker 2 false,   -- w0 takes a (db 3: SELECT pending), w1 takes b (db 0), w2 takes x (db 3)
    .worker 2 false,                                     -- w2: SELECT 3, then key filter: dropped
    .worker 0 false, .worker 1 false, .worker 0 false,   -- w0: SELECT 3 ; w1: RESTORE b ; w0: RESTORE a
    .worker 2 false, .worker 2 false,                    -- w2 takes c (db 9: filtered), takes lua (db 0 ≠ 3: SELECT pending)
    .worker 1 false, .worker 1 false,                    -- w1 takes h (db 5), SELECT 5
    .worker 2 false, .worker 1 false, .worker 2 false,   -- w2: SELECT 0 ; w1: DEL h ; w2: SCRIPT LOAD
    .worker 0 false, .worker 1 false, .worker 0 false,   -- w0 takes d (db 3 = lastdb: no SELECT) ; w1: HSET ; w0: RESTORE d
    .worker 1 false, .worker 1 false,                    -- w1: HSET, PEXPIRE
    .main,                                               -- parent still blocked
    .worker 0 false, .worker 1 false, .worker 2 false, .main ]

example : (run (demoCfg .sync none) (init 3 demoEntries) demoSched).result = some true := by decide
example : (run (demoCfg .sync none) (init 3 demoEntries) (demoSched.take 20)).result = none := by decide
example : ((run (demoCfg .sync none) (init 3 demoEntries) demoSched).server.log.map fun x => (x.conn, x.db, x.cmd.name)) =
    [(1, 0, .restore), (0, 3, .restore), (1, 5, .del), (2, 0, .scriptLoad), (1, 5, .hset), (0, 3, .restore), (1, 5, .hset), (1, 5, .pexpire)] := by
  decide


/-- hypotheses of `each_once` / `value_equality_partial` hold for the demo run (3 workers, 7 entries, 4 databases) -/
example : (∀ w, w < 3 → ((run (demoCfg .sync none) (init 3 demoEntries) demoSched).workers w).phase = .returned) ∧
    (∀ x ∈ (run (demoCfg .sync none) (init 3 demoEntries) demoSched).server.log, x.ok = true) := by decide

/-- hypothesis of `conn_db_invariant`: after 10 events worker 1 holds the big hash of db 5 and is about to send DEL -/
example : ((run (demoCfg .sync none) (init 3 demoEntries) (demoSched.take 11)).workers 1).phase =
    .run { db := 5, key := [104], kind := 2, expire := true, body := [[1], [2]] }
      (concreteCmds true false { db := 5, key := [104], kind := 2, expire := true, body := [[1], [2]] }) := by decide

/-- with `target.db = 7` everything that passes the filters lands in database 7 -/
example : ((run (demoCfg .sync (some 7)) (init 2 demoEntries) (roundRobin 2 12)).server.log.map fun x => x.db) =
    [7, 7, 7, 7, 7, 7, 7, 7] ∧ (run (demoCfg .sync (some 7)) (init 2 demoEntries) (roundRobin 2 12)).result = some true := by decide

/-- the `¬chunked` hypothesis is satisfiable (and holds for the demo entries) -/
example : Unchunked (demoCfg .sync none) demoEntries := ⟨by decide, concreteCmds_ownKey true false⟩

/-- sync mode: the target rejects the RESTORE of key "b" ⇒ the run reports a failure, the other workers still drain the queue -/
example :
    let s := run (demoCfg .sync none) (init 2 demoEntries)
      ([.worker 0 false, .worker 1 false, .worker 0 false, .worker 1 true] ++ List.replicate 16 (.worker 0 false) ++ [.main])
    s.result = some false ∧ s.queue = [] ∧ (s.workers 1).err = true ∧ (s.workers 0).err = false := by decide

/-- D11, pinned `restoreRDBFile`: the target rejects the only RESTORE, the key is absent from the target, and the run
    still finishes as a success.  (`error_reported` excludes exactly this mode.) -/
theorem counterexample_restore_error_dropped :
    let s := run (demoCfg .restorePinned none) (init 1 [{ db := 0, key := [97] }])
      [.worker 0 false, .worker 0 true, .worker 0 false, .main]
    s.result = some true ∧ (∃ x ∈ s.server.log, x.ok = false) ∧ valueAfter s.server.log 0 [97] = none := by decide

/-- the same schedule after fixes/C07-restore-error.patch: the failure is reported -/
example :
    (run (demoCfg .restoreFixed none) (init 1 [{ db := 0, key := [97] }])
      [.worker 0 false, .worker 0 true, .worker 0 false, .main]).result = some false := by decide

/-- one hash delivered as two chunk entries (first chunk: `NeedReadLen = 1`, continuation: `NeedReadLen = 0`) -/
def chunkEntries : List Entry :=
  [ { db := 0, key := [104], kind := 2, body := [[1]] }, { db := 0, key := [104], kind := 3, body := [[2]] } ]

/-- worker 0 takes the first chunk, worker 1 the second; worker 1's HSET reaches the target before worker 0's DEL -/
def chunkSched : List Ev :=
  [ .worker 0 false, .worker 1 false, .worker 1 false, .worker 0 false, .worker 0 false, .worker 0 false, .worker 1 false, .main ]

/-! ### Restore mode over several input files (`CmdRestore.Main`)

`Main` puts the input files into a channel; `source.rdb.parallel` routines take files from it, each file goes through
`dbRestorer.restore` (= `restoreRDBFile`, sections above), whose failure ends the process (`log.PanicErrorf`). Which
routine gets which file, and in which order, is decided by the scheduler. The model: a *schedule* is any way of dealing
the files out to the routines — a list of per-routine file lists whose concatenation is a permutation of the inputs; a
routine works through its list and stops the whole run at its first failing file. Whatever the schedule, the run is
reported as failed iff some input file fails — no later success of the same routine (or of another one) can hide it. -/

/-- one routine: `true` = it hit a failing file (the process exits there) -/
def routineFails (files : List Bool) : Bool := files.any id

/-- the run: failed iff some routine hit a failing file -/
def mainFails (schedule : List (List Bool)) : Bool := schedule.any routineFails

theorem main_reports_any_failure (files : List Bool) (schedule : List (List Bool))
    (hdeal : schedule.flatten.Perm files) : mainFails schedule = files.any id := by
  have h1 : ∀ sch : List (List Bool), mainFails sch = sch.flatten.any id := by
    intro sch
    unfold mainFails routineFails
    induction sch with
    | nil => rfl
    | cons r rs ih => simp only [List.any_cons, List.flatten_cons, List.any_append, ih]
  rw [h1 schedule]
  apply Bool.eq_iff_iff.mpr
  simp only [List.any_eq_true, id]
  constructor
  · rintro ⟨x, hx, hxt⟩; exact ⟨x, hdeal.mem_iff.mp hx, hxt⟩
  · rintro ⟨x, hx, hxt⟩; exact ⟨x, hdeal.mem_iff.mpr hx, hxt⟩

/-- the variant a seeded change produced: a routine remembers only the outcome of the LAST file it handled. Then a
    schedule exists under which a failing file goes unreported (one routine: failing file first, a good one after it) -/
def routineFailsLastOnly (files : List Bool) : Bool := files.getLast?.getD false

theorem counterexample_last_file_only :
    (List.any [[true, false]] routineFailsLastOnly) = false ∧ [true, false].any id = true := by decide

/-- D12: with two workers and `key_exists = rewrite` the DEL issued for the first chunk of a big hash can wipe a later
    chunk that another worker has already written: the run succeeds, every command was executed exactly once
    (`each_once`), and the hash has lost field 2.  The entries violate `Unchunked`, the worker count is not 1. -/
theorem counterexample_chunked_hash_parallel :
    let s := run (demoCfg .sync none) (init 2 chunkEntries) chunkSched
    s.result = some true ∧ (∀ x ∈ s.server.log, x.ok = true) ∧
    valueAfter s.server.log 0 [104] = some [[1]] ∧
    valueAfter (seqLog (demoCfg .sync none) chunkEntries) 0 [104] = some [[1], [2]] ∧
    ¬ (keysQ (demoCfg .sync none) chunkEntries).Nodup := by decide

/-- … while one worker restores the same chunks correctly -/
example : valueAfter (run (demoCfg .sync none) (init 1 chunkEntries) (roundRobin 1 6)).server.log 0 [104] = some [[1], [2]] := by
  decide

/-- zero workers "succeed" without restoring anything: `1 ≤ n` in `terminates_after_all` / `each_once` is necessary -/
example : (run (demoCfg .sync none) (init 0 demoEntries) [.main]).result = some true ∧
    (run (demoCfg .sync none) (init 0 demoEntries) [.main]).queue = demoEntries := by decide

end RSVerif.Properties.C07
