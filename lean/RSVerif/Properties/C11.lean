import RSVerif.Model.Dump
import RSVerif.Model.Tee
import RSVerif.Lemmas.Crc64
import RSVerif.Lemmas.Bytes
/-
C11 — Checksums are the Redis CRC-64 of the covered bytes; corruption is detected.
Property theorems only (helper lemmas live in RSVerif.Lemmas.*).
-/
namespace RSVerif.Properties.C11
open RSVerif RSVerif.Spec.Crc64 RSVerif.Lemmas.Crc64 RSVerif.Lemmas.Bytes RSVerif.Dump

/-! ### 1. Both in-repo tables are the bitwise CRC of their index (re-checked against the source) -/

theorem table_size_digest : Generated.crc64TableDigest.size = 256 := by decide +kernel
theorem table_size_cupcake : Generated.crc64TableCupcake.size = 256 := by decide +kernel

theorem table_spec_digest :
    ∀ i : Fin 256, Generated.crc64TableDigest[i.val]! = bitStep8 (UInt64.ofNat i.val) := by
  decide +kernel

theorem table_spec_cupcake :
    ∀ i : Fin 256, Generated.crc64TableCupcake[i.val]! = bitStep8 (UInt64.ofNat i.val) := by
  decide +kernel

/-! ### 2. The digests equal the specification for every state and every byte string -/

theorem digest_eq_spec (crc : UInt64) (bs : Bytes) : Crc64.digestUpdate crc bs = update crc bs := by
  unfold Crc64.digestUpdate Crc64.updateT update
  induction bs generalizing crc with
  | nil => rfl
  | cons b bs ih => simp only [List.foldl_cons, byteStep_eq _ table_spec_digest]; exact ih _

theorem cupcake_eq_spec (crc : UInt64) (bs : Bytes) : Crc64.cupcakeUpdate crc bs = update crc bs := by
  unfold Crc64.cupcakeUpdate Crc64.updateT update
  induction bs generalizing crc with
  | nil => rfl
  | cons b bs ih => simp only [List.foldl_cons, byteStep_eq _ table_spec_cupcake]; exact ih _

/-- the checksum that WRITES dump payloads (`digest`, used by createValueDump / the RDB writer) and the one that VERIFIES
    them (`cupcake`, used by the RESTORE payload check and the RDB loader) are one function: what one side appends the
    other side accepts, for every running state and every byte string. -/
theorem crc64_copies_agree (crc : UInt64) (bs : Bytes) : Crc64.digestUpdate crc bs = Crc64.cupcakeUpdate crc bs := by
  rw [digest_eq_spec, cupcake_eq_spec]

theorem update_append (crc : UInt64) (a b : Bytes) : update crc (a ++ b) = update (update crc a) b := by
  simp [update, List.foldl_append]

/-- The digest is independent of how the bytes are split across `Write` calls. -/
theorem hash_writes (chunks : List Bytes) : Crc64.writes chunks = crc64 chunks.flatten := by
  have gen : ∀ (cs : List Bytes) (c : UInt64), cs.foldl Crc64.digestUpdate c = update c cs.flatten := by
    intro cs
    induction cs with
    | nil => intro c; rfl
    | cons x xs ih => intro c; simp only [List.foldl_cons, List.flatten_cons, update_append, digest_eq_spec]; exact ih _
  exact gen chunks 0

example : Crc64.writes [[1,2],[],[3]] = crc64 [1,2,3] := hash_writes _

/-- `Sum(nil)` is the little-endian rendering and determines the state. -/
theorem sum_le (crc : UInt64) : ofLe64 (Crc64.sum crc) = crc := ofLe64_le64 crc

/-! ### 2b. The running checksum of the loader does not depend on how the source delivers its bytes

`Model/Tee.lean`: the loader reads through `io.ReadFull` over a tee into the digest; the source hands its bytes out in
pieces of its own choosing. Whatever the pieces — network segments, bufio refills, one byte at a time, empty reads, a last
piece together with EOF — a request for `n` bytes returns the next `n` bytes of the stream, leaves exactly the rest, and
has fed exactly those `n` bytes into the CRC, each once. -/

theorem readFull_spec : ∀ (ps : List Bytes) (n : Nat) (crc : UInt64),
    (n ≤ ps.flatten.length →
      ∃ ps', Tee.readFull n ps crc = some (ps.flatten.take n, ps', update crc (ps.flatten.take n)) ∧
        ps'.flatten = ps.flatten.drop n) ∧
    (ps.flatten.length < n → Tee.readFull n ps crc = none)
  | [], n, crc => by
    cases n with
    | zero => exact ⟨fun _ => ⟨[], by simp [Tee.readFull, update], by simp⟩, fun h => by simp at h⟩
    | succ n => exact ⟨fun h => by simp at h, fun _ => by simp [Tee.readFull]⟩
  | pc :: ps, n, crc => by
    cases n with
    | zero =>
      exact ⟨fun _ => ⟨pc :: ps, by simp [Tee.readFull, update], by simp⟩, fun h => by simp at h⟩
    | succ n =>
      by_cases hle : pc.length ≤ n + 1
      · have ih := readFull_spec ps (n + 1 - pc.length) (Crc64.digestUpdate crc pc)
        constructor
        · intro hn
          have hn' : n + 1 - pc.length ≤ ps.flatten.length := by
            simp only [List.flatten_cons, List.length_append] at hn; omega
          obtain ⟨ps', hr, hfl⟩ := ih.1 hn'
          refine ⟨ps', ?_, ?_⟩
          · simp only [Tee.readFull, hle, if_true, hr, List.flatten_cons]
            have ht : (pc ++ ps.flatten).take (n + 1) = pc ++ ps.flatten.take (n + 1 - pc.length) := by
              rw [List.take_append]; simp [List.take_of_length_le hle]
            rw [ht, update_append, digest_eq_spec]
          · simp only [List.flatten_cons]
            rw [hfl, List.drop_append]
            simp [List.drop_eq_nil_of_le hle]
        · intro hn
          have hn' : ps.flatten.length < n + 1 - pc.length := by
            simp only [List.flatten_cons, List.length_append] at hn; omega
          simp only [Tee.readFull, hle, if_true, ih.2 hn']
      · have hlt : n + 1 < pc.length := by omega
        constructor
        · intro _
          refine ⟨pc.drop (n + 1) :: ps, ?_, ?_⟩
          · simp only [Tee.readFull, hle, if_false, List.flatten_cons]
            have ht : (pc ++ ps.flatten).take (n + 1) = pc.take (n + 1) := by
              rw [List.take_append]; simp [Nat.sub_eq_zero_of_le (Nat.le_of_lt hlt)]
            rw [ht, digest_eq_spec]
          · simp only [List.flatten_cons]
            rw [List.drop_append]
            simp [Nat.sub_eq_zero_of_le (Nat.le_of_lt hlt)]
        · intro hn
          simp only [List.flatten_cons, List.length_append] at hn
          omega

/-- two deliveries of the same byte stream: the same bytes come back and the digest is in the same state -/
theorem readFull_delivery_independent (ps qs : List Bytes) (h : ps.flatten = qs.flatten) (n : Nat) (crc : UInt64) :
    (Tee.readFull n ps crc).map (fun r => (r.1, r.2.2)) = (Tee.readFull n qs crc).map (fun r => (r.1, r.2.2)) := by
  by_cases hn : n ≤ ps.flatten.length
  · obtain ⟨ps', hp, _⟩ := (readFull_spec ps n crc).1 hn
    obtain ⟨qs', hq, _⟩ := (readFull_spec qs n crc).1 (h ▸ hn)
    rw [hp, hq, h]; rfl
  · have hp := (readFull_spec ps n crc).2 (by omega)
    have hq := (readFull_spec qs n crc).2 (by rw [← h]; omega)
    rw [hp, hq]

/-- after any sequence of requests that the stream can satisfy, the digest is the CRC-64 of exactly the bytes handed out
    so far, in order, each once — the value `Footer()` compares with the trailer -/
theorem readAll_crc : ∀ (ns : List Nat) (ps : List Bytes) (crc : UInt64) (bs : List Bytes) (ps' : List Bytes) (c : UInt64),
    Tee.readAll ns ps crc = some (bs, ps', c) →
      bs.flatten = ps.flatten.take ns.sum ∧ ps'.flatten = ps.flatten.drop ns.sum ∧ c = update crc bs.flatten
  | [], ps, crc, bs, ps', c, h => by
    simp only [Tee.readAll, Option.some.injEq, Prod.mk.injEq] at h
    obtain ⟨rfl, rfl, rfl⟩ := h
    simp [update]
  | n :: ns, ps, crc, bs, ps', c, h => by
    simp only [Tee.readAll] at h
    by_cases hn : n ≤ ps.flatten.length
    · obtain ⟨p1, hr, hfl⟩ := (readFull_spec ps n crc).1 hn
      rw [hr] at h
      simp only [] at h
      cases hrest : Tee.readAll ns p1 (update crc (ps.flatten.take n)) with
      | none => simp [hrest] at h
      | some r =>
        obtain ⟨bs2, p2, c2⟩ := r
        simp only [hrest, Option.some.injEq, Prod.mk.injEq] at h
        obtain ⟨rfl, rfl, rfl⟩ := h
        obtain ⟨h1, h2, h3⟩ := readAll_crc ns p1 _ bs2 p2 c2 hrest
        refine ⟨?_, ?_, ?_⟩
        · simp only [List.flatten_cons, List.sum_cons, h1, hfl]
          rw [List.take_add]
        · rw [h2, hfl, List.drop_drop, List.sum_cons]
        · rw [h3, List.flatten_cons, update_append]
    · rw [(readFull_spec ps n crc).2 (by omega)] at h
      simp at h

/-- three pieces with an empty read in between vs. one segment -/
example : (Tee.readFull 3 [[1], [], [2, 3, 4]] 0).map (fun r => (r.1, r.2.2)) =
    (Tee.readFull 3 [[1, 2, 3, 4]] 0).map (fun r => (r.1, r.2.2)) :=
  readFull_delivery_independent [[1], [], [2, 3, 4]] [[1, 2, 3, 4]] (by decide) 3 0

/-! ### 3. Any single-byte substitution changes the CRC -/

theorem update_inj_state (bs : Bytes) (c1 c2 : UInt64) (h : update c1 bs = update c2 bs) : c1 = c2 := by
  induction bs generalizing c1 c2 with
  | nil => exact h
  | cons b bs ih => exact byteStep_inj_state b _ _ (ih _ _ h)

theorem single_byte_detected (c : UInt64) (p s : Bytes) (x y : UInt8) (hxy : x ≠ y) :
    update c (p ++ x :: s) ≠ update c (p ++ y :: s) := by
  intro h
  rw [update_append, update_append] at h
  have h1 : update (update c p) [x] = update (update c p) [y] := by
    apply update_inj_state s
    simpa [update] using h
  exact hxy (byteStep_inj_byte _ _ _ h1)

/-! ### 4. Trailers: what `createValueDump` emits verifies; alterations are rejected -/

/-- the checksum relation both payload checkers and the footer test -/
def checksumOK (d : Bytes) : Prop := ofLe64 (d.drop (d.length - 8)) = crc64 (d.take (d.length - 8))

theorem createValueDump_checksumOK (t : UInt8) (v : Bytes) : checksumOK (createValueDump t v) := by
  unfold checksumOK createValueDump
  simp only []
  have hl : ∀ (b : Bytes), (b ++ le64 (Crc64.digestUpdate 0 b)).length - 8 = b.length := by
    intro b; simp [le64_length]
  rw [hl, List.drop_left, List.take_left, ofLe64_le64, digest_eq_spec]; rfl

/-- an intact checksummed artefact with one byte substituted anywhere fails the checksum relation -/
theorem alter_breaks_checksum (p s : Bytes) (x y : UInt8) (hxy : x ≠ y)
    (hlen : 8 ≤ (p ++ x :: s).length) (hok : checksumOK (p ++ x :: s)) : ¬ checksumOK (p ++ y :: s) := by
  unfold checksumOK at *
  have hlen' : (p ++ y :: s).length = (p ++ x :: s).length := by simp
  rw [hlen']
  generalize hn : (p ++ x :: s).length - 8 = n at *
  simp only [List.length_append, List.length_cons] at hn hlen
  by_cases hs : 8 ≤ s.length
  · -- the altered byte lies in the covered part
    obtain ⟨k, hk⟩ : ∃ k, n - p.length = k + 1 := ⟨n - p.length - 1, by omega⟩
    have e1 : ∀ z : UInt8, List.take n (p ++ z :: s) = p ++ z :: s.take k := by
      intro z
      rw [List.take_append, List.take_of_length_le (by omega), hk, List.take_succ_cons]
    have e2 : ∀ z : UInt8, List.drop n (p ++ z :: s) = s.drop k := by
      intro z
      rw [List.drop_append, List.drop_of_length_le (by omega), hk, List.drop_succ_cons]; rfl
    rw [e1, e2] at hok ⊢
    intro h
    rw [h] at hok
    exact single_byte_detected 0 p _ x y hxy hok.symm
  · -- the altered byte lies in the 8-byte trailer
    have hpn : n ≤ p.length := by omega
    have e1 : ∀ z : UInt8, List.take n (p ++ z :: s) = p.take n := by
      intro z
      rw [List.take_append]
      have : n - p.length = 0 := by omega
      simp [this]
    have e2 : ∀ z : UInt8, List.drop n (p ++ z :: s) = p.drop n ++ z :: s := by
      intro z
      rw [List.drop_append]
      have : n - p.length = 0 := by omega
      simp [this]
    rw [e1, e2] at hok ⊢
    intro h
    rw [← hok] at h
    have hl : ∀ z : UInt8, (p.drop n ++ z :: s).length = 8 := by
      intro z; simp; omega
    have := ofLe64_inj _ _ (hl y) (hl x) h
    have := List.append_cancel_left this
    simp at this
    exact hxy this.symm

theorem verifyDump_ok_iff_checksum (d : Bytes) (h : verifyDump d = .ok ()) : checksumOK d := by
  unfold checksumOK crc64
  rw [← cupcake_eq_spec]
  simp only [verifyDump] at h
  by_cases h1 : d.length < 10
  · simp [h1] at h
  · by_cases h2 : ofLe16 (List.take 2 (List.drop (d.length - 10) d)) ≠ UInt16.ofNat Generated.cupcakeVersion.toNat
    · simp [h1, h2] at h
    · by_cases h3 : ofLe64 (d.drop (d.length - 8)) ≠ Crc64.cupcakeUpdate 0 (d.take (d.length - 8))
      · simp [h1, h2, h3] at h
      · simpa using h3

theorem checkVersionChecksum_ok_checksum (d : Bytes) (r : Nat × UInt64)
    (h : checkVersionChecksum d = .ok r) : checksumOK d := by
  unfold checksumOK
  simp only [checkVersionChecksum] at h
  by_cases h1 : d.length < 10
  · simp [h1] at h
  · by_cases h2 : versionOf d > Generated.commonRDBVersion.toNat
    · simp [h1, h2] at h
    · by_cases h3 : ofLe64 (d.drop (d.length - 8)) ≠ crc64 (d.take (d.length - 8))
      · simp [h1, h2, h3] at h
      · simpa using h3

/-- the two version constants the emitter and the strict checker use agree (regenerated) -/
theorem versions_agree : Generated.rdbToVersion = Generated.cupcakeVersion ∧
    Generated.rdbToVersion ≤ Generated.commonRDBVersion ∧ 0 ≤ Generated.rdbToVersion ∧
    Generated.rdbToVersion < 65536 := by decide

theorem createValueDump_length (t : UInt8) (v : Bytes) : (createValueDump t v).length = v.length + 11 := by
  simp [createValueDump, le64_length, le16]

theorem createValueDump_version (t : UInt8) (v : Bytes) :
    ((createValueDump t v).drop ((createValueDump t v).length - 10)).take 2 = le16 toVersion16 := by
  rw [createValueDump_length]
  unfold createValueDump
  simp only []
  have e : ∀ r : Bytes, [t] ++ v ++ le16 toVersion16 ++ r = ([t] ++ v) ++ (le16 toVersion16 ++ r) := by
    intro r; simp
  have : v.length + 11 - 10 = ([t] ++ v).length := by simp
  rw [this, e, List.drop_left]
  simp [le16]

/-- every payload the tool emits verifies under the strict checker … -/
theorem dump_verifies (t : UInt8) (v : Bytes) : verifyDump (createValueDump t v) = .ok () := by
  unfold verifyDump
  have hl := createValueDump_length t v
  have hv := createValueDump_version t v
  have hc := createValueDump_checksumOK t v
  unfold checksumOK at hc
  rw [if_neg (by omega)]
  simp only [hv]
  have hver : ofLe16 (le16 toVersion16) = UInt16.ofNat Generated.cupcakeVersion.toNat := by decide
  rw [hver, cupcake_eq_spec]
  simp [hc]; rfl

/-- … and under the rump-path checker, which reports the emitted version and the checksum. -/
theorem dump_checkVersion_ok (t : UInt8) (v : Bytes) :
    checkVersionChecksum (createValueDump t v) =
      .ok (Generated.rdbToVersion.toNat, ofLe64 ((createValueDump t v).drop ((createValueDump t v).length - 8))) := by
  unfold checkVersionChecksum
  have hl := createValueDump_length t v
  have hv := createValueDump_version t v
  have hc := createValueDump_checksumOK t v
  unfold checksumOK at hc
  rw [if_neg (by omega)]
  unfold versionOf
  simp only [hv]
  have hver : (ofLe16 (le16 toVersion16)).toNat = Generated.rdbToVersion.toNat := by decide
  rw [hver]
  have : ¬ Generated.rdbToVersion.toNat > Generated.commonRDBVersion.toNat := by decide
  rw [if_neg this]
  simp [hc]

/-- shorter than the 10-byte trailer ⇒ rejected by both checkers -/
theorem dump_rejects_short (d : Bytes) (h : d.length < 10) :
    verifyDump d = .error .length ∧ checkVersionChecksum d = .error .length := by
  simp [verifyDump, checkVersionChecksum, h]

/-- a version above the supported one ⇒ rejected (whatever the checksum says) -/
theorem dump_rejects_version (d : Bytes) (hl : 10 ≤ d.length)
    (hv : versionOf d > Generated.commonRDBVersion.toNat) :
    checkVersionChecksum d = .error .version ∧ verifyDump d = .error .version := by
  constructor
  · unfold checkVersionChecksum
    rw [if_neg (by omega)]; simp only []; rw [if_pos hv]
  · unfold verifyDump
    rw [if_neg (by omega)]; simp only []
    have : ofLe16 (List.take 2 (List.drop (d.length - 10) d)) ≠ UInt16.ofNat Generated.cupcakeVersion.toNat := by
      intro h
      unfold versionOf at hv
      rw [h] at hv
      revert hv; decide
    rw [if_pos this]

/-- any single-byte alteration of an emitted payload is rejected by both checkers -/
theorem dump_rejects_alter (t : UInt8) (v p s : Bytes) (x y : UInt8) (hxy : x ≠ y)
    (hd : createValueDump t v = p ++ x :: s) :
    verifyDump (p ++ y :: s) ≠ .ok () ∧ ∀ r, checkVersionChecksum (p ++ y :: s) ≠ .ok r := by
  have hok := createValueDump_checksumOK t v
  have hl := createValueDump_length t v
  rw [hd] at hok hl
  have hbad := alter_breaks_checksum p s x y hxy (by omega) hok
  exact ⟨fun h => hbad (verifyDump_ok_iff_checksum _ h),
         fun r h => hbad (checkVersionChecksum_ok_checksum _ r h)⟩

/-- non-vacuity: a concrete emitted payload and a concrete alteration -/
example : createValueDump 0 [3, 97, 98, 99] = [0, 3, 97] ++ 98 :: (createValueDump 0 [3, 97, 98, 99]).drop 4 := by
  decide +kernel

/-! ### 5. The end-of-file check -/

/-- an intact file (covered bytes followed by the little-endian CRC of them) is accepted -/
theorem footer_accepts (covered : Bytes) : footerOk covered (le64 (crc64 covered)) = true := by
  simp [footerOk, ofLe64_le64, digest_eq_spec, crc64]

/-- substituting any covered byte, or any checksum byte, makes the footer check fail -/
theorem footer_rejects_data (p s : Bytes) (x y : UInt8) (hxy : x ≠ y) :
    footerOk (p ++ y :: s) (le64 (crc64 (p ++ x :: s))) = false := by
  simp only [footerOk, ofLe64_le64, digest_eq_spec, crc64, beq_eq_false_iff_ne, ne_eq]
  exact single_byte_detected 0 p s x y hxy

theorem footer_rejects_trailer (covered tr : Bytes) (hl : tr.length = 8) (hne : tr ≠ le64 (crc64 covered)) :
    footerOk covered tr = false := by
  simp only [footerOk, digest_eq_spec, beq_eq_false_iff_ne, ne_eq]
  intro h
  apply hne
  apply ofLe64_inj _ _ hl (le64_length _)
  rw [ofLe64_le64]; exact h

/-! ### 6. D14 — the pinned `CheckVersionChecksum` ignored the high version byte -/

/-- Witness: trailer version 262 (= 0x0106) is *accepted* by the pinned computation whenever the
    checksum matches, although 262 > 9. (The model `checkVersionChecksum` above is the repaired one.) -/
def witness262 : Bytes := [0, 0, 0x06, 0x01] ++ le64 (crc64 [0, 0, 0x06, 0x01])

theorem counterexample_version_262 :
    versionOf witness262 = 262 ∧
    checkVersionChecksumPinned witness262 = .ok (6, crc64 [0, 0, 0x06, 0x01]) ∧
    checkVersionChecksum witness262 = .error .version := by
  decide +kernel

end RSVerif.Properties.C11
