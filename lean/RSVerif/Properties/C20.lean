import RSVerif.Model.Supervisor
import RSVerif.Lemmas.Supervisor
/-
C20 — Source re-discovery selects a node that really is the master.

All theorems quantify over every known-node list `s` (`Source` + `Slaves`, duplicates allowed), every fault
sequence `out : attempt → position → Probe` (what the probe of the node at that position yields in that
attempt: connect error, command error, or an arbitrary INFO text), and — where it says `code` — over both
variants of the loop body (as pinned / with fixes/C20-displaced-master.patch). `k` is the number of attempts
made, so `out (k - 1)` is the attempt that returned. Termination is by construction: `recursiveGetSlotState`
is structurally recursive on the retry depth (the back-off sleeps are not modelled).
Helper lemmas live in RSVerif.Lemmas.Supervisor.
-/
namespace RSVerif.Properties.C20
open RSVerif RSVerif.Supervisor RSVerif.Spec.Supervisor RSVerif.Lemmas.Supervisor

/-! ### 1. Facts re-extracted from the source on every run -/

/-- the retry depth `New` configures is not negative (a negative Go `int` would never meet `== 0`) -/
theorem maxRetries_nonneg : 0 ≤ Generated.Supervisor.maxRetries := by decide

/-- … so the `Nat` depth the model recurses on is the extracted Go `int`, not a truncation of it -/
theorem maxRetries_faithful : (maxRetries : Int) = Generated.Supervisor.maxRetries := by decide

/-- both patterns have a shape the model interprets (`^literal` or `literal`) -/
theorem regex_shapes_supported :
    regexSupported Generated.Supervisor.masterRegex = true ∧
    regexSupported Generated.Supervisor.slaveRegex = true := by decide

/-- … and they are exactly `^role:master` and `^role:slave` -/
theorem regexes_are_role_prefixes :
    Generated.Supervisor.masterRegex = 94 :: masterLine ∧
    Generated.Supervisor.slaveRegex = 94 :: slaveLine := by decide

/-! ### 2. Role parsing as coded equals the role the INFO text reports -/

/-- `getRedisNodeState` (split on LF, first line matching `masterRegex`, else `slaveRegex`; otherwise an
error) concludes, for every probe outcome and every text, what the spec's byte scan says. -/
theorem getRedisNodeState_eq_spec (p : Probe) : getRedisNodeState p = nodeState p := by
  unfold getRedisNodeState
  rw [regexes_are_role_prefixes.1, regexes_are_role_prefixes.2]
  cases p with
  | connErr => rfl
  | cmdErr => rfl
  | info text =>
    simp only [getRedisNodeStateWith, nodeState, reportedRole, (scan_eq text).1]
    cases roleFrom true text <;> rfl

theorem getRedisNodeState_fun : getRedisNodeState = nodeState := funext getRedisNodeState_eq_spec

/-- what the driver prints (the loop run with the spec's reading of each probe) is the model of the code -/
theorem driver_prediction_is_model (code : Code) (s : SyncNode) (out : Nat → Nat → Probe) :
    getSlotStateWith code nodeState s out = getSlotState code s out := by
  rw [getSlotState, getRedisNodeState_fun]

/-- master answer ⇔ the code's `isMaster && err == nil` -/
theorem answer_master_iff (p : Probe) : answer p = .master ↔ getRedisNodeState p = .ok true := by
  rw [getRedisNodeState_eq_spec]
  unfold answer
  cases h : nodeState p with
  | error e => simp
  | ok b => cases b <;> simp

/-- faulty nodes (unreachable, command error, no role line) are never taken for masters, nor are replicas -/
theorem faulty_or_replica_not_master (p : Probe) :
    (p = .connErr ∨ p = .cmdErr ∨ (∃ t, p = .info t ∧ reportedRole t ≠ some true)) →
      getRedisNodeState p ≠ .ok true := by
  rw [getRedisNodeState_eq_spec]
  rintro (h | h | ⟨t, h, hr⟩) <;> subst h
  · simp [nodeState]
  · simp [nodeState]
  · unfold nodeState
    cases hrr : reportedRole t with
    | none => simp [hrr]
    | some b => cases b <;> simp_all

/-- CRLF texts: a trailing CR does not hide the role (first-line case, any continuation) -/
theorem crlf_tolerated (rest : Bytes) :
    reportedRole (masterLine ++ 13 :: 10 :: rest) = some true ∧
    reportedRole (slaveLine ++ 13 :: 10 :: rest) = some false := by
  constructor <;> rfl

/-- `role:master` in a non-leading position of a line does not count -/
theorem non_leading_ignored (b : UInt8) (hb : b ≠ 10) :
    reportedRole (b :: masterLine) = none := by
  have h1 : (b == 10) = false := by simp [hb]
  simp [reportedRole, roleFrom, masterLine, slaveLine, ascii, List.isPrefixOf, h1]

/-! ### 3. The selection -/

/-- `masterFound` of an attempt ⇔ some probed position answered master -/
theorem attempt_finds_master_iff (code : Code) (s : SyncNode) (o : Nat → Probe) :
    (probeAll code getRedisNodeState s o).masterFound = true ↔
      ∃ i, i < (hosts s).length ∧ answer (o i) = .master := by
  unfold probeAll
  rw [probeLoop_masterFound]
  simp [answer_master_iff]

/-- **chosen_is_master**: the returned `Source` is a known node whose probe, in the attempt that returned,
answered `role:master`. -/
theorem chosen_is_master (code : Code) (s : SyncNode) (out : Nat → Nat → Probe) (n : SyncNode) (k : Nat)
    (h : getSlotState code s out = ⟨.ok n, k⟩) :
    ∃ i, (hosts s)[i]? = some n.source ∧ answer (out (k - 1) i) = .master := by
  obtain ⟨b, hk, _, _, hm, hn, _⟩ := rec_ok _ _ _ _ _ _ _ _ h
  subst hk hn
  have := probeLoop_source getRedisNodeState code (out b) (hosts s) []
    { source := s.source, slaves := [], masterFound := false } (by simp) (by simpa [probeAll] using hm)
  obtain ⟨j, hj, hmj⟩ := this
  exact ⟨j, by simpa [probeAll] using hj, by simpa [answer_master_iff] using hmj⟩

/-- **never_faulty_chosen**: a node none of whose probes in the returning attempt answered master — because
it was unreachable, answered with an error, reported no role, or reported `role:slave` — is not the
returned `Source`. -/
theorem never_faulty_chosen (code : Code) (s : SyncNode) (out : Nat → Nat → Probe) (n : SyncNode) (k : Nat)
    (h : getSlotState code s out = ⟨.ok n, k⟩) (host : String)
    (hf : ∀ i, (hosts s)[i]? = some host → answer (out (k - 1) i) ≠ .master) : n.source ≠ host := by
  obtain ⟨i, hi, hm⟩ := chosen_is_master code s out n k h
  intro heq
  exact hf i (heq ▸ hi) hm

/-- with distinct node names: the chosen node's own probe answered master (so it was neither faulty nor a
replica) -/
theorem never_faulty_chosen_nodup (code : Code) (s : SyncNode) (out : Nat → Nat → Probe) (n : SyncNode) (k : Nat)
    (h : getSlotState code s out = ⟨.ok n, k⟩) (hnd : (hosts s).Nodup) (i : Nat)
    (hi : (hosts s)[i]? = some n.source) : answer (out (k - 1) i) = .master := by
  obtain ⟨j, hj, hm⟩ := chosen_is_master code s out n k h
  have : i = j := by
    have h1 := List.getElem?_eq_some_iff.1 hi
    have h2 := List.getElem?_eq_some_iff.1 hj
    obtain ⟨hi', hie⟩ := h1
    obtain ⟨hj', hje⟩ := h2
    exact (List.getElem_inj hnd).1 (hie.trans hje.symm)
  exact this ▸ hm

/-- **known_nodes_preserved** (repaired code): `Source` plus `Slaves` of the answer is exactly the multiset
of known nodes — nothing dropped, nothing invented, nothing duplicated. -/
theorem known_nodes_preserved (s : SyncNode) (out : Nat → Nat → Probe) (n : SyncNode) (k : Nat)
    (h : getSlotState .repaired s out = ⟨.ok n, k⟩) : (n.source :: n.slaves).Perm (hosts s) := by
  obtain ⟨b, _, _, _, hm, hn, _⟩ := rec_ok _ _ _ _ _ _ _ _ h
  subst hn
  have := probeLoop_inv getRedisNodeState (out b) (hosts s) 0
    { source := s.source, slaves := [], masterFound := false } [] (by simp [LoopInv])
  unfold LoopInv at this
  rw [probeAll] at hm
  simpa [probeAll, hm] using this

/-- **others_listed** (repaired code): every known node other than the returned `Source` is in `Slaves`. -/
theorem others_listed (s : SyncNode) (out : Nat → Nat → Probe) (n : SyncNode) (k : Nat)
    (h : getSlotState .repaired s out = ⟨.ok n, k⟩) :
    ∀ host ∈ hosts s, host ≠ n.source → host ∈ n.slaves := by
  intro host hh hne
  have := (known_nodes_preserved s out n k h).mem_iff.2 hh
  simpa [hne] using this

/-- nothing is listed that was not known -/
theorem slaves_are_known (s : SyncNode) (out : Nat → Nat → Probe) (n : SyncNode) (k : Nat)
    (h : getSlotState .repaired s out = ⟨.ok n, k⟩) : ∀ host ∈ n.slaves, host ∈ hosts s := by
  intro host hh
  exact (known_nodes_preserved s out n k h).mem_iff.1 (by simp [hh])

/-- the three clauses together, in the vocabulary of the spec -/
theorem selection_correct (s : SyncNode) (out : Nat → Nat → Probe) (n : SyncNode) (k : Nat)
    (h : getSlotState .repaired s out = ⟨.ok n, k⟩) :
    Correct (hosts s) (fun i => answer (out (k - 1) i)) n :=
  ⟨chosen_is_master _ s out n k h, others_listed s out n k h, slaves_are_known s out n k h⟩

/-! ### 4. The retry loop is bounded and never settles for a replica -/

/-- **bounded**: at least one and at most `maxRetries + 1` rounds of probing -/
theorem bounded (code : Code) (s : SyncNode) (out : Nat → Nat → Probe) :
    1 ≤ (getSlotState code s out).attempts ∧ (getSlotState code s out).attempts ≤ maxRetries + 1 := by
  cases hr : getSlotState code s out with
  | mk res k =>
    cases res with
    | ok n =>
      obtain ⟨b, hk, _, hb, _⟩ := rec_ok _ _ _ _ _ _ _ _ hr
      simp only; omega
    | maxRetriesReached =>
      obtain ⟨hk, _⟩ := rec_err _ _ _ _ _ _ _ hr
      simp only; omega

/-- **error_iff_no_master**: the error is returned exactly when no node answered master in any of the
`maxRetries + 1` attempts — and then all of them were made. -/
theorem error_iff_no_master (code : Code) (s : SyncNode) (out : Nat → Nat → Probe) :
    (getSlotState code s out).result = .maxRetriesReached ↔
      ∀ a, a ≤ maxRetries → ∀ i, i < (hosts s).length → answer (out a i) ≠ .master := by
  constructor
  · intro hres
    cases hr : getSlotState code s out with
    | mk res k =>
      rw [hr] at hres
      simp only at hres
      subst hres
      obtain ⟨_, hall⟩ := rec_err _ _ _ _ _ _ _ hr
      intro a ha i hi hm
      have := hall a (Nat.zero_le _) (by omega)
      have hf := (attempt_finds_master_iff code s (out a)).2 ⟨i, hi, hm⟩
      rw [hf] at this
      exact Bool.noConfusion this
  · intro hall
    cases hr : getSlotState code s out with
    | mk res k =>
      cases res with
      | maxRetriesReached => rfl
      | ok n =>
        obtain ⟨b, _, _, hb, hm, _⟩ := rec_ok _ _ _ _ _ _ _ _ hr
        obtain ⟨i, hi, hmi⟩ := (attempt_finds_master_iff code s (out b)).1 hm
        exact absurd hmi (hall b (by omega) i hi)

theorem error_after_all_attempts (code : Code) (s : SyncNode) (out : Nat → Nat → Probe) (k : Nat)
    (h : getSlotState code s out = ⟨.maxRetriesReached, k⟩) : k = maxRetries + 1 := by
  obtain ⟨hk, _⟩ := rec_err _ _ _ _ _ _ _ h
  omega

/-- **returns_at_first_master**: no earlier attempt saw a master (the loop does not pass one by) -/
theorem returns_at_first_master (code : Code) (s : SyncNode) (out : Nat → Nat → Probe) (n : SyncNode) (k : Nat)
    (h : getSlotState code s out = ⟨.ok n, k⟩) :
    ∀ a, a + 1 < k → ∀ i, i < (hosts s).length → answer (out a i) ≠ .master := by
  obtain ⟨b, hk, _, _, _, _, hprev⟩ := rec_ok _ _ _ _ _ _ _ _ h
  intro a ha i hi hm
  have := hprev a (Nat.zero_le _) (by omega)
  have hf := (attempt_finds_master_iff code s (out a)).2 ⟨i, hi, hm⟩
  rw [hf] at this
  exact Bool.noConfusion this

/-- **succeeds_when_master_appears**: a master answer within the bound is found -/
theorem succeeds_when_master_appears (code : Code) (s : SyncNode) (out : Nat → Nat → Probe)
    (a i : Nat) (ha : a ≤ maxRetries) (hi : i < (hosts s).length) (hm : answer (out a i) = .master) :
    ∃ n, (getSlotState code s out).result = .ok n := by
  cases hr : (getSlotState code s out).result with
  | ok n => exact ⟨n, rfl⟩
  | maxRetriesReached => exact absurd hm ((error_iff_no_master code s out).1 hr a ha i hi)

/-! ### 5. Deviation D21 (pinned code) and what the repair changes -/

private def mI : Probe := .info (masterLine ++ [13, 10])
private def sI : Probe := .info (slaveLine ++ [13, 10])

/-- **counterexample_two_masters** (pinned code): nodes `a, b, c`; `a` and `b` answer master, `c` replica.
The answer is `Source = b`, `Slaves = [c]`: the known node `a` is in neither. -/
theorem counterexample_two_masters :
    getSlotState .pinned ⟨"a", ["b", "c"]⟩ (fun _ i => if i < 2 then mI else sI) = ⟨.ok ⟨"b", ["c"]⟩, 1⟩ ∧
    "a" ∈ hosts ⟨"a", ["b", "c"]⟩ ∧ "a" ≠ "b" ∧ "a" ∉ ["c"] := by decide

/-- the repaired code on the same input keeps `a` -/
theorem repaired_two_masters :
    getSlotState .repaired ⟨"a", ["b", "c"]⟩ (fun _ i => if i < 2 then mI else sI) = ⟨.ok ⟨"b", ["a", "c"]⟩, 1⟩ := by
  decide

/-- If in every attempt that is made at most one position answers master, the pinned and the repaired
code return the same thing: the repair changes nothing but the several-masters case. -/
theorem repair_only_affects_several_masters (s : SyncNode) (out : Nat → Nat → Probe)
    (huniq : ∀ a j k, j < (hosts s).length → k < (hosts s).length →
      answer (out a j) = .master → answer (out a k) = .master → j = k) :
    getSlotState .pinned s out = getSlotState .repaired s out := by
  have hp : ∀ a, probeAll .pinned getRedisNodeState s (out a) = probeAll .repaired getRedisNodeState s (out a) := by
    intro a
    unfold probeAll
    apply probeLoop_pinned_eq
    · simp
    · intro j k hj hk h1 h2
      exact huniq a j k (by simpa using hj) (by simpa using hk) ((answer_master_iff _).2 h1) ((answer_master_iff _).2 h2)
  unfold getSlotState getSlotStateWith
  generalize maxRetries = d
  generalize 0 = a
  induction d generalizing a with
  | zero => simp [recursiveGetSlotState, hp]
  | succ d ih => simp [recursiveGetSlotState, hp, ih]

/-- **others_listed_pinned_partial**: for the code as pinned the listing is complete when at most one node
answers master per attempt (the full statement `others_listed` is false of it: `counterexample_two_masters`). -/
theorem others_listed_pinned_partial (s : SyncNode) (out : Nat → Nat → Probe) (n : SyncNode) (k : Nat)
    (huniq : ∀ a j k, j < (hosts s).length → k < (hosts s).length →
      answer (out a j) = .master → answer (out a k) = .master → j = k)
    (h : getSlotState .pinned s out = ⟨.ok n, k⟩) :
    ∀ host ∈ hosts s, host ≠ n.source → host ∈ n.slaves := by
  rw [repair_only_affects_several_masters s out huniq] at h
  exact others_listed s out n k h

/-! ### 6. The acceptor used by the driver is the spec -/

/-- whatever `correct` accepts satisfies the three clauses of the property, and conversely -/
theorem correct_iff (hs : List String) (ans : Nat → Answer) (n : SyncNode) :
    correct hs ans n = true ↔ Correct hs ans n := by
  unfold correct
  simp only [Bool.and_eq_true, List.contains_iff_mem, List.all_eq_true, Bool.or_eq_true, beq_iff_eq]
  constructor
  · rintro ⟨⟨h1, h2⟩, h3⟩
    refine ⟨?_, ?_, ?_⟩
    · obtain ⟨j, hj, hm⟩ := (mem_masterNames ans n.source hs 0).1 h1
      exact ⟨j, hj, by simpa using hm⟩
    · intro h hh hne
      rcases h2 h hh with h' | h'
      · exact absurd h' hne
      · exact h'
    · exact h3
  · rintro ⟨⟨j, hj, hm⟩, h2, h3⟩
    refine ⟨⟨(mem_masterNames ans n.source hs 0).2 ⟨j, hj, by simpa using hm⟩, ?_⟩, h3⟩
    intro h hh
    by_cases hne : h = n.source
    · exact Or.inl hne
    · exact Or.inr (h2 h hh hne)

/-- the model's own answer is accepted -/
theorem selection_accepted (s : SyncNode) (out : Nat → Nat → Probe) (n : SyncNode) (k : Nat)
    (h : getSlotState .repaired s out = ⟨.ok n, k⟩) :
    correct (hosts s) (fun i => answer (out (k - 1) i)) n = true :=
  (correct_iff _ _ _).2 (selection_correct s out n k h)

/-! ### 7. Non-vacuity: the hypotheses above are inhabited by real runs -/

/-- promoted replica: the old master `a` refuses connections, `b` is still a replica in attempts 0–1 and
answers master from attempt 2 on; `c` sends garbage. Returned at the third attempt. -/
example : getSlotState .repaired ⟨"a", ["b", "c"]⟩
    (fun a i => if i = 0 then .connErr else if i = 1 then (if a < 2 then sI else mI) else .info [1, 2, 3]) =
    ⟨.ok ⟨"b", ["a", "c"]⟩, 3⟩ := by decide

/-- no master ever: error after exactly `maxRetries + 1 = 7` attempts -/
example : getSlotState .repaired ⟨"a", ["b"]⟩ (fun _ i => if i = 0 then .cmdErr else sI) =
    ⟨.maxRetriesReached, 7⟩ := by decide

/-- master only in the last permitted attempt (index `maxRetries`) is still found -/
example : getSlotState .repaired ⟨"a", ["b"]⟩ (fun a i => if a = 6 ∧ i = 1 then mI else sI) =
    ⟨.ok ⟨"b", ["a"]⟩, 7⟩ := by decide

/-- … and one attempt later is too late -/
example : getSlotState .repaired ⟨"a", ["b"]⟩ (fun a i => if a = 7 ∧ i = 1 then mI else sI) =
    ⟨.maxRetriesReached, 7⟩ := by decide

/-- `role:master` after a `role:slave` line, or not at the start of a line, does not make a master -/
example : answer (.info (slaveLine ++ [13, 10] ++ masterLine ++ [13, 10])) = .replica := by decide
example : answer (.info (32 :: masterLine)) = .faulty := by decide
example : answer (.info ([35, 32, 82, 13, 10] ++ masterLine ++ [13, 10])) = .master := by decide
example : answer (.info []) = .faulty := by decide

/-- the uniqueness hypothesis of the `_partial` theorem holds for an ordinary shard -/
example : ∀ a j k, j < 3 → k < 3 →
    answer ((fun (_ : Nat) i => if i = 1 then mI else sI) a j) = .master →
    answer ((fun (_ : Nat) i => if i = 1 then mI else sI) a k) = .master → j = k := by
  intro a j k hj hk
  have : ∀ j, j < 3 → answer (if j = 1 then mI else sI) = .master → j = 1 := by decide
  intro h1 h2
  rw [this j hj h1, this k hk h2]

end RSVerif.Properties.C20
