/- C20: property theorems (stub — not built yet) -/
namespace RSVerif.Properties.C20
end RSVerif.Properties.C20
