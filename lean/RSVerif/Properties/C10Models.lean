/-
C10 (cross-model) — the decimal renderers written independently for different specifications are one function.
`Spec.Resp.fmtNat` (C10: RESP integers, bulk/array lengths) and `Spec.MiniRedisC02.fmtNat` (C02: TTL / IDLETIME / FREQ
arguments of RESTORE as redigo writes them) were written by different builders with different recursion schemes.
-/
import RSVerif.Spec.Resp
import RSVerif.Spec.MiniRedisC02
import RSVerif.Spec.Slot
import RSVerif.Spec.Filter
namespace RSVerif.Properties.C10
open RSVerif

private theorem digitsRev_reverse (f n : Nat) :
    (Spec.MiniRedisC02.digitsRev f n).reverse = Spec.Resp.natDigitsF f n := by
  induction f generalizing n with
  | zero => rfl
  | succ f ih =>
    simp only [Spec.MiniRedisC02.digitsRev, Spec.Resp.natDigitsF, Spec.Resp.digitChar]
    split
    · rfl
    · rw [List.reverse_cons, ih]

/-- the number text of the C02 specification is the number text of the C10 specification, for every natural number -/
theorem decimal_specs_agree (n : Nat) : Spec.MiniRedisC02.fmtNat n = Spec.Resp.fmtNat n :=
  digitsRev_reverse (n + 1) n

/-- … and for non-negative integers it is `fmtInt` -/
theorem decimal_specs_agree_int (n : Nat) : Spec.Resp.fmtInt (n : Int) = Spec.MiniRedisC02.fmtNat n := by
  rw [decimal_specs_agree]
  unfold Spec.Resp.fmtInt
  have : ¬ ((n : Int) < 0) := by omega
  simp [this]

example : Spec.MiniRedisC02.fmtNat 1048601 = [49, 48, 52, 56, 54, 48, 49] := by decide

private def cvt (c : Char) : UInt8 := UInt8.ofNat c.toNat

private theorem digit_cvt (d : Nat) (h : d < 10) : cvt (Nat.digitChar d) = Spec.Resp.digitChar d := by
  have : d = 0 ∨ d = 1 ∨ d = 2 ∨ d = 3 ∨ d = 4 ∨ d = 5 ∨ d = 6 ∨ d = 7 ∨ d = 8 ∨ d = 9 := by omega
  rcases this with h | h | h | h | h | h | h | h | h | h <;> subst h <;> decide

private theorem core_spec (f : Nat) : ∀ (n : Nat) (acc : List Char), n < f →
    (Nat.toDigitsCore 10 f n acc).map cvt = Spec.Resp.natDigitsF f n ++ acc.map cvt := by
  induction f with
  | zero => intro n acc h; omega
  | succ f ih =>
    intro n acc h
    unfold Nat.toDigitsCore Spec.Resp.natDigitsF
    by_cases h10 : n < 10
    · have hd : n / 10 = 0 := by omega
      have hm : n % 10 = n := by omega
      simp [hd, hm, h10, digit_cvt n h10]
    · have hd : n / 10 ≠ 0 := by omega
      simp only [hd, if_false, h10]
      rw [ih (n / 10) _ (by omega)]
      simp [digit_cvt (n % 10) (by omega)]

/-- the decimal text of the C15 specification (names of the synthetic latency keys, via `Nat.toDigits`) is the C10 number text -/
theorem itoa_is_fmtNat (n : Nat) : Spec.Slot.itoa n = Spec.Resp.fmtNat n := by
  unfold Spec.Slot.itoa Spec.Resp.fmtNat Nat.toDigits
  have := core_spec (n + 1) n [] (by omega)
  simp only [List.map_nil, List.append_nil] at this
  exact this

private noncomputable def E (l : List Char) : Bytes := l.utf8Encode.data.toList

private theorem E_cons (c : Char) (l : List Char) : E (c :: l) = E [c] ++ E l := by
  unfold E; rw [List.utf8Encode_cons]; simp

private theorem E_digit (d : Nat) (h : d < 10) : E [Nat.digitChar d] = [Spec.Resp.digitChar d] := by
  have : d = 0 ∨ d = 1 ∨ d = 2 ∨ d = 3 ∨ d = 4 ∨ d = 5 ∨ d = 6 ∨ d = 7 ∨ d = 8 ∨ d = 9 := by omega
  rcases this with h | h | h | h | h | h | h | h | h | h <;> subst h <;> decide

private theorem coreE (f : Nat) : ∀ (n : Nat) (acc : List Char), n < f →
    E (Nat.toDigitsCore 10 f n acc) = Spec.Resp.natDigitsF f n ++ E acc := by
  induction f with
  | zero => intro n acc h; omega
  | succ f ih =>
    intro n acc h
    unfold Nat.toDigitsCore Spec.Resp.natDigitsF
    by_cases h10 : n < 10
    · have hd : n / 10 = 0 := by omega
      have hm : n % 10 = n := by omega
      simp only [hd, if_true, h10, hm]
      rw [E_cons, E_digit n h10]
    · have hd : n / 10 ≠ 0 := by omega
      simp only [hd, if_false, h10]
      rw [ih (n / 10) _ (by omega), E_cons, E_digit (n % 10) (by omega)]
      simp

private theorem reprE (n : Nat) : (Nat.repr n).toByteArray.data.toList = Spec.Resp.fmtNat n := by
  unfold Nat.repr Spec.Resp.fmtNat Nat.toDigits
  rw [String.toByteArray_ofList]
  have := coreE (n + 1) n [] (by omega)
  simpa [E] using this

/-- the decimal text of the C06 specification (database lists; via `Int.repr`) is the C10 number text, for every integer -/
theorem filter_decimal_is_fmtInt (i : Int) : Spec.Filter.decimal i = Spec.Resp.fmtInt i := by
  unfold Spec.Filter.decimal Spec.Resp.fmtInt Int.repr
  cases i with
  | ofNat m =>
    have : ¬ (Int.ofNat m < 0) := by simp
    simp only [this, if_false]
    exact reprE m
  | negSucc m =>
    have : Int.negSucc m < 0 := Int.negSucc_lt_zero m
    simp only [this, if_true]
    rw [String.toByteArray_append]
    simp only [ByteArray.data_append, Array.toList_append]
    rw [reprE]
    rfl

example : Spec.Filter.decimal (-15) = [45, 49, 53] := by rw [filter_decimal_is_fmtInt]; decide

end RSVerif.Properties.C10
