/-
C10 (cross-model) — the decimal renderers written independently for different specifications are one function.
`Spec.Resp.fmtNat` (C10: RESP integers, bulk/array lengths) and `Spec.MiniRedisC02.fmtNat` (C02: TTL / IDLETIME / FREQ
arguments of RESTORE as redigo writes them) were written by different builders with different recursion schemes.
-/
import RSVerif.Spec.Resp
import RSVerif.Spec.MiniRedisC02
namespace RSVerif.Properties.C10
open RSVerif

private theorem digitsRev_reverse (f n : Nat) :
    (Spec.MiniRedisC02.digitsRev f n).reverse = Spec.Resp.natDigitsF f n := by
  induction f generalizing n with
  | zero => rfl
  | succ f ih =>
    simp only [Spec.MiniRedisC02.digitsRev, Spec.Resp.natDigitsF, Spec.Resp.digitChar]
    split
    · rfl
    · rw [List.reverse_cons, ih]

/-- the number text of the C02 specification is the number text of the C10 specification, for every natural number -/
theorem decimal_specs_agree (n : Nat) : Spec.MiniRedisC02.fmtNat n = Spec.Resp.fmtNat n :=
  digitsRev_reverse (n + 1) n

/-- … and for non-negative integers it is `fmtInt` -/
theorem decimal_specs_agree_int (n : Nat) : Spec.Resp.fmtInt (n : Int) = Spec.MiniRedisC02.fmtNat n := by
  rw [decimal_specs_agree]
  unfold Spec.Resp.fmtInt
  have : ¬ ((n : Int) < 0) := by omega
  simp [this]

example : Spec.MiniRedisC02.fmtNat 1048601 = [49, 48, 52, 56, 54, 48, 49] := by decide
end RSVerif.Properties.C10
