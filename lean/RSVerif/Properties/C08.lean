import RSVerif.Lemmas.Offsets
/-
C08 — Offsets reported to the source are exactly "start offset + bytes consumed".

Model: `RSVerif.Offsets` (Model/Offsets.lean), the code after `fixes/C08-ack-offset.patch`; the pinned code is
`stepPinned` (counterexamples at the end). Every theorem quantifies over ALL event histories `h`
(`recv k | tick | staleTick c | waitFullClosed | connDrop | reopenFail | quietHour | reconnect reply`, any order, any
length: idle periods, bursts, drops and reconnects at any point, ACK goroutines that outlive their
connection) and all start offsets; `s0` ranges over the states in which the incremental phase can start
(`Started`: runIncrementalSync on an established connection, or right after the handshake of sendPSyncCmd).

"Bytes received so far" is measured independently of the counters of the code: it is the number of stream
bytes that have been written to the pipe (`pipe.length`).

`0 ≤ start` (replication offsets announced by a Redis source are non-negative) is needed wherever the
keep-alive `REPLCONF ACK 0` (sent while the full sync is still running) or the `-1` sentinel of
SendPSyncContinue could otherwise interfere; `ack_exact` and `tag_base_constant` hold for every integer.
-/
namespace RSVerif.Properties.C08
open RSVerif RSVerif.Offsets

/-- The constants of the source, regenerated on every run, are the ones the property speaks of:
    `if offset != -1 { offset += 1 }`, `offset - 1` on +CONTINUE, `REPLCONF ACK 0` while waiting. -/
theorem code_constants : Consts.code.ok := by
  unfold Consts.ok Consts.code
  decide

/-- The driver validates the traces of the real code against the model instantiated with the constants as
    the property states them (`Consts.spec`); they are the constants of the code the theorems are about. -/
theorem code_eq_spec : Consts.code = Consts.spec := by
  unfold Consts.code Consts.spec
  decide

/-- States in which the incremental phase starts with announced offset `start` and run id `rid`:
    nothing received yet, copy loop running on connection 0, the source about to send offset `start + 1`,
    and no ACK sent so far (the handshake output, if any, is in `out`). -/
def Started (start : Int) (rid : Bytes) (s0 : St) : Prop :=
  ∃ o0, acksOf o0 = [] ∧ s0 = { init start rid with out := o0 }

theorem started_init (start : Int) (rid : Bytes) : Started start rid (init start rid) :=
  ⟨[], rfl, rfl⟩

/-- sendPSyncCmd answered `+FULLRESYNC rid' off`: the phase starts at the announced `off` with run id `rid'`,
    whatever offset the tool had before. -/
theorem started_begin_full (inOff : Int) (rid rid' : Bytes) (off : Int) :
    Started off rid' (begin Consts.code inOff rid (.full rid' off)) :=
  ⟨[.psync 0 rid (psyncArg Consts.code inOff)], rfl, rfl⟩

/-- sendPSyncCmd answered `+CONTINUE`: the phase starts at the offset the tool came with. -/
theorem started_begin_cont (inOff : Int) (rid : Bytes) (h : 0 ≤ inOff) :
    Started inOff rid (begin Consts.code inOff rid .cont) := by
  refine ⟨[.psync 0 rid (psyncArg Consts.code inOff)], rfl, ?_⟩
  have hk := code_constants
  have h1 : psyncArg Consts.code inOff = inOff + 1 := psyncArg_ok hk h
  simp only [begin, h1, hk.2.2.1]
  have e : inOff + 1 - 1 = inOff := by omega
  rw [e]
  rfl

/-- the first PSYNC of sendPSyncCmd asks for the offset after the one the tool has (`-1` stays `-1`). -/
theorem first_psync (inOff : Int) (rid : Bytes) (r : Reply0) (h : 0 ≤ inOff) :
    (begin Consts.code inOff rid r).out = [.psync 0 rid (Spec.Offsets.psyncOffset inOff 0)] := by
  have h1 : psyncArg Consts.code inOff = inOff + 1 := psyncArg_ok code_constants h
  cases r <;> simp [begin, h1, init, Spec.Offsets.psyncOffset]

private theorem started_inv {start : Int} {rid : Bytes} {s0 : St} (h : Started start rid s0) :
    Inv start rid s0 ∧ InvS start s0 ∧ InvA start s0 := by
  obtain ⟨o0, ha, rfl⟩ := h
  refine ⟨⟨rfl, rfl, rfl⟩, ⟨rfl, fun _ _ => by simp [init]⟩, ⟨?_, ?_, ?_⟩⟩ <;> simp [acks, ha]

/-- what `step` appends to the log of the source is `emitted` (so the theorems below, stated on
    `emitted`, speak of every line the source ever reads). -/
theorem out_is_emitted (s : St) (e : Ev) :
    (step Consts.code s e).out = s.out ++ emitted Consts.code s e := out_step _ s e

/-- **ack_exact.** Every `REPLCONF ACK n` sent once the full sync is over — by the ACK goroutine of the
    current connection or by one that outlived an earlier connection, after any history — carries
    n = start + number of stream bytes received so far. -/
theorem ack_exact (start : Int) (rid : Bytes) (s0 : St) (h0 : Started start rid s0) (h : List Ev) (e : Ev)
    (c : Nat) (n : Int) :
    let s := run Consts.code s0 h
    Out.ack c n ∈ emitted Consts.code s e → s.waitFull = true →
      n = Spec.Offsets.ackOffset start s.pipe.length := by
  intro s hm hw
  have hi := inv_run (K := Consts.code) (started_inv h0).1 h
  rw [mem_emitted_ack hm]
  simp only [ackValue, hw, if_true, Spec.Offsets.ackOffset]
  rw [hi.base, hi.len]

/-- while the full sync is still running the goroutine sends the keep-alive `REPLCONF ACK 0`
    (a Redis source only ever raises its record of a replica's offset, so 0 acknowledges nothing). -/
theorem ack_waiting (s : St) (e : Ev) (c : Nat) (n : Int) :
    Out.ack c n ∈ emitted Consts.code s e → s.waitFull = false → n = 0 := by
  intro hm hw
  rw [mem_emitted_ack hm]
  simp [ackValue, hw, code_constants.2.2.2]

/-- **ack_monotone.** The sequence of all acknowledged offsets never decreases, and no acknowledged
    offset is ahead of what has been received (at the end of the history, hence — the count only grows
    and `ack_exact` — at the moment it was sent). -/
theorem ack_monotone (start : Int) (rid : Bytes) (s0 : St) (h0 : Started start rid s0) (hs : 0 ≤ start)
    (h : List Ev) :
    let s := run Consts.code s0 h
    (acks s).Pairwise (· ≤ ·) ∧ ∀ n ∈ acks s, n ≤ Spec.Offsets.ackOffset start s.pipe.length := by
  intro s
  obtain ⟨hb, _, ha⟩ := started_inv h0
  have hi := inv_run (K := Consts.code) hb h
  have hA := invA_run code_constants hs hb ha h
  refine ⟨hA.sorted, ?_⟩
  intro n hn
  have := hA.le n hn
  simp only [Spec.Offsets.ackOffset]
  rw [hi.len]
  exact this

/-- an acknowledgement is never ahead of what had been received when it was sent. -/
theorem ack_never_ahead (start : Int) (rid : Bytes) (s0 : St) (h0 : Started start rid s0) (hs : 0 ≤ start)
    (h : List Ev) (e : Ev) (c : Nat) (n : Int) :
    let s := run Consts.code s0 h
    Out.ack c n ∈ emitted Consts.code s e → n ≤ Spec.Offsets.ackOffset start s.pipe.length := by
  intro s hm
  cases hw : s.waitFull
  · rw [ack_waiting s e c n hm hw]
    simp only [Spec.Offsets.ackOffset]
    omega
  · rw [ack_exact start rid s0 h0 h e c n hm hw]
    exact Int.le_refl _

/-- **reconnect_offset.** Every `PSYNC` sent after the start — they are sent by reconnects only, as first
    command of the next connection — asks for the run id of the sync and for the offset
    start + received + 1, the first byte not yet received. -/
theorem reconnect_offset (start : Int) (rid : Bytes) (s0 : St) (h0 : Started start rid s0) (hs : 0 ≤ start)
    (h : List Ev) (e : Ev) (c : Nat) (r : Bytes) (off : Int) :
    let s := run Consts.code s0 h
    Out.psync c r off ∈ emitted Consts.code s e →
      (∃ rep, e = .reconnect rep) ∧ c = s.conn + 1 ∧ r = rid ∧
        off = Spec.Offsets.psyncOffset start s.pipe.length := by
  intro s hm
  have hi := inv_run (K := Consts.code) (started_inv h0).1 h
  obtain ⟨he, _, _, hc, hr, ho⟩ := mem_emitted_psync hm
  refine ⟨he, hc, by rw [hr, hi.rid], ?_⟩
  rw [ho, hi.base, psyncArg_ok code_constants (by omega), Spec.Offsets.psyncOffset, hi.len]

/-- After a start that ended in `+FULLRESYNC rid' off` — whatever run id the tool had ASKED with (`?` on a fresh start, a
    checkpoint's otherwise) — every later re-PSYNC carries the ANNOUNCED run id `rid'` and the offset off + received + 1.
    (`started_begin_full` composed with `reconnect_offset`; the `full` histories of the harness ask with a different id.) -/
theorem reconnect_uses_announced_runid (inOff : Int) (rid rid' : Bytes) (off : Int) (hs : 0 ≤ off)
    (h : List Ev) (e : Ev) (c : Nat) (r : Bytes) (o : Int) :
    let s := run Consts.code (begin Consts.code inOff rid (.full rid' off)) h
    Out.psync c r o ∈ emitted Consts.code s e →
      r = rid' ∧ o = Spec.Offsets.psyncOffset off s.pipe.length := by
  intro s hm
  obtain ⟨_, _, hr, ho⟩ := reconnect_offset off rid' _ (started_begin_full inOff rid rid' off) hs h e c r o hm
  exact ⟨hr, ho⟩

/-- After `+FULLRESYNC rid' off` every exact ACK counts from the ANNOUNCED offset `off` — the offset the tool came with
    (`inOff`, e.g. a checkpoint's) plays no part (`started_begin_full` composed with `ack_exact`). -/
theorem ack_counts_from_announced_offset (inOff : Int) (rid rid' : Bytes) (off : Int)
    (h : List Ev) (e : Ev) (c : Nat) (n : Int) :
    let s := run Consts.code (begin Consts.code inOff rid (.full rid' off)) h
    Out.ack c n ∈ emitted Consts.code s e → s.waitFull = true →
      n = Spec.Offsets.ackOffset off s.pipe.length :=
  ack_exact off rid' _ (started_begin_full inOff rid rid' off) h e c n

/-- After `+CONTINUE` (a resumed sync) every exact ACK counts from the offset the tool came with, and every later
    re-PSYNC asks that run id for inOff + received + 1 (`started_begin_cont` composed with `ack_exact` / `reconnect_offset`). -/
theorem resumed_sync_offsets (inOff : Int) (rid : Bytes) (hs : 0 ≤ inOff) (h : List Ev) (e : Ev) (c : Nat) :
    let s := run Consts.code (begin Consts.code inOff rid .cont) h
    (∀ n, Out.ack c n ∈ emitted Consts.code s e → s.waitFull = true →
        n = Spec.Offsets.ackOffset inOff s.pipe.length) ∧
    (∀ r o, Out.psync c r o ∈ emitted Consts.code s e →
        r = rid ∧ o = Spec.Offsets.psyncOffset inOff s.pipe.length) := by
  intro s
  have h0 := started_begin_cont inOff rid hs
  refine ⟨fun n hm hw => ack_exact inOff rid _ h0 h e c n hm hw, fun r o hm => ?_⟩
  obtain ⟨_, _, hr, ho⟩ := reconnect_offset inOff rid _ h0 hs h e c r o hm
  exact ⟨hr, ho⟩

/-- **tag_base_constant.** The base that parseSourceCommand adds to the decoder position
    (`ds.sourceOffset`) is the announced start offset after every history. -/
theorem tag_base_constant (start : Int) (rid : Bytes) (s0 : St) (h0 : Started start rid s0) (h : List Ev) :
    tagBase (run Consts.code s0 h) = start :=
  (inv_run (K := Consts.code) (started_inv h0).1 h).base

/-- **stream_continues.** After every history the pipe holds exactly the stream bytes with offsets
    start+1, start+2, …, start+received, in order: nothing lost, nothing duplicated, at any seam. -/
theorem stream_continues (start : Int) (rid : Bytes) (s0 : St) (h0 : Started start rid s0) (hs : 0 ≤ start)
    (h : List Ev) :
    let s := run Consts.code s0 h
    s.pipe = Spec.Offsets.streamOffsets start s.pipe.length := by
  intro s
  obtain ⟨hb, hS, _⟩ := started_inv h0
  have hi := inv_run (K := Consts.code) hb h
  have hp := (invS_run code_constants hs hb hS h).pipe
  rw [hi.len]
  simp only [Spec.Offsets.streamOffsets]
  rw [← offsFrom_eq_map]
  exact hp

/-- the seam itself: a reconnect answered +CONTINUE makes the source resume at the offset right after the
    last byte in the pipe, and the next bytes received are appended from exactly there. -/
theorem seam_exact (start : Int) (rid : Bytes) (s0 : St) (h0 : Started start rid s0) (hs : 0 ≤ start)
    (h : List Ev) (k : Nat) :
    let s := run Consts.code s0 h
    s.up = false → s.dead = false →
      let s' := step Consts.code s (.reconnect .cont)
      s'.srcNext = Spec.Offsets.streamOffset start (s.pipe.length + 1) ∧
      (step Consts.code s' (.recv k)).pipe = s.pipe ++ offsFrom (start + s.pipe.length + 1) k := by
  intro s hu hd s'
  obtain ⟨hb, hS, _⟩ := started_inv h0
  have hi := inv_run (K := Consts.code) hb h
  have hnext : s'.srcNext = start + s.pipe.length + 1 := by
    have := psyncArg_ok code_constants (x := s.sourceOffset + s.received) (by rw [hi.base]; omega)
    simp only [s', step, hu, hd, Bool.or_self, Bool.false_eq_true, if_false, beq_self_eq_true, if_true, this]
    rw [hi.base, hi.len]
  have hup : s'.up = true ∧ s'.streaming = true ∧ s'.dead = false ∧ s'.pipe = s.pipe := by
    simp [s', step, hu, hd]
  refine ⟨by rw [hnext, Spec.Offsets.streamOffset]; omega, ?_⟩
  simp only [step, hup.1, hup.2.1, hup.2.2.1, hup.2.2.2, hnext]
  simp

/-- **tag_exact.** The offset stored with a command that ends at the pos-th byte read from the pipe
    (C10: the decoder position is exactly the number of bytes consumed) is the absolute replication offset
    of that byte. -/
theorem tag_exact (start : Int) (rid : Bytes) (s0 : St) (h0 : Started start rid s0) (hs : 0 ≤ start)
    (h : List Ev) (pos : Nat) :
    let s := run Consts.code s0 h
    0 < pos → pos ≤ s.pipe.length →
      s.pipe[pos - 1]? = some (tag s pos) ∧ tag s pos = Spec.Offsets.streamOffset start pos := by
  intro s hp hl
  obtain ⟨hb, hS, _⟩ := started_inv h0
  have hi : Inv start rid s := inv_run (K := Consts.code) hb h
  have hpipe : s.pipe = offsFrom (start + 1) s.received := (invS_run code_constants hs hb hS h).pipe
  have ht : tag s pos = start + pos := by simp only [tag, tagBase]; rw [hi.base]
  have hlt : pos - 1 < s.received := by rw [← hi.len]; omega
  refine ⟨?_, by rw [ht, Spec.Offsets.streamOffset]⟩
  rw [hpipe, getElem?_offsFrom _ _ _ hlt, ht]
  congr 1
  omega

/-- a refused re-PSYNC and a failed dial change no offset: the next request repeats the same offset. -/
theorem refused_keeps_offsets (s : St) (e : Ev) (he : e = .reopenFail ∨ e = .quietHour ∨ e = .reconnect .err) :
    let s' := step Consts.code s e
    s'.sourceOffset = s.sourceOffset ∧ s'.received = s.received ∧ s'.pipe = s.pipe := by
  rcases he with rfl | rfl | rfl
  · exact ⟨rfl, rfl, rfl⟩
  · simp only [step]
    split <;> exact ⟨rfl, rfl, rfl⟩
  · simp only [step]
    split <;> exact ⟨rfl, rfl, rfl⟩

/-! ### non-vacuity: concrete histories with every kind of event -/

/-- bursts, idle ticks, a keep-alive before the full sync ends, two drops, an ACK goroutine that outlives
    its connection, a failed dial, a refused and an accepted re-PSYNC. -/
example :
    (run Consts.code (init 1000 [1, 2])
      [.recv 4, .tick, .waitFullClosed, .recv 6, .tick, .tick, .connDrop, .staleTick 0, .reopenFail,
       .reconnect .err, .recv 9, .tick, .connDrop, .reconnect .cont, .recv 5, .staleTick 0, .tick]).out
      = [.ack 0 0, .ack 0 1010, .ack 0 1010, .ack 0 1010, .psync 1 [1, 2] 1011, .ack 1 1010,
         .psync 2 [1, 2] 1011, .ack 0 1015, .ack 2 1015] := by decide

example :
    (run Consts.code (init 1000 [])
      [.waitFullClosed, .recv 2, .connDrop, .reconnect .cont, .recv 3]).pipe = [1001, 1002, 1003, 1004, 1005] := by
  decide

/-- the fourth broken connection within the hour aborts the process; nothing is sent afterwards. -/
example :
    let s := run Consts.code (init 5 [])
      [.connDrop, .reconnect .cont, .connDrop, .reconnect .cont, .connDrop, .reconnect .cont, .connDrop,
       .reconnect .cont, .tick]
    s.dead = true ∧ s.out = [.psync 1 [] 6, .psync 2 [] 6, .psync 3 [] 6] := by decide

/-- … unless an hour without retries lies in between. -/
example :
    let s := run Consts.code (init 5 [])
      [.connDrop, .reconnect .cont, .connDrop, .reconnect .cont, .connDrop, .quietHour, .reconnect .cont,
       .connDrop, .reconnect .cont, .waitFullClosed, .recv 2, .tick]
    s.dead = false ∧ s.out = [.psync 1 [] 6, .psync 2 [] 6, .psync 3 [] 6, .psync 4 [] 6, .ack 4 7] := by decide

example : Started 7 [9] (begin Consts.code (-1) [] (.full [9] 7)) := started_begin_full _ _ _ _

example : (begin Consts.code 41 [3] .cont).out = [.psync 0 [3] 42] := by decide

/-! ### the pinned code (before the repair): kernel-checked counterexamples, replayed on the real code
    by the first cases of `go/harness/c08.go` -/

/-- D9. History `recv 10; tick; tick` with start 1000: the pinned ACK goroutine adds the cumulative
    `nread` on every tick, so it acknowledges 1010 and then 1020 although only 10 bytes were received;
    the base used for command tags has moved to 1020. -/
theorem counterexample_ack :
    let s := runPinned Consts.code (initPinned 1000 []) [.waitFullClosed, .recv 10, .tick, .tick]
    s.out = [.ack 0 1010, .ack 0 1020] ∧ s.pipe.length = 10 ∧ s.sourceOffset = 1020 ∧
      Spec.Offsets.ackOffset 1000 10 = 1010 := by decide

/-- a drop before the first tick after traffic: the pinned code re-asks for offset 1001 although it has
    received up to 1010, so ten bytes arrive twice. -/
theorem counterexample_reconnect :
    let s := runPinned Consts.code (initPinned 1000 [])
      [.waitFullClosed, .recv 10, .connDrop, .reconnect .cont, .recv 1]
    s.out = [.psync 1 [] 1001] ∧ s.pipe.getLast? = some 1001 ∧ s.pipe.length = 11 ∧
      Spec.Offsets.psyncOffset 1000 10 = 1011 := by decide

/-- two ticks, then a drop: the pinned code asks for 1021 and skips ten bytes. -/
theorem counterexample_reconnect_skip :
    let s := runPinned Consts.code (initPinned 1000 [])
      [.waitFullClosed, .recv 10, .tick, .tick, .connDrop, .reconnect .cont, .recv 1]
    s.out = [.ack 0 1010, .ack 0 1020, .psync 1 [] 1021] ∧ s.pipe.getLast? = some 1021 := by decide

end RSVerif.Properties.C08
