/- C08: property theorems (stub — not built yet) -/
namespace RSVerif.Properties.C08
end RSVerif.Properties.C08
