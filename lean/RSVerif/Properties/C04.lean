import RSVerif.Lemmas.Resume
import RSVerif.Properties.C08
import RSVerif.Properties.C10
import RSVerif.Lemmas.RunId
import RSVerif.Lemmas.ParseWF
/-
C04 — Checkpoints are atomic with the data, so resume loses and repeats nothing.
Property theorems only (helper lemmas live in RSVerif.Lemmas.*).

Sections 0–4 are stated over the `Offset`/`Db` fields the sender is handed. That the tag of a command *is* the
source replication offset after it needs a constant tag base (C08, after the repair of D9) and an exact decoder
position (C10, after the repair of D13): section 5 composes the three models.
-/
namespace RSVerif.Properties.C04
open RSVerif RSVerif.Sync RSVerif.Sender RSVerif.Spec.IncrSync RSVerif.Spec.MiniRedis
open RSVerif.Lemmas.Sender RSVerif.Lemmas.MiniRedis RSVerif.Lemmas.SenderRedis RSVerif.Lemmas.Checkpoint
open RSVerif.Lemmas.Resume RSVerif.Lemmas.RunId

/-! ### 0. facts of the source the model depends on -/

theorem send_order :
    Generated.SyncConsts.sendFuncCalls = ["multi", "<cacheItem.Cmd>", "hset", "hset", "hset", "exec", "<Flush>"] := by
  decide

theorem field_formats : Generated.SyncConsts.checkpointFieldFormats.map (·.2) = ["%s-%s", "%s-%s", "%s-%s"] := by
  decide

/-! ### 1. shape of every flushed group -/

/-- Every group written between two `Flush` calls — under any interleaving of arrivals and ticks, any
thresholds — is non-empty and reads
`multi; cmds…; [hset runid; hset version]; hset offset <offset of the LAST command>; exec`
when resume is enabled (a lone `ping` is sent bare), and just `cmds…` otherwise; a `select` can only be its
first command, and source MULTI/EXEC markers are not part of it. -/
theorem batch_shape (cfg : Cfg) (evs : List Ev) (hwf : WF (received evs)) :
    ∀ g ∈ (runG cfg S.init evs).2,
      g.items ≠ [] ∧
      g.batched = (cfg.resume && !lonePing g.items) ∧
      (g.runId = true → g.batched = true) ∧
      g.wire = (if g.batched then
          [Wire.multi] ++ g.items.map Wire.fwd ++ (if g.runId then [Wire.hsetRunId, Wire.hsetVersion] else []) ++
            [Wire.hsetOffset (lastOff g.items), Wire.exec, Wire.flush]
        else g.items.map Wire.fwd ++ [Wire.flush]) ∧
      (∀ x ∈ g.items.tail, x.cmd ≠ "select") ∧
      (∀ x ∈ g.items, marker x = false) := by
  have facts := runG_facts cfg evs S.init inv_init hwf
  have hmem : ∀ (gs : List Group) (d0 d1 : List Int), Shaped cfg d0 gs d1 →
      ∀ g ∈ gs, g.items ≠ [] ∧ ∃ dbs, g = (mkGroup cfg dbs g.items).1 := by
    intro gs
    induction gs with
    | nil => intro _ _ _ g hg; simp at hg
    | cons a gs ih =>
      intro d0 d1 h g hg
      obtain ⟨h1, h2, h3⟩ := h
      rcases List.mem_cons.mp hg with e | e
      · subst e; exact ⟨h1, _, h2⟩
      · exact ih _ _ h3 g e
  intro g hg
  obtain ⟨hne, dbs, hgeq⟩ := hmem _ _ _ facts.shaped g hg
  have hb := (mkGroup_batched cfg dbs g.items hne).1
  rw [← hgeq] at hb
  refine ⟨hne, hb, ?_, ?_, facts.heads g hg, ?_⟩
  · intro hr
    rw [hgeq] at hr ⊢
    unfold mkGroup at hr ⊢
    cases hl : g.items.getLast? with
    | none => simp [hl] at hr
    | some last => simp only [hl, Bool.and_eq_true] at hr ⊢; exact hr.1
  · unfold Group.wire
    cases g.batched <;> simp
  · intro x hx
    have : x ∈ (received evs).filter (fun it => !marker it) := by
      have := facts.items
      simp only [S.init, List.nil_append] at this
      rw [← this]
      exact List.mem_append_left _ (List.mem_flatMap.mpr ⟨g, hg, hx⟩)
    simpa using (List.mem_filter.mp this).2

/-- the batch on the wire, concretely: checkpoint key, `<source>-offset` field, decimal offset of the last command -/
theorem batch_rendered (rc : RenderCfg) (g : Group) (hb : g.batched = true) :
    renderWire rc g.wire =
      ("multi", []) :: g.items.map cmdOf ++
        (if g.runId then [("hset", [rc.ckName, runIdField rc, rc.runId]),
                          ("hset", [rc.ckName, versionField rc, fmtInt Generated.SyncConsts.fcvCheckpointCurrent])]
         else []) ++
        [("hset", [rc.ckName, offsetField rc, fmtInt (lastOff g.items)]), ("exec", [])] := by
  rw [render_group, hb]
  simp only [if_true, groupBody, ckptCmds, hb, hsetCmd]
  cases g.runId <;> simp

/-- All commands of a group after its first one run in one database, and that is the database the
checkpoint fields are written to (the connection's database when `exec` drains the queue). Hypothesis: only
items spelled `select` are read as SELECT by the target (true without `target.db`; with `target.db` the injected
upper-case `SELECT` re-selects the same database, see `db_routing`). -/
theorem batch_one_db {D : Type} (apply : Int → Cmd → D → D) (rc : RenderCfg) (g : Group) (s : St D)
    (hhead : ∀ x ∈ g.items.tail, x.cmd ≠ "select")
    (hsel : ∀ x ∈ g.items, ∀ k, classify rc.ckName (cmdOf x) = .select k → x.cmd = "select")
    (hpl : ∀ x ∈ g.items, plainItem rc.ckName x = true) :
    (∀ j, 1 ≤ j → (plain rc.ckName apply s ((g.items.take j).map cmdOf)).db =
        (plain rc.ckName apply s (groupBody rc g)).db) ∧
    (plain rc.ckName apply s (groupBody rc g)).ckpt =
      ckptEntries rc g (plain rc.ckName apply s (groupBody rc g)).db ++ s.ckpt := by
  have hdbfold : ∀ (l : List Item) (x : D × Int), (∀ y ∈ l, y.cmd ≠ "select") → (∀ y ∈ l, y ∈ g.items) →
      ((l.map cmdOf).foldl (execCore apply rc.ckName) x).2 = x.2 := by
    intro l
    induction l with
    | nil => intro x _ _; rfl
    | cons y l ih =>
      intro x h1 h2
      simp only [List.map_cons, List.foldl_cons]
      rw [ih _ (fun z hz => h1 z (by simp [hz])) (fun z hz => h2 z (by simp [hz]))]
      unfold execCore
      split
      · rename_i k hk
        exact absurd (hsel y (h2 y (by simp)) k hk) (h1 y (by simp))
      · rfl
      · rfl
  obtain ⟨hck, hco⟩ := plain_groupBody apply rc s g hpl
  have hdb : (plain rc.ckName apply s (groupBody rc g)).db = (plain rc.ckName apply s (g.items.map cmdOf)).db := by
    have := congrArg Prod.snd hco; simpa [core] using this
  refine ⟨?_, by rw [hck, hdb]⟩
  intro j hj
  rw [hdb]
  have e1 : ∀ l, (plain rc.ckName apply s l).db = (l.foldl (execCore apply rc.ckName) (core s)).2 := by
    intro l; rw [← core_plain]; rfl
  rw [e1, e1]
  cases hgi : g.items with
  | nil => simp
  | cons a rest =>
    cases j with
    | zero => omega
    | succ j =>
      simp only [List.take_succ_cons, List.map_cons, List.foldl_cons]
      have hr : ∀ y ∈ rest, y.cmd ≠ "select" := fun y hy => hhead y (by simp [hgi, hy])
      have hr2 : ∀ y ∈ rest, y ∈ g.items := fun y hy => by simp [hgi, hy]
      rw [hdbfold rest _ hr hr2, hdbfold (rest.take j) _ (fun y hy => hr y (List.mem_of_mem_take hy))
        (fun y hy => hr2 y (List.mem_of_mem_take hy))]


/-! ### 2. every cut leaves data and checkpoint consistent -/

/-- The hypothesis on the target the run starts against, `StaleBelow rc B bdb s0`: checkpoint offsets already
stored for this source (by earlier incarnations) parse and decrease with age; all are strictly below `B`
(`bdb = none`: a fresh start, or a start from a checkpoint in database 0), or the newest one is `(bdb, B)` itself —
the checkpoint this run was resumed from, whose offset the restarted parser re-uses as the tag of its `select bdb`.
A target without checkpoint of this source satisfies it for every `B` (`staleBelow_fresh`). -/
abbrev StaleBelow {D : Type} (rc : RenderCfg) (B : Int) (bdb : Option Int) (s0 : St D) : Prop :=
  OffDesc (offsetField rc) B bdb s0.ckpt

theorem staleBelow_fresh {D : Type} (rc : RenderCfg) (B : Int) (bdb : Option Int) (s0 : St D)
    (h : ∀ e ∈ s0.ckpt, e.2.1 ≠ offsetField rc) : StaleBelow rc B bdb s0 := by
  unfold StaleBelow
  generalize s0.ckpt = l at h
  induction l with
  | nil => trivial
  | cons e l ih =>
    simp only [OffDesc, if_neg (h e (by simp))]
    exact ih (fun x hx => h x (by simp [hx]))

section
variable {D : Type} (apply : Int → Cmd → D → D) (rc : RenderCfg)

/-- **cut_consistent.** Resume enabled; any history handed to the sender (well-formed, offsets increasing,
forwarded commands read by the target as SELECT/PING/data); any interleaving of arrivals and ticks, any
thresholds; any number `p` of commands that reached the target before the connection or the process was cut
(inside or outside a MULTI block; the open transaction is discarded). Then, for the checkpoint the loader must
return (the database holding the greatest stored offset `X`):
the dataset is exactly the history up to `X` applied in order, each command once, and — unless it is an older
checkpoint than the one this run started from — `dbX` is the database selected after that prefix. Without any
stored offset the dataset is untouched. Data commands are arbitrary (`apply`), in particular not idempotent.
The start is either fresh (`bdb = none`) or itself a resume from `(bdb, B)` (`StartsAt`), so the statement applies
again after every restart. -/
theorem cut_consistent (cfg : Cfg) (hres : cfg.resume = true) (evs : List Ev) (hwf : WF (received evs))
    (hpl : ∀ it ∈ history evs, plainItem rc.ckName it = true)
    (hinc : (received evs).Pairwise (fun a b => a.off < b.off))
    (s0 : St D) (hq : s0.q = none) (B : Int) (bdb : Option Int) (hB : ∀ it ∈ received evs, B ≤ it.off)
    (hstart : StartsAt rc.ckName B bdb s0.db (history evs))
    (hstale : StaleBelow rc B bdb s0) (p : Nat) :
    let st := drop (replay rc.ckName apply s0 ((renderWire rc (run cfg S.init evs).2).take p))
    (∀ dbX X, NewestCheckpoint st (offsetField rc) dbX X →
      let upto := ((history evs).filter (fun it => decide (it.off ≤ X))).map cmdOf
      st.data = (plain rc.ckName apply s0 upto).data ∧
      (B ≤ X → (plain rc.ckName apply s0 upto).db = dbX)) ∧
    ((∀ d, storedInt st d (offsetField rc) = none) → st.data = s0.data) := by
  intro st
  obtain ⟨done, rest, hsplit, hsum⟩ :=
    cut_summary apply rc cfg hres evs hwf s0 hq hpl hinc B bdb hB hstart.firstAt hstale p
  have hBn : ∀ it ∈ nonMarkers (received evs), B ≤ it.off := fun it hit => hB it (List.mem_filter.mp hit).1
  obtain ⟨h1, h2⟩ := summary_consistent apply rc s0 st (nonMarkers (received evs)) done rest hsplit
    (increasing_nonMarkers _ hinc) hsum B bdb hBn hstart hstale
  refine ⟨?_, fun hn => by have := congrArg Prod.fst (h2 hn); simpa [core] using this⟩
  intro dbX X hn upto
  obtain ⟨hc, hd, _⟩ := h1 dbX X hn
  have hcp : core (plain rc.ckName apply s0 upto) =
      upto.foldl (execCore apply rc.ckName) (core s0) := core_plain apply rc.ckName s0 upto
  refine ⟨?_, fun hbx => ?_⟩
  · have := congrArg Prod.fst hcp
    simp only [core] at this
    rw [this]; exact hc.symm
  · have := congrArg Prod.snd hcp
    simp only [core] at this
    rw [this]; exact hd hbx

/-- an uninterrupted run that ends flushed executes the whole history, each command once, in order -/
theorem uninterrupted (cfg : Cfg) (evs : List Ev) (hwf : WF (received evs))
    (hpl : ∀ it ∈ history evs, plainItem rc.ckName it = true)
    (s0 : St D) (hq : s0.q = none) (hflush : (run cfg S.init evs).1.cache = []) :
    (replay rc.ckName apply s0 (renderWire rc (run cfg S.init evs).2)).data =
      (plain rc.ckName apply s0 ((history evs).map cmdOf)).data := by
  have h := (flushed_run_core apply rc cfg evs hwf s0 hq hpl hflush).1
  have h2 := core_plain apply rc.ckName s0 ((history evs).map cmdOf)
  have := congrArg Prod.fst (h.trans h2.symm)
  simpa [core] using this

/-- **resume_equiv.** Cut the first run anywhere (`p`), let the loader return `(dbX, X)` — a checkpoint written
by this run — and restart: a new connection (database 0, no transaction), the parser sends `select dbX` first
when `dbX ≠ 0` and the source resends everything after offset `X` (`resumeItems`); the second run may batch in
any way (`cfg2`, `evs2`) and ends flushed. The final dataset is that of the whole history applied once, in
order — the dataset of an uninterrupted run (`uninterrupted`): nothing lost, nothing applied twice, although
`apply` is arbitrary (commands are not assumed idempotent). -/
theorem resume_equiv (cfg : Cfg) (hres : cfg.resume = true) (evs : List Ev) (hwf : WF (received evs))
    (hpl : ∀ it ∈ history evs, plainItem rc.ckName it = true)
    (hinc : (received evs).Pairwise (fun a b => a.off < b.off))
    (s0 : St D) (hq : s0.q = none) (B : Int) (bdb : Option Int) (hB : ∀ it ∈ received evs, B ≤ it.off)
    (hstart : StartsAt rc.ckName B bdb s0.db (history evs))
    (hstale : StaleBelow rc B bdb s0) (p : Nat)
    (dbX X : Int)
    (hload : NewestCheckpoint (drop (replay rc.ckName apply s0 ((renderWire rc (run cfg S.init evs).2).take p)))
      (offsetField rc) dbX X)
    (hown : B ≤ X)
    (cfg2 : Cfg) (evs2 : List Ev) (hrecv2 : received evs2 = resumeItems (received evs) dbX X)
    (hflush2 : (run cfg2 S.init evs2).1.cache = []) :
    let st := drop (replay rc.ckName apply s0 ((renderWire rc (run cfg S.init evs).2).take p))
    (replay rc.ckName apply (reconnect st) (renderWire rc (run cfg2 S.init evs2).2)).data =
      (plain rc.ckName apply s0 ((history evs).map cmdOf)).data := by
  intro st
  obtain ⟨done, rest, hsplit, hsum⟩ :=
    cut_summary apply rc cfg hres evs hwf s0 hq hpl hinc B bdb hB hstart.firstAt hstale p
  have hBn : ∀ it ∈ nonMarkers (received evs), B ≤ it.off := fun it hit => hB it (List.mem_filter.mp hit).1
  have hincn := increasing_nonMarkers _ hinc
  obtain ⟨h1, _⟩ := summary_consistent apply rc s0 st (nonMarkers (received evs)) done rest hsplit
    hincn hsum B bdb hBn hstart hstale
  obtain ⟨hc, hd, _⟩ := h1 dbX X hload
  -- dataset and database after the history up to X are what the restarted run starts from
  have hr : (((nonMarkers (received evs)).filter (fun it => decide (it.off ≤ X))).map cmdOf).foldl
      (execCore apply rc.ckName) (core s0) = (st.data, dbX) := Prod.ext hc (hd hown)
  -- the second run
  have hwf2 : WF (received evs2) := by rw [hrecv2]; exact wf_resumeItems _ hwf hinc dbX X
  have hnm2 : nonMarkers (received evs2) =
      startSelect dbX X ++ (nonMarkers (received evs)).filter (fun it => decide (X < it.off)) := by
    rw [hrecv2, resumeItems, nonMarkers_append, startSelect_nonMarker, nonMarkers_filter]
  have hpl2 : ∀ it ∈ nonMarkers (received evs2), plainItem rc.ckName it = true := by
    rw [hnm2]
    intro it hit
    rcases List.mem_append.mp hit with h | h
    · exact startSelect_plain _ _ _ it h
    · exact hpl it (List.mem_filter.mp h).1
  have hrun2 := (flushed_run_core apply rc cfg2 evs2 hwf2 (reconnect st) rfl hpl2 hflush2).1
  have hcore0 : core (reconnect st) = (st.data, 0) := rfl
  rw [hnm2, List.map_append, List.foldl_append, hcore0, startSelect_core, ← hr, ← List.foldl_append,
    ← List.map_append, ← filter_split _ hincn X] at hrun2
  have h2 := core_plain apply rc.ckName s0 ((history evs).map cmdOf)
  have := congrArg Prod.fst (hrun2.trans h2.symm)
  simpa [core] using this

/-- The hypotheses reproduce themselves: after a cut, the reconnected target together with the restarted stream
satisfies `StartsAt`/`hB` of `cut_consistent` for the loaded checkpoint `(dbX, X)` — the theorem applies to the
resumed run, and to the run resumed from that one, and so on. -/
theorem resumed_start (items : List Item) (hinc : items.Pairwise (fun a b => a.off < b.off)) (dbX X : Int)
    {D : Type} (st : St D) :
    StartsAt rc.ckName X (some dbX) (reconnect st).db (nonMarkers (resumeItems items dbX X)) ∧
    (∀ it ∈ resumeItems items dbX X, X ≤ it.off) ∧
    (resumeItems items dbX X).Pairwise (fun a b => a.off < b.off) := by
  have hfilt : ∀ it ∈ items.filter (fun it => decide (X < it.off)), X < it.off := by
    intro it hit; simpa using (List.mem_filter.mp hit).2
  refine ⟨?_, ?_, ?_⟩
  · rw [resumeItems, nonMarkers_append, startSelect_nonMarker]
    by_cases h0 : dbX = 0
    · right; right
      subst h0
      refine ⟨?_, rfl⟩
      intro it hit
      simp only [startSelect, if_true, List.nil_append] at hit
      exact hfilt it (List.mem_filter.mp hit).1
    · right; left
      refine ⟨{ cmd := "select", args := [fmtInt dbX], off := X, db := dbX },
        nonMarkers (items.filter (fun it => decide (X < it.off))), dbX, by simp [startSelect, h0], rfl, ?_, rfl⟩
      simp [cmdOf, classify_select]
  · intro it hit
    rcases List.mem_append.mp hit with h | h
    · unfold startSelect at h; split at h
      · simp at h
      · simp at h; subst h; exact Int.le_refl _
    · have := hfilt it h; omega
  · rw [resumeItems, List.pairwise_append]
    refine ⟨?_, List.Pairwise.filter _ hinc, ?_⟩
    · unfold startSelect; split <;> simp
    · intro a ha b hb
      unfold startSelect at ha; split at ha
      · simp at ha
      · simp at ha; subst ha; exact hfilt b hb

/-- … and so does the hypothesis on stale offsets: in the state a cut leaves behind, the checkpoint the loader
returns, `(dbX, X)`, is the newest entry and everything older is below it (or the same value in the same database) -/
theorem resumed_stale (cfg : Cfg) (hres : cfg.resume = true) (evs : List Ev) (hwf : WF (received evs))
    (hpl : ∀ it ∈ history evs, plainItem rc.ckName it = true)
    (hinc : (received evs).Pairwise (fun a b => a.off < b.off))
    (s0 : St D) (hq : s0.q = none) (B : Int) (bdb : Option Int) (hB : ∀ it ∈ received evs, B ≤ it.off)
    (hstart : StartsAt rc.ckName B bdb s0.db (history evs))
    (hstale : StaleBelow rc B bdb s0) (p : Nat) (dbX X : Int)
    (hload : NewestCheckpoint (drop (replay rc.ckName apply s0 ((renderWire rc (run cfg S.init evs).2).take p)))
      (offsetField rc) dbX X)
    (hown : B ≤ X) :
    StaleBelow rc X (some dbX)
      (reconnect (drop (replay rc.ckName apply s0 ((renderWire rc (run cfg S.init evs).2).take p)))) := by
  obtain ⟨done, rest, _, hsum⟩ :=
    cut_summary apply rc cfg hres evs hwf s0 hq hpl hinc B bdb hB hstart.firstAt hstale p
  generalize drop (replay rc.ckName apply s0 ((renderWire rc (run cfg S.init evs).2).take p)) = st at hload hsum
  show OffDesc (offsetField rc) X (some dbX) st.ckpt
  rcases hsum with ⟨_, h2, _⟩ | ⟨A, P, rest', _, _, _, h4, h5, _⟩
  · rw [h2]
    have hst : storedL s0.ckpt dbX (offsetField rc) = some X := by
      have := hload.1; rw [Lemmas.Checkpoint.storedInt_eq, h2] at this; exact this
    rcases hstale.lt dbX X hst with hlt | ⟨heq, hbdb⟩
    · omega
    · rw [heq, hbdb]; exact hstale
  · have hnew := newest_of_head st (offsetField rc) st.db (lastOff A) _ rest' h4
      (Lemmas.SyncBasic.parseIntU_fmtInt _) h5
    obtain ⟨hx, hd⟩ := newest_unique st _ _ _ _ _ hload hnew
    rw [h4, hx, hd]
    simp only [OffDesc, if_true]
    exact ⟨lastOff A, Lemmas.SyncBasic.parseIntU_fmtInt _, by simp, h5⟩

/-- **Second crash.** `cut_consistent` for the resumed run: cut the first run at `p`, restart from the loaded
checkpoint `(dbX, X)`, cut the second run at `p2` — the dataset is again the (resent) history up to the newest
stored offset applied once to the state the first cut left, and the newest checkpoint's database is again the
selected one. By `resumed_start`/`resumed_stale` this repeats for any number of restarts. -/
theorem cut_consistent_resumed (cfg : Cfg) (hres : cfg.resume = true) (evs : List Ev) (hwf : WF (received evs))
    (hpl : ∀ it ∈ history evs, plainItem rc.ckName it = true)
    (hinc : (received evs).Pairwise (fun a b => a.off < b.off))
    (s0 : St D) (hq : s0.q = none) (B : Int) (bdb : Option Int) (hB : ∀ it ∈ received evs, B ≤ it.off)
    (hstart : StartsAt rc.ckName B bdb s0.db (history evs))
    (hstale : StaleBelow rc B bdb s0) (p : Nat) (dbX X : Int)
    (hload : NewestCheckpoint (drop (replay rc.ckName apply s0 ((renderWire rc (run cfg S.init evs).2).take p)))
      (offsetField rc) dbX X)
    (hown : B ≤ X)
    (cfg2 : Cfg) (hres2 : cfg2.resume = true) (evs2 : List Ev)
    (hrecv2 : received evs2 = resumeItems (received evs) dbX X) (p2 : Nat) :
    let st1 := reconnect (drop (replay rc.ckName apply s0 ((renderWire rc (run cfg S.init evs).2).take p)))
    let st2 := drop (replay rc.ckName apply st1 ((renderWire rc (run cfg2 S.init evs2).2).take p2))
    (∀ dbY Y, NewestCheckpoint st2 (offsetField rc) dbY Y →
      let upto := ((history evs2).filter (fun it => decide (it.off ≤ Y))).map cmdOf
      st2.data = (plain rc.ckName apply st1 upto).data ∧
      (X ≤ Y → (plain rc.ckName apply st1 upto).db = dbY)) ∧
    ((∀ d, storedInt st2 d (offsetField rc) = none) → st2.data = st1.data) := by
  intro st1 st2
  obtain ⟨hs1, hs2, hs3⟩ := resumed_start rc (received evs) hinc dbX X
    (drop (replay rc.ckName apply s0 ((renderWire rc (run cfg S.init evs).2).take p)))
  have hwf2 : WF (received evs2) := by rw [hrecv2]; exact wf_resumeItems _ hwf hinc dbX X
  have hpl2 : ∀ it ∈ history evs2, plainItem rc.ckName it = true := by
    intro it hit
    have : it ∈ nonMarkers (resumeItems (received evs) dbX X) := by rw [← hrecv2]; exact hit
    rw [resumeItems, nonMarkers_append, startSelect_nonMarker, nonMarkers_filter] at this
    rcases List.mem_append.mp this with h | h
    · exact startSelect_plain _ _ _ it h
    · exact hpl it (List.mem_filter.mp h).1
  exact cut_consistent apply rc cfg2 hres2 evs2 hwf2 hpl2 (by rw [hrecv2]; exact hs3) st1 rfl X (some dbX)
    (by rw [hrecv2]; exact hs2) (by show StartsAt _ _ _ _ (nonMarkers (received evs2)); rw [hrecv2]; exact hs1)
    (resumed_stale apply rc cfg hres evs hwf hpl hinc s0 hq B bdb hB hstart hstale p dbX X hload hown) p2

/-- **The checkpoint carries run id and version.** Under the hypotheses of `cut_consistent`, and if the `Db` tag of
the items determines the connection's database (`DbTag`: what the parser emits without `target.db` satisfies it with
`f (-1) = start database`, `f d = d`; it fails exactly in the situation of deviation D8): after any cut, the database
of the checkpoint the loader must return also holds this run's `<source>-runid` and `<source>-version` — `runIdMap` is
keyed per database, so a database that receives its first checkpoint also receives run id and version, atomically
with it. -/
theorem checkpoint_has_runid (cfg : Cfg) (hres : cfg.resume = true) (evs : List Ev) (hwf : WF (received evs))
    (hpl : ∀ it ∈ history evs, plainItem rc.ckName it = true)
    (hinc : (received evs).Pairwise (fun a b => a.off < b.off))
    (s0 : St D) (hq : s0.q = none) (B : Int) (hB : ∀ it ∈ received evs, B ≤ it.off)
    (hstale : StaleBelow rc B none s0) (p : Nat)
    (f : Int → Int) (htag : DbTag rc.ckName f s0.db (history evs)) :
    let st := drop (replay rc.ckName apply s0 ((renderWire rc (run cfg S.init evs).2).take p))
    ∀ dbX X, NewestCheckpoint st (offsetField rc) dbX X → B ≤ X →
      hget st dbX (runIdField rc) = some rc.runId ∧
      hget st dbX (versionField rc) = some (fmtInt Generated.SyncConsts.fcvCheckpointCurrent) := by
  intro st dbX X hn hown
  -- the database of the newest checkpoint is the connection's database
  have hstart : StartsAt rc.ckName B none s0.db (history evs) := Or.inl rfl
  obtain ⟨done, rest, hsplit, hsum⟩ :=
    cut_summary apply rc cfg hres evs hwf s0 hq hpl hinc B none hB hstart.firstAt hstale p
  have hBn : ∀ it ∈ nonMarkers (received evs), B ≤ it.off := fun it hit => hB it (List.mem_filter.mp hit).1
  obtain ⟨h1, _⟩ := summary_consistent apply rc s0 st (nonMarkers (received evs)) done rest hsplit
    (increasing_nonMarkers _ hinc) hsum B none hBn hstart hstale
  have hdb : st.db = dbX := (h1 dbX X hn).2.2 (Or.inr ⟨rfl, hown⟩)
  -- the cut state as a whole number of groups
  have facts := runG_facts cfg evs S.init inv_init hwf
  have hitems : gItems (runG cfg S.init evs).2 ++ (runG cfg S.init evs).1.cache = history evs := by
    simpa [S.init, history] using facts.items
  have hplg : ∀ it ∈ gItems (runG cfg S.init evs).2, plainItem rc.ckName it = true := fun it hit => hpl it (by
    rw [← hitems]; exact List.mem_append_left _ hit)
  obtain ⟨_, hsm, _⟩ := shaped_small cfg hres _ _ _ facts.shaped
  obtain ⟨k, _, hst⟩ := cut_groups apply rc s0 hq (runG cfg S.init evs).2 hplg hsm p
  have hst' : st = plain rc.ckName apply s0 (((runG cfg S.init evs).2.take k).flatMap (groupBody rc)) := hst
  obtain ⟨d1, hsh⟩ := Shaped.take cfg _ _ _ facts.shaped k
  have hpre : history evs = gItems ((runG cfg S.init evs).2.take k) ++
      (gItems ((runG cfg S.init evs).2.drop k) ++ (runG cfg S.init evs).1.cache) := by
    rw [← hitems, ← List.append_assoc, ← gItems_append, List.take_append_drop]
  have htagk : DbTag rc.ckName f s0.db (gItems ((runG cfg S.init evs).2.take k)) := by
    rw [hpre] at htag
    exact ((dbTag_append rc.ckName f s0.db _ _).mp htag).1
  have hplk : ∀ it ∈ gItems ((runG cfg S.init evs).2.take k), plainItem rc.ckName it = true := by
    intro it hit
    apply hpl; rw [hpre]; exact List.mem_append_left _ hit
  obtain ⟨_, _, h3⟩ := groups_runid apply rc cfg hres _ [] d1 (by simpa [S.init] using hsh) s0 f htagk hplk
    (by intro k hk; simp at hk)
  rw [← hst'] at h3
  rcases h3 with ⟨hc, _⟩ | hok
  · -- nothing written by this run: the newest checkpoint would be a stale one, below B
    have := hn.1
    rw [Lemmas.Checkpoint.storedInt_eq, hc] at this
    rcases hstale.lt dbX X this with h | ⟨_, h⟩
    · omega
    · simp at h
  · rw [hdb] at hok
    exact hok

/-- The `DbTag` hypothesis holds for what the real parser emits when no `target.db` is configured: items carry
`Db = -1` until the first forwarded SELECT (the connection is then still in the start database) and the selected
database afterwards. -/
theorem parser_output_dbTag (pcfg : IncrParse.PCfg) (htdb : pcfg.targetDB = -1)
    (hk : Lemmas.IncrParse.SelectNeutral pcfg) (startDb base : Int) (cmds : List IncrParse.SrcCmd)
    (hn : Lemmas.IncrParse.Normalized cmds) (hno : Lemmas.ParseWF.NoSelectMinusOne cmds)
    (hvalid : (IncrParse.parseFull pcfg startDb base cmds).2 = false) :
    DbTag rc.ckName (Lemmas.ParseWF.tagFn startDb) 0 (nonMarkers (IncrParse.parse pcfg startDb base cmds)) :=
  Lemmas.ParseWF.parse_dbTag rc.ckName pcfg htdb hk startDb base cmds hn hno hvalid

end

/-! ### 3. non-vacuity -/

private def it (c : String) (a : List Bytes) (o d : Int) : Item := { cmd := c, args := a, off := o, db := d }

private def demoEvs : List Ev :=
  [.recv (it "select" [[49]] 10 1), .recv (it "set" [[97], [49]] 20 1), .tick true,
   .recv (it "multi" [] 30 1), .recv (it "incr" [[97]] 40 1), .recv (it "exec" [] 50 1),
   .recv (it "ping" [] 60 1), .tick true, .recv (it "select" [[50]] 70 2), .recv (it "incr" [[98]] 80 2), .tick true]

private def demoRc : RenderCfg := { ckName := Generated.SyncConsts.checkpointKeyBytes, source := [115], runId := [114] }

/-- the hypotheses of `cut_consistent`/`resume_equiv` are satisfiable by a two-database history with a
transaction and a ping; the run produces four groups -/
example : WF (received demoEvs) ∧
    (∀ x ∈ history demoEvs, plainItem demoRc.ckName x = true) ∧
    (received demoEvs).Pairwise (fun a b => a.off < b.off) ∧
    (runG ⟨true, 100, 100000⟩ S.init demoEvs).2.length = 4 ∧
    (run ⟨true, 100, 100000⟩ S.init demoEvs).1.cache = [] ∧
    DbTag demoRc.ckName id 0 (history demoEvs) := by
  decide

/-! ### 5. Composition with C08 (constant tag base) and C10 (exact decoder position) -/

section Compose
open RSVerif.IncrParse

/-- Every item the parser emits for command `c` carries the tag `base + c.pos`. -/
theorem pstep_tag (cfg : PCfg) (base : Int) (st : PState) (c : SrcCmd) (st' : PState) (out : List Item)
    (h : pstep cfg base st c = some (st', out)) : ∀ it ∈ out, it.off = base + c.pos := by
  unfold pstep at h
  simp only [] at h
  intro it hit
  repeat' split at h
  all_goals (first | (simp at h; obtain ⟨_, rfl⟩ := h; simp at hit; try (subst hit; rfl)) | (simp at h))

theorem ploop_tag (cfg : PCfg) (base : Int) (cmds : List SrcCmd) :
    ∀ st, ∀ it ∈ (ploop cfg base st cmds).1, ∃ c ∈ cmds, it.off = base + c.pos := by
  induction cmds with
  | nil => intro st it h; simp [ploop] at h
  | cons c cs ih =>
    intro st it h
    unfold ploop at h
    cases hp : pstep cfg base st c with
    | none => rw [hp] at h; simp at h
    | some r =>
      obtain ⟨st', out⟩ := r
      rw [hp] at h
      simp only [List.mem_append] at h
      rcases h with h | h
      · exact ⟨c, by simp, pstep_tag cfg base st c st' out hp it h⟩
      · obtain ⟨c', hc', he⟩ := ih st' it h
        exact ⟨c', by simp [hc'], he⟩

/-- Tags of the parser's output: the announced base itself (the initial `select` of a resumed run) or
    `base + pos` of a source command. -/
theorem parse_tag (cfg : PCfg) (startDb base : Int) (cmds : List SrcCmd) :
    ∀ it ∈ parse cfg startDb base cmds, it.off = base ∨ ∃ c ∈ cmds, it.off = base + c.pos := by
  intro it h
  simp only [parse, parseFull, List.mem_append] at h
  rcases h with h | h
  · left
    unfold startItems at h
    split at h
    · simp at h; subst h; rfl
    · simp at h
  · right; exact ploop_tag cfg base cmds PState.init it h

/-- **C04 at full strength (composition with C08 and C10).** Take any source stream `inp`. The decoder
    (C10, repaired tree) reports after each value a position; the parser uses it as `pos`; the tag base is the
    offset `start` announced at sync start and never moves (C08 `tag_base_constant`). Then the tag of every
    forwarded command — hence, by `batch_shape`, the checkpoint offset `lastOff g.items` of every group — is the
    absolute source replication offset immediately after that command: `start` + the number of stream bytes
    up to and including the command (keep-alive newlines and inline commands included). -/
theorem tag_is_source_offset (start : Int) (inp : Bytes) (n : Nat)
    (x : Spec.Resp.Resp × Nat × Nat) (hx : x ∈ (Resp.decodeStream true n inp 0).1) :
    start + (x.2.1 : Int) = Spec.Offsets.streamOffset start (inp.length - x.2.2) ∧ x.2.2 ≤ inp.length := by
  have h := C10.offset_exact_stream n inp 0 x hx
  simp only [Nat.zero_add] at h
  refine ⟨?_, by omega⟩
  unfold Spec.Offsets.streamOffset
  have : x.2.1 = inp.length - x.2.2 := by omega
  rw [this]

/-- The same through the parser: if the source commands carry the decoder's positions, every item handed to
    the sender is tagged with `start` (the resumed-start `select`) or with the replication offset right after
    its source command. -/
theorem items_tagged_with_source_offsets (cfg : PCfg) (startDb start : Int) (inp : Bytes) (n : Nat)
    (cmds : List SrcCmd)
    (hpos : ∀ c ∈ cmds, ∃ x ∈ (Resp.decodeStream true n inp 0).1, c.pos = (x.2.1 : Int)) :
    ∀ it ∈ parse cfg startDb start cmds, it.off = start ∨
      ∃ k, k ≤ inp.length ∧ it.off = Spec.Offsets.streamOffset start k := by
  intro it hit
  rcases parse_tag cfg startDb start cmds it hit with h | ⟨c, hc, he⟩
  · exact Or.inl h
  · obtain ⟨x, hx, hp⟩ := hpos c hc
    obtain ⟨h1, h2⟩ := tag_is_source_offset start inp n x hx
    exact Or.inr ⟨inp.length - x.2.2, by omega, by rw [he, hp, h1]⟩


end Compose

end RSVerif.Properties.C04
