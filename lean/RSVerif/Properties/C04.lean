/- C04: property theorems (stub — not built yet) -/
namespace RSVerif.Properties.C04
end RSVerif.Properties.C04
