/- C15: property theorems (stub — not built yet) -/
namespace RSVerif.Properties.C15
end RSVerif.Properties.C15
