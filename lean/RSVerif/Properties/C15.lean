import RSVerif.Lemmas.Slot
import RSVerif.Lemmas.SlotWitness
import RSVerif.Lemmas.SlotLatWitness
import RSVerif.Properties.C06Models
/-
C15 — Key-to-slot mapping follows the Redis Cluster specification; the checkpoint key chosen for a
shard hashes inside the shard's slot range and is excluded by the key filter.
Property theorems only (helper lemmas live in RSVerif.Lemmas.Slot*, the 16384-row witness check in
RSVerif.Lemmas.SlotWitness0..7 and, for the latency keys, RSVerif.Lemmas.SlotLatWitness0..7).
-/
namespace RSVerif.Properties.C15
open RSVerif RSVerif.Spec.Slot RSVerif.Slot RSVerif.Lemmas.Slot

/-! ### 1. Both regenerated CRC16 tables are the bitwise CRC-16/XMODEM of their index -/

theorem table_size_common : Generated.crc16TableCommon.size = 256 := by decide +kernel
theorem table_size_latency : Generated.crc16TableLatency.size = 256 := by decide +kernel

theorem crc16_table_spec_common :
    ∀ i : Fin 256, Generated.crc16TableCommon[i.val]! = bitStep8 (UInt16.ofNat i.val <<< 8) := by
  decide +kernel

theorem crc16_table_spec_latency :
    ∀ i : Fin 256, Generated.crc16TableLatency[i.val]! = bitStep8 (UInt16.ofNat i.val <<< 8) := by
  decide +kernel

/-- both regenerated tables, in one statement -/
theorem crc16_table_spec :
    (∀ i : Fin 256, Generated.crc16TableCommon[i.val]! = bitStep8 (UInt16.ofNat i.val <<< 8)) ∧
    (∀ i : Fin 256, Generated.crc16TableLatency[i.val]! = bitStep8 (UInt16.ofNat i.val <<< 8)) :=
  ⟨crc16_table_spec_common, crc16_table_spec_latency⟩

/-! ### 2. Hence both `crc16` copies equal the specification on every byte string -/

theorem crc16_common_eq_spec (bs : Bytes) : crc16Common bs = crc16 bs :=
  updateT_eq_spec _ crc16_table_spec_common 0 bs

theorem crc16_latency_eq_spec (bs : Bytes) : crc16Latency bs = crc16 bs :=
  updateT_eq_spec _ crc16_table_spec_latency 0 bs

/-- all CRC16 copies in the tool agree -/
theorem crc16_copies_agree (bs : Bytes) : crc16Common bs = crc16Latency bs := by
  rw [crc16_common_eq_spec, crc16_latency_eq_spec]

/-! ### 3. KeyToSlot is the Redis Cluster slot of every key -/

/-- the masks coded in KeyToSlot and findKeyInRange are 16384 - 1 (re-checked against the source) -/
theorem masks_spec : Generated.C15.keyToSlotMaskTag = 0x3fff ∧ Generated.C15.keyToSlotMaskKey = 0x3fff ∧
    Generated.C15.latencyMask = 0x3fff := by decide

theorem keyToSlot_eq_spec (k : Bytes) : (keyToSlot k).toNat = slotSpec k := by
  unfold keyToSlot slotSpec hashedPart
  simp only [hashtagOf_eq, masks_spec.1, masks_spec.2.1, crc16_common_eq_spec]
  cases hashTag k with
  | none => (simp [slots]; exact Nat.and_two_pow_sub_one_eq_mod _ 14)
  | some t =>
    cases t with
    | nil => (simp [slots]; exact Nat.and_two_pow_sub_one_eq_mod _ 14)
    | cons a ts => (simp [slots]; exact Nat.and_two_pow_sub_one_eq_mod _ 14)

theorem keyToSlot_lt (k : Bytes) : (keyToSlot k).toNat < 16384 := by
  rw [keyToSlot_eq_spec]; exact Nat.mod_lt _ (by decide)

/-- the slot filter of full sync (dbSync/syncRDB.go) decides by the Redis Cluster slot: with a slot list
    configured, an entry that survives the key filter is restored iff its specification slot is listed -/
theorem fullsync_slot_filter (black white : List Bytes) (allowed : List Nat) (k : Bytes)
    (hk : filterKey black white k = false) (hl : allowed ≠ []) :
    fullSyncSkips black white allowed k = !(allowed.contains (slotSpec k)) := by
  have : allowed.length ≠ 0 := fun h => hl (List.eq_nil_of_length_eq_zero h)
  simp [fullSyncSkips, hk, filterSlot, keyToSlot_eq_spec, this]

/-- non-vacuity / sanity: the specification on the keys the cluster specification discusses -/
example : slotSpec "123456789".toUTF8.toList = 12739 := by decide +kernel   -- CRC16("123456789") = 0x31C3
example : slotSpec "{user1000}.following".toUTF8.toList = slotSpec "{user1000}.followers".toUTF8.toList := by decide +kernel
example : slotSpec "foo{}{bar}".toUTF8.toList = (crc16 "foo{}{bar}".toUTF8.toList).toNat % 16384 := by decide +kernel
example : slotSpec "foo{{bar}}zap".toUTF8.toList = (crc16 "{bar".toUTF8.toList).toNat % 16384 := by decide +kernel
example : slotSpec "foo{bar}{zap}".toUTF8.toList = (crc16 "bar".toUTF8.toList).toNat % 16384 := by decide +kernel

/-! ### 4. D17 — the pinned `KeyToSlot` used the LAST `{…}` pair (repaired by fixes/C15-first-tag.patch) -/

/-- "{a}{b}" -/
def twoTags : Bytes := [0x7b, 0x61, 0x7d, 0x7b, 0x62, 0x7d]

theorem counterexample_two_tags :
    slotSpec twoTags = 15495 ∧ (keyToSlot twoTags).toNat = 15495 ∧
    (keyToSlotPinned twoTags).toNat = 3300 ∧ (keyToSlotPinned twoTags).toNat = slotSpec [0x62] := by
  decide +kernel

/-- what IS true of the pinned `KeyToSlot`: it follows the specification on every key with at most
    one '{' (any number of '}', any other bytes) -/
theorem keyToSlot_eq_spec_partial (k : Bytes) (h : k.count openBrace ≤ 1) :
    (keyToSlotPinned k).toNat = slotSpec k := by
  have : keyToSlotPinned k = keyToSlot k := by
    unfold keyToSlotPinned keyToSlot hashtagOf
    rw [scanPinned_oneOpen k 0 [] (by simp) h, scanOpen_eq k 0 (by simp)]
    cases firstOpen k <;> rfl
  rw [this]
  exact keyToSlot_eq_spec k

/-! ### 5. The checkpoint key chosen for a slot range hashes inside the range -/

/-- the prefix every candidate starts with: `CheckpointKey` followed by what Sprintf appends -/
def ckPrefix : Bytes := Generated.C15.checkpointKey ++ Generated.C15.checkpointSep

/-- the CRC16 state after the fixed prefix, computed once (candidate from factgen, kernel-checked) -/
theorem prefix_state : crc16 ckPrefix = Generated.C15.checkpointPrefixState := by decide +kernel

theorem prefix_noBrace : ∀ c ∈ ckPrefix, c ≠ openBrace := by decide
theorem alphabet_noBrace : ∀ c ∈ alphabet, c ≠ openBrace := by decide
theorem alphabet_sorted : alphabet.Pairwise (· < ·) := by decide
theorem prefix_nonempty : ckPrefix ≠ [] := by decide

/-- slot of a candidate key `prefix ++ suffix` -/
theorem candidate_slot (w : Bytes) (hw : ∀ c ∈ w, c ∈ alphabet) :
    slotSpec (ckPrefix ++ w) = (update Generated.C15.checkpointPrefixState w).toNat % slots := by
  unfold slotSpec
  rw [hashedPart_noBrace, crc16, update_append, ← prefix_state]; rfl
  intro c hc
  rcases List.mem_append.1 hc with h | h
  · exact prefix_noBrace c h
  · exact alphabet_noBrace c (hw c h)

/-- **chosen_in_range**: for every slot range `0 ≤ l ≤ r ≤ 16383`, `ChoseSlotInRange(CheckpointKey, l, r)`
    returns a non-empty key — the prefix followed by a suffix of the coded length over the coded
    alphabet — whose Redis Cluster slot lies in `[l, r]`. -/
theorem chosen_in_range (l r : Int) (h0 : 0 ≤ l) (hlr : l ≤ r) (hr : r ≤ 16383) :
    let k := choseSlotInRange Generated.C15.checkpointKey l r
    k ≠ [] ∧ inRange l r (slotSpec k) = true ∧
    ∃ s, IsSuffix Generated.C15.suffixLen s ∧ k = ckPrefix ++ s := by
  -- a witness suffix for the slot `l`
  obtain ⟨x, hx⟩ := witness_all l.toNat (by omega)
  obtain ⟨w, hsuf, hslot⟩ := rowOK_spec x _ hx
  have hhit : judge l r (slotSpec (ckPrefix ++ w)) = true := by
    rw [candidate_slot w hsuf.2, hslot, judge, inRange_iff]; omega
  obtain ⟨k, hk⟩ := dfs_complete (judge l r) _ ckPrefix w hsuf hhit
  obtain ⟨s, hs, rfl, hj⟩ := dfs_sound (judge l r) _ _ _ hk
  have e : choseSlotInRange Generated.C15.checkpointKey l r = ckPrefix ++ s := by
    unfold choseSlotInRange; rw [show Generated.C15.checkpointKey ++ Generated.C15.checkpointSep = ckPrefix from rfl, hk]; rfl
  simp only [e]
  refine ⟨?_, hj, s, hs, rfl⟩
  intro h
  exact prefix_nonempty (List.append_eq_nil_iff.1 h).1

/-- non-vacuity: the whole slot space, a single slot, and a typical third of the cluster -/
example := chosen_in_range 0 16383 (by decide) (by decide) (by decide)
example := chosen_in_range 16383 16383 (by decide) (by decide) (by decide)
example := chosen_in_range 5461 10922 (by decide) (by decide) (by decide)

/-- the key chosen is the FIRST hit of the search in lexicographic order of the suffix, so the
    checkpoint name of a shard is a function of its range alone (stable across restarts) -/
theorem chosen_is_first_hit (l r : Int) (k : Bytes)
    (hk : pickSuffixDfs (judge l r) Generated.C15.suffixLen ckPrefix = some k) :
    ∃ s, IsSuffix Generated.C15.suffixLen s ∧ k = ckPrefix ++ s ∧ inRange l r (slotSpec k) = true ∧
      ∀ s', IsSuffix Generated.C15.suffixLen s' → inRange l r (slotSpec (ckPrefix ++ s')) = true → ¬ s' < s :=
  dfs_returns_first_hit (judge l r) alphabet_sorted _ _ _ hk

/-! ### 6. Every checkpoint key is excluded by the key filter -/

/-- any key that starts with `CheckpointKey` is filtered, whatever the black/white lists say -/
theorem checkpoint_keys_filtered (black white : List Bytes) (s : Bytes) :
    filterKey black white (Generated.C15.checkpointKey ++ s) = true := by
  unfold filterKey
  split
  · rfl
  · have : Generated.C15.checkpointKey.isPrefixOf (Generated.C15.checkpointKey ++ s) = true := by
      rw [List.isPrefixOf_iff_prefix]; exact List.prefix_append _ _
    simp [this]

/-- **chosen_filtered**: whatever `ChoseSlotInRange` returns for the checkpoint prefix — for ANY `l`, `r`,
    if it returns a key at all — is excluded by `FilterKey` under every configuration -/
theorem chosen_filtered (black white : List Bytes) (l r : Int)
    (hne : choseSlotInRange Generated.C15.checkpointKey l r ≠ []) :
    filterKey black white (choseSlotInRange Generated.C15.checkpointKey l r) = true := by
  unfold choseSlotInRange at hne ⊢
  cases h : pickSuffixDfs (judge l r) Generated.C15.suffixLen (Generated.C15.checkpointKey ++ Generated.C15.checkpointSep) with
  | none => rw [h] at hne; exact absurd rfl hne
  | some k =>
    obtain ⟨s, _, rfl, _⟩ := dfs_sound _ _ _ _ h
    simp only [Option.getD, List.append_assoc]
    exact checkpoint_keys_filtered black white _

theorem chosen_filtered_in_range (black white : List Bytes) (l r : Int) (h0 : 0 ≤ l) (hlr : l ≤ r) (hr : r ≤ 16383) :
    filterKey black white (choseSlotInRange Generated.C15.checkpointKey l r) = true :=
  chosen_filtered black white l r (chosen_in_range l r h0 hlr hr).1

/-- … and by every model of `FilterKey` the other properties use (full/incremental sync paths of C06, command rewriting of C13,
    rump of C16): the checkpoint key of a shard is never synchronised, filtered or copied as user data on any path
    (`chosen_filtered_in_range` carried across `C06.filterKey_models_agree_*`). -/
theorem chosen_filtered_all_paths (l r : Int) (h0 : 0 ≤ l) (hlr : l ≤ r) (hr : r ≤ 16383)
    (fcfg : Spec.Filter.Cfg) (kc : KeyFilter.Config) (rc : Rump.Config) :
    Filter.filterKey fcfg (choseSlotInRange Generated.C15.checkpointKey l r) = true ∧
    KeyFilter.filterKey kc (choseSlotInRange Generated.C15.checkpointKey l r) = true ∧
    Rump.filterKey rc (choseSlotInRange Generated.C15.checkpointKey l r) = true := by
  rw [C06.filterKey_models_agree_slot, C06.filterKey_models_agree_keyfilter, C06.filterKey_models_agree_rump]
  exact ⟨chosen_filtered_in_range _ _ l r h0 hlr hr, chosen_filtered_in_range _ _ l r h0 hlr hr,
    chosen_filtered_in_range _ _ l r h0 hlr hr⟩

/-! ### 7. The latency monitor's key search uses the same slot function -/

theorem latencyPrefix_noBrace : ∀ c ∈ Generated.C15.latencyKeyPrefix, c ≠ openBrace := by decide

/-- the slot computed by the latency monitor for its synthetic keys is the Redis Cluster slot -/
theorem latencySlot_eq_spec (i : Nat) : latencySlot (latencyKey i) = slotSpec (latencyKey i) := by
  unfold latencySlot slotSpec
  rw [hashedPart_noBrace, masks_spec.2.2, crc16_latency_eq_spec, mask_mod]; rfl
  intro c hc
  rcases List.mem_append.1 hc with h | h
  · exact latencyPrefix_noBrace c h
  · exact itoa_noBrace i c h

/-- whenever the search of `findKeyInRange` stops, it stops at a synthetic key whose Redis Cluster
    slot lies in `[min, max]`, and no smaller index would have done -/
theorem findKeyFrom_sound (min max : Int) : ∀ (fuel i : Nat) (k : Bytes), findKeyFrom min max fuel i = some k →
    ∃ j, i ≤ j ∧ k = latencyKey j ∧ inRange min max (slotSpec k) = true ∧
      ∀ j', i ≤ j' → j' < j → inRange min max (slotSpec (latencyKey j')) = false := by
  intro fuel
  induction fuel with
  | zero => intro i k h; simp [findKeyFrom] at h
  | succ n ih =>
    intro i k h
    simp only [findKeyFrom] at h
    split at h
    · rename_i hin
      simp at h; subst h
      rw [latencySlot_eq_spec] at hin
      exact ⟨i, Nat.le_refl _, rfl, hin, fun j' h1 h2 => by omega⟩
    · rename_i hin
      obtain ⟨j, hj, rfl, hr, hmin⟩ := ih _ _ h
      refine ⟨j, by omega, rfl, hr, ?_⟩
      intro j' h1 h2
      by_cases e : j' = i
      · subst e; rw [latencySlot_eq_spec] at hin; simpa using hin
      · exact hmin j' (by omega) h2

theorem findKeyInRange_sound (fuel : Nat) (min max : Int) (k : Bytes) (h : findKeyInRange fuel min max = some k) :
    ∃ j, k = latencyKey j ∧ inRange min max (slotSpec k) = true ∧
      ∀ j', j' < j → inRange min max (slotSpec (latencyKey j')) = false := by
  obtain ⟨j, _, hk, hr, hmin⟩ := findKeyFrom_sound min max fuel 0 k h
  exact ⟨j, hk, hr, fun j' h => hmin j' (Nat.zero_le _) h⟩
/-- the CRC16 state after the latency key prefix, computed once (candidate from factgen, kernel-checked) -/
theorem latency_prefix_state : crc16 Generated.C15.latencyKeyPrefix = Generated.C15.latencyPrefixState := by
  decide +kernel

theorem latency_key_slot (i : Nat) :
    slotSpec (latencyKey i) = (update Generated.C15.latencyPrefixState (itoa i)).toNat % slots := by
  unfold slotSpec latencyKey
  rw [hashedPart_noBrace, crc16, update_append, ← latency_prefix_state]; rfl
  intro c hc
  rcases List.mem_append.1 hc with h | h
  · exact latencyPrefix_noBrace c h
  · exact itoa_noBrace i c h

/-- **latency_key_search_terminates**: for every slot range `0 ≤ l ≤ r ≤ 16383` the (unbounded) loop of
    `findKeyInRange` stops within `latencyMaxIndex + 1` (= 147 918) iterations — a second regenerated,
    kernel-checked witness table gives for every slot an index whose key hashes to it — and the key
    it returns has its Redis Cluster slot in `[l, r]`. -/
theorem latency_key_search_terminates (l r : Int) (h0 : 0 ≤ l) (hlr : l ≤ r) (hr : r ≤ 16383) :
    ∃ k, findKeyInRange (Generated.C15.latencyMaxIndex + 1) l r = some k ∧
      inRange l r (slotSpec k) = true ∧ ∃ j, j ≤ Generated.C15.latencyMaxIndex ∧ k = latencyKey j := by
  obtain ⟨i, hi⟩ := lat_witness_all l.toNat (by omega)
  simp only [latRowOK, Bool.and_eq_true, decide_eq_true_eq, beq_iff_eq] at hi
  have hhit : inRange l r (latencySlot (latencyKey i)) = true := by
    rw [latencySlot_eq_spec, latency_key_slot, hi.2, inRange_iff]; omega
  obtain ⟨k, hk⟩ := findKeyFrom_complete l r (Generated.C15.latencyMaxIndex + 1) 0 i (Nat.zero_le _) (by omega) hhit
  obtain ⟨j, hkj, hr', hmin⟩ := findKeyInRange_sound _ l r k hk
  refine ⟨k, hk, hr', j, ?_, hkj⟩
  -- the search returns the FIRST hit, which cannot lie beyond the witness
  apply Nat.le_of_not_lt
  intro hlt
  have := hmin i (by omega)
  rw [← latencySlot_eq_spec, hhit] at this
  exact absurd this (by decide)

example := latency_key_search_terminates 0 16383 (by decide) (by decide) (by decide)
example := latency_key_search_terminates 8000 8000 (by decide) (by decide) (by decide)

/-! ### 7. Hash tags co-locate keys -/

private theorem afterFirst_split (c : UInt8) (pre rest : Bytes) (h : ∀ b ∈ pre, b ≠ c) :
    afterFirst c (pre ++ c :: rest) = some rest := by
  induction pre with
  | nil => simp [afterFirst]
  | cons b bs ih =>
    have hb : b ≠ c := h b (by simp)
    simp only [List.cons_append, afterFirst, hb, if_false]
    exact ih (fun x hx => h x (by simp [hx]))

private theorem beforeFirst_split (c : UInt8) (tag rest : Bytes) (h : ∀ b ∈ tag, b ≠ c) :
    beforeFirst c (tag ++ c :: rest) = some tag := by
  induction tag with
  | nil => simp [beforeFirst]
  | cons b bs ih =>
    have hb : b ≠ c := h b (by simp)
    simp only [List.cons_append, beforeFirst, hb, if_false]
    rw [ih (fun x hx => h x (by simp [hx]))]; rfl

/-- **hash tags co-locate keys.** A key whose first `{` is followed by a non-empty tag up to the first `}` hashes to the
    slot of the tag alone, whatever stands before the `{` and after the `}` — so two keys carrying the same tag are always
    routed to the same slot (what a user relies on when multi-key commands cross the tool). -/
theorem tagged_key_slot (pre tag suf : Bytes) (hp : ∀ b ∈ pre, b ≠ openBrace) (ht : ∀ b ∈ tag, b ≠ closeBrace)
    (hne : tag ≠ []) :
    (keyToSlot (pre ++ openBrace :: (tag ++ closeBrace :: suf))).toNat = (crc16 tag).toNat % slots := by
  rw [keyToSlot_eq_spec]
  unfold slotSpec hashedPart hashTag
  rw [afterFirst_split _ _ _ hp]
  simp only [beforeFirst_split _ _ _ ht]
  cases tag with
  | nil => exact absurd rfl hne
  | cons a ts => rfl

theorem same_tag_same_slot (pre pre' tag suf suf' : Bytes) (hp : ∀ b ∈ pre, b ≠ openBrace)
    (hp' : ∀ b ∈ pre', b ≠ openBrace) (ht : ∀ b ∈ tag, b ≠ closeBrace) (hne : tag ≠ []) :
    keyToSlot (pre ++ openBrace :: (tag ++ closeBrace :: suf)) =
      keyToSlot (pre' ++ openBrace :: (tag ++ closeBrace :: suf')) := by
  apply UInt16.toNat_inj.mp
  rw [tagged_key_slot pre tag suf hp ht hne, tagged_key_slot pre' tag suf' hp' ht hne]

/-- premises satisfiable: `user:{42}:name` and `{42}x` -/
example : keyToSlot ([117,115,101,114,58] ++ openBrace :: ([52,50] ++ closeBrace :: [58,110])) =
    keyToSlot ([] ++ openBrace :: ([52,50] ++ closeBrace :: [120])) :=
  same_tag_same_slot _ _ _ _ _ (by decide) (by decide) (by decide) (by decide)
end RSVerif.Properties.C15
