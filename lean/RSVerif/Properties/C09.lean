/- C09: property theorems (stub — not built yet) -/
namespace RSVerif.Properties.C09
end RSVerif.Properties.C09
