import RSVerif.Model.Pipe
import RSVerif.Lemmas.Pipe
/-
C09 — The pipe is a lossless, deadlock-free FIFO byte stream with exact close rules.
Property theorems only (helper lemmas live in RSVerif.Lemmas.Pipe).

Everything is stated for `Reach p`: ANY backend (memory / file), ANY ring size > 0, ANY finite
sequence of atomic steps `readSome k | writeSome bs | rclose e | wclose e | buffered | available`
taken in any order (= every interleaving of one reader thread, one writer thread and any number of
closing / counting threads; `Read`/`Write` are loops over these steps), including all wrap-arounds of
the ring and all drain resets.  `p.store.contents` is the queue of bytes written and not yet read.
-/
namespace RSVerif.Properties.C09
open RSVerif RSVerif.Pipe RSVerif.Lemmas.Pipe

/-! ### 0. The invariant, capacities, refinement of the specification -/

/-- the one invariant: it holds initially and every atomic step preserves it -/
theorem inv_init (b : Backend) (size : Nat) (hs : 0 < size) : Inv (Pipe.init b size) := init_inv b size hs

theorem inv_step {p : Pipe} (h : Inv p) (s : Step) : Inv (p.step s).1 := (step_refines h s).2

theorem inv_run {p : Pipe} (h : Inv p) (steps : List Step) : Inv (p.run steps).1 := run_inv h steps

theorem invariant {p : Pipe} (h : Reach p) : Inv p := h.inv

/-- the unsigned subtractions of `roffset`/`woffset`/`buffered`/`available` never wrap, and the
    ring is at position 0 whenever it is empty (drain reset) -/
theorem no_underflow {p : Pipe} (h : Reach p) :
    p.store.rpos ≤ p.store.wpos ∧ p.store.wpos ≤ p.store.rpos + p.store.size ∧
    (p.store.rpos = p.store.wpos → p.store.rpos = 0 ∧ p.store.wpos = 0) := by
  have i := h.inv
  exact ⟨i.rle, i.wle, fun e => ⟨by have := i.reset e; omega, i.reset e⟩⟩

/-- `align`: a positive multiple of the unit that holds the request, and the smallest such -/
theorem align_spec (req unit : Nat) (hu : 0 < unit) :
    0 < align req unit ∧ align req unit % unit = 0 ∧ req ≤ align req unit ∧
    (unit ≤ req → align req unit < req + unit) ∧ (req < unit → align req unit = unit) := by
  unfold align
  by_cases h : req < unit
  · simp [h]; omega
  · simp only [h, if_false]
    have h1 := Nat.div_add_mod (req + unit - 1) unit
    have h2 := Nat.mod_lt (req + unit - 1) hu
    have h3 : (req + unit - 1) / unit * unit = unit * ((req + unit - 1) / unit) := Nat.mul_comm _ _
    refine ⟨by omega, ?_, by omega, fun _ => by omega, fun hc => hc.elim⟩
    rw [h3]; exact Nat.mul_mod_right _ _

theorem align_pos (req unit : Nat) (hu : 0 < unit) : 0 < align req unit := (align_spec req unit hu).1

/-- both alignment units of the CURRENT source are positive (re-checked on every run) -/
theorem units_pos : 0 < Generated.C09.pipeBuffSizeAlign ∧ 0 < Generated.C09.pipeFileSizeAlign := by decide

/-- every pipe the public constructors build is covered by the theorems below -/
theorem constructors_reach (req : Nat) : Reach (newSize req) ∧ Reach (newFilePipe req) ∧ Reach Pipe.new :=
  ⟨⟨.mem, _, [], align_pos _ _ units_pos.1, rfl⟩, ⟨.file, _, [], align_pos _ _ units_pos.2, rfl⟩,
   ⟨.mem, _, [], align_pos _ _ units_pos.1, rfl⟩⟩

/-- refinement: every atomic step of the code model is a step of the FIFO specification `Next`
    (which allows any non-empty partial read/write), under the abstraction `Pipe.abs` -/
theorem refines_spec {p : Pipe} (h : Reach p) (s : Step) :
    Next p.abs s (p.step s).2 (p.step s).1.abs := (step_refines h.inv s).1

/-! ### 1. `fifo`: lossless, ordered, no duplication -/

/-- Bytes accepted so far = bytes delivered so far ++ bytes still buffered, as long as the reader has
    not closed (a reader close discards the buffer).  Through any wrap-arounds and drain resets. -/
theorem fifo (b : Backend) (size : Nat) (hs : 0 < size) (steps : List Step) :
    let r := (Pipe.init b size).run steps
    r.1.rerr = none → writtenOf r.2 = readOutOf r.2 ++ r.1.store.contents := by
  intro r hr
  have := (run_hist (init_inv b size hs) steps).1 hr
  rw [init_contents, List.nil_append] at this
  exact this

/-- In every history, closes included: what the reader got is a prefix of what the writer wrote. -/
theorem fifo_prefix (b : Backend) (size : Nat) (hs : 0 < size) (steps : List Step) :
    let r := (Pipe.init b size).run steps
    readOutOf r.2 <+: writtenOf r.2 := by
  intro r
  have := (run_hist (init_inv b size hs) steps).2
  rw [init_contents, List.nil_append] at this
  exact this

/-- the same from any reachable state: the bytes buffered there come out first -/
theorem fifo_from {p : Pipe} (h : Reach p) (steps : List Step) :
    let r := p.run steps
    (r.1.rerr = none → p.store.contents ++ writtenOf r.2 = readOutOf r.2 ++ r.1.store.contents) ∧
    readOutOf r.2 <+: p.store.contents ++ writtenOf r.2 := run_hist h.inv steps

/-- the buffer never holds more than the capacity -/
theorem bounded {p : Pipe} (h : Reach p) : p.store.contents.length ≤ p.store.size := by
  have i := h.inv
  unfold Store.contents
  split
  · simp
  · rw [length_cells]; have := i.rle; have := i.wle; omega

/-! ### 2. exact result of `readSome` / `writeSome` in terms of the queue -/

/-- what `readSome` returns, for every reachable state and buffer length -/
theorem read_exact {p : Pipe} (h : Reach p) (k : Nat) :
    (p.readSome k).2 =
      if p.rerr ≠ none then .ret [] (some .closed)
      else if k = 0 then .ret [] (if p.store.contents ≠ [] then none else p.werr)
      else if p.store.contents ≠ [] then
        .ret (p.store.contents.take
          (min k (min p.store.contents.length (p.store.size - p.store.rpos % p.store.size)))) none
      else match p.werr with
        | some e => .ret [] (some e)
        | none => .park := by
  have i := h.inv
  obtain hr | ⟨e, hr⟩ := Option.eq_none_or_eq_some p.rerr
  · simp only [hr, ne_eq, not_true_eq_false, if_false]
    by_cases hk : k = 0
    · subst hk
      rw [Pipe.readSome_zero hr, buffered_eq i hr]
      by_cases hq : p.store.contents = [] <;> simp [hq]
    · simp only [hk, if_false]
      have hk0 : 0 < k := Nat.pos_of_ne_zero hk
      by_cases hq : p.store.contents = []
      · have he := (contents_eq_nil_iff i hr).mp hq
        simp only [hq, not_true_eq_false, if_false]
        obtain hw | ⟨e, hw⟩ := Option.eq_none_or_eq_some p.werr
        · rw [Pipe.readSome_park i hr hk0 he hw, hw]
        · rw [Pipe.readSome_drained i hr hk0 he hw, hw]
      · have hne : p.store.rpos < p.store.wpos := by
          have := i.rle
          have : p.store.rpos ≠ p.store.wpos := fun e => hq ((contents_eq_nil_iff i hr).mpr e)
          omega
        obtain ⟨s', n, hrs, _, hn, _, _, _, _⟩ := Pipe.readSome_data i hr hk0 hne
        simp only [hq, not_false_eq_true, if_true, hrs, length_contents (i.open_ hr), ← hn]
  · simp [Pipe.readSome_closed hr, hr]

/-- what `writeSome` returns, for every reachable state and data -/
theorem write_exact {p : Pipe} (h : Reach p) (bs : Bytes) :
    (p.writeSome bs).2 =
      if p.werr ≠ none then .ret 0 (some .closed)
      else match p.rerr with
        | some e => .ret 0 (some e)
        | none =>
          if bs = [] then .ret 0 none
          else if p.store.contents.length < p.store.size then
            .ret (min bs.length (min (p.store.size - p.store.contents.length)
                    (p.store.size - p.store.wpos % p.store.size))) none
          else .park := by
  have i := h.inv
  obtain hw | ⟨e, hw⟩ := Option.eq_none_or_eq_some p.werr
  · simp only [hw, ne_eq, not_true_eq_false, if_false]
    obtain hr | ⟨e, hr⟩ := Option.eq_none_or_eq_some p.rerr
    · simp only [hr]
      by_cases hb : bs = []
      · subst hb; simp [Pipe.writeSome_zero hw hr]
      · simp only [hb, if_false]
        have hl := length_contents (i.open_ hr)
        have := i.rle; have := i.wle
        by_cases hroom : p.store.wpos < p.store.rpos + p.store.size
        · obtain ⟨s', n, hws, _, hn, _, _, _, _⟩ := Pipe.writeSome_data i hw hr hb hroom
          have hlt : p.store.contents.length < p.store.size := by omega
          have e : p.store.size - p.store.contents.length = p.store.size + p.store.rpos - p.store.wpos := by
            omega
          simp only [hlt, if_true, hws, e, ← hn]
        · have hf : p.store.wpos = p.store.rpos + p.store.size := by omega
          have hlt : ¬ p.store.contents.length < p.store.size := by omega
          simp only [hlt, if_false, Pipe.writeSome_park i hw hr hb hf]
    · simp [Pipe.writeSome_readerGone hw hr, hr]
  · simp [Pipe.writeSome_closed hw, hw]

/-- neither call touches the close state -/
theorem errs_unchanged (p : Pipe) (k : Nat) (bs : Bytes) :
    (p.readSome k).1.rerr = p.rerr ∧ (p.readSome k).1.werr = p.werr ∧
    (p.writeSome bs).1.rerr = p.rerr ∧ (p.writeSome bs).1.werr = p.werr := by
  refine ⟨?_, ?_, ?_, ?_⟩
  · unfold Pipe.readSome; repeat' split
    all_goals rfl
  · unfold Pipe.readSome; repeat' split
    all_goals rfl
  · unfold Pipe.writeSome; repeat' split
    all_goals rfl
  · unfold Pipe.writeSome; repeat' split
    all_goals rfl

/-! ### 3. `block_iff` -/

/-- a read parks ⇔ it wants bytes, the buffer is empty and neither side is closed -/
theorem read_blocks_iff {p : Pipe} (h : Reach p) (k : Nat) :
    (p.readSome k).2 = .park ↔ 0 < k ∧ p.store.contents = [] ∧ p.rerr = none ∧ p.werr = none := by
  rw [read_exact h k]
  by_cases hr : p.rerr = none <;> by_cases hk : k = 0 <;> by_cases hq : p.store.contents = [] <;>
    cases hw : p.werr <;> simp [hr, hk, hq] <;> omega

/-- a write parks ⇔ it has bytes, the buffer is full and neither side is closed -/
theorem write_blocks_iff {p : Pipe} (h : Reach p) (bs : Bytes) :
    (p.writeSome bs).2 = .park ↔
      bs ≠ [] ∧ p.store.contents.length = p.store.size ∧ p.rerr = none ∧ p.werr = none := by
  rw [write_exact h bs]
  have hb := bounded h
  by_cases hw : p.werr = none <;> cases hr : p.rerr <;> by_cases hbs : bs = [] <;>
    by_cases hf : p.store.contents.length < p.store.size <;> simp [hw, hbs, hf] <;> omega

/-- a read that finds data returns at least one byte and at most what was asked for — the oldest bytes -/
theorem read_progress {p : Pipe} (h : Reach p) {k : Nat} (hk : 0 < k) (hr : p.rerr = none)
    (hq : p.store.contents ≠ []) :
    ∃ n, 1 ≤ n ∧ n ≤ k ∧ n ≤ p.store.contents.length ∧
      (p.readSome k).2 = .ret (p.store.contents.take n) none := by
  have i := h.inv
  have hl : 0 < p.store.contents.length := List.length_pos_iff.mpr hq
  have ho : p.store.rpos % p.store.size < p.store.size := Nat.mod_lt _ i.size_pos
  refine ⟨min k (min p.store.contents.length (p.store.size - p.store.rpos % p.store.size)),
    by omega, by omega, by omega, ?_⟩
  rw [read_exact h k]
  simp [hr, Nat.ne_of_gt hk, hq]

/-- a write that finds room accepts at least one byte, at most what fits -/
theorem write_progress {p : Pipe} (h : Reach p) {bs : Bytes} (hb : bs ≠ []) (hr : p.rerr = none)
    (hw : p.werr = none) (hroom : p.store.contents.length < p.store.size) :
    ∃ n, 1 ≤ n ∧ n ≤ bs.length ∧ p.store.contents.length + n ≤ p.store.size ∧
      (p.writeSome bs).2 = .ret n none := by
  have i := h.inv
  have hl : 0 < bs.length := List.length_pos_iff.mpr hb
  have ho : p.store.wpos % p.store.size < p.store.size := Nat.mod_lt _ i.size_pos
  refine ⟨min bs.length (min (p.store.size - p.store.contents.length)
    (p.store.size - p.store.wpos % p.store.size)), by omega, by omega, by omega, ?_⟩
  rw [write_exact h bs]
  simp [hr, hw, hb, hroom]

/-! ### 4. `no_deadlock` -/

/-- reader and writer are never parked at the same time -/
theorem never_both_parked {p : Pipe} (h : Reach p) : ¬ (p.rPark = true ∧ p.wPark = true) := by
  intro ⟨hr, hw⟩
  have i := h.inv
  have := (i.rpark hr).1; have := (i.wpark hw).1; have := i.size_pos
  omega

/-- a parked reader means: empty and nobody closed; a parked writer means: full and nobody closed -/
theorem parked_condition {p : Pipe} (h : Reach p) :
    (p.rPark = true → p.store.contents = [] ∧ p.rerr = none ∧ p.werr = none) ∧
    (p.wPark = true → p.store.contents.length = p.store.size ∧ p.rerr = none ∧ p.werr = none) := by
  have i := h.inv
  refine ⟨fun hp => ?_, fun hp => ?_⟩
  · obtain ⟨he, hr, hw⟩ := i.rpark hp
    exact ⟨(contents_eq_nil_iff i hr).mpr he, hr, hw⟩
  · obtain ⟨hf, hr, hw⟩ := i.wpark hp
    exact ⟨(contents_full_iff i hr).mpr hf, hr, hw⟩

/-- While the reader is parked the writer is not, its next non-empty `writeSome` cannot park: it accepts
    n ≥ 1 bytes and wakes the reader (`rwait.Signal`), whose retry then finds these bytes. -/
theorem write_wakes_reader {p : Pipe} (h : Reach p) (hp : p.rPark = true) {bs : Bytes} (hb : bs ≠ []) :
    p.wPark = false ∧
    ∃ n, 1 ≤ n ∧ (p.writeSome bs).2 = .ret n none ∧ (p.writeSome bs).1.rPark = false ∧
      (p.writeSome bs).1.store.contents = bs.take n ∧
      ∀ k, 0 < k → ((p.writeSome bs).1.readSome k).2 ≠ .park := by
  have i := h.inv
  obtain ⟨he, hr, hw⟩ := i.rpark hp
  have hwp : p.wPark = false := by
    cases hx : p.wPark with
    | false => rfl
    | true => exact absurd ⟨hp, hx⟩ (never_both_parked h)
  have hroom : p.store.wpos < p.store.rpos + p.store.size := by have := i.size_pos; omega
  obtain ⟨s', n, hws, hsi', hn, hnpos, hc, hsz, hbk, _, _⟩ := Pipe.writeSome_data i hw hr hb hroom
  have hq : p.store.contents = [] := (contents_eq_nil_iff i hr).mpr he
  have hstep : (p.step (.writeSome bs)).1 = (p.writeSome bs).1 := by simp [Pipe.step, hwp]
  have hreach : Reach (p.writeSome bs).1 := hstep ▸ h.step (.writeSome bs)
  refine ⟨hwp, n, hnpos, by rw [hws], by rw [hws], by rw [hws]; simp [hc, hq], ?_⟩
  intro k hk hpark
  have := (read_blocks_iff hreach k).mp hpark
  rw [hws] at this
  have hl : (bs.take n).length = 0 := by
    have := this.2.1; simp only [hc, hq, List.nil_append] at this; rw [this]; rfl
  have hbl : 0 < bs.length := List.length_pos_iff.mpr hb
  simp only [List.length_take] at hl
  omega

/-- While the writer is parked the reader is not, its next non-empty `readSome` cannot park: it returns
    n ≥ 1 bytes and wakes the writer (`wwait.Signal`), whose retry then finds room. -/
theorem read_wakes_writer {p : Pipe} (h : Reach p) (hp : p.wPark = true) {k : Nat} (hk : 0 < k) :
    p.rPark = false ∧
    ∃ n, 1 ≤ n ∧ (p.readSome k).2 = .ret (p.store.contents.take n) none ∧ (p.readSome k).1.wPark = false ∧
      (p.readSome k).1.store.contents = p.store.contents.drop n ∧
      ∀ bs, ((p.readSome k).1.writeSome bs).2 ≠ .park := by
  have i := h.inv
  obtain ⟨hf, hr, hw⟩ := i.wpark hp
  have hrp : p.rPark = false := by
    cases hx : p.rPark with
    | false => rfl
    | true => exact absurd ⟨hx, hp⟩ (never_both_parked h)
  have hne : p.store.rpos < p.store.wpos := by have := i.size_pos; omega
  obtain ⟨s', n, hrs, hsi', hn, hnpos, hc, hsz, hbk, _, _⟩ := Pipe.readSome_data i hr hk hne
  have hstep : (p.step (.readSome k)).1 = (p.readSome k).1 := by simp [Pipe.step, hrp]
  have hreach : Reach (p.readSome k).1 := hstep ▸ h.step (.readSome k)
  refine ⟨hrp, n, hnpos, by rw [hrs], by rw [hrs], by rw [hrs]; exact hc, ?_⟩
  intro bs hpark
  have := (write_blocks_iff hreach bs).mp hpark
  rw [hrs] at this
  have hl := this.2.1
  simp only [hc, hsz, List.length_drop] at hl
  have := (contents_full_iff i hr).mpr hf
  have := i.size_pos
  omega

/-- any close wakes both sides -/
theorem close_wakes_both (p : Pipe) (e : Option Err) :
    (p.rclose e).rPark = false ∧ (p.rclose e).wPark = false ∧
    (p.wclose e).rPark = false ∧ (p.wclose e).wPark = false := ⟨rfl, rfl, rfl, rfl⟩

/-- conversely nothing else wakes a parked side: if a step ends the reader's (writer's) wait it is a
    write that accepted bytes (a read that returned bytes) or a close -/
theorem wake_only_by_progress_or_close {p : Pipe} (h : Reach p) (s : Step) :
    (p.rPark = true → (p.step s).1.rPark = false →
      (∃ bs n, s = .writeSome bs ∧ (p.step s).2 = .w (.ret n none) ∧ 1 ≤ n) ∨
      (∃ e, s = .rclose e) ∨ (∃ e, s = .wclose e)) ∧
    (p.wPark = true → (p.step s).1.wPark = false →
      (∃ k d, s = .readSome k ∧ (p.step s).2 = .r (.ret d none) ∧ d ≠ []) ∨
      (∃ e, s = .rclose e) ∨ (∃ e, s = .wclose e)) := by
  have hn := (step_refines h.inv s).1
  generalize hb : (p.step s).2 = o at hn
  generalize ha' : (p.step s).1.abs = a' at hn
  have hr' : (p.step s).1.rPark = a'.rPark := by rw [← ha']; rfl
  have hw' : (p.step s).1.wPark = a'.wPark := by rw [← ha']; rfl
  have hr0 : p.rPark = p.abs.rPark := rfl
  have hw0 : p.wPark = p.abs.wPark := rfl
  rw [hr', hw', hr0, hw0]
  generalize p.abs = a at hn
  cases hn <;> simp_all
  · intro _
    refine ⟨by omega, fun hc => ?_⟩
    simp_all
  
/-- `no_deadlock`, in one statement: in every reachable state at most one side is parked, and the side
    that is not parked makes progress with its next non-trivial step, which un-parks the other. -/
theorem no_deadlock {p : Pipe} (h : Reach p) :
    ¬ (p.rPark = true ∧ p.wPark = true) ∧
    (p.rPark = true → ∀ bs, bs ≠ [] → ∃ n, 1 ≤ n ∧ (p.writeSome bs).2 = .ret n none ∧
        (p.writeSome bs).1.rPark = false) ∧
    (p.wPark = true → ∀ k, 0 < k → ∃ d, d ≠ [] ∧ (p.readSome k).2 = .ret d none ∧
        (p.readSome k).1.wPark = false) := by
  refine ⟨never_both_parked h, fun hp bs hb => ?_, fun hp k hk => ?_⟩
  · obtain ⟨_, n, h1, h2, h3, _⟩ := write_wakes_reader h hp hb
    exact ⟨n, h1, h2, h3⟩
  · obtain ⟨_, n, h1, h2, h3, _⟩ := read_wakes_writer h hp hk
    have hf := ((parked_condition h).2 hp).1
    have := h.inv.size_pos
    refine ⟨_, ?_, h2, h3⟩
    intro hc
    have := congrArg List.length hc
    simp only [List.length_take, List.length_nil] at this
    omega

/-! ### 5. `close_rules` -/

/-- the first close of a side fixes its error (`Close()` = EOF for the writer, closed-pipe for the
    reader); later closes do not change it -/
theorem close_first_wins (p : Pipe) (e : Option Err) :
    (p.wclose e).werr = some (p.werr.getD (e.getD .eof)) ∧ (p.wclose e).rerr = p.rerr ∧
    (p.rclose e).rerr = some (p.rerr.getD (e.getD .closed)) ∧ (p.rclose e).werr = p.werr := by
  cases hw : p.werr <;> cases hr : p.rerr <;> simp [Pipe.wclose, Pipe.rclose, setOnce, hw, hr]

/-- no step ever clears or changes an error once set -/
theorem errs_stable (p : Pipe) (s : Step) :
    (∀ e, p.werr = some e → (p.step s).1.werr = some e) ∧
    (∀ e, p.rerr = some e → (p.step s).1.rerr = some e) := by
  have he := errs_unchanged p
  cases s with
  | readSome k =>
    by_cases hp : p.rPark = true <;> simp [Pipe.step, hp, (he k []).1, (he k []).2.1]
  | writeSome bs =>
    by_cases hp : p.wPark = true <;> simp [Pipe.step, hp, (he 0 bs).2.2.1, (he 0 bs).2.2.2]
  | rclose e => refine ⟨fun x hx => ?_, fun x hx => ?_⟩ <;> simp [Pipe.step, Pipe.rclose, setOnce, hx]
  | wclose e => refine ⟨fun x hx => ?_, fun x hx => ?_⟩ <;> simp [Pipe.step, Pipe.wclose, setOnce, hx]
  | buffered => exact ⟨fun _ hx => hx, fun _ hx => hx⟩
  | available => exact ⟨fun _ hx => hx, fun _ hx => hx⟩

/-- After the writer closed with `e`: a read never parks; while bytes are buffered it returns the
    oldest ones (at least one), and only when the buffer is empty it returns `e`. -/
theorem read_after_wclose {p : Pipe} (h : Reach p) {e : Err} (hw : p.werr = some e) (hr : p.rerr = none)
    {k : Nat} (hk : 0 < k) :
    (p.store.contents ≠ [] → ∃ n, 1 ≤ n ∧ n ≤ k ∧ (p.readSome k).2 = .ret (p.store.contents.take n) none) ∧
    (p.store.contents = [] → p.readSome k = (p, .ret [] (some e))) := by
  refine ⟨fun hq => ?_, fun hq => ?_⟩
  · obtain ⟨n, h1, h2, _, h4⟩ := read_progress h hk hr hq
    exact ⟨n, h1, h2, h4⟩
  · exact Pipe.readSome_drained h.inv hr hk ((contents_eq_nil_iff h.inv hr).mp hq) hw

/-- After the writer closed: every write (also a zero-length one) fails with closed-pipe, accepts
    nothing, changes nothing and does not park. -/
theorem write_after_wclose {p : Pipe} {e : Err} (hw : p.werr = some e) (bs : Bytes) :
    p.writeSome bs = (p, .ret 0 (some .closed)) := Pipe.writeSome_closed hw bs

/-- After the writer closed nothing is accepted any more, so (while the reader stays open) what is
    read afterwards ++ what is still buffered = what was buffered at the close: the reader drains
    exactly the buffered bytes before it sees the error. -/
theorem drain_after_wclose {p : Pipe} (h : Reach p) {e : Err} (hw : p.werr = some e) (steps : List Step) :
    let r := p.run steps
    writtenOf r.2 = [] ∧ r.1.werr = some e ∧
    (r.1.rerr = none → p.store.contents = readOutOf r.2 ++ r.1.store.contents) := by
  have key : ∀ (steps : List Step) (p : Pipe), p.werr = some e →
      writtenOf (p.run steps).2 = [] ∧ (p.run steps).1.werr = some e := by
    intro steps
    induction steps with
    | nil => intro p hw; exact ⟨rfl, hw⟩
    | cons s rest ih =>
      intro p hw
      rw [run_cons]
      have hw' := (errs_stable p s).1 e hw
      have hwr : wrote s (p.step s).2 = [] := by
        cases s with
        | writeSome bs =>
          by_cases hp : p.wPark = true
          · simp [Pipe.step, hp, wrote]
          · simp [Pipe.step, hp, wrote, Pipe.writeSome_closed hw]
        | _ => rfl
      simp only [writtenOf, hwr, List.nil_append]
      exact ih _ hw'
  intro r
  obtain ⟨k1, k2⟩ := key steps p hw
  refine ⟨k1, k2, fun hr => ?_⟩
  have := (run_hist h.inv steps).1 hr
  rw [k1, List.append_nil] at this
  exact this

/-- After the reader closed (with `e`): reads fail with closed-pipe, writes fail with the reader's error
    (closed-pipe if the writer closed too), also zero-length ones; nothing parks, nothing changes,
    the buffer is gone; `Buffered`/`Available` report the error. -/
theorem after_rclose {p : Pipe} (h : Reach p) {e : Err} (hr : p.rerr = some e) (k : Nat) (bs : Bytes) :
    p.readSome k = (p, .ret [] (some .closed)) ∧
    p.writeSome bs = (p, .ret 0 (some (if p.werr ≠ none then .closed else e))) ∧
    p.buffered = (0, some e) ∧ p.available = (0, some (p.werr.getD e)) ∧
    p.store.contents = [] ∧ p.rPark = false ∧ p.wPark = false := by
  have i := h.inv
  have hc : p.store.closed = true := by rw [i.closed_iff, hr]; rfl
  refine ⟨Pipe.readSome_closed hr k, ?_, ?_, ?_, ?_, ?_, ?_⟩
  · obtain hw | ⟨x, hw⟩ := Option.eq_none_or_eq_some p.werr
    · simp [Pipe.writeSome_readerGone hw hr, hw]
    · simp [Pipe.writeSome_closed hw, hw]
  · simp [Pipe.buffered, hr]
  · cases hw : p.werr <;> simp [Pipe.available, hr, hw]
  · simp [Store.contents, hc]
  · cases hx : p.rPark with
    | false => rfl
    | true => have := (i.rpark hx).2.1; rw [hr] at this; cases this
  · cases hx : p.wPark with
    | false => rfl
    | true => have := (i.wpark hx).2.1; rw [hr] at this; cases this

/-! ### 6. `zero_len` -/

/-- A zero-length read never parks and changes nothing: closed-pipe after a reader close, else `nil`
    while bytes are buffered, else the writer's error (`nil` if the writer is still open). -/
theorem zero_read {p : Pipe} (h : Reach p) :
    p.readSome 0 = (p, .ret [] (if p.rerr ≠ none then some .closed
                                  else if p.store.contents ≠ [] then none else p.werr)) := by
  obtain hr | ⟨e, hr⟩ := Option.eq_none_or_eq_some p.rerr
  · rw [Pipe.readSome_zero hr, buffered_eq h.inv hr]
    by_cases hq : p.store.contents = [] <;> simp [hq, hr]
  · simp [Pipe.readSome_closed hr, hr]

/-- A zero-length write never parks and changes nothing: closed-pipe after a writer close, else the
    reader's error after a reader close, else `(0, nil)` — also when the buffer is full. -/
theorem zero_write (p : Pipe) :
    p.writeSome [] = (p, .ret 0 (if p.werr ≠ none then some .closed else p.rerr)) := by
  obtain hw | ⟨e, hw⟩ := Option.eq_none_or_eq_some p.werr
  · obtain hr | ⟨e, hr⟩ := Option.eq_none_or_eq_some p.rerr
    · simp [Pipe.writeSome_zero hw hr, hw, hr]
    · simp [Pipe.writeSome_readerGone hw hr, hw, hr]
  · simp [Pipe.writeSome_closed hw, hw]

/-! ### 7. `buffered_available` -/

theorem buffered_exact {p : Pipe} (h : Reach p) :
    p.buffered = match p.rerr with
      | some e => (0, some e)
      | none => if p.store.contents ≠ [] then (p.store.contents.length, none) else (0, p.werr) := by
  obtain hr | ⟨e, hr⟩ := Option.eq_none_or_eq_some p.rerr
  · simp only [Pipe.buffered, hr, buffered_eq h.inv hr]
    by_cases hq : p.store.contents = [] <;> simp [hq]
  · simp [Pipe.buffered, hr]

theorem available_exact {p : Pipe} (h : Reach p) :
    p.available = match p.werr, p.rerr with
      | some e, _ => (0, some e)
      | none, some e => (0, some e)
      | none, none => (p.store.size - p.store.contents.length, none) := by
  obtain hw | ⟨e, hw⟩ := Option.eq_none_or_eq_some p.werr
  · obtain hr | ⟨e, hr⟩ := Option.eq_none_or_eq_some p.rerr
    · simp [Pipe.available, hw, hr, available_eq h.inv hr]
    · simp [Pipe.available, hw, hr]
  · simp [Pipe.available, hw]

/-- with both sides open: Buffered + Available = capacity, Buffered = accepted − delivered -/
theorem buffered_plus_available (b : Backend) (size : Nat) (hs : 0 < size) (steps : List Step) :
    let r := (Pipe.init b size).run steps
    r.1.rerr = none → r.1.werr = none →
      r.1.buffered.1 + r.1.available.1 = size ∧
      r.1.buffered.1 + (readOutOf r.2).length = (writtenOf r.2).length := by
  intro r hr hw
  have hreach : Reach r.1 := ⟨b, size, steps, hs, rfl⟩
  have hf : writtenOf r.2 = readOutOf r.2 ++ r.1.store.contents := fifo b size hs steps hr
  have hb := bounded hreach
  have hsz : r.1.store.size = size := run_size (init_inv b size hs) steps
  rw [buffered_exact hreach, available_exact hreach]
  simp only [hr, hw]
  have hl := congrArg List.length hf
  simp only [List.length_append] at hl
  by_cases hq : r.1.store.contents = []
  · simp [hq] at hl ⊢; omega
  · simp only [hq, ne_eq, not_false_eq_true, if_true]; omega

/-! ### 8. both backends: the byte store is always accessed inside its bounds -/

/-- In every reachable open state: the memory store's slice `p.b[offset:offset+maxlen]` lies inside
    `p.b` (no slice panic), the file store's `ReadAt` range lies inside the file (never a short read,
    never `io.EOF` from the file), and the file is exactly `min wpos size` bytes long — in particular
    it is empty (truncated) whenever the ring is drained. -/
theorem store_access_in_range {p : Pipe} (h : Reach p) (hr : p.rerr = none) (k : Nat) (bs : Bytes) :
    (roffset k p.store.size p.store.rpos p.store.wpos).2 + (roffset k p.store.size p.store.rpos p.store.wpos).1
        ≤ p.store.mem.length ∧
    (woffset bs.length p.store.size p.store.rpos p.store.wpos).2 +
        (woffset bs.length p.store.size p.store.rpos p.store.wpos).1 ≤ p.store.size ∧
    (p.store.backend = .mem → p.store.mem.length = p.store.size) ∧
    (p.store.backend = .file → p.store.mem.length = min p.store.wpos p.store.size) ∧
    (p.store.backend = .file → p.store.contents = [] → p.store.mem = []) := by
  have i := h.inv
  have hm := i.memlen (i.open_ hr)
  have ho1 : p.store.rpos % p.store.size < p.store.size := Nat.mod_lt _ i.size_pos
  have ho2 : p.store.wpos % p.store.size < p.store.size := Nat.mod_lt _ i.size_pos
  have ho3 : p.store.rpos % p.store.size ≤ p.store.rpos := Nat.mod_le _ _
  have := i.rle; have := i.wle
  rw [roffset_eq, woffset_eq]
  refine ⟨?_, by simp only; omega, fun hb => by simpa [memLen, hb] using hm,
    fun hb => by simpa [memLen, hb] using hm, fun hb hq => ?_⟩
  · simp only; rw [hm]; unfold memLen; split <;> omega
  · have he := (contents_eq_nil_iff i hr).mp hq
    have := i.reset he
    apply List.eq_nil_of_length_eq_zero
    rw [hm]; simp only [memLen, hb]; omega

/-- the stores never report an I/O error in a reachable open state (no short `ReadAt`) -/
theorem store_never_fails {p : Pipe} (h : Reach p) (hr : p.rerr = none) (k : Nat) (bs : Bytes) :
    (p.store.readSome k).2.2 = none ∧ (p.store.writeSome bs).2.2 = none := by
  have i := h.inv
  have hsi := i.sinv hr
  constructor
  · by_cases hk : k = 0
    · subst hk; simp [Store.readSome, hsi.open_, roffset_eq]
    · by_cases hne : p.store.rpos < p.store.wpos
      · obtain ⟨s', n, hrs, _⟩ := Store.readSome_spec hsi (Nat.pos_of_ne_zero hk) hne
        rw [hrs]
      · have he : p.store.rpos = p.store.wpos := by have := i.rle; omega
        rw [Store.readSome_empty hsi k he]
  · by_cases hb : bs = []
    · subst hb; simp [Store.writeSome, hsi.open_, woffset_eq]
    · by_cases hroom : p.store.wpos < p.store.rpos + p.store.size
      · obtain ⟨s', n, hws, _⟩ := Store.writeSome_spec hsi hb hroom
        rw [hws]
      · have hf : p.store.wpos = p.store.rpos + p.store.size := by have := i.wle; omega
        rw [Store.writeSome_full hsi bs hf]

/-- Memory- and file-backed pipes with the same ring size cannot be told apart through the API: every
    schedule produces the same observations step by step (same bytes, counts, errors, parks). What differs
    is only where the bytes live (and that the file is truncated on drain / reader close). -/
theorem backend_irrelevant (size : Nat) (hs : 0 < size) (steps : List Step) :
    ((Pipe.init .mem size).run steps).2 = ((Pipe.init .file size).run steps).2 :=
  (sim_run (sim_init size hs) steps).1

/-! ### 9. `Read` / `Write`: every loop iteration is at most one atomic step -/

/-- so every state the two loops (`Sys.stepReader`, `Sys.stepWriter`) can reach is covered above -/
theorem loops_stay_reachable {s : Sys} (h : Reach s.p) :
    Reach s.stepReader.1.p ∧ Reach s.stepWriter.1.p := by
  constructor
  · unfold Sys.stepReader
    cases hrt : s.rt with
    | idle => exact h
    | reading k =>
      by_cases hp : s.p.rPark = true
      · simp [hp]; exact h
      · have hst : (s.p.step (.readSome k)).1 = (s.p.readSome k).1 := by simp [Pipe.step, hp]
        have hre := hst ▸ h.step (.readSome k)
        simp only [hp, Bool.false_eq_true, if_false]
        split
        · rename_i heq; rw [heq] at hre; exact hre
        · rename_i heq; rw [heq] at hre
          repeat' split
          all_goals exact hre
  · unfold Sys.stepWriter
    cases hwt : s.wt with
    | idle => exact h
    | writing rest nn =>
      by_cases hp : s.p.wPark = true
      · simp [hp]; exact h
      · have hst : (s.p.step (.writeSome rest)).1 = (s.p.writeSome rest).1 := by simp [Pipe.step, hp]
        have hre := hst ▸ h.step (.writeSome rest)
        simp only [hp, Bool.false_eq_true, if_false]
        split
        · rename_i heq; rw [heq] at hre; exact hre
        · rename_i heq; rw [heq] at hre
          repeat' split
          all_goals exact hre

/-- `writeSome` never reports more bytes than it was given -/
theorem write_count_le {p : Pipe} (h : Reach p) (bs : Bytes) {n : Nat} {err : Option Err}
    (ho : (p.writeSome bs).2 = .ret n err) : n ≤ bs.length := by
  rw [write_exact h bs] at ho
  split at ho
  · cases ho; omega
  · split at ho
    · cases ho; omega
    · split at ho
      · cases ho; omega
      · split at ho
        · cases ho; omega
        · cases ho

/-- One iteration of `Write`'s loop, case by case: it keeps `nn + len(rest)` constant while it continues,
    returns `(nn + n, err)` on an error and returns `nil` only when everything was accepted — so a `Write`
    that returns `nil` returns `len(b)`, and the chunks it fed to `writeSome` are consecutive pieces of `b`. -/
theorem write_loop_step {s : Sys} (h : Reach s.p) {rest : Bytes} {nn : Nat} (hw : s.wt = .writing rest nn)
    (hp : s.p.wPark = false) :
    match (s.p.writeSome rest).2 with
    | .park => s.stepWriter = ({ s with p := (s.p.writeSome rest).1 }, none)
    | .ret n (some e) =>
        s.stepWriter = ({ s with p := (s.p.writeSome rest).1, wt := .idle }, some ⟨nn + n, some e⟩)
    | .ret n none =>
        n ≤ rest.length ∧
        if n = rest.length then
          s.stepWriter = ({ s with p := (s.p.writeSome rest).1, wt := .idle }, some ⟨nn + rest.length, none⟩)
        else
          s.stepWriter = ({ s with p := (s.p.writeSome rest).1, wt := .writing (rest.drop n) (nn + n) }, none) := by
  have hle := fun n err => write_count_le h rest (n := n) (err := err)
  unfold Sys.stepWriter
  rw [hw]
  simp only [hp, Bool.false_eq_true, if_false]
  generalize hres : s.p.writeSome rest = res at hle
  obtain ⟨p', o⟩ := res
  cases o with
  | park => rfl
  | ret n err =>
    cases err with
    | some e => simp
    | none =>
      have hn := hle n none rfl
      refine ⟨hn, ?_⟩
      by_cases he : n = rest.length
      · subst he; simp
      · have : ¬ (rest.length - n = 0) := by omega
        simp [he, this]

/-- One iteration of `Read`'s loop: it returns as soon as `readSome` delivered bytes or an error, returns
    `(0, nil)` for an empty buffer argument, and otherwise (woken from the wait) tries again. -/
theorem read_loop_step {s : Sys} {k : Nat} (hr : s.rt = .reading k) (hp : s.p.rPark = false) :
    match (s.p.readSome k).2 with
    | .park => s.stepReader = ({ s with p := (s.p.readSome k).1 }, none)
    | .ret data err =>
        if err ≠ none ∨ data ≠ [] then
          s.stepReader = ({ s with p := (s.p.readSome k).1, rt := .idle }, some ⟨data, err⟩)
        else if k = 0 then
          s.stepReader = ({ s with p := (s.p.readSome k).1, rt := .idle }, some ⟨[], none⟩)
        else s.stepReader = ({ s with p := (s.p.readSome k).1 }, none) := by
  unfold Sys.stepReader
  rw [hr]
  simp only [hp, Bool.false_eq_true, if_false]
  generalize s.p.readSome k = res
  obtain ⟨p', o⟩ := res
  cases o with
  | park => rfl
  | ret data err =>
    cases err with
    | some e => simp
    | none =>
      cases data with
      | nil => by_cases hk : k = 0 <;> simp [hk]
      | cons x xs => simp

/-! ### 10. non-vacuity: a history that wraps the ring, drains it, blocks and is woken -/

/-- ring of 4 bytes, memory store: write 3, read 2, write 3 more (wraps: 1 byte at the end of the ring,
    2 at its start), read up to the ring end, read the rest (drain → positions reset), a read that
    parks, the write that wakes it, the retry, writer close, drained read gets EOF. -/
def wrapSchedule : List Step :=
  [.writeSome [1, 2, 3], .readSome 2, .writeSome [4, 5, 6], .writeSome [5, 6], .buffered, .available,
   .writeSome [7], .readSome 9, .readSome 9, .readSome 9, .readSome 1, .writeSome [8], .readSome 1,
   .readSome 1, .wclose none, .readSome 1, .writeSome [9]]

example : ((Pipe.init .mem 4).run wrapSchedule).2.map Prod.snd =
    [.w (.ret 3 none), .r (.ret [1, 2] none), .w (.ret 1 none), .w (.ret 2 none), .count 4 none,
     .count 0 none, .w .park, .r (.ret [3, 4] none), .r (.ret [5, 6] none), .r .park, .disabled,
     .w (.ret 1 none), .r (.ret [8] none), .r .park, .closeOk, .r (.ret [] (some .eof)),
     .w (.ret 0 (some .closed))] := by decide

/-- the same schedule on the file store gives the same observations -/
example : ((Pipe.init .file 4).run wrapSchedule).2.map Prod.snd =
    ((Pipe.init .mem 4).run wrapSchedule).2.map Prod.snd := by decide

/-- the wrapped state really is wrapped: after the first four steps rpos = 2, wpos = 6 > size -/
example : let p := ((Pipe.init .mem 4).run (wrapSchedule.take 4)).1
    (p.store.rpos, p.store.wpos, p.store.mem, p.store.contents) = (2, 6, [5, 6, 3, 4], [3, 4, 5, 6]) := by
  decide

/-- `fifo` instantiated on it -/
example : writtenOf ((Pipe.init .mem 4).run wrapSchedule).2 = [1, 2, 3, 4, 5, 6, 8] ∧
    readOutOf ((Pipe.init .mem 4).run wrapSchedule).2 = [1, 2, 3, 4, 5, 6, 8] := by decide

/-- reader close: the parked writer is woken, later writes get the reader's error, reads closed-pipe -/
example : ((Pipe.init .file 2).run
      [.writeSome [1, 2, 3], .writeSome [3], .rclose (some (.custom 7)), .writeSome [3], .readSome 1,
       .buffered, .available, .wclose none, .writeSome [], .available]).2.map Prod.snd =
    [.w (.ret 2 none), .w .park, .closeOk, .w (.ret 0 (some (.custom 7))), .r (.ret [] (some .closed)),
     .count 0 (some (.custom 7)), .count 0 (some (.custom 7)), .closeOk, .w (.ret 0 (some .closed)),
     .count 0 (some .eof)] := by decide

/-- the hypotheses of the theorems are inhabited: these states are reachable and park for real -/
example : Reach ((Pipe.init .mem 4).run (wrapSchedule.take 7)).1 ∧
    ((Pipe.init .mem 4).run (wrapSchedule.take 7)).1.wPark = true :=
  ⟨⟨.mem, 4, _, by decide, rfl⟩, by decide⟩

end RSVerif.Properties.C09
