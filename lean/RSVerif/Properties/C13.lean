/- C13: property theorems (stub — not built yet) -/
namespace RSVerif.Properties.C13
end RSVerif.Properties.C13
