import RSVerif.Lemmas.KeyFilter
/-
C13 — Key filtering rewrites multi-key commands without corrupting them.

Property theorems only (helper lemmas live in RSVerif.Lemmas.KeyFilter). What is proved about what:
* `KeyFilter.table` is the `RedisCommands` table REGENERATED from the current source on every run; the theorems of
  §1 are re-checked by the kernel against it, §2 lifts them to every argument list and every predicate.
* `KeyFilter.getMatchKeys / handle / handleWire` are the literal models (Go `int` index arithmetic, bounds-checked
  slice accesses) of `getMatchKeys`, `HandleFilterKeyWithCommand`, and `ParseArgs`+`HandleFilterKeyWithCommand`.
* `Spec.CommandKeys` is the hand-written command reference (DESIGN.md Appendix F) and the rewrite rule.
The table and `getMatchKeys` are those of the tree with fixes/C13-keytable.patch; §4 keeps the kernel-checked
witnesses of what the eight pinned rows did (deviation D15).
-/
namespace RSVerif.Properties.C13
open RSVerif RSVerif.KeyFilter RSVerif.Spec.CommandKeys RSVerif.Lemmas.KeyFilter

/-! ### 1. The current table against the command reference (decided by the kernel on the regenerated rows) -/

theorem table_all_rowOK : KeyFilter.table.all rowOK = true := by decide +kernel

/-- every row of the source table is a command of the reference, and its `(firstkey, lastkey, keystep)` is the
    one that describes that command's key layout -/
theorem table_rows_match_reference :
    ∀ row ∈ KeyFilter.table, ∃ cls, classOfLower row.name = some cls ∧ rowTriple row = canonicalRow cls := by
  intro row h
  have := List.all_eq_true.mp table_all_rowOK row h
  unfold rowOK at this
  split at this
  · rename_i cls hc
    exact ⟨cls, hc, by simpa using this⟩
  · cases this

theorem table_names_lower_b : KeyFilter.table.all (fun row => lower row.name == row.name) = true := by decide +kernel

/-- table names are lower-case (what `ParseArgs` delivers) -/
theorem table_names_lower : ∀ row ∈ KeyFilter.table, lower row.name = row.name := by
  intro row h
  simpa using List.all_eq_true.mp table_names_lower_b row h

theorem table_lookup_b : KeyFilter.table.all (fun row => lookup KeyFilter.table row.name == some row) = true := by
  decide +kernel

/-- names are unique: looking a row's name up finds that row -/
theorem table_lookup : ∀ row ∈ KeyFilter.table, lookup KeyFilter.table row.name = some row := by
  intro row h
  simpa using List.all_eq_true.mp table_lookup_b row h

theorem reference_covered_b :
    commandClasses.all (fun p => (lookup KeyFilter.table (ascii p.1)).isSome) = true := by decide +kernel

/-- every command of the reference has a row (a deleted row breaks this theorem) -/
theorem reference_covered : ∀ p ∈ commandClasses, (lookup KeyFilter.table (ascii p.1)).isSome = true := by
  intro p h
  exact List.all_eq_true.mp reference_covered_b p h

theorem table_size : KeyFilter.table.length = 65 := by decide +kernel

/-- a name has a row iff the reference knows it as a key-addressed write command -/
theorem lookup_none_iff_not_key_addressed (name : Bytes) :
    lookup KeyFilter.table name = none ↔ classOfLower name = none := by
  constructor
  · intro hl
    unfold classOfLower
    cases hf : commandClasses.find? (fun p => ascii p.1 == name) with
    | none => rfl
    | some p =>
      have hmem := List.mem_of_find?_eq_some hf
      have hname : ascii p.1 = name := by simpa using List.find?_some hf
      have := reference_covered p hmem
      rw [hname, hl] at this
      cases this
  · intro hc
    cases hl : lookup KeyFilter.table name with
    | none => rfl
    | some row =>
      unfold lookup at hl
      have hmem := List.mem_of_find?_eq_some hl
      have hname : row.name = name := by simpa using List.find?_some hl
      obtain ⟨cls, h1, _⟩ := table_rows_match_reference row hmem
      rw [hname, hc] at h1
      cases h1

/-! ### 2. The property -/

/-- **C13, predicate-parametric.** For every row of the table, every predicate `pass`, and every argument list of
    valid arity for that command (i.e. one the reference can segment), `HandleFilterKeyWithCommand` with a key
    filter configured answers exactly what the specification says: the passing keys with their companions and
    all non-key arguments, in the original order — or "reject" iff no key passes. No panic, no hang. -/
theorem C13_rewrite (pass : Bytes → Bool) :
    ∀ row ∈ KeyFilter.table, ∃ cls, keyClass row.name = some cls ∧
      ∀ args v, rewriteSpec pass cls args = some v →
        (handleWith false KeyFilter.table true pass row.name args).map verdictOf = .ok v := by
  intro row hrow
  obtain ⟨cls, hcls, htriple⟩ := table_rows_match_reference row hrow
  refine ⟨cls, by unfold keyClass; rw [table_names_lower row hrow]; exact hcls, ?_⟩
  intro args v hv
  unfold rewriteSpec at hv
  cases hp : parse cls args with
  | none => rw [hp] at hv; cases hv
  | some segs =>
    rw [hp] at hv
    simp only [Option.map_some, Option.some.injEq] at hv
    subst hv
    have hne : (args.length == 0) = false := by
      cases args with
      | nil => cases cls <;> simp [parse] at hp
      | cons a as => rfl
    have hm := getMatchKeys_eq_spec pass cls row htriple args segs hp
    unfold handleWith
    simp only [Bool.not_true, Bool.false_eq_true, if_false, table_lookup row hrow, hne]
    unfold getMatchKeys at hm
    cases hg : getMatchKeysWith false pass row args with
    | error e => rw [hg] at hm; cases hm
    | ok r =>
      rw [hg] at hm
      obtain ⟨na, p⟩ := r
      simp only [Except.map, verdictOfMatch, Except.ok.injEq] at hm ⊢
      rw [← hm]
      cases p <;> rfl

theorem active_eq (c : Config) : c.active = (⟨c.whitelist, c.blacklist⟩ : FilterCfg).active := by
  unfold Config.active FilterCfg.active
  cases c.whitelist <;> cases c.blacklist <;> rfl

/-- **C13 for configured prefix lists** (the statement of the property): for every whitelist/blacklist
    configuration, every lower-case command name as delivered by `ParseArgs`, and every argument list on which
    the specification makes a demand, `HandleFilterKeyWithCommand` returns the specified verdict:
    unchanged if no key filter is configured or the command is not key-addressed, else the rewrite. -/
theorem C13 (c : Config) (name : Bytes) (hname : lower name = name) (args : List Bytes) (v : Verdict)
    (h : filterSpec ⟨c.whitelist, c.blacklist⟩ name args = some v) :
    (handle c name args).map verdictOf = .ok v := by
  unfold filterSpec at h
  unfold handle
  rw [active_eq]
  cases ha : (⟨c.whitelist, c.blacklist⟩ : FilterCfg).active with
  | false =>
    simp only [ha, Bool.not_false, if_true, Option.some.injEq] at h
    subst h
    simp [handleWith, Except.map, verdictOf]
  | true =>
    simp only [ha, Bool.not_true, Bool.false_eq_true, if_false] at h
    have hpass : (fun k => !filterKey c k) = keyPasses ⟨c.whitelist, c.blacklist⟩ := by
      funext k; exact filterKey_spec c k
    rw [hpass]
    cases hl : lookup KeyFilter.table name with
    | none =>
      have : keyClass name = none := by
        unfold keyClass; rw [hname]; exact (lookup_none_iff_not_key_addressed name).mp hl
      simp only [this, Option.some.injEq] at h
      subst h
      simp [handleWith, hl, Except.map, verdictOf]
    | some row =>
      have hmem : row ∈ KeyFilter.table := List.mem_of_find?_eq_some hl
      have hrn : row.name = name := by simpa using List.find?_some hl
      obtain ⟨cls, hcls, hrw⟩ := C13_rewrite (keyPasses ⟨c.whitelist, c.blacklist⟩) row hmem
      rw [hrn] at hcls hrw
      simp only [hcls] at h
      exact hrw args v h

/-- **C13 at the call site**: `parseSourceCommand` lower-cases the command name (`ParseArgs`) and then calls
    `HandleFilterKeyWithCommand`; for a command name in ANY letter case the pair answers the specified verdict. -/
theorem C13_wire (c : Config) (cmd : Bytes) (hne : cmd ≠ []) (args : List Bytes) (v : Verdict)
    (h : filterSpec ⟨c.whitelist, c.blacklist⟩ cmd args = some v) :
    (handleWire c cmd args).map (·.map verdictOf) = some (.ok v) := by
  unfold handleWire parseArgs
  have hemp : (toLower cmd).isEmpty = false := by
    cases cmd with
    | nil => exact absurd rfl hne
    | cons x xs => rfl
  simp only [hemp, Bool.false_eq_true, if_false, Option.map_some, Option.some.injEq]
  apply C13 c (toLower cmd) (lower_idem cmd) args v
  have : keyClass (toLower cmd) = keyClass cmd := by
    unfold keyClass; rw [toLower_eq_lower, lower_idem]
  unfold filterSpec at h ⊢
  rw [this]
  exact h

/-! ### 3. The clauses of the property, one by one -/

/-- no key filter configured ⇒ forwarded unchanged, whatever the command -/
theorem unchanged_without_filter (c : Config) (hw : c.whitelist = []) (hb : c.blacklist = []) (name : Bytes)
    (args : List Bytes) : handle c name args = .ok (args, false) := by
  simp [handle, handleWith, Config.active, hw, hb]

/-- command not key-addressed (not in the reference = not in the table) ⇒ forwarded unchanged -/
theorem unchanged_when_not_key_addressed (c : Config) (name : Bytes) (hn : classOfLower name = none)
    (args : List Bytes) : handle c name args = .ok (args, false) := by
  have := (lookup_none_iff_not_key_addressed name).mpr hn
  unfold handle handleWith
  simp only [this]
  split <;> rfl

/-- all keys pass ⇒ forwarded unchanged -/
theorem unchanged_when_all_keys_pass (pass : Bytes → Bool) :
    ∀ row ∈ KeyFilter.table, ∃ cls, keyClass row.name = some cls ∧
      ∀ args segs, parse cls args = some segs → (∀ k ∈ keysOf segs, pass k = true) →
        handleWith false KeyFilter.table true pass row.name args = .ok (args, false) := by
  intro row hrow
  obtain ⟨cls, hcls, hrw⟩ := C13_rewrite pass row hrow
  refine ⟨cls, hcls, ?_⟩
  intro args segs hp hall
  have hv : rewriteSpec pass cls args = some (.forward args) := by
    unfold rewriteSpec
    rw [hp, Option.map_some, rewriteSegs_all_pass pass segs (parse_keys_ne_nil cls args segs hp) hall,
      parse_flat cls args segs hp]
  have := hrw args _ hv
  cases hg : handleWith false KeyFilter.table true pass row.name args with
  | error e => rw [hg] at this; cases this
  | ok r =>
    rw [hg] at this
    obtain ⟨na, rej⟩ := r
    simp only [Except.map, verdictOf, Except.ok.injEq] at this
    cases rej
    · simp only [Bool.false_eq_true, if_false, Verdict.forward.injEq] at this
      rw [this]
    · simp at this

/-- rejected (dropped) exactly when none of the command's keys passes -/
theorem dropped_iff_no_key_passes (pass : Bytes → Bool) :
    ∀ row ∈ KeyFilter.table, ∃ cls, keyClass row.name = some cls ∧
      ∀ args segs, parse cls args = some segs →
        ((handleWith false KeyFilter.table true pass row.name args).map verdictOf = .ok .drop
          ↔ ∀ k ∈ keysOf segs, pass k = false) := by
  intro row hrow
  obtain ⟨cls, hcls, hrw⟩ := C13_rewrite pass row hrow
  refine ⟨cls, hcls, ?_⟩
  intro args segs hp
  have hv : rewriteSpec pass cls args = some (rewriteSegs pass segs) := by
    unfold rewriteSpec; rw [hp]; rfl
  rw [hrw args _ hv, ← rewriteSegs_drop_iff]
  constructor
  · intro h; injection h
  · intro h; rw [h]

/-- what is forwarded is a subsequence of the original arguments: order kept, nothing invented, and by
    `rewriteSegs` every non-key argument is in it and a key is in it only with its companions and only if it passes -/
theorem forwarded_is_subsequence (pass : Bytes → Bool) :
    ∀ row ∈ KeyFilter.table, ∃ cls, keyClass row.name = some cls ∧
      ∀ args out, validArity cls args = true →
        (handleWith false KeyFilter.table true pass row.name args).map verdictOf = .ok (.forward out) →
        out.Sublist args := by
  intro row hrow
  obtain ⟨cls, hcls, hrw⟩ := C13_rewrite pass row hrow
  refine ⟨cls, hcls, ?_⟩
  intro args out hvalid hout
  unfold validArity at hvalid
  cases hp : parse cls args with
  | none => rw [hp] at hvalid; cases hvalid
  | some segs =>
    have hv : rewriteSpec pass cls args = some (rewriteSegs pass segs) := by
      unfold rewriteSpec; rw [hp]; rfl
    rw [hrw args _ hv] at hout
    have : rewriteSegs pass segs = .forward out := by injection hout
    have hs := rewriteSegs_sublist pass segs out this
    rwa [parse_flat cls args segs hp] at hs

/-- `FilterKey` implements the prefix-list semantics of the specification -/
theorem filterKey_is_keyPasses (c : Config) (key : Bytes) :
    (!filterKey c key) = keyPasses ⟨c.whitelist, c.blacklist⟩ key := filterKey_spec c key

/-! non-vacuity: concrete inhabitants of the hypotheses, evaluated on the real table -/

example : (handle ⟨[ascii "p:"], []⟩ (ascii "mset") [ascii "p:a", ascii "1", ascii "q:b", ascii "2", ascii "p:c", ascii "3"]).map verdictOf
    = .ok (.forward [ascii "p:a", ascii "1", ascii "p:c", ascii "3"]) := by decide +kernel
example : filterSpec ⟨[ascii "p:"], []⟩ (ascii "mset") [ascii "p:a", ascii "1", ascii "q:b", ascii "2", ascii "p:c", ascii "3"]
    = some (.forward [ascii "p:a", ascii "1", ascii "p:c", ascii "3"]) := by decide +kernel
example : (handleWire ⟨[], [ascii "q:"]⟩ (ascii "BitOp") [ascii "AND", ascii "q:d", ascii "s1", ascii "q:s2"]).map (·.map verdictOf)
    = some (.ok (.forward [ascii "AND", ascii "s1"])) := by decide +kernel
example : (handle ⟨[ascii "p:"], []⟩ (ascii "blpop") [ascii "q:a", ascii "q:b", ascii "0"]).map verdictOf = .ok .drop := by
  decide +kernel
example : ∃ row ∈ KeyFilter.table, row.name = ascii "unlink" ∧ keyClass row.name = some .all := by
  refine ⟨⟨ascii "unlink", 1, 0, 1⟩, ?_, rfl, ?_⟩ <;> decide +kernel

/-! ### 4. The rows as pinned (deviation D15), kept as kernel-checked witnesses

`getMatchKeysPinned` is `getMatchKeys` before the patch; `pinnedRow` spells the pinned row. Each theorem shows the
verdict of the pinned code next to the specification's, under the key filter "whitelist prefix `p:`". The same
inputs are replayed on the real code by corpus/C13/d15.case. -/

/-- for rows with `firstkey = 1` (all but `bitop`) the patch does not change `getMatchKeys` at all -/
theorem pinned_eq_repaired_when_first_is_1 (pass : Bytes → Bool) (row : Row) (h : row.first = 1) (args : List Bytes) :
    getMatchKeysPinned pass row args = getMatchKeys pass row args := by
  unfold getMatchKeysPinned getMatchKeys getMatchKeysWith
  simp [h]

/-- hence the table repair alone (rows' `lastkey`) already makes the PINNED `getMatchKeys` code right for every
    command but `bitop`; only `bitop` (firstkey 2) needs the code change -/
theorem C13_partial_pinned_code (pass : Bytes → Bool) :
    ∀ row ∈ KeyFilter.table, row.first = 1 → ∃ cls, keyClass row.name = some cls ∧
      ∀ args v, rewriteSpec pass cls args = some v →
        (handleWith true KeyFilter.table true pass row.name args).map verdictOf = .ok v := by
  intro row hrow hfirst
  obtain ⟨cls, hcls, hrw⟩ := C13_rewrite pass row hrow
  refine ⟨cls, hcls, ?_⟩
  intro args v hv
  have := hrw args v hv
  unfold handleWith at this ⊢
  simp only [table_lookup row hrow] at this ⊢
  have e := pinned_eq_repaired_when_first_is_1 pass row hfirst args
  unfold getMatchKeysPinned getMatchKeys at e
  rw [e]
  exact this

/-- single-key UNLINK of a passing key: always dropped -/
theorem counterexample_unlink :
    (getMatchKeysPinned passP (pinnedRow "unlink" 1 (-1) 1) [ascii "p:a"]).map verdictOfMatch = .ok .drop ∧
    rewriteSpec passP .all [ascii "p:a"] = some (.forward [ascii "p:a"]) := by decide +kernel

/-- the last key is never filtered -/
theorem counterexample_unlink_last_key :
    (getMatchKeysPinned passP (pinnedRow "unlink" 1 (-1) 1) [ascii "p:a", ascii "q:b"]).map verdictOfMatch
      = .ok (.forward [ascii "p:a", ascii "q:b"]) ∧
    rewriteSpec passP .all [ascii "p:a", ascii "q:b"] = some (.forward [ascii "p:a"]) := by decide +kernel

theorem counterexample_sinterstore :
    (getMatchKeysPinned passP (pinnedRow "sinterstore" 1 (-1) 1) [ascii "p:dst", ascii "q:s1", ascii "q:s2"]).map verdictOfMatch
      = .ok (.forward [ascii "p:dst", ascii "q:s2"]) ∧
    rewriteSpec passP .all [ascii "p:dst", ascii "q:s1", ascii "q:s2"] = some (.forward [ascii "p:dst"]) := by decide +kernel

theorem counterexample_sunionstore :
    (getMatchKeysPinned passP (pinnedRow "sunionstore" 1 (-1) 1) [ascii "p:d", ascii "q:s"]).map verdictOfMatch
      = .ok (.forward [ascii "p:d", ascii "q:s"]) ∧
    rewriteSpec passP .all [ascii "p:d", ascii "q:s"] = some (.forward [ascii "p:d"]) := by decide +kernel

theorem counterexample_sdiffstore :
    (getMatchKeysPinned passP (pinnedRow "sdiffstore" 1 (-1) 1) [ascii "q:d", ascii "p:s", ascii "q:t"]).map verdictOfMatch
      = .ok (.forward [ascii "p:s", ascii "q:t"]) ∧
    rewriteSpec passP .all [ascii "q:d", ascii "p:s", ascii "q:t"] = some (.forward [ascii "p:s"]) := by decide +kernel

/-- the only passing key is the last one: the command is dropped although it should be forwarded -/
theorem counterexample_pfmerge :
    (getMatchKeysPinned passP (pinnedRow "pfmerge" 1 (-1) 1) [ascii "q:d", ascii "p:s"]).map verdictOfMatch = .ok .drop ∧
    rewriteSpec passP .all [ascii "q:d", ascii "p:s"] = some (.forward [ascii "p:s"]) := by decide +kernel

/-- BITOP loses its operation argument (and its last key is never filtered) -/
theorem counterexample_bitop :
    (getMatchKeysPinned passP (pinnedRow "bitop" 2 (-1) 1) [ascii "AND", ascii "p:d", ascii "p:s"]).map verdictOfMatch
      = .ok (.forward [ascii "p:d", ascii "p:s"]) ∧
    rewriteSpec passP .afterSub [ascii "AND", ascii "p:d", ascii "p:s"]
      = some (.forward [ascii "AND", ascii "p:d", ascii "p:s"]) := by decide +kernel

/-- `BRPOP key timeout` with a passing key: always dropped -/
theorem counterexample_brpop :
    (getMatchKeysPinned passP (pinnedRow "brpop" 1 (-2) 1) [ascii "p:l", ascii "0"]).map verdictOfMatch = .ok .drop ∧
    rewriteSpec passP .allButLast [ascii "p:l", ascii "0"] = some (.forward [ascii "p:l", ascii "0"]) := by decide +kernel

theorem counterexample_blpop :
    (getMatchKeysPinned passP (pinnedRow "blpop" 1 (-2) 1) [ascii "p:l1", ascii "q:l2", ascii "0"]).map verdictOfMatch
      = .ok (.forward [ascii "p:l1", ascii "q:l2", ascii "0"]) ∧
    rewriteSpec passP .allButLast [ascii "p:l1", ascii "q:l2", ascii "0"] = some (.forward [ascii "p:l1", ascii "0"]) := by
  decide +kernel

end RSVerif.Properties.C13
