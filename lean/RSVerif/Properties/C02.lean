/- C02: property theorems (stub — not built yet) -/
namespace RSVerif.Properties.C02
end RSVerif.Properties.C02
