import RSVerif.Properties.C05Core
import RSVerif.Properties.C01
/-
C05 — The RDB/command-stream hand-off loses and duplicates no byte: the property theorems.

Sections 0–6 (framing, `sendPSyncCmd` → `runIncrementalSync` → `pSyncPipeCopy`, dump mode, the reconnect loop, ids and
offsets) are in `Properties/C05Core.lean`, which is kept free of C01's lemma library (its `@[simp]` set changes the
normal forms those proofs rely on). This file adds the consumer side, which needs C01's loader model.
-/
namespace RSVerif.Properties.C05
open RSVerif

/-! ### 7. the consumer side of the hand-over

The bytes `pSyncPipeCopy` puts into the pipe are `rdb ++ cmds` (`handoff_exact`); the RDB consumer is the loader pipeline
of `utils.NewRDBLoader` (C01's model `Rdb.run`: header, records until the EOF opcode, footer), and `DbSyncer.Sync` hands
the *same* reader to the command parser as soon as that pipeline has ended (its entry channel is closed). For every
well-formed RDB file the pipeline ends having taken exactly the file: whatever follows the checksum — the command
stream — is left unread, byte for byte, and it is left unread *whatever those bytes are*. The `handover` cases of the
correspondence run observe the same two numbers on the real `NewRDBLoader`, under delayed segment boundaries. -/

theorem rdb_consumer_exact (pf : Bytes → Bool) (L : Nat) (fv : Int) (ver : Nat) (h1 : 1 ≤ ver) (h9 : ver ≤ 9)
    (hfv : (ver : Int) ≤ fv) (items : List Spec.Rdb.Item) (hok : Spec.Rdb.itemsOk pf items) (cmds : Bytes) :
    (Rdb.run pf true L fv
      (Spec.Rdb.hdr ver ++ Spec.Rdb.ser items ++ [0xFF] ++
        le64 (Spec.Crc64.crc64 (Spec.Rdb.hdr ver ++ Spec.Rdb.ser items ++ [0xFF])) ++ cmds)).2 = .ok cmds := by
  rw [Properties.C01.parse_exact pf L fv ver h1 h9 hfv items hok cmds]

/-- the number of bytes the consumer has taken when it stops is the length of the file, for any command bytes -/
theorem rdb_consumer_takes_n (pf : Bytes → Bool) (L : Nat) (fv : Int) (ver : Nat) (h1 : 1 ≤ ver) (h9 : ver ≤ 9)
    (hfv : (ver : Int) ≤ fv) (items : List Spec.Rdb.Item) (hok : Spec.Rdb.itemsOk pf items) (cmds : Bytes) :
    let file := Spec.Rdb.hdr ver ++ Spec.Rdb.ser items ++ [0xFF] ++
      le64 (Spec.Crc64.crc64 (Spec.Rdb.hdr ver ++ Spec.Rdb.ser items ++ [0xFF]))
    ∀ rest, (Rdb.run pf true L fv (file ++ cmds)).2 = .ok rest → (file ++ cmds).length - rest.length = file.length := by
  intro file rest h
  have := rdb_consumer_exact pf L fv ver h1 h9 hfv items hok cmds
  simp only [file] at h
  rw [this] at h
  cases h
  simp

end RSVerif.Properties.C05
