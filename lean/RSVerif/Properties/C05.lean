/- C05: property theorems (stub — not built yet) -/
namespace RSVerif.Properties.C05
end RSVerif.Properties.C05
