/-
C06 (cross-model) — the four Lean models of `filter.FilterKey` (C06 paths, C13 rewriting, C15 slot search, C16 rump) are one function.
Each model is tied to the Go code by its own correspondence run; these theorems tie the models to each other, so a drift of
one model (or of one extractor of the checkpoint prefix) from the others breaks a proof instead of going unnoticed.
-/
import RSVerif.Model.Filter
import RSVerif.Model.Slot
import RSVerif.Model.KeyFilter
import RSVerif.Model.Rump
namespace RSVerif.Properties.C06
open RSVerif

/-- the four models read the same checkpoint prefix out of the source (four independent extractions) -/
theorem checkpoint_key_extractions_agree :
    Generated.innerFilterKeys = [Generated.checkpointKey] ∧
    Generated.C15.checkpointKey = Generated.checkpointKey ∧
    KeyFilter.checkpointKey = Generated.checkpointKey ∧
    Rump.checkpointKey = Generated.checkpointKey := by decide +kernel

private theorem hasAtLeastOnePrefix_any (key : Bytes) (l : List Bytes) :
    Filter.hasAtLeastOnePrefix key l = l.any (·.isPrefixOf key) := by
  induction l with
  | nil => rfl
  | cons p ps ih => simp only [Filter.hasAtLeastOnePrefix, List.any_cons, ih]; cases p.isPrefixOf key <;> simp

private theorem kf_hasAtLeastOnePrefix_any (key : Bytes) (l : List Bytes) :
    KeyFilter.hasAtLeastOnePrefix key l = l.any (·.isPrefixOf key) := by
  induction l with
  | nil => rfl
  | cons p ps ih =>
    simp only [KeyFilter.hasAtLeastOnePrefix, KeyFilter.hasPrefix, List.any_cons, ih]; cases p.isPrefixOf key <;> simp

/-- **one FilterKey.** The model of `filter.FilterKey` used for C06 and the one used for C15 are the same function. -/
theorem filterKey_models_agree_slot (cfg : Spec.Filter.Cfg) (key : Bytes) :
    Filter.filterKey cfg key = Slot.filterKey cfg.keyBlack cfg.keyWhite key := by
  obtain ⟨h1, h2, _, _⟩ := checkpoint_key_extractions_agree
  unfold Filter.filterKey Slot.filterKey
  rw [h1, h2, hasAtLeastOnePrefix_any, hasAtLeastOnePrefix_any]
  by_cases hk : key = Generated.checkpointKey
  · simp [hk]
  · have : ([Generated.checkpointKey].contains key) = false := by simp [hk]
    simp only [this, hk, if_false]
    by_cases hp : Generated.checkpointKey.isPrefixOf key = true
    · simp [hp]
    · simp only [hp]
      generalize (cfg.keyBlack.any fun x => x.isPrefixOf key) = A
      generalize (cfg.keyWhite.any fun x => x.isPrefixOf key) = W
      generalize cfg.keyBlack.length = n
      generalize cfg.keyWhite.length = m
      cases A <;> cases W <;> by_cases hn : n = 0 <;> by_cases hm : m = 0 <;> simp [hn, hm]

/-- … and so is the one used for C13 (key rewriting of incremental commands) -/
theorem filterKey_models_agree_keyfilter (c : KeyFilter.Config) (key : Bytes) :
    KeyFilter.filterKey c key = Slot.filterKey c.blacklist c.whitelist key := by
  obtain ⟨_, h2, h3, _⟩ := checkpoint_key_extractions_agree
  unfold KeyFilter.filterKey Slot.filterKey KeyFilter.hasPrefix
  rw [h2, h3, kf_hasAtLeastOnePrefix_any, kf_hasAtLeastOnePrefix_any]
  by_cases hk : key = Generated.checkpointKey
  · simp [hk]
  · have : (key == Generated.checkpointKey) = false := by simp [hk]
    simp only [this, hk, if_false]
    by_cases hp : Generated.checkpointKey.isPrefixOf key = true
    · simp [hp]
    · simp only [hp]
      generalize (c.blacklist.any fun x => x.isPrefixOf key) = A
      generalize (c.whitelist.any fun x => x.isPrefixOf key) = W
      generalize c.blacklist.length = n
      generalize c.whitelist.length = m
      cases A <;> cases W <;> by_cases hn : n = 0 <;> by_cases hm : m = 0 <;> simp [hn, hm]

/-- … and the one used for C16 (rump mode), which drops the exact-match test as subsumed by the prefix test -/
theorem filterKey_models_agree_rump (cfg : Rump.Config) (key : Bytes) :
    Rump.filterKey cfg key = Slot.filterKey cfg.keyBlack cfg.keyWhite key := by
  obtain ⟨_, h2, _, h4⟩ := checkpoint_key_extractions_agree
  unfold Rump.filterKey Slot.filterKey Rump.hasPrefixAny
  rw [h2, h4]
  by_cases hk : key = Generated.checkpointKey
  · subst hk; simp
  · simp only [hk, if_false]
    by_cases hp : Generated.checkpointKey.isPrefixOf key = true
    · simp [hp]
    · simp only [hp]
      cases hb : cfg.keyBlack <;> cases hw : cfg.keyWhite <;> simp

/-- hence all four paths (full sync, incremental sync, slot filter, rump) take the same decision on every key under
    the same lists — by the models being one function, not by four separate ties to the code. -/
theorem filterKey_one_function (black white : List Bytes) (rcfg : Rump.Config) (fcfg : Spec.Filter.Cfg)
    (hb : rcfg.keyBlack = black) (hw : rcfg.keyWhite = white) (hb' : fcfg.keyBlack = black) (hw' : fcfg.keyWhite = white)
    (key : Bytes) :
    Filter.filterKey fcfg key = KeyFilter.filterKey ⟨white, black⟩ key ∧
    Filter.filterKey fcfg key = Rump.filterKey rcfg key := by
  rw [filterKey_models_agree_slot, filterKey_models_agree_keyfilter, filterKey_models_agree_rump, hb, hw, hb', hw']
  exact ⟨rfl, rfl⟩


/-- the bytes of a configured list entry -/
def bytesOf (s : String) : Bytes := s.toByteArray.data.toList

private theorem bytesOf_inj (a b : String) (h : bytesOf a = bytesOf b) : a = b :=
  String.toByteArray_inj.mp (ByteArray.ext (Array.toList_inj.mp h))

private theorem matchOne_map (db : Nat) (l : List String) :
    Filter.matchOne (Filter.formatInt (db : Int)) (l.map bytesOf) = l.contains (toString db) := by
  induction l with
  | nil => rfl
  | cons s t ih =>
    simp only [List.map_cons, Filter.matchOne, ih, List.contains_cons]
    have hd : Filter.formatInt (db : Int) = bytesOf (toString db) := rfl
    rw [hd]
    by_cases hs : s = toString db
    · subst hs; simp
    · have h1 : (bytesOf s == bytesOf (toString db)) = false := by
        simp only [beq_eq_false_iff_ne, ne_eq]; exact fun e => hs (bytesOf_inj _ _ e)
      have h2 : (toString db == s) = false := by
        simp only [beq_eq_false_iff_ne, ne_eq]; exact fun e => hs e.symm
      rw [h1, h2]; simp

/-- **one FilterDB.** The model of `filter.FilterDB` used for C06 (integers, byte lists) and the one used for C16
    (naturals, strings) take the same decision on every database number under the same configured lists. -/
theorem filterDB_models_agree (fcfg : Spec.Filter.Cfg) (rcfg : Rump.Config) (db : Nat)
    (hb : fcfg.dbBlack = rcfg.dbBlack.map bytesOf) (hw : fcfg.dbWhite = rcfg.dbWhite.map bytesOf) :
    Filter.filterDB fcfg (db : Int) = Rump.filterDB rcfg db := by
  unfold Filter.filterDB Rump.filterDB
  simp only [hb, hw, matchOne_map, List.length_map]
  cases h1 : rcfg.dbBlack <;> cases h2 : rcfg.dbWhite <;> simp
end RSVerif.Properties.C06
