/- C12: property theorems (stub — not built yet) -/
namespace RSVerif.Properties.C12
end RSVerif.Properties.C12
