import RSVerif.Lemmas.Rdb12
import RSVerif.Generated.C12Consts
/-
C12 — Value and RDB-file serialisation round-trips through the parser.
Property theorems only (helper lemmas: RSVerif.Lemmas.Rdb12). Models: Model/RdbEncode (encoders, file writer),
Model/RdbDecode (cupcake decoder + adaptor = rdb.DecodeDump), Model/RdbRead (the loader), Spec/Compact (Redis' formats).
`fmt`/`pf` are strconv.FormatFloat(·,'g',17,64) / ParseFloat as parameters under the hypothesis `FloatText` (never proved).
-/
namespace RSVerif.Properties.C12
open RSVerif RSVerif.Rdb RSVerif.RdbDecode RSVerif.RdbEncode RSVerif.Spec.Compact RSVerif.Lemmas.Rdb12

/-! ### 0. the numerals of the models are the constants of the source (regenerated on every run) -/

/-- type codes, length-form tags, string-encoding tags, ziplist headers, opcodes and the trailer version, as
    `go/factgen/c12.go` reads them from pkg/libs/cupcake/rdb/{decoder,encoder}.go and pkg/rdb/reader.go NOW, are the
    numerals written in Model/RdbDecode.lean, Model/RdbEncode.lean and Spec/Compact.lean -/
theorem consts_tie :
    Generated.C12.typeString = 0 ∧ Generated.C12.typeList = 1 ∧ Generated.C12.typeSet = 2 ∧ Generated.C12.typeZSet = 3 ∧
    Generated.C12.typeHash = 4 ∧ Generated.C12.typeZSet2 = 5 ∧ Generated.C12.typeModule = 6 ∧
    Generated.C12.typeHashZipmap = 9 ∧ Generated.C12.typeListZiplist = 10 ∧ Generated.C12.typeSetIntset = 11 ∧
    Generated.C12.typeZSetZiplist = 12 ∧ Generated.C12.typeHashZiplist = 13 ∧ Generated.C12.typeListQuicklist = 14 ∧
    Generated.C12.len6bit = 0 ∧ Generated.C12.len14bit = 1 ∧ Generated.C12.len32bit = 0x80 ∧ Generated.C12.len64bit = 0x81 ∧
    Generated.C12.encVal = 3 ∧ Generated.C12.encInt8 = 0 ∧ Generated.C12.encInt16 = 1 ∧ Generated.C12.encInt32 = 2 ∧
    Generated.C12.encLZF = 3 ∧
    Generated.C12.flagExpiryMS = 0xFC ∧ Generated.C12.flagSelectDB = 0xFE ∧ Generated.C12.flagEOF = 0xFF ∧
    Generated.C12.zl6bitStr = 0 ∧ Generated.C12.zl14bitStr = 1 ∧ Generated.C12.zl32bitStr = 2 ∧
    Generated.C12.zlInt16 = 0xC0 ∧ Generated.C12.zlInt32 = 0xD0 ∧ Generated.C12.zlInt64 = 0xE0 ∧
    Generated.C12.zlInt24 = 0xF0 ∧ Generated.C12.zlInt8 = 0xFE ∧ Generated.C12.zlInt4 = 15 ∧
    Generated.C12.encoderVersion = (encVersion.toNat : Int) ∧ Generated.C12.encoderVersion = Generated.cupcakeVersion ∧
    Generated.C12.pkgTypeString = (typeOf (.str [])).toNat ∧ Generated.C12.pkgTypeList = (typeOf (.list [])).toNat ∧
    Generated.C12.pkgTypeSet = (typeOf (.set [])).toNat ∧ Generated.C12.pkgTypeZSet = (typeOf (.zset [])).toNat ∧
    Generated.C12.pkgTypeHash = (typeOf (.hash [])).toNat := by decide

/-! ### 1. DUMP round trip of logical values -/

/-- reading back what `encodeValue` wrote, with anything after it left untouched -/
theorem value_roundtrip (fixed : Bool) (fmt : UInt64 → Bytes) (pf : Bytes → Option UInt64) (hft : FloatText fmt pf)
    (v : LValue) (hv : Sized v) (rest : Bytes) :
    decodeValueG fixed pf (typeOf v) (encValue fmt v ++ rest) = .ok (normValue v) := by
  cases v with
  | str s =>
    simp only [Sized] at hv
    simp [decodeValueG, readObject, typeOf, encValue, cReadString_encString s hv rest, done, adapt_set, normValue,
      Except.map]
  | list xs =>
    simp only [Sized] at hv
    have h := counted_flatMap cReadString encString id xs hv.1 (fun x hx r => cReadString_encString x (hv.2 x hx) r) rest
    simp only [List.map_id, List.append_assoc] at h
    simp [decodeValueG, readObject, typeOf, encValue, h, done, adapt_list, normValue, Except.map]
  | set xs =>
    simp only [Sized] at hv
    have h := counted_flatMap cReadString encString id xs hv.1 (fun x hx r => cReadString_encString x (hv.2 x hx) r) rest
    simp only [List.map_id, List.append_assoc] at h
    simp [decodeValueG, readObject, typeOf, encValue, h, done, adapt_setv, normValue, Except.map]
  | hash fvs =>
    simp only [Sized] at hv
    have h := counted_flatMap (pairR cReadString cReadString) (fun (p : Bytes × Bytes) => encString p.1 ++ encString p.2) id
      fvs hv.1 (fun p hp r => by
        obtain ⟨f, v⟩ := p
        exact pairR_ok cReadString cReadString (encString f) (encString v) r f v
          (fun r' => cReadString_encString f (hv.2 _ hp).1 r') (cReadString_encString v (hv.2 _ hp).2 r)) rest
    simp only [List.map_id, List.append_assoc] at h
    simp only [decodeValueG, readObject, typeOf, encValue]
    simp [h, done, adapt_hash', normValue, Except.map]
  | zset ms =>
    simp only [Sized] at hv
    have h := counted_flatMap (pairR cReadString (cReadFloat pf)) (fun (p : Bytes × UInt64) => encString p.1 ++ encFloat fmt p.2)
      (fun p => (p.1, normScore p.2))
      ms hv.1 (fun p hp r => by
        obtain ⟨m, s⟩ := p
        exact pairR_ok cReadString (cReadFloat pf) (encString m) (encFloat fmt s) r m (normScore s)
          (fun r' => cReadString_encString m (hv.2 _ hp) r') (cReadFloat_encFloat fmt pf hft s r)) rest
    simp only [List.append_assoc] at h
    simp only [decodeValueG, readObject, typeOf, encValue]
    simp [h, done, normValue, Except.map]
    simpa [List.map_map, Function.comp_def] using adapt_zset' (ms.map fun p => (p.1, normScore p.2))


/-- `dump_roundtrip`: DecodeDump (EncodeDump v) = v for EVERY logical value — arbitrary bytes, integer-looking strings at
    every boundary (the proof goes through the encoder's own canonical test, not through ParseInt), element order kept;
    ±Inf by tag, NaN by tag (comes back as `math.NaN()`), finite scores through the text codec (`FloatText`). -/
theorem dump_roundtrip (fmt : UInt64 → Bytes) (pf : Bytes → Option UInt64) (hft : FloatText fmt pf)
    (v : LValue) (hv : Sized v) :
    decodeDump pf (encodeDump fmt v) = .ok (normValue v) := by
  unfold decodeDump encodeDump
  rw [decodeDumpG_footer]
  exact value_roundtrip true fmt pf hft v hv _

/-- the pinned tree (before the zipmap repair) satisfies the same statement: plain types do not touch that reader -/
theorem dump_roundtrip_pinned (fmt : UInt64 → Bytes) (pf : Bytes → Option UInt64) (hft : FloatText fmt pf)
    (v : LValue) (hv : Sized v) :
    decodeDumpPinned pf (encodeDump fmt v) = .ok (normValue v) := by
  unfold decodeDumpPinned encodeDump
  rw [decodeDumpG_footer]
  exact value_roundtrip false fmt pf hft v hv _

/-- no NaN score ⇒ the very same value comes back (strings, lists, sets, hashes: always) -/
theorem normValue_id (v : LValue) (h : ∀ ms, v = .zset ms → ∀ p ∈ ms, isNaN p.2 = false) : normValue v = v := by
  cases v with
  | zset ms =>
    simp only [normValue, LValue.zset.injEq]
    have : ∀ p ∈ ms, (fun (x : Bytes × UInt64) => (x.1, normScore x.2)) p = p := by
      intro p hp; simp [normScore, h ms rfl p hp]
    calc ms.map (fun x => (x.1, normScore x.2)) = ms.map id := List.map_congr_left this
      _ = ms := List.map_id ms
  | _ => rfl

/-- non-vacuity of `FloatText`: an (artificial) codec satisfying it -/
example : FloatText le64 (fun t => if t.length = 8 then some (ofLe64 t) else none) :=
  ⟨fun f _ _ _ => by simp [Lemmas.Bytes.le64_length, Lemmas.Bytes.ofLe64_le64], fun f => by simp [Lemmas.Bytes.le64_length]⟩

/-- non-vacuity of `Sized`, with integer-looking strings at an encoding boundary, a NaN and a negative zero -/
example : Sized (.zset [([49, 50, 55], 0x7FF8000000000055), ([45, 49, 50, 57], 0x8000000000000000), ([0, 255], negInf)]) := by
  simp [Sized]

/-! ### 1b. which strings the encoder compacts -/

/-- `encodeIntString` stores a string as an integer exactly when it is the canonical decimal rendering of an int32
    (so "007", "+5", "-0", " 5", "2147483648" stay raw strings and every canonical int32 text is compacted) -/
theorem intString_written_iff (s : Bytes) :
    (encodeIntString s).isSome ↔ ∃ i : Int, -2147483648 ≤ i ∧ i ≤ 2147483647 ∧ s = fmtInt i := by
  constructor
  · intro h
    unfold encodeIntString at h
    split at h
    · simp at h
    · rename_i i hp
      split at h
      · simp at h
      · rename_i hs
        have hs : s = fmtInt i := by simpa using hs
        -- parseInt32 only returns values of the int32 range
        have hr : -2147483648 ≤ i ∧ i ≤ 2147483647 := by
          unfold parseInt32 at hp
          have key : ∀ (neg : Bool) (ds : Bytes) (j : Int),
              (match parseDigits ds with
                | none => none
                | some n =>
                  let i : Int := if neg then - (n : Int) else (n : Int)
                  if -2147483648 ≤ i ∧ i ≤ 2147483647 then some i else none) = some j →
              -2147483648 ≤ j ∧ j ≤ 2147483647 := by
            intro neg ds j hj
            cases hd : parseDigits ds with
            | none => simp [hd] at hj
            | some n =>
              simp only [hd] at hj
              by_cases hrange : -2147483648 ≤ (if neg then - (n : Int) else (n : Int)) ∧
                  (if neg then - (n : Int) else (n : Int)) ≤ 2147483647
              · rw [if_pos hrange] at hj
                cases hj; exact hrange
              · rw [if_neg hrange] at hj
                cases hj
          split at hp <;> exact key _ _ _ hp
        exact ⟨i, hr.1, hr.2, hs⟩
  · rintro ⟨i, h1, h2, rfl⟩
    unfold encodeIntString
    rw [parseInt32_fmtInt i h1 h2]
    simp only [ne_eq, not_true_eq_false, if_false]
    by_cases a : -128 ≤ i ∧ i ≤ 127
    · simp [a]
    · by_cases b : -32768 ≤ i ∧ i ≤ 32767
      · simp [a, b]
      · have c : -2147483648 ≤ i ∧ i ≤ 2147483647 := ⟨h1, h2⟩
        simp [a, b, c]

/-! ### 2. compact encodings: the decoder returns what Redis would materialise -/

/-- `compact_materialise`: for every well-formed compact tree `c` (ziplist list / sorted set / hash with every entry
    header and both prevlen forms, intset of each width, zipmap with free bytes and both length forms) stored as ANY
    well-formed string object `w` — raw with any length form, or LZF with any token stream that expands to the blob —
    DecodeDump returns `logicalOf c`. (Tree with the zipmap reader repaired, fixes/C12-zipmap-*.patch.) -/
theorem compact_materialise (pf : Bytes → Option UInt64) (c : Compact) (hc : c.WF)
    (v : LValue) (hv : logicalOf pf c = some v)
    (w : RStr) (hw : strOkC w) (hl : Spec.Rdb.logical w = serCompact c) :
    decodeDump pf (wrapDump w c.type) = .ok v := by
  unfold decodeDump wrapDump
  rw [decodeDumpG_footer]
  exact compact_value true pf c hc (WF_ZmOk c hc) v hv w hw hl _

/-- what IS provable of the pinned tree (deviation D22): the same statement for every compact value except zipmaps
    holding an item of 253 bytes or more, or 254 pairs or more.
    Full statement (false of the pinned code): `∀ c, c.WF → … → decodeDumpPinned pf (wrapDump w c.type) = .ok v`. -/
theorem compact_materialise_pinned_partial (pf : Bytes → Option UInt64) (c : Compact) (hc : c.WF)
    (hsmall : ∀ ps, c = .zipmap ps → ps.length < 254 ∧ ∀ p ∈ ps, p.k.length < 253 ∧ p.v.length < 253)
    (v : LValue) (hv : logicalOf pf c = some v)
    (w : RStr) (hw : strOkC w) (hl : Spec.Rdb.logical w = serCompact c) :
    decodeDumpPinned pf (wrapDump w c.type) = .ok v := by
  unfold decodeDumpPinned wrapDump
  rw [decodeDumpG_footer]
  refine compact_value false pf c hc ?_ v hv w hw hl _
  cases c with
  | zipmap ps =>
    obtain ⟨hn, hp⟩ := hsmall ps rfl
    exact ⟨fun p hpp => ⟨Or.inl (hp p hpp).1, Or.inl (hp p hpp).2, (hc.1 p hpp).2.2⟩, Or.inl hn⟩
  | _ => trivial

/-- quicklists: a count in any length form, then one string object per node, each holding a ziplist -/
theorem quicklist_materialise (pf : Bytes → Option UInt64) (cf : LenForm) (ns : List QNode) (h : qlWF cf ns) :
    decodeDump pf (quicklistDump cf ns) = .ok (qlLogical ns) := by
  unfold decodeDump quicklistDump
  rw [decodeDumpG_footer]
  obtain ⟨⟨hf, h32⟩, hn⟩ := h
  have t : (14 : UInt8).toNat = 14 := by decide
  simp only [decodeValueG, readObject, t]
  simp only [serQuicklist, List.append_assoc, cReadLength_encLen _ hf h32, qlNodes_ser ns hn]
  simp only [Except.map, qlLogical]
  exact adapt_list _

/-! ### 3. Deviation D22 — the pinned zipmap reader (marker 253 / big endian / rewind onto the count byte)

Kernel-checked witnesses: on each, the pinned reader fails while the repaired reader returns what Redis materialises.
Replayed on the real decoder by `./check C12` (cases `cmp 9 …` with item lengths 253, 254 and 254 pairs). -/

def pfNone : Bytes → Option UInt64 := fun _ => none

/-- D22 witness 1: one pair whose value is 253 bytes long (Redis writes the literal length byte 253) -/
def zm253 : Compact := .zipmap [{ k := [102], v := List.replicate 253 118, free := [] }]
def w253 : RStr := .raw .b14 (serCompact zm253)

theorem counterexample_zipmap_len253 :
    zm253.WF ∧ strOkC w253 ∧ Spec.Rdb.logical w253 = serCompact zm253 ∧
    decodeDumpPinned pfNone (wrapDump w253 9) = .error .eof ∧
    decodeDump pfNone (wrapDump w253 9) = .ok (.hash [([102], List.replicate 253 118)]) := by
  have hw : strOkC w253 := by
    refine ⟨?_, ?_⟩ <;> decide +kernel
  refine ⟨⟨?_, by decide +kernel⟩, hw, rfl, ?_, ?_⟩
  · intro p hp
    have : p = { k := [102], v := List.replicate 253 118, free := [] } := List.mem_singleton.mp hp
    subst this
    refine ⟨?_, ?_, ?_⟩ <;> decide +kernel
  · unfold decodeDumpPinned wrapDump
    rw [decodeDumpG_footer, decodeValueG_blob_rest false pfNone 9 (by simp) w253 hw]
    decide +kernel
  · unfold decodeDump wrapDump
    rw [decodeDumpG_footer, decodeValueG_blob_rest true pfNone 9 (by simp) w253 hw]
    decide +kernel

/-- D22 witness 2: a value of 254 bytes (Redis: 254 + 4 bytes little endian) is rejected outright -/
def zm254 : Compact := .zipmap [{ k := [102], v := List.replicate 254 118, free := [] }]
def w254 : RStr := .raw .b14 (serCompact zm254)

theorem counterexample_zipmap_len254 :
    zm254.WF ∧ strOkC w254 ∧ Spec.Rdb.logical w254 = serCompact zm254 ∧
    decodeDumpPinned pfNone (wrapDump w254 9) = .error .zipmapLen ∧
    decodeDump pfNone (wrapDump w254 9) = .ok (.hash [([102], List.replicate 254 118)]) := by
  have hw : strOkC w254 := by
    refine ⟨?_, ?_⟩ <;> decide +kernel
  refine ⟨⟨by decide +kernel, by decide +kernel⟩, hw, rfl, ?_, ?_⟩
  · unfold decodeDumpPinned wrapDump
    rw [decodeDumpG_footer, decodeValueG_blob_rest false pfNone 9 (by simp) w254 hw]
    decide +kernel
  · unfold decodeDump wrapDump
    rw [decodeDumpG_footer, decodeValueG_blob_rest true pfNone 9 (by simp) w254 hw]
    decide +kernel

/-- D22 witness 3: 254 pairs (count byte saturated at 254): the counting pass rewinds onto the count byte -/
def zmPairs254 : Compact := .zipmap ((List.range 254).map fun i => { k := [UInt8.ofNat i], v := [], free := [] })
def wCount254 : RStr := .raw .b14 (serCompact zmPairs254)

theorem counterexample_zipmap_count254 :
    zmPairs254.WF ∧ strOkC wCount254 ∧ Spec.Rdb.logical wCount254 = serCompact zmPairs254 ∧
    decodeDumpPinned pfNone (wrapDump wCount254 9) = .error .zipmapLen ∧
    decodeDump pfNone (wrapDump wCount254 9) = .ok (.hash ((List.range 254).map fun i => ([UInt8.ofNat i], []))) := by
  have hw : strOkC wCount254 := by
    refine ⟨?_, ?_⟩ <;> decide +kernel
  refine ⟨⟨by decide +kernel, by decide +kernel⟩, hw, rfl, ?_, ?_⟩
  · unfold decodeDumpPinned wrapDump
    rw [decodeDumpG_footer, decodeValueG_blob_rest false pfNone 9 (by simp) wCount254 hw]
    decide +kernel
  · unfold decodeDump wrapDump
    rw [decodeDumpG_footer, decodeValueG_blob_rest true pfNone 9 (by simp) wCount254 hw]
    decide +kernel

/-! ### 3b. Deviation D23 — the 16-bit entry count of a ziplist saturates

Redis writes `zllen = 65535` for a ziplist of 65535 *or more* entries and its own reader then walks the entries.  The
pinned readers (`readZiplistLength` in the cupcake decoder and `ReadZiplistLength` in pkg/rdb/reader.go) took the field
at face value and silently dropped everything behind entry 65535 (replayed on the real code, repaired by a `fix:`
commit).  `Spec/Compact.lean` follows Redis (`min es.length 65535`), `zlWF` carries no bound on the count any more,
and `compact_materialise` above therefore covers ziplists of every size. -/

/-- the count the repaired reader arrives at is the number of entries, whatever it is -/
theorem ziplist_count_any (es : List ZlEntry) (h : zlWF es) :
    zlLength (serZiplist es) = .ok (es.length, serEntries 0 es ++ [0xFF]) := zlLength_ser es h

/-- the pinned reader: the two count bytes, nothing else -/
def zlLengthPinned (zl : Bytes) : Except DErr (Nat × Bytes) :=
  match bSlice 2 (zl.drop 8) with
  | .error e => .error e
  | .ok (b, r) => .ok (leNat b, r)

/-- on every ziplist of more than 65535 entries the pinned reader reports 65535: the rest is lost -/
theorem counterexample_ziplist_count_pinned (es : List ZlEntry) (hl : 65535 < es.length) :
    zlLengthPinned (serZiplist es) = .ok (65535, serEntries 0 es ++ [0xFF]) := by
  unfold serZiplist zlLengthPinned
  simp only [List.append_assoc]
  have h8 : (leBytes 4 (10 + (serEntries 0 es).length + 1) ++ leBytes 4 (10 + (serEntries 0 es.dropLast).length)).length = 8 := by
    simp [leBytes_length]
  rw [← List.append_assoc (leBytes 4 _) (leBytes 4 _), drop_append_len _ _ 8 h8,
    bSlice_append _ _ 2 (leBytes_length 2 _)]
  simp only [leNat_leBytes]
  have h256 : (256 : Nat) ^ 2 = 65536 := by decide
  have e1 : min es.length 65535 % 65536 = 65535 := by omega
  rw [h256, e1]

/-- below the marker both readers agree -/
theorem ziplist_count_pinned_small (es : List ZlEntry) (h : zlWF es) (hl : es.length < 65535) :
    zlLengthPinned (serZiplist es) = zlLength (serZiplist es) := by
  rw [zlLength_ser es h]
  unfold serZiplist zlLengthPinned
  simp only [List.append_assoc]
  have h8 : (leBytes 4 (10 + (serEntries 0 es).length + 1) ++ leBytes 4 (10 + (serEntries 0 es.dropLast).length)).length = 8 := by
    simp [leBytes_length]
  rw [← List.append_assoc (leBytes 4 _) (leBytes 4 _), drop_append_len _ _ 8 h8,
    bSlice_append _ _ 2 (leBytes_length 2 _)]
  simp only [leNat_leBytes]
  have h256 : (256 : Nat) ^ 2 = 65536 := by decide
  have e1 : min es.length 65535 % 65536 = es.length := by omega
  rw [h256, e1]

/-! ### 4. plain values as Redis writes them, and the payloads of the tool's own parser -/

/-- `plain_materialise`: types 0–5 with ANY string-object encoding per element (raw in any length form, int8/16/32,
    LZF with any token stream), counts in any length form; type-3 scores by tag or text; type-5 (`zset2`) scores are the
    eight little-endian bytes, bit-exact for all 2^64 patterns (−0, NaNs with payload included). -/
theorem plain_materialise (pf : Bytes → Option UInt64) (v : Spec.Rdb.Value) (hok : plainOk pf v)
    (lv : LValue) (hl : plainLogical pf v = some lv) :
    decodeDump pf (withDumpFooter (v.type :: Spec.Rdb.serValue v)) = .ok lv := by
  unfold decodeDump
  rw [decodeDumpG_footer]
  exact plain_value true pf v hok lv hl _

/-- zset2 is exact on every bit pattern: the score that comes back is the score that was written -/
theorem zset2_exact (pf : Bytes → Option UInt64) (n : LenForm) (ms : List (RStr × UInt64))
    (hc : cntOkC n ms.length) (hs : ∀ p ∈ ms, strOkC p.1) :
    decodeDump pf (withDumpFooter (5 :: Spec.Rdb.serValue (.zset2 n (ms.map fun p => (p.1, le64 p.2))))) =
      .ok (.zset (ms.map fun p => (Spec.Rdb.logical p.1, p.2))) := by
  have := plain_materialise pf (.zset2 n (ms.map fun p => (p.1, le64 p.2)))
    ⟨by simpa using hc, by
      intro q hq
      obtain ⟨p, hp, rfl⟩ := List.mem_map.mp hq
      exact ⟨hs p hp, Lemmas.Bytes.le64_length _⟩⟩
    (.zset (ms.map fun p => (Spec.Rdb.logical p.1, p.2)))
    (by simp [plainLogical, List.map_map, Function.comp_def, Lemmas.Bytes.ofLe64_le64])
  simpa [Spec.Rdb.Value.type] using this

/-- the payload the tool's own parser (C01: `createValueDump`) delivers for a value is the DUMP payload these theorems
    are about: same bytes, same trailer -/
theorem parser_payload (t : UInt8) (body : Bytes) : Dump.createValueDump t body = withDumpFooter (t :: body) := by
  rw [C01.createValueDump_eq_dumpPayload, dumpPayload_eq]

/-! ### 5. whole files -/

/-- `file_roundtrip`: writing a whole file (header, database selectors when the database changes, expiries, objects,
    footer) and loading it back with the tool's loader delivers exactly one record per object, in order, with the same
    database, key, expiry and a payload that decodes to the same value; the footer verifies and nothing after the
    checksum is consumed. `L` is the loader's chunk limit (values are below it; bigger hashes: C01 `chunks_concat`). -/
theorem file_roundtrip (fmt : UInt64 → Bytes) (pf : Bytes → Option UInt64) (hft : FloatText fmt pf) (L : Nat)
    (objs : List Obj) (hok : ∀ o ∈ objs, ObjOk fmt L o) (tail : Bytes) :
    Rdb.run (fun t => (pf t).isSome) true L Generated.rdbFromVersion (encodeFile fmt objs ++ tail) =
      (objs.map (entryOf fmt), .ok tail) ∧
    ∀ o ∈ objs, decodeDump pf (entryOf fmt o).value = .ok (normValue o.val) := by
  constructor
  · obtain ⟨hser, hitems⟩ := ser_itemsOf fmt pf hft L objs hok none
    have hh : fileHeader = Spec.Rdb.hdr 6 := by decide
    have hfile : encodeFile fmt objs ++ tail =
        Spec.Rdb.hdr 6 ++ Spec.Rdb.ser (itemsOf fmt none objs) ++ [0xFF] ++
          le64 (Spec.Crc64.crc64 (Spec.Rdb.hdr 6 ++ Spec.Rdb.ser (itemsOf fmt none objs) ++ [0xFF])) ++ tail := by
      simp only [encodeFile, hh, hser]
    rw [hfile, C01.parse_exact (fun t => (pf t).isSome) L Generated.rdbFromVersion 6 (by decide) (by decide) (by decide)
      (itemsOf fmt none objs) hitems tail, expected_itemsOf fmt pf hft L objs hok none 0 (Or.inl rfl)]
  · intro o ho
    exact dump_roundtrip fmt pf hft o.val (hok o ho).1

/-! ### 5b. record conversions -/

theorem encFloat_normScore (fmt : UInt64 → Bytes) (s : UInt64) : encFloat fmt (normScore s) = encFloat fmt s := by
  unfold normScore
  by_cases h : isNaN s = true
  · have hg : isNaN goNaN = true := by decide
    simp [h, encFloat, hg]
  · simp [h]

theorem encodeDump_normValue (fmt : UInt64 → Bytes) (v : LValue) : encodeDump fmt (normValue v) = encodeDump fmt v := by
  cases v with
  | zset ms =>
    simp [encodeDump, normValue, typeOf, encValue, List.flatMap_map, encFloat_normScore]
  | _ => rfl

/-- `BinEntry → ObjEntry → BinEntry` (pkg/rdb/loader.go): decoding a payload the encoder wrote and encoding the result
    again gives the same bytes (so a record converted forth and back is unchanged) -/
theorem entry_conversion_roundtrip (fmt : UInt64 → Bytes) (pf : Bytes → Option UInt64) (hft : FloatText fmt pf)
    (v : LValue) (hv : Sized v) :
    (decodeDump pf (encodeDump fmt v)).map (encodeDump fmt) = .ok (encodeDump fmt v) := by
  rw [dump_roundtrip fmt pf hft v hv]
  simp [Except.map, encodeDump_normValue]

/-! ### 6. non-vacuity: concrete inhabitants of the hypotheses -/

/-- a ziplist with a forced 5-byte prevlen, a negative 24-bit integer, a 4-bit integer and a run of bytes, stored
    LZF-compressed with an overlapping back-reference -/
def exList : Compact := .listZl [.str false .s6 [97, 97, 97, 97, 97, 97, 97, 97], .int true .i24 (-32769), .int false .i4 12]
def exWrap : RStr := .lzf .b6 .b14 [.lit [32, 0, 0, 0, 29, 0, 0, 0, 3, 0, 0, 8, 97], .ref 1 7,
  .lit [254, 10, 0, 0, 0, 240, 255, 127, 255, 9, 253, 255]]

theorem exWrap_ok : strOkC exWrap := by
  refine ⟨by decide +kernel, by decide +kernel, by decide +kernel, by decide +kernel, ?_⟩
  simp [Spec.Rdb.toksOk, Spec.Rdb.tokOk, Spec.Rdb.expandTok, Spec.Rdb.copyFrom]

example : exList.WF ∧ strOkC exWrap ∧ Spec.Rdb.logical exWrap = serCompact exList ∧
    logicalOf pfNone exList = some (.list [[97, 97, 97, 97, 97, 97, 97, 97], [45, 51, 50, 55, 54, 57], [49, 50]]) := by
  refine ⟨by simp only [exList, Compact.WF]; decide, exWrap_ok, by decide +kernel, by decide +kernel⟩

example : decodeDump pfNone (wrapDump exWrap 10) =
    .ok (.list [[97, 97, 97, 97, 97, 97, 97, 97], [45, 51, 50, 55, 54, 57], [49, 50]]) :=
  compact_materialise pfNone exList (by simp only [exList, Compact.WF]; decide) _ (by decide +kernel) exWrap exWrap_ok (by decide +kernel)

/-- a zipmap with free bytes after a value and an empty field name -/
example : (Compact.zipmap [{ k := [], v := [1, 2], free := [9, 9, 9] }, { k := [107], v := [], free := [] }]).WF := by
  refine ⟨by decide, by decide +kernel⟩

/-- an intset of width 8 at both ends of its range -/
example : (Compact.intset 8 [-9223372036854775808, 9223372036854775807, -1]).WF := by
  refine ⟨by decide, ?_, by decide⟩
  intro v hv
  simp only [List.mem_cons, List.not_mem_nil, or_false] at hv
  rcases hv with rfl | rfl | rfl <;> simp [widthFits]

/-- a quicklist of two nodes, the count written in the 14-bit form -/
example : qlWF .b14 [⟨.raw .b6 (serZiplist [.int false .i8 (-128)]), [.int false .i8 (-128)]⟩,
    ⟨.raw .b32 (serZiplist []), []⟩] := by
  refine ⟨⟨by decide, by decide⟩, ?_⟩
  intro n hn
  simp only [List.mem_cons, List.not_mem_nil, or_false] at hn
  rcases hn with rfl | rfl
  · exact ⟨by decide, ⟨by decide +kernel, by decide +kernel⟩, rfl⟩
  · exact ⟨by decide, ⟨by decide +kernel, by decide +kernel⟩, rfl⟩

/-- a type-5 sorted set whose member is a 16-bit integer string and whose score is a NaN with payload; a hash whose
    field is LZF-compressed -/
example : plainOk pfNone (.zset2 .b14 [(.int16 [255, 127], le64 0x7FF8000000000055)]) ∧
    plainOk pfNone (.hash .b6 [(.lzf .b6 .b6 [.lit [120], .ref 1 5], .int8 [128])]) := by
  refine ⟨⟨⟨by decide, by decide⟩, ?_⟩, ⟨⟨by decide, by decide⟩, ?_⟩⟩
  · intro p hp
    simp only [List.mem_singleton] at hp; subst hp
    exact ⟨by simp [strOkC], by decide +kernel⟩
  · intro p hp
    simp only [List.mem_singleton] at hp; subst hp
    refine ⟨⟨by decide +kernel, by decide +kernel, by decide +kernel, by decide +kernel, ?_⟩, by simp [strOkC]⟩
    simp [Spec.Rdb.toksOk, Spec.Rdb.tokOk, Spec.Rdb.expandTok, Spec.Rdb.copyFrom]

/-- a file: two databases, an expiry of 2^63+5 ms, an integer-looking key, a hash and a sorted set with −0 and NaN
    (codec: the artificial one of the `FloatText` example; chunk limit 1000 bytes) -/
def exFmt : UInt64 → Bytes := le64
def exObjs : List Obj :=
  [{ db := 0, key := [49, 50, 55], expireAt := 9223372036854775813, val := .hash [([102], [45, 49, 50, 57])] },
   { db := 0, key := [], expireAt := 0, val := .zset [([109], 0x8000000000000000), ([110], 0x7FF8000000000001)] },
   { db := 300, key := [107], expireAt := 1, val := .list [[], [48, 48, 55]] }]

example : ∀ o ∈ exObjs, ObjOk exFmt 1000 o := by
  intro o ho
  simp only [exObjs, List.mem_cons, List.not_mem_nil, or_false] at ho
  rcases ho with rfl | rfl | rfl
  · exact ⟨⟨by decide, by decide⟩, by decide, by decide, by decide, by decide +kernel⟩
  · exact ⟨⟨by decide, by decide⟩, by decide, by decide, by decide, by decide +kernel⟩
  · exact ⟨⟨by decide, by decide⟩, by decide, by decide, by decide, by decide +kernel⟩

end RSVerif.Properties.C12
