import RSVerif.Lemmas.RdbRun
import RSVerif.Properties.C11
import RSVerif.Generated.C01Consts
/-
C01 — RDB parsing delivers every key exactly, whatever its encoding.

Model:  RSVerif.Rdb (Model/RdbRead.lean) — pkg/rdb reader.go / loader.go / mix.go, tied to the Go code by ./check C01.
Spec:   RSVerif.Spec.Rdb (Spec/Rdb.lean: abstract syntax, serializer `ser`, well-formedness `itemsOk`;
        Spec/RdbExpected.lean: the records `expected` a file must be delivered as).
Helper lemmas: Lemmas/Rdb{Basic,Lzf,Value,Hash,Loader,Fuel,Run}.lean.
-/
set_option linter.unusedSimpArgs false
namespace RSVerif.Properties.C01
open RSVerif RSVerif.Rdb RSVerif.Spec.Rdb RSVerif.Lemmas.Rdb

/-! ### The numerals of the model are the constants of the source (regenerated on every run) -/

/-- type codes, opcodes, module sub-opcodes, length-form and string-encoding tags as `go/factgen/c01.go` reads them from
    pkg/rdb/reader.go NOW are the numerals written in Model/RdbRead.lean and Spec/Rdb.lean, and the constant the
    accumulated hash bytes are compared with in `readObjectValue` is 16 MiB — the `L` the driver instantiates the
    theorems with (`parse_exact` itself holds for every `L`). -/
theorem consts_tie :
    Generated.C01.typeString = 0 ∧ Generated.C01.typeList = 1 ∧ Generated.C01.typeSet = 2 ∧ Generated.C01.typeZSet = 3 ∧
    Generated.C01.typeHash = 4 ∧ Generated.C01.typeZSet2 = 5 ∧ Generated.C01.typeHashZipmap = 9 ∧
    Generated.C01.typeListZiplist = 10 ∧ Generated.C01.typeSetIntset = 11 ∧ Generated.C01.typeZSetZiplist = 12 ∧
    Generated.C01.typeHashZiplist = 13 ∧ Generated.C01.typeQuicklist = 14 ∧ Generated.C01.typeStream = 15 ∧
    Generated.C01.flagModuleAux = 0xF7 ∧ Generated.C01.flagIdle = 0xF8 ∧ Generated.C01.flagFreq = 0xF9 ∧
    Generated.C01.flagAux = 0xFA ∧ Generated.C01.flagResizeDB = 0xFB ∧ Generated.C01.flagExpiryMS = 0xFC ∧
    Generated.C01.flagExpiry = 0xFD ∧ Generated.C01.flagSelectDB = 0xFE ∧ Generated.C01.flagEOF = 0xFF ∧
    Generated.C01.modEof = 0 ∧ Generated.C01.modSint = 1 ∧ Generated.C01.modUint = 2 ∧ Generated.C01.modFloat = 3 ∧
    Generated.C01.modDouble = 4 ∧ Generated.C01.modString = 5 ∧
    Generated.C01.len6bit = 0 ∧ Generated.C01.len14bit = 1 ∧ Generated.C01.len32bit = 0x80 ∧ Generated.C01.len64bit = 0x81 ∧
    Generated.C01.encVal = 3 ∧ Generated.C01.encInt8 = 0 ∧ Generated.C01.encInt16 = 1 ∧ Generated.C01.encInt32 = 2 ∧
    Generated.C01.encLZF = 3 ∧
    Generated.C01.chunkLimit = 16 * 1024 * 1024 ∧ Generated.rdbFromVersion = 9 := by decide

theorem serStr_length_pos (s : RStr) : 1 ≤ (serStr s).length := by
  cases s with
  | raw f bs => cases f <;> simp [serStr, encLen]
  | int8 b => simp [serStr]
  | int16 b => simp [serStr]
  | int32 b => simp [serStr]
  | lzf cf uf ts => simp [serStr]

theorem serPairs_length_ge (ps : List Pair) : ps.length ≤ (serPairs ps).length := by
  apply flatten_length_ge serPair ps
  intro p
  have := serStr_length_pos p.1
  simp [serPair]; omega

/-- there are never more records than bytes (so the model's loop fuel `|file| + 1` always suffices) -/
theorem expected_length_le (dump : UInt8 → Bytes → Bytes) (L : Nat) (items : List Item) :
    ∀ db, (expected dump L db items).length ≤ (ser items).length := by
  induction items with
  | nil => intro db; simp [expected]
  | cons it is ih =>
    intro db
    rw [ser_cons, List.length_append]
    cases it with
    | aux k v => simp only [expected]; have := ih db; omega
    | resizeDb a b => simp only [expected]; have := ih db; omega
    | selectDb n => simp only [expected]; have := ih n.val; omega
    | moduleAux id ops => simp only [expected]; have := ih db; omega
    | lua k s => simp only [expected, List.length_cons, serItem]; have := ih db; simp; omega
    | key exp idle freq name v =>
      simp only [expected, List.length_append]
      have := ih db
      have hk : (keyRecords dump L db exp idle freq name v).length ≤ (serItem (.key exp idle freq name v)).length := by
        rw [serItem_key]
        simp only [List.length_append, List.length_cons]
        cases v with
        | hash n fvs =>
          simp only [keyRecords, List.length_cons, serValue, List.length_append]
          have h1 := contRecords_length_le dump L db (logical name)
            (takeChunk L (encLen ⟨fvs.length, n⟩).length fvs).2.length (takeChunk L (encLen ⟨fvs.length, n⟩).length fvs).2
          have h2 : (takeChunk L (encLen ⟨fvs.length, n⟩).length fvs).2.length ≤ fvs.length := by
            have := takeChunk_append L (encLen ⟨fvs.length, n⟩).length fvs
            have e : ((takeChunk L (encLen ⟨fvs.length, n⟩).length fvs).1 ++ (takeChunk L (encLen ⟨fvs.length, n⟩).length fvs).2).length = fvs.length := by rw [this]
            simp at e; omega
          have h3 := serPairs_length_ge fvs
          omega
        | str t s => simp [keyRecords]; omega
        | seq t n xs => simp [keyRecords]; omega
        | zset n xs => simp [keyRecords]; omega
        | zset2 n xs => simp [keyRecords]; omega
        | stream => simp [keyRecords]; omega
      omega

/-- the header "REDIS" + 4 digits is accepted for every version the loader supports -/
theorem header_ok (fv : Int) (ver : Nat) (h1 : 1 ≤ ver) (h9 : ver ≤ 9) (hfv : (ver : Int) ≤ fv) (rest : Bytes) :
    header fv (hdr ver ++ rest) = .ok ((), rest) := by
  have hv : ver = 1 ∨ ver = 2 ∨ ver = 3 ∨ ver = 4 ∨ ver = 5 ∨ ver = 6 ∨ ver = 7 ∨ ver = 8 ∨ ver = 9 := by omega
  have key : ∀ v : Nat, (v = 1 ∨ v = 2 ∨ v = 3 ∨ v = 4 ∨ v = 5 ∨ v = 6 ∨ v = 7 ∨ v = 8 ∨ v = 9) →
      readN 9 (hdr v ++ rest) = .ok (hdr v, rest) ∧ (hdr v).take 5 = magic ∧
      parseVersion ((hdr v).drop 5) = some (v : Int) := by
    intro v hv
    refine ⟨readN_append' 9 _ _ (by simp [hdr]), ?_, ?_⟩
    · rcases hv with rfl | rfl | rfl | rfl | rfl | rfl | rfl | rfl | rfl <;> decide
    · rcases hv with rfl | rfl | rfl | rfl | rfl | rfl | rfl | rfl | rfl <;> decide
  obtain ⟨k1, k2, k3⟩ := key ver hv
  simp only [header, k1, k2, k3, ne_eq, not_true_eq_false, if_false]
  have : ¬ ((ver : Int) ≤ 0 ∨ (ver : Int) > fv) := by omega
  rw [if_neg this]

/-- the model's payload wrapper is the specified DUMP payload -/
theorem createValueDump_eq_dumpPayload :
    Dump.createValueDump = dumpPayload Dump.toVersion16 := by
  funext t body
  simp [Dump.createValueDump, dumpPayload, C11.digest_eq_spec, Spec.Crc64.crc64]

/-- **parse_exact** — for every chunk limit `L`, every version 1…9, every well-formed item list and ANY bytes
    after the checksum: the loader delivers exactly the expected records, in file order, verifies the
    footer, and leaves everything after the checksum unread. -/
theorem parse_exact (pf : Bytes → Bool) (L : Nat) (fv : Int) (ver : Nat) (h1 : 1 ≤ ver) (h9 : ver ≤ 9)
    (hfv : (ver : Int) ≤ fv) (items : List Item) (hok : itemsOk pf items) (tail : Bytes) :
    Rdb.run pf true L fv
      (hdr ver ++ ser items ++ [0xFF] ++ le64 (Spec.Crc64.crc64 (hdr ver ++ ser items ++ [0xFF])) ++ tail) =
      (expected (dumpPayload Dump.toVersion16) L 0 items, .ok tail) := by
  have hall : hdr ver ++ ser items ++ [0xFF] ++ le64 (Spec.Crc64.crc64 (hdr ver ++ ser items ++ [0xFF])) ++ tail
      = hdr ver ++ (ser items ++ 0xFF :: (le64 (Spec.Crc64.crc64 (hdr ver ++ ser items ++ [0xFF])) ++ tail)) := by
    simp
  generalize hcov : hdr ver ++ ser items ++ [0xFF] = cov at *
  rw [hall]
  unfold Rdb.run
  rw [header_ok fv ver h1 h9 hfv]
  simp only []
  rw [← hall]
  have hb := expected_length_le Dump.createValueDump L items 0
  rw [hall, runLoop_items pf L _ _ items hok {} _ [] rfl (by
    simp only [List.length_append, List.length_cons]; omega)]
  rw [← createValueDump_eq_dumpPayload]
  simp only [List.reverse_nil, List.nil_append]
  congr 1
  -- the footer
  rw [← hall]
  unfold footerOf
  rw [readN_append' 8 _ _ (Lemmas.Bytes.le64_length _)]
  simp only []
  have hcv : (cov ++ le64 (Spec.Crc64.crc64 cov) ++ tail).take
      ((cov ++ le64 (Spec.Crc64.crc64 cov) ++ tail).length - (le64 (Spec.Crc64.crc64 cov) ++ tail).length) = cov := by
    have := take_append_sub cov (le64 (Spec.Crc64.crc64 cov) ++ tail)
    simpa [List.append_assoc] using this
  rw [hcv, C11.footer_accepts]
  simp

/-! ### Corollaries about the delivered payloads -/

/-- the pair-chunks of the continuation records -/
def contChunks (L : Nat) : Nat → List Pair → List (List Pair)
  | 0, _ => []
  | f + 1, ps =>
    match ps with
    | [] => []
    | _ => (takeChunk L 0 ps).1 :: contChunks L f (takeChunk L 0 ps).2

theorem contChunks_flatten (L : Nat) (f : Nat) (ps : List Pair) (h : ps.length ≤ f) :
    (contChunks L f ps).flatten = ps := by
  induction f generalizing ps with
  | zero => cases ps <;> simp_all [contChunks]
  | succ f ih =>
    cases ps with
    | nil => simp [contChunks]
    | cons p ps' =>
      simp only [contChunks, List.flatten_cons]
      have hlt := takeChunk_snd_length_lt L 0 p ps'
      rw [ih _ (by simp at h hlt ⊢; omega), takeChunk_append]

theorem contRecords_values (dump : UInt8 → Bytes → Bytes) (L db : Nat) (key : Bytes) (f : Nat) (ps : List Pair) :
    (contRecords dump L db key f ps).map (fun e => (e.db, e.key, e.type, e.value, e.needReadLen, e.expireAt)) =
      (contChunks L f ps).map (fun c => (db, key, (4 : UInt8), dump 4 (serPairs c), 0, 0)) := by
  induction f generalizing ps with
  | zero => simp [contRecords, contChunks]
  | succ f ih =>
    cases ps with
    | nil => simp [contRecords, contChunks]
    | cons p ps' => simp [contRecords, contChunks, ih]

/-- **chunks_concat** — a hash is delivered as consecutive records (same db, key and type; only the first
    carries the count prefix, the expiry and `needReadLen = 1`) whose pairs, concatenated, are exactly the hash. -/
theorem chunks_concat (dump : UInt8 → Bytes → Bytes) (L db : Nat) (exp : Expiry) (idle : Option ELen)
    (freq : Option UInt8) (name : RStr) (n : LenForm) (fvs : List Pair) :
    ∃ (c : List Pair) (cs : List (List Pair)),
      (c :: cs).flatten = fvs ∧
      (keyRecords dump L db exp idle freq name (.hash n fvs)).map
          (fun e => (e.db, e.key, e.type, e.value, e.needReadLen, e.expireAt)) =
        (db, logical name, (4 : UInt8), dump 4 (encLen ⟨fvs.length, n⟩ ++ serPairs c), 1, expiryMs exp) ::
          cs.map (fun c => (db, logical name, (4 : UInt8), dump 4 (serPairs c), 0, 0)) := by
  refine ⟨(takeChunk L (encLen ⟨fvs.length, n⟩).length fvs).1,
    contChunks L (takeChunk L (encLen ⟨fvs.length, n⟩).length fvs).2.length (takeChunk L (encLen ⟨fvs.length, n⟩).length fvs).2, ?_, ?_⟩
  · rw [List.flatten_cons, contChunks_flatten L _ _ (Nat.le_refl _), takeChunk_append]
  · simp [keyRecords, contRecords_values, Value.type]

/-- a chunk ends as soon as the captured bytes exceed `L` — it overshoots only by its last pair -/
theorem takeChunk_minimal (L : Nat) (ps : List Pair) :
    ∀ b, b ≤ L → (takeChunk L b ps).2 ≠ [] →
      L < b + (serPairs (takeChunk L b ps).1).length ∧
      b + (serPairs (takeChunk L b ps).1.dropLast).length ≤ L := by
  induction ps with
  | nil => intro b _ h; simp [takeChunk] at h
  | cons p rest ih =>
    intro b hb h
    unfold takeChunk at h ⊢
    by_cases hc : b + (serPair p).length > L ∧ rest ≠ []
    · rw [if_pos hc] at h ⊢
      simp only [serPairs, List.map_cons, List.map_nil, List.flatten_cons, List.flatten_nil, List.append_nil,
        List.dropLast_singleton, List.length_nil]
      omega
    · rw [if_neg hc] at h ⊢
      simp only at h ⊢
      have hrest : rest ≠ [] := by
        intro hr; subst hr; simp [takeChunk] at h
      have hb' : b + (serPair p).length ≤ L := by
        by_cases hgt : b + (serPair p).length > L
        · exact absurd ⟨hgt, hrest⟩ hc
        · omega
      obtain ⟨h1, h2⟩ := ih (b + (serPair p).length) hb' h
      have hne : (takeChunk L (b + (serPair p).length) rest).1 ≠ [] := by
        cases rest with
        | nil => exact absurd rfl hrest
        | cons q qs => exact takeChunk_fst_ne_nil L _ q qs
      rw [List.dropLast_cons_of_ne_nil hne]
      simp only [serPairs_cons, List.length_append]
      omega

/-- every record's payload is either a raw Lua script or a DUMP payload that verifies -/
def recordOk (e : Entry) : Prop := e.type = 0xFA ∨ Dump.verifyDump e.value = .ok ()

theorem contRecords_ok (L db : Nat) (key : Bytes) (f : Nat) (ps : List Pair) :
    ∀ e ∈ contRecords (dumpPayload Dump.toVersion16) L db key f ps, recordOk e := by
  induction f generalizing ps with
  | zero => simp [contRecords]
  | succ f ih =>
    cases ps with
    | nil => simp [contRecords]
    | cons p ps' =>
      intro e he
      simp only [contRecords, List.mem_cons] at he
      rcases he with rfl | he
      · right; rw [← createValueDump_eq_dumpPayload]; exact C11.dump_verifies _ _
      · exact ih _ e he

/-- **payload_exact** (validity half) — every delivered value payload passes the strict DUMP checker -/
theorem payload_verifies (L : Nat) (items : List Item) :
    ∀ db, ∀ e ∈ expected (dumpPayload Dump.toVersion16) L db items, recordOk e := by
  induction items with
  | nil => intro db e he; simp [expected] at he
  | cons it is ih =>
    intro db e he
    cases it with
    | aux k v => exact ih db e (by simpa [expected] using he)
    | resizeDb a b => exact ih db e (by simpa [expected] using he)
    | selectDb n => exact ih n.val e (by simpa [expected] using he)
    | moduleAux id ops => exact ih db e (by simpa [expected] using he)
    | lua k s =>
      simp only [expected, List.mem_cons] at he
      rcases he with rfl | he
      · left; rfl
      · exact ih db e he
    | key exp idle freq name v =>
      simp only [expected, List.mem_append] at he
      rcases he with he | he
      · cases v with
        | hash n fvs =>
          simp only [keyRecords, List.mem_cons] at he
          rcases he with rfl | he
          · right; rw [← createValueDump_eq_dumpPayload]; exact C11.dump_verifies _ _
          · exact contRecords_ok L db _ _ _ e he
        | str t s => simp only [keyRecords, List.mem_singleton] at he; subst he; right
                     rw [← createValueDump_eq_dumpPayload]; exact C11.dump_verifies _ _
        | seq t n xs => simp only [keyRecords, List.mem_singleton] at he; subst he; right
                        rw [← createValueDump_eq_dumpPayload]; exact C11.dump_verifies _ _
        | zset n xs => simp only [keyRecords, List.mem_singleton] at he; subst he; right
                       rw [← createValueDump_eq_dumpPayload]; exact C11.dump_verifies _ _
        | zset2 n xs => simp only [keyRecords, List.mem_singleton] at he; subst he; right
                        rw [← createValueDump_eq_dumpPayload]; exact C11.dump_verifies _ _
        | stream => simp only [keyRecords, List.mem_singleton] at he; subst he; right
                    rw [← createValueDump_eq_dumpPayload]; exact C11.dump_verifies _ _
      · exact ih db e he

/-! ### The end-of-file check on whole files (C11's footer theorems composed with the loader) -/

/-- **end-of-file check rejects a wrong checksum** — for every well-formed file body and ANY 8 bytes in place of
    the checksum that differ from the CRC-64 of the covered bytes (a single flipped bit, all zeros, …), the loader
    still delivers every record and then fails with the checksum error; it never reports success. -/
theorem file_rejects_wrong_checksum (pf : Bytes → Bool) (L : Nat) (fv : Int) (ver : Nat) (h1 : 1 ≤ ver) (h9 : ver ≤ 9)
    (hfv : (ver : Int) ≤ fv) (items : List Item) (hok : itemsOk pf items) (tr tail : Bytes)
    (hlen : tr.length = 8) (hne : tr ≠ le64 (Spec.Crc64.crc64 (hdr ver ++ ser items ++ [0xFF]))) :
    Rdb.run pf true L fv (hdr ver ++ ser items ++ [0xFF] ++ tr ++ tail) =
      (expected (dumpPayload Dump.toVersion16) L 0 items, .error .checksum) := by
  have hall : hdr ver ++ ser items ++ [0xFF] ++ tr ++ tail
      = hdr ver ++ (ser items ++ 0xFF :: (tr ++ tail)) := by simp
  generalize hcov : hdr ver ++ ser items ++ [0xFF] = cov at *
  rw [hall]
  unfold Rdb.run
  rw [header_ok fv ver h1 h9 hfv]
  simp only []
  rw [← hall]
  have hb := expected_length_le Dump.createValueDump L items 0
  rw [hall, runLoop_items pf L _ _ items hok {} _ [] rfl (by
    simp only [List.length_append, List.length_cons]; omega)]
  rw [← createValueDump_eq_dumpPayload]
  simp only [List.reverse_nil, List.nil_append]
  congr 1
  rw [← hall]
  unfold footerOf
  rw [readN_append' 8 _ _ hlen]
  simp only []
  have hcv : (cov ++ tr ++ tail).take ((cov ++ tr ++ tail).length - (tr ++ tail).length) = cov := by
    have := take_append_sub cov (tr ++ tail)
    simpa [List.append_assoc] using this
  rw [hcv, C11.footer_rejects_trailer cov tr hlen hne]
  simp

/-- **end-of-file check rejects altered value data** — take a well-formed file and substitute one byte so that
    the body is still well-formed (a byte of a key name or of value data; lengths and opcodes untouched), keeping
    the original checksum: the records of the altered body are delivered and the footer check then fails. -/
theorem file_rejects_altered_data (pf : Bytes → Bool) (L : Nat) (fv : Int) (ver : Nat) (h1 : 1 ≤ ver) (h9 : ver ≤ 9)
    (hfv : (ver : Int) ≤ fv) (items items' : List Item) (hok' : itemsOk pf items')
    (p s : Bytes) (x y : UInt8) (hxy : x ≠ y)
    (hc : hdr ver ++ ser items ++ [0xFF] = p ++ x :: s) (hc' : hdr ver ++ ser items' ++ [0xFF] = p ++ y :: s)
    (tail : Bytes) :
    Rdb.run pf true L fv (hdr ver ++ ser items' ++ [0xFF] ++
        le64 (Spec.Crc64.crc64 (hdr ver ++ ser items ++ [0xFF])) ++ tail) =
      (expected (dumpPayload Dump.toVersion16) L 0 items', .error .checksum) := by
  apply file_rejects_wrong_checksum pf L fv ver h1 h9 hfv items' hok' _ tail (Lemmas.Bytes.le64_length _)
  intro h
  have := Lemmas.Bytes.le64_inj _ _ h
  rw [hc, hc'] at this
  exact C11.single_byte_detected 0 p s x y hxy this

/-- non-vacuity: one byte of a raw string value changed (`v` → `w`) -/
example : ∃ (p s : Bytes),
    hdr 9 ++ ser [.key .none none none (.raw .b6 [107]) (.str 0 (.raw .b6 [118]))] ++ [0xFF] = p ++ 118 :: s ∧
    hdr 9 ++ ser [.key .none none none (.raw .b6 [107]) (.str 0 (.raw .b6 [119]))] ++ [0xFF] = p ++ 119 :: s :=
  ⟨hdr 9 ++ [0, 1, 107, 1], [0xFF], by decide, by decide⟩


/-! ### Non-vacuity: a concrete well-formed file with an LZF key, int-encoded strings, a chunked hash
    (chunk limit 12), a Lua script, expiry/idle/freq, a wider-than-necessary length and a select-db -/

def exItems : List Item :=
  [ .aux (.raw .b6 [114, 118]) (.int8 [5]),
    .selectDb ⟨3, .b14⟩,
    .lua (.raw .b6 [108, 117, 97]) (.raw .b6 [114, 101, 116, 117, 114, 110]),
    .key (.ms [1, 0, 0, 0, 0, 0, 0, 0]) (some ⟨7, .b6⟩) (some 9)
      (.lzf .b6 .b6 [.lit [97, 98], .ref 2 6]) (.str 0 (.int16 [0x39, 0x30])),
    .key .none none none (.raw .b6 [104])
      (.hash .b6 [(.raw .b6 [1,2,3,4,5], .raw .b6 [6,7,8,9,10]), (.raw .b6 [1], .raw .b6 [2]),
                  (.raw .b6 [3], .raw .b32 [4])]) ]

example : itemsOk (fun _ => true) exItems := by
  intro it hit
  simp only [exItems, List.mem_cons, List.mem_nil_iff, or_false] at hit
  rcases hit with rfl | rfl | rfl | rfl | rfl <;>
    simp [itemOk, valueOk, strOk, cntOk, ELen.fits, toksOk, tokOk, expandTok, copyFrom, logical, luaText, expand,
      encToks, encTok, decimal, decDigits, twos, leVal]

/-- the example really is chunked (3 records for the hash) and parses as `parse_exact` says -/
example : (expected (dumpPayload Dump.toVersion16) 12 0 exItems).length = 4 := by decide +kernel

/-! ### D1 — the pinned module-aux reader (text-float reader for opcode 3) misparses; fixed in /repo -/

def exModAux : List Item :=
  [ .moduleAux ⟨1, .b6⟩ [.float [0, 0, 0, 0]],
    .key .none none none (.raw .b6 [107]) (.str 0 (.raw .b6 [118])) ]

def exModAuxFile : Bytes :=
  hdr 9 ++ ser exModAux ++ [0xFF] ++ le64 (Spec.Crc64.crc64 (hdr 9 ++ ser exModAux ++ [0xFF]))

/-- with the pinned reader (`floatRaw = false`) the well-formed file above is NOT parsed as expected,
    with the repaired reader it is (instance of `parse_exact`). -/
theorem counterexample_modaux_float :
    Rdb.run (fun _ => true) false 16777216 9 exModAuxFile ≠
      (expected (dumpPayload Dump.toVersion16) 16777216 0 exModAux, .ok []) ∧
    Rdb.run (fun _ => true) true 16777216 9 exModAuxFile =
      (expected (dumpPayload Dump.toVersion16) 16777216 0 exModAux, .ok []) := by
  decide +kernel

end RSVerif.Properties.C01
