/- C01: property theorems (stub — not built yet) -/
namespace RSVerif.Properties.C01
end RSVerif.Properties.C01
