import RSVerif.Model.LogFlow
import RSVerif.Lemmas.LogFlow
import RSVerif.Generated.LogFlow
import RSVerif.Spec.LogFlow
/-
C19 — Configured passwords never appear in logs or status output.

The statement is non-interference of everything the tool prints or serves with respect to the
configured passwords. It is proved over the flow/type abstraction of the program that go/logflow
regenerates from the CURRENT sources on every run (`Generated.LogFlow`):

 * `closure_cert`        the generated candidate sets contain the sources (the six password fields and
                         every password-named location) and are closed under every extracted edge;
 * `no_sink_tainted`     no argument of any output site has a static type that reaches a tainted field
                         or reads a tainted location;
 * `no_sink_reachable`   hence (hand-proved `closed_sound`) NO derivation of the least taint relation of
                         the extracted graph ends in an output argument — a statement about the graph
                         alone, not about the candidate;
 * `safe_options_masks`  every secret field of `Configuration` is overwritten with a literal by
                         `GetSafeOptions`; `mask_rows_derived` re-checks the extractor's derived row;
 * `render_noninterference`, `masked_render_noninterference` (hand-proved, all password strings): in the
                         formatting model the output for a clean value, resp. for a masked copy, is the
                         same for any two values that differ only inside secret fields.

TRUSTED (see design_notes/C19.md): the extractor's edge rules. Reflection/interface dispatch is
over-approximated by static type; formatting verbs are not interpreted (any verb may print everything).
-/
namespace RSVerif.Properties.C19
open RSVerif.LogFlow RSVerif.Generated.LogFlow RSVerif.Spec.LogFlow

/-! ### 1. The certificate (finite tables, re-checked by the kernel against the current source) -/

/-- the sources are in the candidate set and it is closed under all value-flow edges, hand-over
    edges and type rows -/
theorem closure_cert : graph.closed tainted taintedTypes = true := by decide +kernel

/-- the six configured fields and all password-named locations are tainted -/
theorem sources_tainted : ∀ l ∈ secretFields ++ nameSources, tainted.testBit l = true := by
  decide +kernel

/-- no output site has a tainted argument -/
theorem no_sink_tainted : ∀ c ∈ siteChunks, ∀ s ∈ c, siteClean tainted taintedTypes s = true := by
  decide +kernel

/-- the tables are what the extractor counted (guards against an empty/truncated table) -/
theorem table_sizes :
    edges.length = numEdges ∧ typeEdges.length = numTypeEdges ∧ sites.length = numSites ∧
    secretFields.length = 6 := by decide +kernel

/-- FULL STATEMENT over the extracted graph: nothing that is derivable from the password sources by the
    extracted rules — in any number of steps — is an argument of an output site. -/
theorem no_sink_reachable : ∀ s ∈ sites, ∀ a ∈ s.args, ¬ a.possiblySecret graph := by
  intro s hs a ha
  apply not_possiblySecret_of_clean graph tainted taintedTypes closure_cert
  simp only [sites, List.mem_flatten] at hs
  obtain ⟨c, hc, hsc⟩ := hs
  have := no_sink_tainted c hc s hsc
  simp only [siteClean, List.all_eq_true] at this
  exact this a ha

/-- every derivable location / row / type is in the candidate (the candidate over-approximates) -/
theorem candidate_sound : ∀ f, Derivable graph f → f.holds tainted taintedTypes :=
  closed_sound graph tainted taintedTypes closure_cert

-- non-vacuity: the six fields really are derivable, and so is `*SyncNode` (which is what D20 logged)
example : Derivable graph (.loc 0) := .source (by decide +kernel)

/-! ### 2. GetSafeOptions masks every secret field of the configuration -/

/-- `secretFields Configuration ⊆ masked` -/
theorem safe_options_masks :
    ∀ f ∈ fieldsOfRow configurationType, f.loc ∈ secretFields → f.loc ∈ maskedFields := by
  decide +kernel

/-- … and this is not vacuous: the configuration row exists and has exactly four secret fields -/
theorem configuration_secret_fields :
    configurationSecrets.length = 4 := by
  decide +kernel

/-- the row the extractor uses for a value returned by a masking function is the original row minus
    exactly the fields that function overwrites with a literal -/
theorem mask_rows_derived :
    ∀ r ∈ maskRows, fieldsOfRow r.2.1 = (fieldsOfRow r.1).filter (fun f => !r.2.2.contains f.loc) := by
  decide +kernel

/-- what `GetSafeOptions` returns cannot reach a tainted field -/
theorem safe_options_clean : (GoType.named safeOptionsType).reaches taintedTypes = false := by
  decide +kernel

/-- whereas the raw configuration and a sync-node descriptor do (so the check is not trivially true) -/
theorem raw_configuration_tainted : (GoType.named configurationType).reaches taintedTypes = true := by
  decide +kernel
theorem sync_node_tainted : (GoType.ptr (.named syncNodeType)).reaches taintedTypes = true := by
  decide +kernel

/-! ### 3. D20 — the pinned tree logged the descriptor (fixed by fixes/C19-syncnode-log.patch) -/

/-- the pinned statement `log.Infof("Starting sync for node: %v", ds.node)` (dbSyncer.go:118): its
    argument has type `*slot.SyncNode`; such a site is not clean. With that line present
    `no_sink_tainted` does not check. -/
theorem counterexample_pinned_syncnode_log : siteClean tainted taintedTypes pinnedSyncNodeLog = false := by
  decide +kernel

/-- … and in the formatting model `%v` of a descriptor does depend on the passwords -/
theorem counterexample_render_syncnode :
    GoVal.lowEq [4, 5] (nodeWith "a" "b") (nodeWith "c" "d") ∧
    sprintf "Starting sync for node: %v" [nodeWith "a" "b"] ≠ sprintf "Starting sync for node: %v" [nodeWith "c" "d"] := by
  refine ⟨by simp [nodeWith, GoVal.lowEq, GoFields.lowEq, GoVals.lowEq], by decide +kernel⟩

/-! ### 4. Non-interference of the formatting model (hand-proved; all values, all password strings) -/

/-- A value none of whose reachable fields is secret renders the same as any value that differs from it
    only inside secret fields — under every verb, for all contents of those fields. -/
theorem render_noninterference (S : List Nat) (f : Verb) (v w : GoVal)
    (hclean : v.clean S = true) (hlow : GoVal.lowEq S v w) : v.render f = w.render f := by
  have h := GoVal.mask_eq_of_lowEq S [] v w hlow (GoVal.covered_of_clean S v hclean)
  rw [GoVal.mask_nil, GoVal.mask_nil] at h
  rw [h]

/-- The same for whole formatted lines. -/
theorem sprintf_noninterference (S : List Nat) (fmt : String) (v w : GoVal)
    (hclean : v.clean S = true) (hlow : GoVal.lowEq S v w) : sprintf fmt [v] = sprintf fmt [w] := by
  have h := GoVal.mask_eq_of_lowEq S [] v w hlow (GoVal.covered_of_clean S v hclean)
  rw [GoVal.mask_nil, GoVal.mask_nil] at h
  rw [h]

/-- A masked copy (`GetSafeOptions`) renders the same for any two configurations that differ only in
    secret fields, provided every secret field occurring in the value is among the masked ones. -/
theorem masked_render_noninterference (S M : List Nat) (f : Verb) (v w : GoVal)
    (hcov : v.covered S M = true) (hlow : GoVal.lowEq S v w) :
    (v.mask M).render f = (w.mask M).render f := by
  rw [GoVal.mask_eq_of_lowEq S M v w hlow hcov]

/-- the list of tainted locations used below is exactly covered by the bit mask -/
theorem tainted_locs_cover : ∀ l ∈ taintedLocs, tainted.testBit l = true := by decide +kernel
theorem tainted_locs_complete : (List.range numLocs).all (fun l => !tainted.testBit l || taintedLocs.contains l) = true := by
  decide +kernel

/-- END-TO-END (current tree): for every argument of every output site, any two run-time values of the
    argument's static type that differ only inside tainted fields render identically under every verb —
    whatever the passwords are. (Interface-typed positions are assumed to hold clean values: that is the
    location half of `no_sink_tainted`, whose connection to Go semantics is the trusted extractor.) -/
theorem output_noninterference :
    ∀ s ∈ sites, ∀ a ∈ s.args, ∀ (f : Verb) (v w : GoVal),
      HasType typeDefs taintedLocs a.ty v → GoVal.lowEq taintedLocs v w → v.render f = w.render f := by
  intro s hs a ha f v w hty hlow
  have hclean : argClean tainted taintedTypes a = true := by
    simp only [sites, List.mem_flatten] at hs
    obtain ⟨c, hc, hsc⟩ := hs
    have := no_sink_tainted c hc s hsc
    simp only [siteClean, List.all_eq_true] at this
    exact this a ha
  simp only [argClean, Bool.and_eq_true, Bool.not_eq_true'] at hclean
  have hS : ∀ l, tainted.testBit l = false → taintedLocs.contains l = false := by
    intro l hl
    cases hc : taintedLocs.contains l with
    | false => rfl
    | true =>
      have := tainted_locs_cover l (by simpa using hc)
      rw [hl] at this; cases this
  have hdefs : ∀ d ∈ typeDefs, typeDefClosed tainted taintedTypes d = true := by
    have := closure_cert
    simp only [Graph.closed, Bool.and_eq_true, List.all_eq_true] at this
    exact this.2
  exact render_noninterference taintedLocs f v w (HasType.clean hS hdefs hty hclean.1) hlow

-- non-vacuity: a configuration-like value with two different password pairs; masked JSON is identical
-- and shows the mask, unmasked JSON differs
example : ((confWith "p%1\"" "q").mask [0, 1, 2, 3]).render .json =
    "{\"Id\":\"shake\",\"SourcePasswordRaw\":\"***\",\"TargetPasswordRaw\":\"***\",\"Parallel\":32}" := by
  decide +kernel
example : (confWith "a" "b").covered [0, 1, 2, 3, 4, 5] [0, 1, 2, 3] = true := by decide
example : GoVal.lowEq [0, 1, 2, 3, 4, 5] (confWith "a" "b") (confWith "c" "d") := by
  simp [confWith, GoVal.lowEq, GoFields.lowEq]
example : (confWith "a" "b").render .json ≠ (confWith "c" "d").render .json := by decide +kernel

end RSVerif.Properties.C19
