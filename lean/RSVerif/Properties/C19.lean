/- C19: property theorems (stub — not built yet) -/
namespace RSVerif.Properties.C19
end RSVerif.Properties.C19
