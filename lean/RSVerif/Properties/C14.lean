/- C14: property theorems (stub — not built yet) -/
namespace RSVerif.Properties.C14
end RSVerif.Properties.C14
