import RSVerif.Lemmas.Checkpoint
/-
C14 — Resume picks its own source's newest checkpoint and reads what the sender wrote.
Property theorems only (definitions: Model/Checkpoint, Spec/Checkpoint; helper lemmas: Lemmas/Checkpoint).

`LoadRun exactMatch a st (r, st')`: a call of LoadCheckpoint for source address `a` against the target `st`
may return `r` and leave the target as `st'` — for SOME iteration order of Go's `range` over the keyspace map in
the scan loop and SOME order in ClearCheckpoint. Every theorem quantifies over all such runs, over all
well-formed targets (`WF`; every state reachable by any history of sender groups of any sources, old-version
groups, data traffic, single field writes/removals and clears is well-formed: `reachable_wf`).
`exactMatch` is the matching of the tree with fixes/C14-exact-fields.patch; `pinnedMatch` is the pinned one.
-/
namespace RSVerif.Properties.C14
open RSVerif RSVerif.Checkpoint RSVerif.Lemmas.Checkpoint

/-! ### 0. facts regenerated from the source on every run -/

/-- the sender `hset`s exactly `<source>-runid`, `<source>-version` (= FcvCheckpoint.CurrentVersion) and
    `<source>-offset` — the names and the version value `applyBatch` is built from (in whatever program order) -/
theorem sender_field_names :
    (Generated.C14.ckptSenderHsets.all fun x =>
      [(sep, Generated.C14.ckptRunId, "var"), (sep, Generated.C14.ckptVersion, "current-version"),
       (sep, Generated.C14.ckptOffset, "var")].contains x) = true ∧
    ([(sep, Generated.C14.ckptRunId, "var"), (sep, Generated.C14.ckptVersion, "current-version"),
       (sep, Generated.C14.ckptOffset, "var")].all fun x => Generated.C14.ckptSenderHsets.contains x) = true := by decide

/-- `ClearCheckpoint` deletes exactly `<source>-runid` and `<source>-offset` (in one or several `hdel`s) -/
theorem clear_field_names (a : Bytes) (f : Bytes) :
    f ∈ clearFields a ↔ f ∈ Generated.C14.ckptClearHdel.map (fun p => a ++ p.1 ++ p.2) := by
  have h : (Generated.C14.ckptClearHdel.all fun x => [(sep, Generated.C14.ckptRunId), (sep, Generated.C14.ckptOffset)].contains x) = true ∧
      ([(sep, Generated.C14.ckptRunId), (sep, Generated.C14.ckptOffset)].all fun x => Generated.C14.ckptClearHdel.contains x) = true := by
    decide
  simp only [List.all_eq_true, List.contains_iff_mem] at h
  simp only [clearFields, runIdField, offsetField, List.mem_map]
  constructor
  · intro hf
    simp only [List.mem_cons, List.not_mem_nil, or_false] at hf
    rcases hf with e | e
    · exact ⟨(sep, Generated.C14.ckptRunId), h.2 _ (by simp), by rw [e]⟩
    · exact ⟨(sep, Generated.C14.ckptOffset), h.2 _ (by simp), by rw [e]⟩
  · rintro ⟨p, hp, e⟩
    have := h.1 p hp
    simp only [List.mem_cons, List.not_mem_nil, or_false] at this
    rcases this with e' | e' <;> subst e' <;> simp [← e]

/-- the field names on the target are the ones existing checkpoints carry:
    `<source>-offset`, `<source>-runid`, `<source>-version` (ASCII) -/
theorem field_names_on_disk (a : Bytes) :
    offsetField a = a ++ [45, 111, 102, 102, 115, 101, 116] ∧ runIdField a = a ++ [45, 114, 117, 110, 105, 100] ∧
    versionField a = a ++ [45, 118, 101, 114, 115, 105, 111, 110] := by
  simp [offsetField, runIdField, versionField, sep, Generated.C14.ckptOffset, Generated.C14.ckptRunId, Generated.C14.ckptVersion]

/-- what the current release writes passes its own gate; a missing version field (= 0) does not -/
theorem version_consts :
    Generated.C14.fcvCheckpointCompatible ≤ Generated.C14.fcvCheckpointCurrent ∧ 0 < Generated.C14.fcvCheckpointCompatible ∧
    Generated.C14.fcvCheckpointCurrent ≠ -1 := by decide

/-- distinct sources, or distinct kinds, never share a field name (addresses that are prefixes of one another
    included: no hypothesis on `a`, `b`) -/
theorem field_names_injective (a b : Bytes) :
    (offsetField a = offsetField b → a = b) ∧ (runIdField a = runIdField b → a = b) ∧
    (versionField a = versionField b → a = b) ∧
    offsetField a ≠ runIdField b ∧ offsetField a ≠ versionField b ∧ runIdField a ≠ versionField b :=
  ⟨offsetField_inj, runIdField_inj, versionField_inj, offset_ne_runId a b, offset_ne_version a b, runId_ne_version a b⟩

/-! ### 1. the states the theorems range over; the loader always has an outcome -/

theorem reachable_wf (st : State) (h : Reachable st) : WF st := Lemmas.Checkpoint.reachable_wf st h

/-- `ParseKeyspace` of MiniRedis' `INFO keyspace` is exactly the set of non-empty dbs -/
theorem keyspace_parsed (st : State) (hwf : WF st) : parseKeyspace (infoKeyspace st) = .ok (keysOf st) :=
  parseKeyspace_wf st hwf

/-- every db holding a checkpoint hash is visited -/
theorem checkpoint_dbs_listed (st : State) (d : Int) (h : hashOf st d ≠ []) : d ∈ keysOf st :=
  mem_liveDbs_of_hash st d h

theorem load_has_outcome (a : Bytes) (st : State) (hwf : WF st) : ∃ r, LoadRun exactMatch a st r :=
  ⟨_, (loadRun_iff exactMatch a st hwf _).mpr ⟨keysOf st, keysOf st, List.Perm.refl _, List.Perm.refl _, rfl⟩⟩

/-- on a real hash (distinct fields) the loop reads the three exactly-named fields, whatever the HGETALL order -/
theorem fetch_reads_own_fields (a : Bytes) (h : Hash) (hwf : HashWF h) :
    fetchCheckpoint exactMatch a h = ownCkpt a h := fetch_eq_ownCkpt a h hwf

/-! ### 2. picks_max_own -/

/-- Full generality (ties allowed). A successful load returns the greatest offset recorded for `a` across
    ALL dbs (−1 if none), together with the run id and db of a checkpoint carrying that offset
    (db −1 if that checkpoint has no run id). -/
theorem picks_max_own (a : Bytes) (st st' : State) (hwf : WF st) (runid : Bytes) (off db : Int)
    (h : LoadRun exactMatch a st (.ok runid off db, st')) :
    (∀ x f, own a st x = some f → f.offset ≤ off) ∧ -1 ≤ off ∧
    ((off = -1 ∧ runid = [] ∧ db = 0) ∨
     (∃ x f, own a st x = some f ∧ f.offset = off ∧ off > -1 ∧ runid = f.runid ∧ db = reportedDb f x)) := by
  obtain ⟨o1, o2, h1, _, e⟩ := (loadRun_iff exactMatch a st hwf _).mp h
  unfold loadFrom at e
  cases hs : scan exactMatch a st o1 Acc.init with
  | none => rw [hs] at e; simp at e
  | some acc =>
    rw [hs] at e
    simp only [] at e
    split at e
    · simp at e
    · simp only [Prod.mk.injEq, Ret.ok.injEq] at e
      obtain ⟨⟨hr, ho, hd⟩, _⟩ := e
      obtain ⟨m1, m2, m3⟩ := scan_max exactMatch a st o1 Acc.init acc hs
      simp only [Acc.init] at m1
      refine ⟨?_, by omega, ?_⟩
      · intro x f hx
        by_cases hm : x ∈ keysOf st
        · obtain ⟨g, hg, hle⟩ := m2 x (h1.mem_iff.mpr hm)
          rw [fetch_own a st hwf, hx] at hg
          cases hg; omega
        · rw [own_outside a st x hm] at hx
          cases hx; simp only; omega
      · rcases m3 with m3 | ⟨x, _, f, hf, hacc, hgt⟩
        · left
          subst m3
          simp only [Acc.init, unknownRunId] at hr ho hd
          refine ⟨ho, hr, ?_⟩
          rw [hd]; simp
        · right
          rw [fetch_own a st hwf] at hf
          subst hacc
          simp only [accOf, Acc.init] at hr ho hd hgt
          exact ⟨x, f, hf, ho.symm, by omega, hr, by rw [hd]; rfl⟩

/-- With a unique greatest offset (no ties) the returned tuple is exactly that checkpoint's. -/
theorem picks_newest (a : Bytes) (st st' : State) (hwf : WF st) (d : Int) (f : Fetched)
    (hn : Newest a st d f) (hv : ¬ Refused f) (r : Ret) (h : LoadRun exactMatch a st (r, st')) :
    r = .ok f.runid f.offset (reportedDb f d) := by
  obtain ⟨o2, _, e⟩ := run_newest a st hwf d f hn _ h
  rw [if_neg hv] at e
  exact (Prod.mk.inj e).1

/-- Without ties the whole outcome (tuple and target afterwards) does not depend on Go's map order. -/
theorem deterministic (a : Bytes) (st : State) (hwf : WF st) (hnt : NoTies a st) (r1 r2 : Ret × State)
    (h1 : LoadRun exactMatch a st r1) (h2 : LoadRun exactMatch a st r2) : r1 = r2 := by
  rcases trichotomy_all a st hnt with hu | hn | ⟨d, f, hn⟩
  · rw [run_unreadable a st hwf hu r1 h1, run_unreadable a st hwf hu r2 h2]
  · obtain ⟨o, ho, e1⟩ := run_none a st hwf hn r1 h1
    obtain ⟨o', ho', e2⟩ := run_none a st hwf hn r2 h2
    rw [e1, e2, clearAll_perm a 0 o o' st (ho.trans ho'.symm)]
  · obtain ⟨o, ho, e1⟩ := run_newest a st hwf d f hn r1 h1
    obtain ⟨o', ho', e2⟩ := run_newest a st hwf d f hn r2 h2
    rw [e1, e2, clearAll_perm a _ o o' st (ho.trans ho'.symm)]

/-! ### 3. ignores_other_sources -/

/-- Two targets that agree on `a`'s three fields in every db — whatever else differs: other sources'
    checkpoints (their addresses may extend or be prefixes of `a`, or contain the words offset/runid/version),
    data, which dbs exist — make the loader return the same tuple. (`NoTies`: see `counterexample_tie`.) -/
theorem ignores_other_sources (a : Bytes) (st st' : State) (hwf : WF st) (hwf' : WF st')
    (hsame : SameOwn a st st') (hnt : NoTies a st) (r r' : Ret) (s s' : State)
    (h : LoadRun exactMatch a st (r, s)) (h' : LoadRun exactMatch a st' (r', s')) : r = r' := by
  rcases trichotomy_all a st hnt with hu | hn | ⟨d, f, hn⟩
  · have e := run_unreadable a st hwf hu _ h
    have e' := run_unreadable a st' hwf' (unreadable_sameOwn hsame hu) _ h'
    rw [(Prod.mk.inj e).1, (Prod.mk.inj e').1]
  · obtain ⟨_, _, e⟩ := run_none a st hwf hn _ h
    obtain ⟨_, _, e'⟩ := run_none a st' hwf' (noCheckpoint_sameOwn hsame hn) _ h'
    rw [(Prod.mk.inj e).1, (Prod.mk.inj e').1]
  · obtain ⟨_, _, e⟩ := run_newest a st hwf d f hn _ h
    obtain ⟨_, _, e'⟩ := run_newest a st' hwf' d f (newest_sameOwn hsame hn) _ h'
    by_cases hv : Refused f
    · rw [if_pos hv] at e e'; rw [(Prod.mk.inj e).1, (Prod.mk.inj e').1]
    · rw [if_neg hv] at e e'; rw [(Prod.mk.inj e).1, (Prod.mk.inj e').1]

/-- … and every event that is not a write/clear of `a`'s own fields keeps them: groups and clears of any other
    source `b ≠ a` (no other condition on `b`), data traffic, writes/removals of any other field. -/
theorem foreign_events_keep_own_fields (a : Bytes) (st : State) (ops : List Op) (hf : ∀ op ∈ ops, op.Foreign a) :
    SameOwn a st (ops.foldl applyOp st) := by
  induction ops generalizing st with
  | nil => exact sameOwn_refl a st
  | cons op rest ih =>
    exact sameOwn_trans (foreign_op_sameOwn a st op (hf op (List.mem_cons_self ..)))
      (ih _ fun o ho => hf o (List.mem_cons_of_mem _ ho))

/-- the two combined: after any history of foreign events the loader answers as before -/
theorem ignores_other_sources_history (a : Bytes) (st : State) (hwf : WF st) (ops : List Op)
    (hv : ∀ op ∈ ops, op.Valid) (hf : ∀ op ∈ ops, op.Foreign a) (hnt : NoTies a st) (r r' : Ret) (s s' : State)
    (h : LoadRun exactMatch a st (r, s)) (h' : LoadRun exactMatch a (ops.foldl applyOp st) (r', s')) : r = r' := by
  have hwf' : WF (ops.foldl applyOp st) := by
    clear h h' hnt hf
    induction ops generalizing st with
    | nil => exact hwf
    | cons op rest ih =>
      exact ih _ (wf_applyOp st op (hv op (List.mem_cons_self ..)) hwf) fun o ho => hv o (List.mem_cons_of_mem _ ho)
  exact ignores_other_sources a st _ hwf hwf' (foreign_events_keep_own_fields a st ops hf) hnt r r' s s' h h'

/-- conversely the loader leaves every field except `a`'s run id and offset alone — in particular all
    fields of every other source -/
theorem load_keeps_other_fields (a : Bytes) (st s : State) (hwf : WF st) (r : Ret)
    (h : LoadRun exactMatch a st (r, s)) (d : Int) (g : Bytes) (hg : g ≠ runIdField a) (hg' : g ≠ offsetField a) :
    fieldOf g (hashOf s d) = fieldOf g (hashOf st d) := by
  obtain ⟨o1, o2, _, _, e⟩ := (loadRun_iff exactMatch a st hwf _).mp h
  have hgc : g ∉ clearFields a := by simp [clearFields, hg, hg']
  unfold loadFrom at e
  split at e
  · rw [(Prod.mk.inj e).2]
  · split at e
    · rw [(Prod.mk.inj e).2]
    · rw [(Prod.mk.inj e).2]; exact fieldOf_clearAll_other a _ o2 st d g hgc

theorem load_keeps_other_sources (a b : Bytes) (hab : b ≠ a) (st s : State) (hwf : WF st) (r : Ret)
    (h : LoadRun exactMatch a st (r, s)) : SameOwn b st s := by
  obtain ⟨h1, h2, h3⟩ := foreign_fields (a := b) (b := a) (fun e => hab e.symm)
  apply sameOwn_of_fields
  intro d g hg
  exact (load_keeps_other_fields a st s hwf r h d g (fun e => h2 (e ▸ hg)) (fun e => h1 (e ▸ hg))).symm

/-! ### 4. stale_removed -/

/-- After a successful load: in every db other than the reported one `a`'s offset and run id are gone;
    the reported db is untouched; keys, data counts and all other fields are untouched. -/
theorem stale_removed (a : Bytes) (st s : State) (hwf : WF st) (runid : Bytes) (off db : Int)
    (h : LoadRun exactMatch a st (.ok runid off db, s)) :
    (∀ x, x ≠ db → fieldOf (offsetField a) (hashOf s x) = none ∧ fieldOf (runIdField a) (hashOf s x) = none) ∧
    hashOf s db = hashOf st db ∧
    s.map (fun p => (p.1, p.2.others)) = st.map (fun p => (p.1, p.2.others)) := by
  obtain ⟨o1, o2, _, h2, e⟩ := (loadRun_iff exactMatch a st hwf _).mp h
  unfold loadFrom at e
  split at e
  · simp at e
  · split at e
    · simp at e
    · simp only [Prod.mk.injEq, Ret.ok.injEq] at e
      obtain ⟨⟨_, _, hd⟩, hs⟩ := e
      rw [← hd] at hs
      subst hs
      refine ⟨?_, ?_, ?_⟩
      · intro x hx
        rw [hashOf_clearAll]
        by_cases hm : x ∈ keysOf st
        · rw [if_pos ⟨hx, h2.mem_iff.mpr hm⟩, fieldOf_clearHash, fieldOf_clearHash]
          simp [clearFields]
        · have he := covers st x hm
          split <;> simp [he, clearHash, fieldOf]
      · rw [hashOf_clearAll, if_neg (by simp)]
      · rw [clearAll_eq_map, List.map_map]
        apply List.map_congr_left
        intro p _
        simp only [Function.comp, clearEntry]
        split <;> rfl

/-! ### 5. none ⇒ offset −1 -/

/-- no usable checkpoint of `a` anywhere ⇒ ("", −1, 0): the caller starts a full sync -/
theorem none_gives_minus_one (a : Bytes) (st s : State) (hwf : WF st) (hn : NoCheckpoint a st) (r : Ret)
    (h : LoadRun exactMatch a st (r, s)) : r = .ok [] (-1) 0 := by
  obtain ⟨_, _, e⟩ := run_none a st hwf hn _ h
  exact (Prod.mk.inj e).1

/-- in particular when `a` has no field at all on the target -/
theorem no_fields_gives_minus_one (a : Bytes) (st s : State) (hwf : WF st)
    (hno : ∀ d g, g ∈ ownFields a → fieldOf g (hashOf st d) = none) (r : Ret)
    (h : LoadRun exactMatch a st (r, s)) : r = .ok [] (-1) 0 := by
  apply none_gives_minus_one a st s hwf _ r h
  intro d
  have e1 := hno d (offsetField a) (by simp [ownFields])
  have e2 := hno d (runIdField a) (by simp [ownFields])
  have e3 := hno d (versionField a) (by simp [ownFields])
  unfold own ownCkpt
  split
  · exact ⟨_, rfl, by simp⟩
  · simp only [e1, e2, e3, numField]
    exact ⟨_, rfl, by simp⟩

/-! ### 6. missing_runid ⇒ ("?", no db) -/

theorem runid_default (a : Bytes) (st : State) (d : Int) (f : Fetched) (ho : own a st d = some f)
    (hne : hashOf st d ≠ []) (hmiss : fieldOf (runIdField a) (hashOf st d) = none) : f.runid = unknownRunId := by
  unfold own ownCkpt at ho
  have : (hashOf st d).isEmpty = false := by
    cases hh : hashOf st d with
    | nil => exact absurd hh hne
    | cons _ _ => rfl
  rw [this] at ho
  simp only [Bool.false_eq_true, if_false, hmiss] at ho
  split at ho
  · simp only [Option.some.injEq] at ho; rw [← ho]; rfl
  · cases ho

/-- the newest checkpoint has no run id ⇒ ("?", its offset, −1), and EVERY db is cleared, so that the
    full sync that follows starts from a clean slate -/
theorem missing_runid (a : Bytes) (st s : State) (hwf : WF st) (d : Int) (f : Fetched) (hn : Newest a st d f)
    (hq : f.runid = unknownRunId) (hv : ¬ Refused f) (r : Ret) (h : LoadRun exactMatch a st (r, s)) :
    r = .ok unknownRunId f.offset (-1) ∧
    ∀ x, fieldOf (offsetField a) (hashOf s x) = none ∧ fieldOf (runIdField a) (hashOf s x) = none := by
  have hr := picks_newest a st s hwf d f hn hv r h
  have hdb : reportedDb f d = -1 := by simp [reportedDb, hq]
  rw [hdb, hq] at hr
  refine ⟨hr, ?_⟩
  subst hr
  intro x
  by_cases hx : x = -1
  · subst hx
    have : (-1 : Int) ∉ keysOf st := by
      intro hm
      obtain ⟨p, hp, e⟩ := List.mem_map.mp hm
      have := (hwf.range p (List.mem_filter.mp hp).1).1
      omega
    have he : hashOf s (-1) = hashOf st (-1) := (stale_removed a st s hwf _ _ _ h).2.1
    rw [he, covers st (-1) this]
    simp [fieldOf]
  · exact (stale_removed a st s hwf _ _ _ h).1 x hx

/-! ### 7. old_version_refused -/

/-- the newest checkpoint carries a version below the compatible one ⇒ error, target untouched -/
theorem old_version_refused (a : Bytes) (st s : State) (hwf : WF st) (d : Int) (f : Fetched) (hn : Newest a st d f)
    (hv : Refused f) (r : Ret) (h : LoadRun exactMatch a st (r, s)) : r = .err ∧ s = st := by
  obtain ⟨_, _, e⟩ := run_newest a st hwf d f hn _ h
  rw [if_pos hv] at e
  exact ⟨(Prod.mk.inj e).1, (Prod.mk.inj e).2⟩

/-- a checkpoint written before versions existed (no version field) is refused -/
theorem unversioned_refused (f : Fetched) (h : f.version = 0) : Refused f := by
  unfold Refused; rw [h]; decide

/-! ### 8. writer_reader_agree -/

/-- `load (state after a sender group b) = (b.runid, b.offset, b.db)`:
    whatever target the group lands on, provided it is the newest of its source (offsets of earlier sessions in
    other dbs are smaller and parse), the session has stamped the db (in this group or an earlier one) and the
    source's run id is known. Field names, decimal rendering and the version value written by the sender are
    exactly what the loader looks up, parses and accepts. -/
theorem writer_reader_agree (st : State) (hwf : WF st) (b : Batch) (hdb : validDb b.db)
    (hoff : -1 < b.offset ∧ b.offset < two63) (hrun : b.runid ≠ unknownRunId)
    (hstamp : b.stamp = true ∨ Stamped b.src b.runid st b.db)
    (hnew : ∀ x, x ≠ b.db → ∃ f, own b.src st x = some f ∧ f.offset < b.offset)
    (r : Ret) (s : State) (h : LoadRun exactMatch b.src (applyBatch st b) (r, s)) :
    r = .ok b.runid b.offset b.db := by
  have hwf' := wf_applyBatch st b hdb hwf
  have hown := batch_own st b ⟨by unfold two63 at *; omega, hoff.2⟩ hstamp
  have hn : Newest b.src (applyBatch st b) b.db ⟨b.runid, b.offset, Generated.C14.fcvCheckpointCurrent⟩ := by
    refine ⟨hown, hoff.1, ?_⟩
    intro x hx
    rw [own_applyBatch_other b.src st b x hx]
    exact hnew x hx
  have := picks_newest b.src _ s hwf' b.db _ hn (current_not_refused _ _) r h
  simpa [reportedDb, hrun] using this

/-! ### 9. D16 — the pinned matching (`HasPrefix` + `Contains`) does not ignore other sources -/

def addrA : Bytes := [49, 48, 46, 48, 46, 48, 46, 49, 58, 54, 51, 55, 57]        -- "10.0.0.1:6379"
def addrB : Bytes := addrA ++ [48]                                              -- "10.0.0.1:63790"

/-- a target holding only a checkpoint of the OTHER source `…:63790` (run id "rb", offset 500) -/
def d16Target : State :=
  [(0, ⟨[(runIdField addrB, [114, 98]), (versionField addrB, [49]), (offsetField addrB, [53, 48, 48])], 0⟩)]

/-- pinned tree: source `…:6379` resumes from the checkpoint of `…:63790`; repaired tree: it reports "none" -/
theorem counterexample_prefix_address :
    (loadFrom pinnedMatch addrA d16Target [0] [0]).1 = .ok [114, 98] 500 0 ∧
    (loadFrom exactMatch addrA d16Target [0] [0]).1 = .ok [] (-1) 0 ∧
    parseKeyspace (infoKeyspace d16Target) = .ok [0] := by decide +kernel

/-- … and with an own, older checkpoint in another db the pinned tree even deletes it as "stale" -/
def d16Target2 : State :=
  [(0, ⟨[(runIdField addrA, [114, 97]), (versionField addrA, [49]), (offsetField addrA, [49, 48, 48])], 0⟩),
   (1, ⟨[(runIdField addrB, [114, 98]), (versionField addrB, [49]), (offsetField addrB, [53, 48, 48])], 0⟩)]

theorem counterexample_prefix_address_clears_own :
    (loadFrom pinnedMatch addrA d16Target2 [0, 1] [0, 1]).1 = .ok [114, 98] 500 1 ∧
    fieldOf (offsetField addrA) (hashOf (loadFrom pinnedMatch addrA d16Target2 [0, 1] [0, 1]).2 0) = none ∧
    (loadFrom exactMatch addrA d16Target2 [0, 1] [0, 1]).1 = .ok [114, 97] 100 0 := by decide +kernel

/-- an address that contains one of the words: the pinned tree takes every field for every kind and fails -/
def addrK : Bytes := [111, 102, 102, 115, 101, 116, 46, 120, 58, 49]             -- "offset.x:1"
theorem counterexample_keyword_address :
    fetchCheckpoint pinnedMatch addrK
      [(runIdField addrK, [97, 98]), (versionField addrK, [49]), (offsetField addrK, [52, 50])] = none ∧
    fetchCheckpoint exactMatch addrK
      [(runIdField addrK, [97, 98]), (versionField addrK, [49]), (offsetField addrK, [52, 50])] = some ⟨[97, 98], 42, 1⟩ := by
  decide +kernel

/-! ### 10. equal offsets in two dbs: Go's map order decides (hence `NoTies`) -/

def tieTarget : State :=
  [(0, ⟨[(runIdField addrA, [114, 48]), (versionField addrA, [49]), (offsetField addrA, [55])], 0⟩),
   (3, ⟨[(runIdField addrA, [114, 51]), (versionField addrA, [49]), (offsetField addrA, [55])], 0⟩)]

theorem counterexample_tie :
    ∃ r1 r2, LoadRun exactMatch addrA tieTarget r1 ∧ LoadRun exactMatch addrA tieTarget r2 ∧
      r1.1 = .ok [114, 48] 7 0 ∧ r2.1 = .ok [114, 51] 7 3 := by
  have hk : parseKeyspace (infoKeyspace tieTarget) = .ok [0, 3] := by decide +kernel
  refine ⟨loadFrom exactMatch addrA tieTarget [0, 3] [0, 3], loadFrom exactMatch addrA tieTarget [3, 0] [0, 3], ?_, ?_, ?_, ?_⟩
  · unfold LoadRun; rw [hk]; exact ⟨[0, 3], [0, 3], List.Perm.refl _, List.Perm.refl _, rfl⟩
  · unfold LoadRun; rw [hk]; exact ⟨[3, 0], [0, 3], List.Perm.swap 0 3 [], List.Perm.refl _, rfl⟩
  · decide +kernel
  · decide +kernel

/-- A whole sender session. Start from any well-formed target on which every checkpoint of `a` parses and lies
    at or below `lo` (the offset the session starts from); let the session flush any number of groups into any
    dbs with increasing offsets, interleaved with arbitrary foreign events (other sources, data, clears of
    others); if it flushed at least one group, a restart reads back exactly the last one:
    (session run id, offset of the last group, db of the last group). -/
theorem writer_reader_agree_session (a runid : Bytes) (hrun : runid ≠ unknownRunId) (st : State) (hwf : WF st)
    (lo : Int) (hlo : -1 ≤ lo) (hbelow : ∀ x, ∃ f, own a st x = some f ∧ f.offset ≤ lo)
    (evs : List SessEv) (hok : EventsOk a lo evs) (g : Group)
    (hlast : (runSession a runid evs ⟨st, [], none⟩).last = some g)
    (r : Ret) (s : State) (h : LoadRun exactMatch a (runSession a runid evs ⟨st, [], none⟩).st (r, s)) :
    r = .ok runid g.offset g.db := by
  have hinv0 : SessInv a runid lo ⟨st, [], none⟩ :=
    ⟨hwf, (fun x hx => by cases hx), hbelow, hlo, (fun g hg => by cases hg)⟩
  obtain ⟨lo', hinv⟩ := sessInv_run a runid evs lo _ hinv0 hok
  obtain ⟨_, hn⟩ := hinv.newest g hlast
  have := picks_newest a _ s hinv.wf g.db _ hn (current_not_refused _ _) r h
  simpa [reportedDb, hrun] using this

/-- Why `writer_reader_agree` needs "the group's offset exceeds the older own offsets": the policy is
    "greatest offset", not "latest write". A checkpoint (run id "ra", offset 100) left in db 0 by an earlier run
    and a group of a NEW run (run id "rn", offset 40 — the source was replaced, its offsets restarted) in db 1:
    the loader returns the stale one (and the caller falls back to a full sync because the run id is unknown
    to the source). This is the stated policy of the property, recorded here as a limitation. -/
theorem stale_greater_offset_wins :
    let st : State := [(0, ⟨[(runIdField addrA, [114, 97]), (versionField addrA, [49]), (offsetField addrA, [49, 48, 48])], 0⟩)]
    let st' := applyBatch st ⟨addrA, 1, [114, 110], 40, true⟩
    parseKeyspace (infoKeyspace st') = .ok [0, 1] ∧
    (loadFrom exactMatch addrA st' [0, 1] [0, 1]).1 = .ok [114, 97] 100 0 ∧
    (loadFrom exactMatch addrA st' [1, 0] [1, 0]).1 = .ok [114, 97] 100 0 := by decide +kernel

/-! ### 10b. clearing the stale checkpoints is interrupted (the target refuses a command, the tool is killed) -/

/-- `ClearCheckpoint` got through the dbs `sub` only — any of them, in any order — before it stopped (an error reply makes it
    return, `LoadCheckpoint` only warns). The target is still well-formed and the newest checkpoint is still THE newest:
    untouched itself, and every db that was cleared now reads as "no offset". -/
theorem interrupted_clear_keeps_newest (a : Bytes) (st : State) (hwf : WF st) (d : Int) (f : Fetched)
    (hn : Newest a st d f) (sub : List Int) :
    WF (clearAll a d sub st) ∧ Newest a (clearAll a d sub st) d f := by
  obtain ⟨hown, hpos, hothers⟩ := hn
  refine ⟨wf_clearAll a d sub st hwf, ?_, hpos, ?_⟩
  · unfold own at hown ⊢
    rw [hashOf_clearAll, if_neg (by simp)]
    exact hown
  · intro d' hne
    obtain ⟨f', hf', hlt⟩ := hothers d' hne
    unfold own at hf' ⊢
    rw [hashOf_clearAll]
    split
    · obtain ⟨g, hg, hgo⟩ := ownCkpt_clearHash a _ f' hf'
      exact ⟨g, hg, by omega⟩
    · exact ⟨f', hf', hlt⟩

/-- Hence a restart after an interrupted clearing resumes from the same checkpoint as the interrupted start did (and as an
    undisturbed start would have): same run id, offset and db, for every iteration order of either run. Needs the newest
    checkpoint to carry a run id — otherwise the first start reports "?" / db −1 and clears EVERY db, the newest included
    (`counterexample_interrupted_clear_unknown_runid`). -/
theorem interrupted_clear_reload (a : Bytes) (st : State) (hwf : WF st) (d : Int) (f : Fetched)
    (hn : Newest a st d f) (hv : ¬ Refused f) (hrun : f.runid ≠ unknownRunId) (sub : List Int)
    (r1 r2 : Ret) (s1 s2 : State)
    (h1 : LoadRun exactMatch a st (r1, s1))
    (h2 : LoadRun exactMatch a (clearAll a d sub st) (r2, s2)) :
    r1 = .ok f.runid f.offset d ∧ r2 = r1 := by
  have e1 := picks_newest a st s1 hwf d f hn hv r1 h1
  obtain ⟨hwf', hn'⟩ := interrupted_clear_keeps_newest a st hwf d f hn sub
  have e2 := picks_newest a _ s2 hwf' d f hn' hv r2 h2
  simp only [reportedDb, if_neg hrun] at e1 e2
  exact ⟨e1, e2.trans e1.symm⟩

/-- the hypotheses of `interrupted_clear_reload` are satisfiable: `tieTarget` with db 3 moved ahead -/
def staleTarget : State :=
  [(0, ⟨[(runIdField addrA, [114, 48]), (versionField addrA, [49]), (offsetField addrA, [55])], 0⟩),
   (3, ⟨[(runIdField addrA, [114, 51]), (versionField addrA, [49]), (offsetField addrA, [57])], 2⟩),
   (5, ⟨[(offsetField addrA, [51])], 0⟩)]

example : (loadFrom exactMatch addrA staleTarget [0, 3, 5] [5, 0, 3]).1 = .ok [114, 51] 9 3 ∧
    (loadFrom exactMatch addrA (clearAll addrA 3 [5] staleTarget) [5, 3, 0] [0, 3, 5]).1 = .ok [114, 51] 9 3 := by
  decide +kernel

/-- Limit of the above: the newest checkpoint has no run id (offset 9 in db 3), an older one has (offset 7, db 0). The start
    reports ("?", 9, −1) — a full sync follows — and sets out to clear every db. If that stops after db 3, the next start
    finds the older checkpoint and reports ("r0", 7, 0). Between the two starts the tool is in a full sync whose own
    checkpoints supersede it; the property does not speak about this window. -/
def unknownRunIdTarget : State :=
  [(0, ⟨[(runIdField addrA, [114, 48]), (versionField addrA, [49]), (offsetField addrA, [55])], 0⟩),
   (3, ⟨[(versionField addrA, [49]), (offsetField addrA, [57])], 0⟩)]

theorem counterexample_interrupted_clear_unknown_runid :
    (loadFrom exactMatch addrA unknownRunIdTarget [0, 3] [3, 0]).1 = .ok unknownRunId 9 (-1) ∧
    (loadFrom exactMatch addrA (clearAll addrA (-1) [3] unknownRunIdTarget) [0, 3] [0, 3]).1 = .ok [114, 48] 7 0 := by
  decide +kernel

/-! ### 11. HGETALL order, unreachability of ties inside a session -/

theorem lookup_eq_some_iff (h : Hash) (hwf : HashWF h) (g v : Bytes) : h.lookup g = some v ↔ (g, v) ∈ h := by
  induction h with
  | nil => simp
  | cons p rest ih =>
    obtain ⟨k, w⟩ := p
    have hnd : k ∉ rest.map Prod.fst ∧ HashWF rest := by simpa [HashWF] using hwf
    by_cases e : g = k
    · subst e
      simp only [List.lookup_cons, beq_self_eq_true, Option.some.injEq, List.mem_cons, Prod.mk.injEq, true_and]
      constructor
      · intro h1; exact Or.inl h1.symm
      · rintro (h1 | h1)
        · exact h1.symm
        · exact absurd (List.mem_map.mpr ⟨(g, v), h1, rfl⟩) hnd.1
    · have hb : (g == k) = false := by simpa using e
      simp only [List.lookup_cons, hb, ih hnd.2, List.mem_cons, Prod.mk.injEq, e, false_and, false_or]

/-- Redis does not specify the order of HGETALL: any order of the same hash gives the same result -/
theorem fetch_order_irrelevant (a : Bytes) (h h' : Hash) (hwf : HashWF h) (hp : h.Perm h') :
    fetchCheckpoint exactMatch a h' = fetchCheckpoint exactMatch a h := by
  have hwf' : HashWF h' := (hp.map Prod.fst).nodup_iff.mp hwf
  rw [fetch_eq_ownCkpt a h hwf, fetch_eq_ownCkpt a h' hwf']
  have hl : ∀ g, fieldOf g h' = fieldOf g h := by
    intro g
    unfold fieldOf
    cases e : h.lookup g with
    | some v =>
      exact (lookup_eq_some_iff h' hwf' g v).mpr (hp.mem_iff.mp ((lookup_eq_some_iff h hwf g v).mp e))
    | none =>
      cases e' : h'.lookup g with
      | none => rfl
      | some v =>
        have := (lookup_eq_some_iff h hwf g v).mpr (hp.mem_iff.mpr ((lookup_eq_some_iff h' hwf' g v).mp e'))
        rw [e] at this; cases this
  have he : h'.isEmpty = h.isEmpty := by
    cases h with
    | nil => rw [hp.nil_eq]
    | cons p ps =>
      cases h' with
      | nil => exact absurd hp.symm.nil_eq (by simp)
      | cons _ _ => rfl
  unfold ownCkpt
  rw [he, hl, hl, hl]

/-- after any session that flushed a group, no two dbs hold the same usable offset of `a`: the order-dependent
    situation of `counterexample_tie` cannot be produced by the sender within a session -/
theorem session_has_no_ties (a runid : Bytes) (st : State) (hwf : WF st)
    (lo : Int) (hlo : -1 ≤ lo) (hbelow : ∀ x, ∃ f, own a st x = some f ∧ f.offset ≤ lo)
    (evs : List SessEv) (hok : EventsOk a lo evs) (g : Group)
    (hlast : (runSession a runid evs ⟨st, [], none⟩).last = some g) (d : Int) (f : Fetched) :
    own a (runSession a runid evs ⟨st, [], none⟩).st d = some f → d ≠ g.db → f.offset < g.offset := by
  have hinv0 : SessInv a runid lo ⟨st, [], none⟩ :=
    ⟨hwf, (fun x hx => by cases hx), hbelow, hlo, (fun g hg => by cases hg)⟩
  obtain ⟨lo', hinv⟩ := sessInv_run a runid evs lo _ hinv0 hok
  obtain ⟨_, hn⟩ := hinv.newest g hlast
  intro ho hd
  obtain ⟨f', hf', hlt⟩ := hn.2.2 d hd
  rw [ho] at hf'; cases hf'; exact hlt

/-- More generally: in every history in which `a`'s recorded offsets only grow (each group of `a` carries an
    offset above all offsets of `a` present — a sender's offsets increase and a resumed sender continues above the
    offset it loaded — and nobody else writes `a`'s offset field; removals, clears, other sources, data and
    garbage in other fields are unrestricted) no tie exists, so the loader's outcome never depends on Go's map
    order. Ties need a source whose offsets went backwards (replaced master) — the explicit hypothesis `NoTies`. -/
theorem monotone_history_has_no_ties (a : Bytes) (st : State) (h : MonoReachable a st) : NoTies a st :=
  noTies_of_distinct (monoReachable_distinct a st h)

theorem deterministic_monotone (a : Bytes) (st : State) (h : MonoReachable a st) (r1 r2 : Ret × State)
    (h1 : LoadRun exactMatch a st r1) (h2 : LoadRun exactMatch a st r2) : r1 = r2 :=
  deterministic a st (reachable_wf st (monoReachable_reachable a st h)) (monotone_history_has_no_ties a st h) r1 r2 h1 h2

/-! ### 12. the same statements for reachable targets; non-vacuity -/

theorem picks_max_own_reachable (a : Bytes) (st st' : State) (hr : Reachable st) (runid : Bytes) (off db : Int)
    (h : LoadRun exactMatch a st (.ok runid off db, st')) :
    (∀ x f, own a st x = some f → f.offset ≤ off) ∧ -1 ≤ off ∧
    ((off = -1 ∧ runid = [] ∧ db = 0) ∨
     (∃ x f, own a st x = some f ∧ f.offset = off ∧ off > -1 ∧ runid = f.runid ∧ db = reportedDb f x)) :=
  picks_max_own a st st' (reachable_wf st hr) runid off db h

theorem stale_removed_reachable (a : Bytes) (st s : State) (hr : Reachable st) (runid : Bytes) (off db : Int)
    (h : LoadRun exactMatch a st (.ok runid off db, s)) :
    (∀ x, x ≠ db → fieldOf (offsetField a) (hashOf s x) = none ∧ fieldOf (runIdField a) (hashOf s x) = none) ∧
    hashOf s db = hashOf st db ∧
    s.map (fun p => (p.1, p.2.others)) = st.map (fun p => (p.1, p.2.others)) :=
  stale_removed a st s (reachable_wf st hr) runid off db h

/-- a reachable target with two sources whose addresses extend one another, a partial checkpoint, an old-version
    checkpoint, data and a clear -/
def sampleHistory : List Op :=
  [.batch ⟨addrA, 0, [114, 97], 100, true⟩, .batch ⟨addrB, 0, [114, 98], 500, true⟩, .data 2 3,
   .oldBatch addrA 1 (some [111, 108, 100]) 50, .batch ⟨addrA, 3, [114, 97], 180, true⟩, .hdel 3 (runIdField addrB),
   .clear addrB 0 [0, 1, 2, 3]]

def sampleTarget : State := sampleHistory.foldl applyOp []

example : Reachable sampleTarget := by
  unfold sampleTarget sampleHistory
  simp only [List.foldl]
  repeat (first | exact Reachable.empty | (refine Reachable.step _ _ ?_ (by simp [Op.Valid, validDb, maxDb, two63])))

/-- on it source A's newest checkpoint is the one in db 3, source B's the one in db 0 -/
example : Newest addrA sampleTarget 3 ⟨[114, 97], 180, 1⟩ := by
  refine ⟨by decide +kernel, by decide, ?_⟩
  intro d' hne
  by_cases h0 : d' = 0
  · subst h0; exact ⟨⟨[114, 97], 100, 1⟩, by decide +kernel, by decide⟩
  · by_cases h1 : d' = 1
    · subst h1; exact ⟨⟨[111, 108, 100], 50, 0⟩, by decide +kernel, by decide⟩
    · by_cases h2 : d' = 2
      · subst h2; exact ⟨⟨[], -1, -1⟩, by decide +kernel, by decide⟩
      · refine ⟨⟨[], -1, -1⟩, ?_, by decide⟩
        apply own_of_empty
        apply hashOf_not_mem
        have : sampleTarget.map Prod.fst = [0, 2, 1, 3] := by decide +kernel
        rw [this]; simp [h0, h1, h2, hne]

example : (loadFrom exactMatch addrA sampleTarget [0, 2, 1, 3] [3, 1, 2, 0]).1 = .ok [114, 97] 180 3 := by decide +kernel
example : (loadFrom exactMatch addrB sampleTarget [3, 1, 2, 0] [0, 2, 1, 3]).1 = .ok [114, 98] 500 0 := by decide +kernel
example : (loadFrom pinnedMatch addrA sampleTarget [0, 2, 1, 3] [3, 1, 2, 0]).1 = .ok [114, 98] 500 0 := by decide +kernel

/-- a session satisfying the hypotheses of `writer_reader_agree_session` -/
example : EventsOk addrA 180 [.group ⟨3, 200⟩, .other (.batch ⟨addrB, 3, [114, 98], 9999, true⟩), .group ⟨0, 260⟩,
    .other (.data 0 5), .group ⟨3, 300⟩] := by
  simp [EventsOk, validDb, maxDb, two63, Op.Valid, Op.Foreign, addrA, addrB]

/-- a history with growing offsets (hypotheses of `monotone_history_has_no_ties` are satisfiable) -/
example : MonoReachable addrA
    (applyOp (applyOp (applyOp [] (.batch ⟨addrA, 2, [114, 97], 100, true⟩)) (.batch ⟨addrB, 2, [114, 98], 100, true⟩))
      (.hdel 2 (versionField addrA))) := by
  refine MonoReachable.step _ _ (MonoReachable.step _ _ (MonoReachable.step _ _ MonoReachable.empty ?_ ?_) ?_ ?_) ?_ ?_
  · simp [Op.Valid, validDb, maxDb]
  · intro _
    refine ⟨by decide, by decide, ?_⟩
    intro d o h
    simp only [offsetOf, hashOf, List.find?_nil, fieldOf, List.lookup_nil, numField, Option.some.injEq] at h
    show o < 100
    omega
  · simp [Op.Valid, validDb, maxDb]
  · intro h; exact absurd h (by decide)
  · simp [Op.Valid, validDb, maxDb]
  · trivial

end RSVerif.Properties.C14
