import RSVerif.Lemmas.Rump
/-
C16 — Scan-based migration (rump) copies every scanned key faithfully.

Model: RSVerif/Model/Rump.lean (fetcher/doFetch, NormalScanner, KeyFileScanner, writer/writeSend, RestoreBigkey, receiver
of src/redis-shake/rump.go, scanner/*.go, common/split.go against MiniRedisC16). Helper lemmas: RSVerif/Lemmas/Rump.lean.
The element-wise expansion of a big key (C02) is the parameter `Codec.expand` with the assumption `Codec.Sound`.

Theorems (all quantified over every source keyspace, scan script — any pagination, empty pages, vanish events before any
DUMP/PTTL —, db list, filter lists, thresholds, target.db, key_exists policy and initial target; no bounds):
  copied_exact_gen, copied_exact, expiry_kept, copied_exact_partial     value / ttl / db of every surviving scanned key
  vanished_skipped_run_continues                                         PTTL -2 keys are a no-op; nothing half-vanished is written
  terminates_normal, no_zero_cursor_no_end, terminates_keyfile,
  terminates, scanOk_normal, scanOk_keyfile, run_completes, dblist_exact termination exactly at cursor 0 / end of file
  batches_flushed                                                        nothing left unsent, flush at scan.key_number
  every_reply_read, receiver_never_starves_when_no_error                 receiver vs replies
  counterexample_bigkey_rewrite_merge / _pttl_zero / _select_reply_uncounted   the three defects of the pinned code (D18),
                                                                         each repaired by fixes/C16-*.patch
-/
namespace RSVerif.Properties.C16
open RSVerif RSVerif.Spec.MiniRedisC16 RSVerif.Rump


/-- The hypotheses under which "the target ends with the same value" can hold at all. -/
structure Hyps (fx : Fixes) (cfg : Config) (M : Codec) (src : ScanSrc) (sks : SKeyspace) (dbs : List Nat) (ks0 : Keyspace) : Prop where
  /-- C02's obligation: the element-wise expansion of a payload rebuilds its value -/
  sound : M.Sound
  /-- every payload of the source is one the target accepts; the big ones can be expanded -/
  payloads : ∀ d k e, sks d k = some e → (∃ v, M.materialise e.payload = some v) ∧
      (cfg.bigThreshold ≤ e.payload.length → ∃ es, M.expand e.payload = some es)
  /-- no two scanned keys are written to the same target address (a cursor partition; distinct dbs or distinct keys
      under a fixed target.db) -/
  distinct : ((scanned cfg src dbs).map (tAddr cfg)).Nodup
  /-- key_exists: `rewrite` overwrites (for a big key only with the repair C16-bigkey-rewrite); otherwise (`none`) the
      address must be free -/
  policy : ∀ a ∈ scanned cfg src dbs, ks0 (targetDbOf cfg a.1) a.2 = none ∨
      (cfg.rewrite = true ∧ (fx.bigDel = true ∨ ∀ e, sks a.1 a.2 = some e → e.payload.length < cfg.bigThreshold))

private theorem nodes_ok {fx : Fixes} {cfg : Config} {M : Codec} {src : ScanSrc} {sks : SKeyspace} {dbs : List Nat} {ks0 : Keyspace}
    (H : Hyps fx cfg M src sks dbs ks0) :
    let nodes := (fetcher cfg src sks dbs).nodes
    (∀ nd ∈ nodes, NodeOk cfg M nd) ∧ (liveAddrs cfg nodes).Nodup ∧
    (∀ nd ∈ nodes, nd.pttl ≠ -2 → Writable fx cfg ks0 (targetDbOf cfg nd.db) nd.key (isBig cfg nd)) := by
  refine ⟨?_, ?_, ?_⟩
  · intro nd hnd
    obtain ⟨h1, h2⟩ := fetcher_sound cfg src sks dbs nd hnd
    refine ⟨h1, fun hne => ?_⟩
    obtain ⟨e, e1, e2, _⟩ := h2 hne
    obtain ⟨p1, p2⟩ := H.payloads _ _ e e1
    rw [e2]
    exact ⟨p1, fun hb => p2 (by simpa [isBig, e2] using hb)⟩
  · have hsub : List.Sublist (liveAddrs cfg (fetcher cfg src sks dbs).nodes) ((scanned cfg src dbs).map (tAddr cfg)) := by
      rw [← fetcher_addrs cfg src sks dbs, List.map_map]
      exact List.Sublist.map _ List.filter_sublist
    exact List.Nodup.sublist hsub H.distinct
  · intro nd hnd hne
    have hmem : (nd.db, nd.key) ∈ scanned cfg src dbs := by
      rw [← fetcher_addrs cfg src sks dbs]
      exact List.mem_map.2 ⟨nd, hnd, rfl⟩
    rcases H.policy _ hmem with h | ⟨h1, h2⟩
    · exact Or.inl h
    · refine Or.inr ⟨h1, ?_⟩
      rcases h2 with h2 | h2
      · exact Or.inr h2
      · left
        obtain ⟨e, e1, e2, _⟩ := (fetcher_sound cfg src sks dbs nd hnd).2 hne
        have := h2 e e1
        simp [isBig, e2]; omega


/-- what the sequential writer leaves, transported to the real (buffered) writer of the run -/
private theorem run_writer {fx : Fixes} {cfg : Config} {M : Codec} {src : ScanSrc} {sks : SKeyspace} {dbs : List Nat} {ks0 : Keyspace}
    (H : Hyps fx cfg M src sks dbs ks0) :
    let r := run fx cfg M src sks dbs (Target.init ks0)
    r.w.aborted = false ∧ (∀ x ∈ r.w.replies, x.isErr = false) ∧
    (∀ nd ∈ r.fetch.nodes, nd.pttl ≠ -2 → r.w.tgt.ks (targetDbOf cfg nd.db) nd.key = expectOf fx M nd) ∧
    (∀ d k, (d, k) ∉ liveAddrs cfg r.fetch.nodes → r.w.tgt.ks d k = ks0 d k) := by
  obtain ⟨n1, n2, n3⟩ := nodes_ok H
  have hg : UGood (UState.init (Target.init ks0)) := ⟨rfl, rfl, rfl, by simp [UState.init]⟩
  obtain ⟨g, c1, c2⟩ := ufold_correct fx cfg M H.sound _ _ hg n1 n2 n3
  obtain ⟨w1, w2, w3, w4, _⟩ := writer_results_replies fx cfg M (Target.init ks0) (fetcher cfg src sks dbs).nodes
  simp only [run]
  rw [w3, w4, w2]
  exact ⟨g.running, g.noerr, c1, c2⟩

/-- **copied_exact** (general form, for the pinned code and for every subset of the repairs).
For ALL source keyspaces, scan scripts (any pagination, empty pages, events that make keys vanish before any DUMP or PTTL),
db lists, filters, thresholds, policies and initial targets that satisfy `Hyps`:
the writer never aborts, no reply is an error, every scanned key that passes the filters and still exists at the end of
the fetch is in the target — at the source db, or target.db — with the logical value of its DUMP payload (whichever
route it took) and the ttl the writer worked with, and every address that no scanned key maps to keeps what it had. -/
theorem copied_exact_gen (fx : Fixes) (cfg : Config) (M : Codec) (src : ScanSrc) (sks : SKeyspace) (dbs : List Nat)
    (ks0 : Keyspace) (H : Hyps fx cfg M src sks dbs ks0) :
    let r := run fx cfg M src sks dbs (Target.init ks0)
    r.w.aborted = false ∧ (∀ x ∈ r.w.replies, x.isErr = false) ∧
    (∀ d k e, (d, k) ∈ scanned cfg src dbs → r.fetch.ks d k = some e →
      ∃ v, M.materialise e.payload = some v ∧
        r.w.tgt.ks (targetDbOf cfg d) k = some ⟨v, ttlOf (effPttl fx e.pttl)⟩) ∧
    (∀ d k, (d, k) ∉ (scanned cfg src dbs).map (tAddr cfg) → r.w.tgt.ks d k = ks0 d k) := by
  obtain ⟨r1, r2, r3, r4⟩ := run_writer H
  refine ⟨r1, r2, ?_, ?_⟩
  · intro d k e hs he
    have hmem := fetcher_mem cfg src sks dbs d k e hs he
    have hlive : e.pttl ≠ -2 := by have := SEntry.pttl_ge e; omega
    have h0 : sks d k = some e := fetcher_le cfg src sks dbs d k e he
    obtain ⟨v, hv⟩ := (H.payloads d k e h0).1
    refine ⟨v, hv, ?_⟩
    have := r3 _ hmem hlive
    simpa [expectOf, hv] using this
  · intro d k hn
    apply r4
    intro hmem
    apply hn
    have hsub : List.Sublist (liveAddrs cfg (fetcher cfg src sks dbs).nodes) ((scanned cfg src dbs).map (tAddr cfg)) := by
      rw [← fetcher_addrs cfg src sks dbs, List.map_map]
      exact List.Sublist.map _ List.filter_sublist
    exact hsub.subset hmem


/-- **terminates** (whole run): when the scan of every db ends — the cursor returns 0, or the key file is exhausted —
all three stages run to their end: `dre.close` is set, nobody called log.Panic, nothing blocks. -/
theorem run_completes (fx : Fixes) (cfg : Config) (M : Codec) (src : ScanSrc) (sks : SKeyspace) (dbs : List Nat)
    (ks0 : Keyspace) (H : Hyps fx cfg M src sks dbs ks0) (hscan : scanOk cfg src dbs = true) :
    (run fx cfg M src sks dbs (Target.init ks0)).completed = true := by
  obtain ⟨r1, r2, _, _⟩ := run_writer H
  have hr := receiver_noerr _ _ 0 r2 (writer_need fx cfg M (Target.init ks0) (fetcher cfg src sks dbs).nodes)
  simp only [RunOut.completed, run] at r1 hr ⊢
  rw [fetcher_ok, hscan, r1, hr.1, hr.2.1]
  rfl

/-- **copied_exact** for the code with the three repairs: under `Hyps` every scanned, passing, still-existing key ends
in the target with value = value of its payload and ttl = `ttlSpec` of its source ttl (no expiry stays no expiry, an
expiry stays that expiry), in the same db number or the fixed target db; nothing else changes; the run completes. -/
theorem copied_exact (cfg : Config) (M : Codec) (src : ScanSrc) (sks : SKeyspace) (dbs : List Nat) (ks0 : Keyspace)
    (H : Hyps Fixes.all cfg M src sks dbs ks0) :
    let r := run Fixes.all cfg M src sks dbs (Target.init ks0)
    (∀ d k e, (d, k) ∈ scanned cfg src dbs → r.fetch.ks d k = some e →
      ∃ v, M.materialise e.payload = some v ∧ r.w.tgt.ks (targetDbOf cfg d) k = some ⟨v, ttlSpec e.ttl⟩) ∧
    (∀ d k, (d, k) ∉ (scanned cfg src dbs).map (tAddr cfg) → r.w.tgt.ks d k = ks0 d k) ∧
    (scanOk cfg src dbs = true → r.completed = true) := by
  obtain ⟨_, _, c3, c4⟩ := copied_exact_gen Fixes.all cfg M src sks dbs ks0 H
  refine ⟨?_, c4, run_completes Fixes.all cfg M src sks dbs ks0 H⟩
  intro d k e hs he
  obtain ⟨v, hv, h⟩ := c3 d k e hs he
  exact ⟨v, hv, by rw [h, ttl_fixed e Fixes.all rfl]⟩

/-- no expiry stays no expiry, and an expiring key never becomes persistent -/
theorem expiry_kept (cfg : Config) (M : Codec) (src : ScanSrc) (sks : SKeyspace) (dbs : List Nat) (ks0 : Keyspace)
    (H : Hyps Fixes.all cfg M src sks dbs ks0) (d : Nat) (k : Key) (e : SEntry)
    (hs : (d, k) ∈ scanned cfg src dbs)
    (he : (run Fixes.all cfg M src sks dbs (Target.init ks0)).fetch.ks d k = some e) :
    ∃ en, (run Fixes.all cfg M src sks dbs (Target.init ks0)).w.tgt.ks (targetDbOf cfg d) k = some en ∧
      (en.ttl = none ↔ e.ttl = none) ∧ (∀ t, 0 < t → e.ttl = some t → en.ttl = some t) := by
  obtain ⟨v, _, h⟩ := (copied_exact cfg M src sks dbs ks0 H).1 d k e hs he
  refine ⟨_, h, ttlSpec_none _, ?_⟩
  intro t ht het
  simp only [het]
  exact (ttlSpec_pos t t ht).2 rfl

/-- **copied_exact_partial**: what holds of the code AS PINNED (none of the three repairs). `Hyps Fixes.pinned` already
excludes a big key written over an existing one under `rewrite` (its policy field); in addition no scanned key may be in
its last millisecond (PTTL 0). Then the target gets exactly the source ttl. -/
theorem copied_exact_partial (cfg : Config) (M : Codec) (src : ScanSrc) (sks : SKeyspace) (dbs : List Nat) (ks0 : Keyspace)
    (H : Hyps Fixes.pinned cfg M src sks dbs ks0)
    (hz : ∀ d k e, sks d k = some e → e.ttl ≠ some 0) :
    let r := run Fixes.pinned cfg M src sks dbs (Target.init ks0)
    (∀ d k e, (d, k) ∈ scanned cfg src dbs → r.fetch.ks d k = some e →
      ∃ v, M.materialise e.payload = some v ∧ r.w.tgt.ks (targetDbOf cfg d) k = some ⟨v, e.ttl⟩) ∧
    (∀ d k, (d, k) ∉ (scanned cfg src dbs).map (tAddr cfg) → r.w.tgt.ks d k = ks0 d k) ∧
    (scanOk cfg src dbs = true → r.completed = true) := by
  obtain ⟨_, _, c3, c4⟩ := copied_exact_gen Fixes.pinned cfg M src sks dbs ks0 H
  refine ⟨?_, c4, run_completes Fixes.pinned cfg M src sks dbs ks0 H⟩
  intro d k e hs he
  obtain ⟨v, hv, h⟩ := c3 d k e hs he
  have h0 : sks d k = some e := fetcher_le cfg src sks dbs d k e he
  exact ⟨v, hv, by rw [h, ttl_pinned e Fixes.pinned (hz d k e h0)]⟩


/-! ### vanished keys -/

/-- **vanished_skipped_run_continues**, for ALL inputs and every code version:
(1) a key whose PTTL came back -2 — it vanished or expired before its DUMP, or between its DUMP and its PTTL — changes
    nothing: the writer does exactly (same commands on the wire, same target, same replies, same elements handed to the
    receiver) what it does when those keys are never scanned;
(2) a node that is NOT skipped carries the payload and the PTTL of a key that did exist at the source (in particular a
    key already gone at DUMP time, whose DUMP answered nil, always has PTTL -2 and is never written);
(3) vanish events do not decide whether the fetcher finishes: that depends on the scan replies alone. -/
theorem vanished_skipped_run_continues (fx : Fixes) (cfg : Config) (M : Codec) (src : ScanSrc) (sks : SKeyspace)
    (dbs : List Nat) (t : Target) :
    let nodes := (fetcher cfg src sks dbs).nodes
    writer fx cfg M t nodes = writer fx cfg M t (nodes.filter (fun nd => decide (nd.pttl ≠ -2))) ∧
    (∀ nd ∈ nodes, nd.pttl ≠ -2 → ∃ e, sks nd.db nd.key = some e ∧ nd.value = e.payload ∧ nd.pttl = e.pttl) ∧
    (fetcher cfg src sks dbs).ok = scanOk cfg src dbs := by
  refine ⟨?_, fun nd hnd => (fetcher_sound cfg src sks dbs nd hnd).2, fetcher_ok cfg src sks dbs⟩
  simp only [writer]
  rw [fold_skip]

/-! ### termination of the scan -/

/-- **terminates** (NormalScanner, one db): the loop of doFetch asks for the replies up to and including the first one
with cursor 0 — however many pages precede it, empty or not — and for no further one. -/
theorem terminates_normal (cfg : Config) (eofOk : Bool) (db : Nat) (ks : SKeyspace) (pre post : List Page) (z : Page)
    (hpre : ∀ p ∈ pre, p.cursor ≠ 0) (hz : z.cursor = 0) :
    let o := fetchPages cfg eofOk db ks (pre ++ z :: post)
    o.ok = true ∧ o.rest = post ∧ o.scans = pre.length + 1 ∧
    o.nodes.map (·.key) = (pre ++ [z]).flatMap (fun pg => pageKeys cfg pg.keys) := by
  have hc : consumed (pre ++ z :: post) = pre ++ [z] ∧ pagesRest (pre ++ z :: post) = post ∧
      (pre ++ z :: post).any (fun pg => pg.cursor = 0) = true := by
    induction pre with
    | nil => simp [consumed, pagesRest, hz]
    | cons p ps ih =>
      have hp := hpre p List.mem_cons_self
      have := ih (fun q hq => hpre q (List.mem_cons_of_mem _ hq))
      simp [consumed, pagesRest, hp, this]
  obtain ⟨c1, c2, c3⟩ := fetchPages_ctl cfg eofOk db ks (pre ++ z :: post)
  refine ⟨?_, ?_, ?_, ?_⟩
  · rw [c1]; simp [pagesOk, hc.2.2]
  · rw [c2, hc.2.1]
  · rw [c3, hc.1, hc.2.2]; simp
  · rw [fetchPages_keys, hc.1]

/-- … and it does not stop earlier: if the source never returns cursor 0 the fetcher keeps scanning until the source
stops answering, and that is an error (the model's way of saying "no termination without the final cursor"). -/
theorem no_zero_cursor_no_end (cfg : Config) (db : Nat) (ks : SKeyspace) (pages : List Page)
    (h : ∀ p ∈ pages, p.cursor ≠ 0) :
    (fetchPages cfg false db ks pages).ok = false ∧ (fetchPages cfg false db ks pages).scans = pages.length + 1 := by
  have hc : consumed pages = pages ∧ pages.any (fun pg => pg.cursor = 0) = false := by
    induction pages with
    | nil => simp [consumed]
    | cons p ps ih =>
      have hp := h p List.mem_cons_self
      have := ih (fun q hq => h q (List.mem_cons_of_mem _ hq))
      simp [consumed, hp, this]
  obtain ⟨c1, _, c3⟩ := fetchPages_ctl cfg false db ks pages
  exact ⟨by rw [c1]; simp [pagesOk, hc.2], by rw [c3, hc.1, hc.2]; simp⟩

/-- **terminates** (KeyFileScanner): for EVERY number of lines — also 0 and exact multiples of the page size — the
scanner yields `lines / n + 1` pages, all of them are fetched, their keys are the lines in order (minus filtered ones), the
last page is the only one that ends the scan, and nothing is left in the file. -/
theorem terminates_keyfile (cfg : Config) (hn : 0 < cfg.pageSize) (db : Nat) (ks : SKeyspace) (lines : List Key)
    (evs : List (List (List (Nat × Key)) × List (List (Nat × Key)))) :
    let o := fetchPages cfg true db ks (kfPages cfg.pageSize lines evs)
    o.ok = true ∧ o.rest = [] ∧ o.scans = lines.length / cfg.pageSize + 1 ∧
    o.nodes.map (·.key) = (kfPages cfg.pageSize lines evs).flatMap (fun pg => pageKeys cfg pg.keys) ∧
    (kfPages cfg.pageSize lines evs).flatMap (·.keys) = lines := by
  obtain ⟨k1, k2, k3, k4, k5⟩ := kfPages_spec cfg.pageSize hn lines evs
  obtain ⟨c1, c2, c3⟩ := fetchPages_ctl cfg true db ks (kfPages cfg.pageSize lines evs)
  have hany : (kfPages cfg.pageSize lines evs).any (fun pg => pg.cursor = 0) = true := by
    simpa [pagesOk] using k3
  refine ⟨by rw [c1]; simp [pagesOk], by rw [c2, k2], by rw [c3, k1, k5, hany]; simp, by rw [fetchPages_keys, k1], k4⟩

/-- when every db that passes the db filter has a reply with cursor 0 in its SCAN script, the whole fetcher ends normally
(after the final cursor of the last db) -/
theorem scanOk_normal (cfg : Config) (script : Nat → List Page) (dbs : List Nat)
    (h : ∀ db ∈ dbs, filterDB cfg db = false → (script db).any (fun pg => pg.cursor = 0) = true) :
    scanOk cfg (.normal script) dbs = true := by
  induction dbs with
  | nil => rfl
  | cons d ds ih =>
    simp only [scanOk]
    by_cases hf : filterDB cfg d = true
    · simp only [hf, if_true]
      exact ih (fun x hx => h x (List.mem_cons_of_mem _ hx))
    · have hf' : filterDB cfg d = false := by simpa using hf
      simp only [hf', Bool.false_eq_true, if_false, ScanSrc.pages, ScanSrc.eofOk, ScanSrc.next, pagesOk,
        h d List.mem_cons_self hf', Bool.or_true, Bool.true_and]
      exact ih (fun x hx => h x (List.mem_cons_of_mem _ hx))

/-- **terminates** (whole fetcher, NormalScanner): when the SCAN script of every db that passes the db filter has a reply with
cursor 0, the fetcher finishes normally, and on each such db — in the order of the db list — it has issued exactly as many
SCANs as it takes to see that first cursor 0: the last SCAN of the run is the one whose reply carries the final cursor of the
last db. -/
theorem terminates (cfg : Config) (script : Nat → List Page) (sks : SKeyspace) (dbs : List Nat)
    (h : ∀ db ∈ dbs, filterDB cfg db = false → (script db).any (fun pg => pg.cursor = 0) = true) :
    (fetcher cfg (.normal script) sks dbs).ok = true ∧
    (fetcher cfg (.normal script) sks dbs).scans =
      (dbs.filter (fun db => !filterDB cfg db)).map (fun db => (db, (consumed (script db)).length)) :=
  ⟨by rw [fetcher_ok]; exact scanOk_normal cfg script dbs h, fetcher_scans_normal cfg script sks dbs h⟩

/-- a key-file run always ends: the reader is simply exhausted -/
theorem scanOk_keyfile (cfg : Config) (pages : List Page) (dbs : List Nat) : scanOk cfg (.keyFile pages) dbs = true := by
  induction dbs generalizing pages with
  | nil => rfl
  | cons d ds ih =>
    simp only [scanOk]
    split
    · exact ih _
    · simp [ScanSrc.eofOk, ScanSrc.next, pagesOk, ih]


/-- the db list `exec` hands to the fetcher (`getSourceDbList`): exactly the dbs of `info keyspace` that hold keys and pass
the db filter — so with `scanOk_normal` the run ends after the final cursor of the last of THESE dbs -/
theorem dblist_exact (cfg : Config) (counts : List (Nat × Nat)) (db : Nat) :
    db ∈ (sourceDbList cfg counts).1 ↔ ∃ n, (db, n) ∈ counts ∧ 0 < n ∧ filterDB cfg db = false := by
  simp only [sourceDbList, List.mem_map, List.mem_filter, Bool.and_eq_true, decide_eq_true_eq, Bool.not_eq_true']
  constructor
  · rintro ⟨⟨d, n⟩, ⟨hm, hn, hf⟩, rfl⟩
    exact ⟨n, hm, hn, hf⟩
  · rintro ⟨n, hm, hn, hf⟩
    exact ⟨(db, n), ⟨hm, hn, hf⟩, rfl⟩

/-! ### batching -/

/-- **batches_flushed**, for ALL node sequences, configurations and code versions: when the writer returns nothing is
left unsent — the pipeline buffer of targetClient and the batch are empty (also after an abort) — and, unless it
aborted, resultChan received exactly the nodes that are neither skipped nor big, in order, and the RESTORE of each of
them is on the wire; in between, the batch never holds `scan.key_number` elements after an iteration (it is flushed the
moment the count reaches it). -/
theorem batches_flushed (fx : Fixes) (cfg : Config) (M : Codec) (t : Target) (nodes : List KeyNode) :
    let w := writer fx cfg M t nodes
    w.buf = [] ∧ w.batch = [] ∧
    (w.aborted = false →
      w.results.map (·.key) = (smallLive cfg nodes).map (·.key) ∧
      ∀ nd ∈ smallLive cfg nodes,
        Wire.cmd .main (.restore nd.key (effPttl fx nd.pttl) nd.value cfg.rewrite) ∈ w.wire) ∧
    (∀ pre, pre <+: nodes → ((pre.foldl (writerStep fx cfg M) (WState.init t)).batch.length < max 1 cfg.pageSize)) := by
  obtain ⟨_, h2, h3⟩ := writer_abs fx cfg M t nodes
  obtain ⟨w1, _, _, w4, w5⟩ := writer_results_replies fx cfg M t nodes
  refine ⟨h2, h3, ?_, ?_⟩
  · intro ha
    rw [w4] at ha
    obtain ⟨u1, u2⟩ := ufold_results fx cfg M nodes (UState.init t) ha
    refine ⟨by rw [w1, u1]; simp [UState.init], ?_⟩
    intro nd hnd
    rw [← mem_wireCmds, w5]
    exact u2 nd hnd
  · intro pre _
    exact fold_batch_bound fx cfg M pre _ (init_inv t) (by simp [WState.init]; omega)

/-! ### receiver -/

/-- with the repair C16-select-reply, for ALL runs of the writer: the receiver never waits for a reply that does not
come; it aborts exactly when some reply on the main connection is an error; and when it finishes it has read EVERY
reply (none is left unread) and confirmed every element. -/
theorem every_reply_read (fx : Fixes) (hfx : fx.selectCounted = true) (cfg : Config) (M : Codec) (t : Target)
    (nodes : List KeyNode) :
    let w := writer fx cfg M t nodes
    let r := receiver w.results w.replies 0
    r.starved = false ∧ r.aborted = w.replies.any Reply.isErr ∧
    (r.aborted = false → r.unread = [] ∧ r.confirmed = w.results.length) := by
  obtain ⟨w1, w2, _⟩ := writer_results_replies fx cfg M t nodes
  have hseg := ufold_seg fx cfg M nodes (UState.init t) hfx (by simpa [UState.init] using Seg.nil)
  rw [← w1, ← w2] at hseg
  have := receiver_seg _ _ 0 hseg
  simpa using this

/-- whatever the code version, the receiver never blocks on a reply that will not come -/
theorem receiver_never_starves_when_no_error (fx : Fixes) (cfg : Config) (M : Codec) (t : Target) (nodes : List KeyNode)
    (h : ∀ x ∈ (writer fx cfg M t nodes).replies, x.isErr = false) :
    (receiver (writer fx cfg M t nodes).results (writer fx cfg M t nodes).replies 0).starved = false ∧
    (receiver (writer fx cfg M t nodes).results (writer fx cfg M t nodes).replies 0).aborted = false :=
  let r := receiver_noerr _ _ 0 h (writer_need fx cfg M t nodes)
  ⟨r.2.1, r.1⟩


/-! ### witnesses and counter-examples -/

def kA : Key := [97]
def kB : Key := [98]
def kC : Key := [99]
/-- a toy codec: payload [1] is the list ["9"], payload [2,0,0] the string "v" -/
def toyCodec : Codec where
  materialise p := if p = [1] then some (.list [[57]]) else if p = [2, 0, 0] then some (.str [118]) else none
  expand p := if p = [1] then some [.rpush [57]] else if p = [2, 0, 0] then some [.set [118]] else none

theorem toyCodec_sound : toyCodec.Sound := by
  intro p es h
  simp only [toyCodec] at h ⊢
  by_cases h1 : p = [1]
  · simp only [h1, if_true, Option.some.injEq] at h ⊢
    subst h; exact ⟨_, rfl, by decide⟩
  · by_cases h2 : p = [2, 0, 0]
    · simp only [h2] at h ⊢
      simp at h
      subst h; exact ⟨_, rfl, by decide⟩
    · simp [h1, h2] at h

/-- a run with everything in it: two dbs (0 and 2, a db filter drops 1), db 0 scanned in four replies (an empty one, one
whose key "c" vanishes just before its DUMP, the one with cursor 0, and one that must never be asked for), a small key
with a ttl, a big key without, a key in its last millisecond, rewrite over a target that already holds "a" -/
def exCfg : Config := ⟨2, none, true, 2, [], [], ["1"], []⟩
def exSrc : SKeyspace := fun d k =>
  if d = 0 ∧ k = kA then some ⟨[1], some 7000⟩
  else if d = 0 ∧ k = kB then some ⟨[2, 0, 0], none⟩
  else if d = 0 ∧ k = kC then some ⟨[1], none⟩
  else if d = 2 ∧ k = kA then some ⟨[2, 0, 0], some 0⟩
  else none
def exScan : ScanSrc := .normal fun d =>
  if d = 0 then [⟨17, [], [], []⟩, ⟨5, [kA, kC], [[], [(0, kC)]], []⟩, ⟨0, [kB], [], []⟩, ⟨9, [kA], [], []⟩]
  else [⟨0, [kA], [], []⟩]
def exTgt : Keyspace := fun d k => if d = 0 ∧ k = kA then some ⟨.str [1, 2, 3], some 5⟩ else none

example : Hyps Fixes.all exCfg toyCodec exScan exSrc [0, 1, 2] exTgt where
  sound := toyCodec_sound
  payloads := by
    intro d k e h
    simp only [exSrc] at h
    repeat' split at h
    all_goals first
      | (cases h; exact ⟨⟨_, rfl⟩, fun _ => ⟨_, rfl⟩⟩)
      | cases h
  distinct := by decide
  policy := fun _ _ => Or.inr ⟨rfl, Or.inl rfl⟩

/-- … and what the run does with it (computed by the kernel from the model): "a" and "b" of db 0 and "a" of db 2 arrive with
their values and ttls (7000, none, 1), "c" is skipped, the old value of "a" is gone, the run completes, two batches. -/
example :
    let r := run Fixes.all exCfg toyCodec exScan exSrc [0, 1, 2] (Target.init exTgt)
    r.completed = true ∧ scanned exCfg exScan [0, 1, 2] = [(0, kA), (0, kC), (0, kB), (2, kA)] ∧
    r.fetch.scans = [(0, 3), (2, 1)] ∧
    r.w.tgt.ks 0 kA = some ⟨.list [[57]], some 7000⟩ ∧ r.w.tgt.ks 0 kB = some ⟨.str [118], none⟩ ∧
    r.w.tgt.ks 0 kC = none ∧ r.w.tgt.ks 2 kA = some ⟨.str [118], some 1⟩ ∧
    r.recv.confirmed = 1 ∧ r.recv.unread = [] := by decide


def cfgOf (rewrite : Bool) (big : Nat) : Config := ⟨2, none, rewrite, big, [], [], [], []⟩

/-- source: db `d` holds key "a" = payload [1] with the given ttl -/
def srcOne (d : Nat) (ttl : Option Nat) : SKeyspace := fun d' k => if d' = d ∧ k = kA then some ⟨[1], ttl⟩ else none

def onePage : ScanSrc := .normal fun _ => [⟨0, [kA], [], []⟩]

/-- target that already holds key "a" in db `d` as the list ["x"] with 500 ms to live -/
def tgtOne (d : Nat) : Keyspace := fun d' k => if d' = d ∧ k = kA then some ⟨.list [[120]], some 500⟩ else none

def emptyKs : Keyspace := fun _ _ => none

/-- **counterexample_bigkey_rewrite_merge** (pinned code): key_exists = rewrite, the key takes the big-key route and the
target already has it: the source list ["9"] is APPENDED to the existing ["x"] and the old ttl survives — the target does
not end with the source value. With the repair the key is replaced. -/
theorem counterexample_bigkey_rewrite_merge :
    (run Fixes.pinned (cfgOf true 0) toyCodec onePage (srcOne 0 none) [0] (Target.init (tgtOne 0))).w.tgt.ks 0 kA
      = some ⟨.list [[120], [57]], some 500⟩ ∧
    (run Fixes.all (cfgOf true 0) toyCodec onePage (srcOne 0 none) [0] (Target.init (tgtOne 0))).w.tgt.ks 0 kA
      = some ⟨.list [[57]], none⟩ := by decide

/-- **counterexample_pttl_zero** (pinned code): a key in its last millisecond (PTTL 0) arrives WITHOUT expiry, on both
routes; with the repair it keeps one. -/
theorem counterexample_pttl_zero :
    (run Fixes.pinned (cfgOf false 100) toyCodec onePage (srcOne 0 (some 0)) [0] (Target.init emptyKs)).w.tgt.ks 0 kA
      = some ⟨.list [[57]], none⟩ ∧
    (run Fixes.pinned (cfgOf false 0) toyCodec onePage (srcOne 0 (some 0)) [0] (Target.init emptyKs)).w.tgt.ks 0 kA
      = some ⟨.list [[57]], none⟩ ∧
    (run Fixes.all (cfgOf false 100) toyCodec onePage (srcOne 0 (some 0)) [0] (Target.init emptyKs)).w.tgt.ks 0 kA
      = some ⟨.list [[57]], some 1⟩ ∧
    (run Fixes.all (cfgOf false 0) toyCodec onePage (srcOne 0 (some 0)) [0] (Target.init emptyKs)).w.tgt.ks 0 kA
      = some ⟨.list [[57]], some 1⟩ := by decide

/-- **counterexample_select_reply_uncounted** (pinned code): the only key lives in db 1, key_exists = none and the target
already has it. The main connection answers `+OK` (select) and `-BUSYKEY` (RESTORE); the receiver reads ONE reply per key,
i.e. the `+OK`, and the run completes "successfully" with the error unread and the key not copied. With the repair the
receiver reads both replies and aborts. -/
theorem counterexample_select_reply_uncounted :
    let r := run Fixes.pinned (cfgOf false 100) toyCodec onePage (srcOne 1 none) [1] (Target.init (tgtOne 1))
    r.w.replies = [.ok, .busy] ∧ r.completed = true ∧ r.recv.unread = [.busy] ∧
    r.w.tgt.ks 1 kA = some ⟨.list [[120]], some 500⟩ ∧
    (run Fixes.all (cfgOf false 100) toyCodec onePage (srcOne 1 none) [1] (Target.init (tgtOne 1))).recv.aborted = true := by
  decide


/-- key file with 4 lines and pages of 2: two full pages and a third, empty one that ends the scan; with 3 lines: a full
page and a short one -/
example : (kfPages 2 [kA, kB, kC, kA] []).map (fun p => (p.cursor, p.keys)) = [(1, [kA, kB]), (1, [kC, kA]), (0, [])] ∧
    (kfPages 2 [kA, kB, kC] []).map (fun p => (p.cursor, p.keys)) = [(1, [kA, kB]), (0, [kC])] ∧
    (kfPages 2 [] []).map (fun p => (p.cursor, p.keys)) = [(0, [])] := by decide

/-- a key-file run over two dbs: the file is consumed while the first db is fetched, the second db sees an empty page -/
example :
    let r := run Fixes.all (⟨2, none, false, 100, [], [], [], []⟩ : Config) toyCodec
      (.keyFile (kfPages 2 [kA, kB] [])) exSrc [0, 2] (Target.init emptyKs)
    r.completed = true ∧ r.fetch.scans = [(0, 2), (2, 1)] ∧
    r.fetch.nodes.map (fun nd => (nd.db, nd.key)) = [(0, kA), (0, kB)] := by decide

end RSVerif.Properties.C16
