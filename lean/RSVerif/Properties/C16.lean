/- C16: property theorems (stub — not built yet) -/
namespace RSVerif.Properties.C16
end RSVerif.Properties.C16
