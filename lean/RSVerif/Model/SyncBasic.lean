import RSVerif.Basic
/-
Shared vocabulary of the incremental-sync models (C03/C04): the queue element `cmdDetail`
(dbSync/struct.go), ASCII case folding (`strings.EqualFold` / `strings.ToLower` restricted to ASCII),
decimal rendering and parsing (`strconv.FormatInt`, `fmt.Sprintf("%d")`, `strconv.Atoi`). Core Lean only.
-/
namespace RSVerif.Sync

/-- `cmdDetail` of dbSync/struct.go: command name, arguments, source offset after the command, database. -/
structure Item where
  cmd : String
  args : List Bytes
  off : Int
  db : Int
deriving DecidableEq, Repr, Inhabited

/-! ### ASCII case folding -/

def lowerChar (c : Char) : Char :=
  if 'A' ≤ c ∧ c ≤ 'Z' then Char.ofNat (c.toNat + 32) else c

/-- `strings.ToLower` on ASCII text (what `redis.ParseArgs` applies to the command name). -/
def normName (s : String) : String := String.ofList (s.toList.map lowerChar)

/-- `strings.EqualFold` on ASCII text. -/
def eqFold (a b : String) : Bool := normName a == normName b

def lowerByte (b : UInt8) : UInt8 := if 65 ≤ b.toNat ∧ b.toNat ≤ 90 then UInt8.ofNat (b.toNat + 32) else b

/-- `strings.EqualFold(string(bytes), s)` on ASCII text. -/
def eqFoldBytes (a : Bytes) (s : String) : Bool :=
  a.map lowerByte == (normName s).toUTF8.toList

/-! ### decimal text -/

/-- the ASCII digit of `d < 10` -/
def digitByte (d : Nat) : UInt8 := UInt8.ofNat (48 + d)

def digitVal (b : UInt8) : Option Nat :=
  if 48 ≤ b.toNat ∧ b.toNat ≤ 57 then some (b.toNat - 48) else none

/-- decimal digits by structural recursion on a fuel (`fuel > n` always suffices) -/
def natDecAux : Nat → Nat → Bytes
  | 0, _ => []
  | f + 1, n => if n < 10 then [digitByte n] else natDecAux f (n / 10) ++ [digitByte (n % 10)]

/-- decimal digits, most significant first (`strconv.FormatUint(n, 10)`). -/
def natDec (n : Nat) : Bytes := natDecAux (n + 1) n

/-- `strconv.FormatInt(i, 10)` / `fmt.Sprintf("%d", i)` -/
def fmtInt (i : Int) : Bytes :=
  if i < 0 then 45 :: natDec i.natAbs else natDec i.natAbs

def parseNatAux (acc : Nat) : Bytes → Option Nat
  | [] => some acc
  | b :: bs =>
    match digitVal b with
    | some d => parseNatAux (acc * 10 + d) bs
    | none => none

/-- non-empty string of ASCII digits -/
def parseNat (bs : Bytes) : Option Nat :=
  match bs with
  | [] => none
  | _ => parseNatAux 0 bs

/-- decimal integer with optional sign, no range limit (the reading of a Redis server, range limits of a
real server — `databases`, 64 bits — are not modelled). -/
def parseIntU (bs : Bytes) : Option Int :=
  match bs with
  | 45 :: rest => (parseNat rest).map (fun (n : Nat) => - Int.ofNat n)
  | 43 :: rest => (parseNat rest).map (fun (n : Nat) => Int.ofNat n)
  | _ => (parseNat bs).map (fun (n : Nat) => Int.ofNat n)

/-- `strconv.Atoi` on a 64-bit platform: optional sign, digits, value within int64. -/
def atoi (bs : Bytes) : Option Int :=
  match parseIntU bs with
  | some v => if -9223372036854775808 ≤ v ∧ v ≤ 9223372036854775807 then some v else none
  | none => none

/-- `len(item.Cmd) + Σ len(item.Args[i])` -/
def itemLen (it : Item) : Nat :=
  it.cmd.utf8ByteSize + (it.args.map List.length).sum

end RSVerif.Sync
