import RSVerif.Basic
/-
The float <-> text codec the tool relies on, as an executable stand-in for the DRIVER only:
  fmtG17  bits      = strconv.FormatFloat(f, 'g', 17, 64)      (finite f)
  parseFloat text   = strconv.ParseFloat(text, 64) as bits, none = error (syntax or range)
Exact big-number arithmetic (correct rounding, ties to even), which is what strconv guarantees.
No theorem depends on these definitions: the property theorems take the codec as parameters with the hypothesis
`parse (fmt f) = some f` (FloatText, never proved, DESIGN §3). The check compares these functions with Go's on every run
(`ff`/`pf` cases) so that the driver's predictions for finite scores are meaningful.
Known limit: Go keeps at most 800 significant decimal digits of a text; longer texts are outside this stand-in.
-/
namespace RSVerif.FloatText
open RSVerif

def pow2 (n : Nat) : Nat := 2 ^ n

/-- digits of a natural number, most significant first -/
def natDigits (n : Nat) : List Nat :=
  let rec go : Nat → Nat → List Nat → List Nat
    | 0, _, acc => acc
    | fuel + 1, n, acc => if n < 10 then n :: acc else go fuel (n / 10) (n % 10 :: acc)
  go (n.log2 + 2) n []

def digitChar (d : Nat) : UInt8 := UInt8.ofNat (48 + d)

def stripTrailingZeros (ds : List Nat) : List Nat := (ds.reverse.dropWhile (· == 0)).reverse

/-- round N/D to the nearest integer, ties to even -/
def roundDiv (n d : Nat) : Nat :=
  let q := n / d
  let r := n % d
  if 2 * r > d then q + 1 else if 2 * r < d then q else if q % 2 = 1 then q + 1 else q

/-- finite non-zero value m·2^e: (17 significant digits rounded half-even without trailing zeros, decimal point
    position dp) with value ≈ 0.d1d2… × 10^dp -/
def digits17 (m : Nat) (e : Int) : List Nat × Int :=
  let num := if e ≥ 0 then m * pow2 e.toNat else m
  let den := if e ≥ 0 then 1 else pow2 (-e).toNat
  -- k with 10^16 ≤ num/(den·10^k) < 10^17
  let est : Int := (((num.log2 : Int) - (den.log2 : Int)) * 30103) / 100000 - 16
  let scaled (k : Int) : Nat × Nat := if k ≥ 0 then (num, den * 10 ^ k.toNat) else (num * 10 ^ (-k).toNat, den)
  let rec fix : Nat → Int → Int
    | 0, k => k
    | fuel + 1, k =>
      let (a, b) := scaled k
      if a < 10 ^ 16 * b then fix fuel (k - 1)
      else if a ≥ 10 ^ 17 * b then fix fuel (k + 1)
      else k
  let k := fix 50 est
  let (a, b) := scaled k
  let q := roundDiv a b
  let (q, k) := if q ≥ 10 ^ 17 then (q / 10, k + 1) else (q, k)
  (stripTrailingZeros (natDigits q), k + 17)

def expDigits (x : Nat) : Bytes :=
  let ds := natDigits x
  (if ds.length < 2 then [48] else []) ++ ds.map digitChar

/-- `%e` with all available digits -/
def fmtE (ds : List Nat) (dp : Int) : Bytes :=
  let exp := dp - 1
  let first := ds.headD 0
  let rest := ds.drop 1
  [digitChar first] ++ (if rest.isEmpty then [] else 46 :: rest.map digitChar) ++
  [101, if exp < 0 then 45 else 43] ++ expDigits exp.natAbs

/-- `%f` with `max(nd - dp, 0)` fraction digits -/
def fmtF (ds : List Nat) (dp : Int) : Bytes :=
  let nd := ds.length
  let dig (i : Int) : UInt8 := if 0 ≤ i ∧ i < nd then digitChar (ds.getD i.toNat 0) else 48
  let ip : Bytes := if dp > 0 then (List.range dp.toNat).map fun (i : Nat) => dig (i : Int) else [48]
  let nf : Nat := ((nd : Int) - dp).toNat
  let fp : Bytes := if nf > 0 then 46 :: (List.range nf).map fun (i : Nat) => dig (dp + (i : Int)) else []
  ip ++ fp

/-- `strconv.FormatFloat(f, 'g', 17, 64)` for a finite bit pattern -/
def fmtG17 (bits : UInt64) : Bytes :=
  let neg := bits.toNat / pow2 63 = 1
  let ef := (bits.toNat / pow2 52) % 2048
  let mf := bits.toNat % pow2 52
  let sign : Bytes := if neg then [45] else []
  if ef = 0 ∧ mf = 0 then sign ++ [48]
  else
    let (m, e) : Nat × Int := if ef = 0 then (mf, -1074) else (mf + pow2 52, (ef : Int) - 1075)
    let (ds, dp) := digits17 m e
    let exp := dp - 1
    if exp < -4 ∨ exp ≥ 17 then sign ++ fmtE ds dp else sign ++ fmtF ds dp

/-! ### ParseFloat -/

def lower (b : UInt8) : UInt8 := if 65 ≤ b.toNat ∧ b.toNat ≤ 90 then b + 32 else b
def isDigit (b : UInt8) : Bool := 48 ≤ b.toNat && b.toNat ≤ 57
def isHexLetter (b : UInt8) : Bool := 97 ≤ (lower b).toNat && (lower b).toNat ≤ 102

def commonPrefixLenIgnoreCase : Bytes → Bytes → Nat
  | a :: as, p :: ps => if lower a = p then 1 + commonPrefixLenIgnoreCase as ps else 0
  | _, _ => 0

def infinityB : Bytes := "infinity".toUTF8.toList
def nanB : Bytes := "nan".toUTF8.toList

/-- `special`: (bits, bytes consumed) -/
def special (s : Bytes) : Option (UInt64 × Nat) :=
  let inf (neg : Bool) (nsign : Nat) (t : Bytes) : Option (UInt64 × Nat) :=
    let n := commonPrefixLenIgnoreCase t infinityB
    let n := if 3 < n ∧ n < 8 then 3 else n
    if n = 3 ∨ n = 8 then some (if neg then 0xFFF0000000000000 else 0x7FF0000000000000, nsign + n) else none
  match s with
  | [] => none
  | 43 :: t => inf false 1 t
  | 45 :: t => inf true 1 t
  | c :: _ =>
    if lower c = 105 then inf false 0 s
    else if lower c = 110 then (if commonPrefixLenIgnoreCase s nanB = 3 then some (0x7FF8000000000001, 3) else none)
    else none

/-- `underscoreOK` -/
def underscoreOK (s : Bytes) : Bool :=
  let s := match s with | 43 :: t => t | 45 :: t => t | t => t
  let (hex, pre, body) : Bool × Bool × Bytes := match s with
    | 48 :: c :: t => if lower c = 98 ∨ lower c = 111 ∨ lower c = 120 then (lower c = 120, true, t) else (false, false, s)
    | _ => (false, false, s)
  -- saw: 0 = '^', 1 = '0', 2 = '_', 3 = '!'
  let rec go : Bytes → Nat → Bool
    | [], saw => saw != 2
    | c :: t, saw =>
      if isDigit c || (hex && isHexLetter c) then go t 1
      else if c = 95 then (if saw != 1 then false else go t 2)
      else if saw = 2 then false
      else go t 3
  go body (if pre then 1 else 0)

/-- correctly rounded double for num/den (both positive): none = overflow -/
def ratToBits (neg : Bool) (num den : Nat) : Option UInt64 :=
  let signBit : Nat := if neg then pow2 63 else 0
  -- e2 with 2^52 ≤ num / (den·2^e2) < 2^53, not below -1074
  let est : Int := (num.log2 : Int) - (den.log2 : Int) - 52
  let scaled (e2 : Int) : Nat × Nat := if e2 ≥ 0 then (num, den * pow2 e2.toNat) else (num * pow2 (-e2).toNat, den)
  let rec fix : Nat → Int → Int
    | 0, k => k
    | fuel + 1, k =>
      let (a, b) := scaled k
      if a < pow2 52 * b then fix fuel (k - 1)
      else if a ≥ pow2 53 * b then fix fuel (k + 1)
      else k
  let e2 := fix 8 est
  let e2 := if e2 < -1074 then -1074 else e2
  let (a, b) := scaled e2
  let q := roundDiv a b
  let (q, e2) := if q ≥ pow2 53 then (q / 2, e2 + 1) else (q, e2)
  if q ≥ pow2 52 then
    let biased := e2 + 1075
    if biased ≥ 2047 then none
    else some (UInt64.ofNat (signBit + biased.toNat * pow2 52 + (q - pow2 52)))
  else some (UInt64.ofNat (signBit + q))

def hexVal (c : UInt8) : Nat := if isDigit c then c.toNat - 48 else (lower c).toNat - 87

/-- `strconv.ParseFloat(s, 64)`: bits, none = error -/
def parseFloat (s : Bytes) : Option UInt64 :=
  match special s with
  | some (b, n) => if n = s.length then some b else none
  | none =>
    let (neg, t) := match s with | 43 :: t => (false, t) | 45 :: t => (true, t) | t => (false, t)
    let (hex, t) : Bool × Bytes := match t with
      | 48 :: c :: d :: r => if lower c = 120 then (true, d :: r) else (false, t)
      | _ => (false, t)
    let base : Nat := if hex then 16 else 10
    -- mantissa: (value of all digits, digits after the point, saw a digit, saw a dot, underscores, rest)
    let rec mant : Bytes → Nat → Nat → Bool → Bool → Bool → Nat × Nat × Bool × Bool × Bytes
      | [], m, fr, sd, _, us => (m, fr, sd, us, [])
      | c :: r, m, fr, sd, dot, us =>
        if c = 95 then mant r m fr sd dot true
        else if c = 46 then (if dot then (m, fr, sd, us, c :: r) else mant r m fr sd true us)
        else if isDigit c then mant r (m * base + (c.toNat - 48)) (if dot then fr + 1 else fr) true dot us
        else if hex && isHexLetter c then mant r (m * 16 + hexVal c) (if dot then fr + 1 else fr) true dot us
        else (m, fr, sd, us, c :: r)
    let (m, fr, sawdigits, us1, r) := mant t 0 0 false false false
    if !sawdigits then none
    else
      -- optional exponent
      let expChar : UInt8 := if hex then 112 else 101
      let expPart : Option (Int × Bool × Bytes) :=
        match r with
        | c :: r1 =>
          if lower c = expChar then
            match r1 with
            | [] => none
            | _ =>
              let (esign, r2) : Int × Bytes := match r1 with | 43 :: x => (1, x) | 45 :: x => (-1, x) | x => (1, x)
              match r2 with
              | [] => none
              | d0 :: _ =>
                if !isDigit d0 then none
                else
                  let rec ex : Bytes → Nat → Bool → Nat × Bool × Bytes
                    | [], e, us => (e, us, [])
                    | c :: r, e, us =>
                      if c = 95 then ex r e true
                      else if isDigit c then ex r (if e < 10000 then e * 10 + (c.toNat - 48) else e) us
                      else (e, us, c :: r)
                  let (e, us2, r3) := ex r2 0 false
                  some (esign * (e : Int), us2, r3)
          else if hex then none else some (0, false, r)
        | [] => if hex then none else some (0, false, [])
      match expPart with
      | none => none
      | some (e, us2, rest) =>
        if !rest.isEmpty then none
        else if (us1 || us2) && !underscoreOK s then none
        else if m = 0 then some (if neg then 0x8000000000000000 else 0)
        else if hex then
          let e2 : Int := e - 4 * (fr : Int)
          -- m·2^e2; keep the numbers small when the exponent is absurd
          if e2 > 1100 then none
          else if e2 < -1200 - (m.log2 : Int) then some (if neg then 0x8000000000000000 else 0)
          else if e2 ≥ 0 then ratToBits neg (m * pow2 e2.toNat) 1 else ratToBits neg m (pow2 (-e2).toNat)
        else
          let e10 : Int := e - (fr : Int)
          let nd : Int := (natDigits m).length
          if nd - 1 + e10 ≥ 310 then none
          else if nd + e10 < -400 then some (if neg then 0x8000000000000000 else 0)
          else if e10 ≥ 0 then ratToBits neg (m * 10 ^ e10.toNat) 1 else ratToBits neg m (10 ^ (-e10).toNat)

end RSVerif.FloatText
