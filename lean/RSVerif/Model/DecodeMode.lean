import RSVerif.Spec.DecodeMode
import RSVerif.Generated.DecodeFacts
/-
Model of `src/redis-shake/decode.go` (CmdDecode) from the decoded objects onward. Core Lean only.

  * `toText`, `b64enc` (= base64.StdEncoding.EncodeToString), the consumer's `b64dec`
  * `Entry`   : a `*rdb.BinEntry` as `decoderMain` sees it, together with the outcome of `rdb.DecodeDump(e.Value)`
  * `blockOf` : the text block `decoderMain` builds for one entry (a list of JSON objects, one per line),
                or `none` when it calls `log.Panic*` (= `os.Exit(1)`: the whole run aborts)
  * `parseRecord` : what a consumer reads back from one line (base64-decoding the `*64` fields)
  * `Pipe.*`  : loader goroutine → `ipipe` → N `decoderMain` workers → `opipe` → writer goroutine → `wait`,
                as a labelled transition system whose runs are all interleavings of the goroutines

JSON *text* (escaping, number printing) is Go's `encoding/json` and is not modelled: a line is the ordered
list of (name, value) pairs handed to `json.Marshal`; `json.Marshal` failed exactly on a non-finite float on the pinned tree (`toJsonPinned`); the repaired `toJson` cannot fail.
-/
namespace RSVerif.DecodeMode
open RSVerif RSVerif.Spec.DecodeMode

/-! ## toText -/

/-- `toText` of decoderMain: bytes in `'#'..'~'` are kept, everything else (controls, space, `!`, `"`,
    DEL, ≥ 0x80) becomes `'.'`. The bounds come from the source on every run (`Generated.DecodeFacts`). -/
def toTextByte (c : UInt8) : UInt8 :=
  if Generated.C17.decodeTextLo ≤ c.toNat ∧ c.toNat ≤ Generated.C17.decodeTextHi then c
  else UInt8.ofNat Generated.C17.decodeTextSub

def toText (p : Bytes) : Bytes := p.map toTextByte

/-! ## base64 (standard alphabet, `=` padding) -/

/-- the standard alphabet `A–Z a–z 0–9 + /`, as arithmetic on the 6-bit value. -/
def b64char (n : Nat) : UInt8 :=
  if n < 26 then UInt8.ofNat (65 + n)
  else if n < 52 then UInt8.ofNat (71 + n)
  else if n < 62 then UInt8.ofNat (n - 4)
  else if n = 62 then 43 else 47

def b64val (c : UInt8) : Option Nat :=
  let v := c.toNat
  if 65 ≤ v ∧ v ≤ 90 then some (v - 65)
  else if 97 ≤ v ∧ v ≤ 122 then some (v - 71)
  else if 48 ≤ v ∧ v ≤ 57 then some (v + 4)
  else if v = 43 then some 62
  else if v = 47 then some 63
  else none

/-- `base64.StdEncoding.EncodeToString`: 3 bytes → 4 characters; a tail of 1 (2) bytes → 2 (3) characters
    and `==` (`=`). Shifts/masks of the Go code are written as `/` and `%` on `Nat`. -/
def b64enc : Bytes → Bytes
  | a :: b :: c :: rest =>
    b64char (a.toNat / 4) :: b64char ((a.toNat % 4) * 16 + b.toNat / 16) ::
    b64char ((b.toNat % 16) * 4 + c.toNat / 64) :: b64char (c.toNat % 64) :: b64enc rest
  | [a, b] =>
    [b64char (a.toNat / 4), b64char ((a.toNat % 4) * 16 + b.toNat / 16), b64char ((b.toNat % 16) * 4), 61]
  | [a] => [b64char (a.toNat / 4), b64char ((a.toNat % 4) * 16), 61, 61]
  | [] => []

/-- The consumer's decoder (RFC 4648 §4, padding required, only in the last quantum; like Go's non-strict
    `StdEncoding` the unused low bits of the last character are ignored). CR/LF are *not* skipped. -/
def b64dec : Bytes → Option Bytes
  | w :: x :: y :: z :: rest =>
    if rest = [] ∧ z = 61 then
      if y = 61 then
        match b64val w, b64val x with
        | some p, some q => some [UInt8.ofNat (p * 4 + q / 16)]
        | _, _ => none
      else
        match b64val w, b64val x, b64val y with
        | some p, some q, some r => some [UInt8.ofNat (p * 4 + q / 16), UInt8.ofNat ((q % 16) * 16 + r / 4)]
        | _, _, _ => none
    else
      match b64val w, b64val x, b64val y, b64val z, b64dec rest with
      | some p, some q, some r, some s, some tl =>
        some (UInt8.ofNat (p * 4 + q / 16) :: UInt8.ofNat ((q % 16) * 16 + r / 4) :: UInt8.ofNat ((r % 4) * 64 + s) :: tl)
      | _, _, _, _, _ => none
  | [] => some []
  | _ => none

/-! ## JSON objects handed to json.Marshal -/

inductive JVal where
  | num (n : Nat)          -- uint32 / uint64 / int fields
  | str (s : Bytes)        -- Go string (bytes as given to json.Marshal)
  | float (bits : UInt64)  -- float64 by bit pattern
  deriving DecidableEq, Repr

/-- one output line before marshalling: the struct's fields in declaration order with their json tags. -/
abbrev Record := List (String × JVal)

def ascii (s : String) : Bytes := s.toList.map fun c => UInt8.ofNat c.toNat

/-- The pinned `toJson`: `json.Marshal` returns `UnsupportedValueError` iff some float field is ±Inf/NaN; then `toJson`
    calls `log.PanicError` (= `os.Exit(1)`). `none` = that abort (deviation D19, repaired). -/
def toJsonPinned (r : Record) : Option Record :=
  if r.any (fun (_, v) => match v with | .float b => nonFinite b | _ => false) then none else some r

/-- `toJson` as repaired: the score field has the type `zsetScore`, whose `MarshalJSON` writes a finite score as
    `json.Marshal(float64)` does and the three non-finite ones as the strings "inf" / "-inf" / "nan" — `json.Marshal`
    has nothing left to refuse. (A record is the list of fields before rendering; how the score is *spelled* in the JSON
    text is below this model: the harness reads both spellings back into the bit pattern.) -/
def toJson (r : Record) : Option Record := some r

/-! ## decoderMain: one entry → one block -/

/-- A `*rdb.BinEntry` taken from `ipipe`, with what `rdb.DecodeDump(e.Value)` returns for it.
    `aux`: `e.Type == RdbFlagAUX` (the loader only forwards the aux field named "lua"); `value` is the raw script.
    `obj … o`: `o = none` when `DecodeDump` fails (stream/module value, continuation chunk of a big hash …). -/
inductive Entry where
  | aux (key value : Bytes)
  | obj (db expireAt : Nat) (key : Bytes) (o : Option Value)
  deriving DecidableEq, Repr

/-- common prefix of every data line: `db, type, expireat, key, key64`. -/
def head (db exp : Nat) (key : Bytes) (ty : String) : Record :=
  [("db", .num db), ("type", .str (ascii ty)), ("expireat", .num exp),
   ("key", .str (toText key)), ("key64", .str (b64enc key))]

def recString (db exp : Nat) (key v : Bytes) : Record :=
  head db exp key "string" ++ [("value64", .str (b64enc v))]

def recList (db exp : Nat) (key : Bytes) (i : Nat) (v : Bytes) : Record :=
  head db exp key "list" ++ [("index", .num i), ("value64", .str (b64enc v))]

def recHash (db exp : Nat) (key f v : Bytes) : Record :=
  head db exp key "hash" ++ [("field", .str (toText f)), ("field64", .str (b64enc f)), ("value64", .str (b64enc v))]

def recSet (db exp : Nat) (key m : Bytes) : Record :=
  head db exp key "set" ++ [("member", .str (toText m)), ("member64", .str (b64enc m))]

def recZSet (db exp : Nat) (key m : Bytes) (score : UInt64) : Record :=
  head db exp key "zset" ++ [("member", .str (toText m)), ("member64", .str (b64enc m)), ("score", .float score)]

/-- the aux line: NOTE `value64` is `string(e.Value)`, i.e. the raw script, *not* base64 (as coded). -/
def recAux (key value : Bytes) : Record :=
  [("type", .str (ascii "aux")), ("key", .str key), ("value64", .str value)]

/-- `for i, ele := range obj` of the List case: the index counts from the loop start. -/
def listLoop (db exp : Nat) (key : Bytes) : Nat → List Bytes → List Record
  | _, [] => []
  | i, v :: rest => recList db exp key i v :: listLoop db exp key (i + 1) rest

/-- the objects marshalled for a decoded value, in loop order. -/
def objRecords (db exp : Nat) (key : Bytes) : Value → List Record
  | .str v => [recString db exp key v]
  | .list xs => listLoop db exp key 0 xs
  | .hash ps => ps.map fun (f, v) => recHash db exp key f v
  | .set ms => ms.map fun m => recSet db exp key m
  | .zset ms => ms.map fun (m, s) => recZSet db exp key m s

/-- marshal all objects of a block; the first failing `toJson` aborts before anything of the block is sent. -/
def marshalAll : List Record → Option (List Record)
  | [] => some []
  | r :: rs =>
    match toJson r, marshalAll rs with
    | some j, some js => some (j :: js)
    | _, _ => none

/-- One iteration of `for e := range ipipe`: the block written into `b` and then sent with ONE
    `opipe <- b.String()`; `none` = `log.Panic*` was called (DecodeDump error, or json.Marshal error). -/
def blockOf : Entry → Option (List Record)
  | .aux k v => marshalAll [recAux k v]
  | .obj _ _ _ none => none
  | .obj db exp key (some v) => marshalAll (objRecords db exp key v)

/-- the entry the loader delivers for an item that is *not* split into chunks. -/
def entryOf : Item → Entry
  | .key k => .obj k.db k.expireAt k.key (some k.value)
  | .lua s => .aux (ascii "lua") s

/-! ## the consumer: reading a line back -/

def getNum (r : Record) (name : String) : Option Nat :=
  match r.lookup name with | some (.num n) => some n | _ => none

def getStr (r : Record) (name : String) : Option Bytes :=
  match r.lookup name with | some (.str s) => some s | _ => none

def getB64 (r : Record) (name : String) : Option Bytes := (getStr r name).bind b64dec

def getFloat (r : Record) (name : String) : Option UInt64 :=
  match r.lookup name with | some (.float b) => some b | _ => none

/-- What a consumer recovers from one line: binary data only from the `*64` fields. -/
def parseRecord (r : Record) : Option SRecord := do
  let ty ← getStr r "type"
  if ty = ascii "aux" then
    let v ← getStr r "value64"
    pure (.script v)
  else
    let db ← getNum r "db"
    let exp ← getNum r "expireat"
    let key ← getB64 r "key64"
    if ty = ascii "string" then
      let v ← getB64 r "value64"
      pure (.data db exp key (.str v))
    else if ty = ascii "list" then
      let i ← getNum r "index"
      let v ← getB64 r "value64"
      pure (.data db exp key (.listElem i v))
    else if ty = ascii "hash" then
      let f ← getB64 r "field64"
      let v ← getB64 r "value64"
      pure (.data db exp key (.hashField f v))
    else if ty = ascii "set" then
      let m ← getB64 r "member64"
      pure (.data db exp key (.setMember m))
    else if ty = ascii "zset" then
      let m ← getB64 r "member64"
      let s ← getFloat r "score"
      pure (.data db exp key (.zsetMember m s))
    else none

/-! ## the goroutine pipeline of `CmdDecode.decode` -/
namespace Pipe

/-- a `decoderMain` goroutine: between iterations / holding the finished block of one entry, about to do
    `opipe <- b.String()` / returned (its deferred `group <- 0` done). -/
inductive W (β : Type) where
  | idle
  | holding (b : β)
  | done
  deriving DecidableEq, Repr

/-- `parallel` is the length of `ws`; channel capacities are parameters (`base.RDBPipeSize` for both). -/
structure Cfg where
  capIn : Nat
  capOut : Nat

structure St (α β : Type) where
  src : List α          -- entries the loader goroutine has not yet put on `ipipe`
  inClosed : Bool       -- loader returned: `close(pipe)`
  ipipe : List α        -- buffered channel contents, FIFO
  ws : List (W β)       -- the worker goroutines
  opipe : List β        -- buffered channel contents, FIFO
  outClosed : Bool      -- the waiting goroutine received `group` N times: `close(opipe)`
  out : List β          -- blocks written (and flushed) to the output file, in file order
  ended : Bool          -- writer goroutine left its loop: `close(wait)`; `decode` returns
  aborted : Bool        -- some goroutine called log.Panic* (os.Exit(1))

def init {α β : Type} (entries : List α) (n : Nat) : St α β :=
  { src := entries, inClosed := false, ipipe := [], ws := List.replicate n W.idle, opipe := [],
    outClosed := false, out := [], ended := false, aborted := false }

def allDone {β : Type} (ws : List (W β)) : Prop := ∀ w ∈ ws, w = W.done

/-- One atomic step of one goroutine. `block e = none` means the worker aborts the process. -/
inductive Move {α β : Type} (cfg : Cfg) (block : α → Option β) : St α β → St α β → Prop
  /-- loader: `pipe <- entry` (blocks while the channel is full) -/
  | load (s : St α β) (e : α) (rest : List α) :
      s.src = e :: rest → s.ipipe.length < cfg.capIn →
      Move cfg block s { s with src := rest, ipipe := s.ipipe ++ [e] }
  /-- loader: EOF reached, `close(pipe)` -/
  | closeIn (s : St α β) :
      s.src = [] → s.inClosed = false →
      Move cfg block s { s with inClosed := true }
  /-- worker: receives `e` from `ipipe`, builds the whole block in its private buffer -/
  | take (s : St α β) (l r : List (W β)) (e : α) (q : List α) (b : β) :
      s.ws = l ++ W.idle :: r → s.ipipe = e :: q → block e = some b →
      Move cfg block s { s with ipipe := q, ws := l ++ W.holding b :: r }
  /-- worker: receives `e`, `DecodeDump`/`json.Marshal` fails → `log.Panic*` → process exit -/
  | takeAbort (s : St α β) (l r : List (W β)) (e : α) (q : List α) :
      s.ws = l ++ W.idle :: r → s.ipipe = e :: q → block e = none →
      Move cfg block s { s with ipipe := q, aborted := true }
  /-- worker: `opipe <- b.String()` — ONE send per entry (blocks while `opipe` is full) -/
  | emit (s : St α β) (l r : List (W β)) (b : β) :
      s.ws = l ++ W.holding b :: r → s.opipe.length < cfg.capOut →
      Move cfg block s { s with ws := l ++ W.idle :: r, opipe := s.opipe ++ [b] }
  /-- worker: `range ipipe` ends (closed and drained); returns, `group <- 0` -/
  | finish (s : St α β) (l r : List (W β)) :
      s.ws = l ++ W.idle :: r → s.ipipe = [] → s.inClosed = true →
      Move cfg block s { s with ws := l ++ W.done :: r }
  /-- waiter: all `cap(group)` receives done, `close(opipe)` -/
  | closeOut (s : St α β) :
      allDone s.ws → s.outClosed = false →
      Move cfg block s { s with outClosed := true }
  /-- writer: receives a block, `WriteString` + flush -/
  | write (s : St α β) (b : β) (q : List β) :
      s.opipe = b :: q →
      Move cfg block s { s with opipe := q, out := s.out ++ [b] }
  /-- writer: `range opipe` ends (closed and drained), `close(wait)`; `decode` returns -/
  | finishOut (s : St α β) :
      s.opipe = [] → s.outClosed = true → s.ended = false →
      Move cfg block s { s with ended := true }

/-- after `os.Exit(1)` nothing moves; after `decode` returned nothing is left to move either. -/
def Step {α β : Type} (cfg : Cfg) (block : α → Option β) (s s' : St α β) : Prop :=
  s.aborted = false ∧ Move cfg block s s'

/-- states reachable under SOME schedule with `n` workers. -/
inductive Reach {α β : Type} (cfg : Cfg) (block : α → Option β) (entries : List α) (n : Nat) : St α β → Prop
  | start : Reach cfg block entries n (init entries n)
  | step {s s' : St α β} : Reach cfg block entries n s → Step cfg block s s' → Reach cfg block entries n s'

/-- blocks finished by workers but not yet sent. -/
def held {β : Type} : List (W β) → List β
  | [] => []
  | W.holding b :: r => b :: held r
  | _ :: r => held r

/-- termination measure: every step strictly decreases it. -/
def wWeight {β : Type} : W β → Nat
  | .idle => 1 | .holding _ => 3 | .done => 0

def wsWeight {β : Type} : List (W β) → Nat
  | [] => 0
  | w :: r => wWeight w + wsWeight r

def measure {α β : Type} (s : St α β) : Nat :=
  4 * s.src.length + 3 * s.ipipe.length + wsWeight s.ws + s.opipe.length +
  (if s.inClosed then 0 else 1) + (if s.outClosed then 0 else 1) + (if s.ended then 0 else 1)

/-! ### a deterministic scheduler (for the driver and the non-vacuity witnesses) -/

/-- executable run under a schedule given as a list of worker picks: round-robin "take, emit, write" with
    worker `pick % n`; returns the written blocks, or `none` on abort. Used only to exhibit runs. -/
def runSeq {α β : Type} (block : α → Option β) : List α → Option (List β)
  | [] => some []
  | e :: rest =>
    match block e, runSeq block rest with
    | some b, some bs => some (b :: bs)
    | _, _ => none

end Pipe

/-- the pipeline instantiated with decode.go's block function. -/
abbrev DecodeReach (cfg : Pipe.Cfg) (entries : List Entry) (n : Nat) : Pipe.St Entry (List Record) → Prop :=
  Pipe.Reach cfg blockOf entries n

end RSVerif.DecodeMode
