import RSVerif.Model.RdbDecode
import RSVerif.Spec.Crc64
/-
Model of the encoder side:
  pkg/rdb/encoder.go            EncodeDump, objectEncoder for String/List/Set/ZSet/Hash, Encoder.EncodeHeader/
                                EncodeObject/EncodeFooter (file writer with its `db` state)
  cupcake encoder               EncodeType/String/Length/Float, encodeIntString (canonical check), EncodeDumpFooter,
                                EncodeHeader/Database/Expiry/Footer.  pkg/rdb/encoder.go goes through the EXTERNAL module
                                github.com/cupcake/rdb; the in-repo copy pkg/libs/cupcake/rdb/encoder.go is the same text
                                (one constant spelled differently) and is compared against the same model.
Both copies checksum with the external crc64 module, modelled by the bitwise specification (as in C11).
`fmt` is `strconv.FormatFloat(f, 'g', 17, 64)` on a bit pattern (trusted codec, never proved).
Lengths pass through `uint32(len(x))`, modelled by `% 2^32`.
-/
namespace RSVerif.RdbEncode
open RSVerif RSVerif.Rdb RSVerif.RdbDecode

/-- little-endian rendering in `n` bytes (low bytes first, value taken mod 256^n) -/
def leBytes : Nat → Nat → Bytes
  | 0, _ => []
  | n + 1, v => UInt8.ofNat (v % 256) :: leBytes n (v / 256)

def beBytes (n v : Nat) : Bytes := (leBytes n v).reverse

/-- two's complement of `i` in `bits` bits -/
def twos (bits : Nat) (i : Int) : Nat := (i % ((2 ^ bits : Nat) : Int)).toNat

/-- `EncodeLength(l)` for l < 2^32 -/
def encLength (l : Nat) : Bytes :=
  if l < 64 then [UInt8.ofNat l]
  else if l < 16384 then [UInt8.ofNat (64 + l / 256), UInt8.ofNat (l % 256)]
  else 0x80 :: beBytes 4 l

/-- `EncodeLength(uint32(n))` -/
def encLength32 (n : Nat) : Bytes := encLength (n % 4294967296)

def parseDigits (ds : Bytes) : Option Nat :=
  if ds.isEmpty then none
  else ds.foldl (fun acc b => match acc, digitVal b with
    | some a, some d => some (a * 10 + d)
    | _, _ => none) (some 0)

/-- `strconv.ParseInt(s, 10, 32)`: optional sign, decimal digits, range of int32; none = error -/
def parseInt32 (s : Bytes) : Option Int :=
  let go (neg : Bool) (ds : Bytes) : Option Int :=
    match parseDigits ds with
    | none => none
    | some n =>
      let i : Int := if neg then - (n : Int) else (n : Int)
      if -2147483648 ≤ i ∧ i ≤ 2147483647 then some i else none
  match s with
  | 43 :: ds => go false ds
  | 45 :: ds => go true ds
  | ds => go false ds

/-- `encodeIntString(b)`: `some bytes` = written -/
def encodeIntString (s : Bytes) : Option Bytes :=
  match parseInt32 s with
  | none => none
  | some i =>
    if s ≠ fmtInt i then none          -- not the canonical rendering: cannot be stored as an integer
    else if -128 ≤ i ∧ i ≤ 127 then some (0xC0 :: leBytes 1 (twos 8 i))
    else if -32768 ≤ i ∧ i ≤ 32767 then some (0xC1 :: leBytes 2 (twos 16 i))
    else if -2147483648 ≤ i ∧ i ≤ 2147483647 then some (0xC2 :: leBytes 4 (twos 32 i))
    else none

/-- `EncodeString(s)` -/
def encString (s : Bytes) : Bytes :=
  match encodeIntString s with
  | some b => b
  | none => encLength32 s.length ++ s

def isNaN (f : UInt64) : Bool := (f &&& 0x7FFFFFFFFFFFFFFF) > 0x7FF0000000000000

/-- `EncodeFloat(f)` -/
def encFloat (fmt : UInt64 → Bytes) (f : UInt64) : Bytes :=
  if isNaN f then [253]
  else if f = posInf then [254]
  else if f = negInf then [255]
  else let b := fmt f; UInt8.ofNat (b.length % 256) :: b

def isFinite (f : UInt64) : Bool := (f &&& 0x7FF0000000000000) != 0x7FF0000000000000

/-- what a score looks like after one trip through the text form: every NaN becomes `math.NaN()` -/
def normScore (s : UInt64) : UInt64 := if isNaN s then goNaN else s

/-- the value a DUMP round trip returns -/
def normValue : LValue → LValue
  | .zset ms => .zset (ms.map fun (m, s) => (m, normScore s))
  | v => v

/-- The float/text codec assumption (never proved; DESIGN §3): Go's `ParseFloat(FormatFloat(f,'g',17,64))` returns f
    for every finite f, and the text is shorter than the tag bytes 253..255. -/
structure FloatText (fmt : UInt64 → Bytes) (pf : Bytes → Option UInt64) : Prop where
  roundtrip : ∀ f, ¬ isNaN f → f ≠ posInf → f ≠ negInf → pf (fmt f) = some f
  short : ∀ f, (fmt f).length < 253

/-- type byte of `encodeType` -/
def typeOf : LValue → UInt8
  | .str _ => 0 | .list _ => 1 | .set _ => 2 | .zset _ => 3 | .hash _ => 4

/-- `encodeValue` -/
def encValue (fmt : UInt64 → Bytes) : LValue → Bytes
  | .str s => encString s
  | .list xs => encLength32 xs.length ++ xs.flatMap encString
  | .set xs => encLength32 xs.length ++ xs.flatMap encString
  | .hash fvs => encLength32 fvs.length ++ fvs.flatMap fun (f, v) => encString f ++ encString v
  | .zset ms => encLength32 ms.length ++ ms.flatMap fun (m, s) => encString m ++ encFloat fmt s

/-- `Version` of the (external and in-repo) cupcake encoder -/
def encVersion : UInt16 := 6

/-- `EncodeDumpFooter` appended to what has been written so far -/
def withDumpFooter (b : Bytes) : Bytes :=
  let c := b ++ le16 encVersion
  c ++ le64 (Spec.Crc64.crc64 c)

/-- `rdb.EncodeDump(obj)` -/
def encodeDump (fmt : UInt64 → Bytes) (v : LValue) : Bytes :=
  withDumpFooter (typeOf v :: encValue fmt v)

/-! ### file writer -/

structure Obj where
  db : Nat              -- uint32
  key : Bytes
  expireAt : Nat        -- uint64, 0 = none
  val : LValue
  deriving DecidableEq, Repr

/-- "REDIS0006" -/
def fileHeader : Bytes := [82, 69, 68, 73, 83, 48, 48, 48, 54]

/-- `Encoder.EncodeObject`: `cur` is the encoder's `db` field (none = -1) -/
def encObject (fmt : UInt64 → Bytes) (cur : Option Nat) (o : Obj) : Bytes :=
  (if cur = some o.db then [] else 0xFE :: encLength o.db) ++
  (if o.expireAt ≠ 0 then 0xFC :: leBytes 8 o.expireAt else []) ++
  [typeOf o.val] ++ encString o.key ++ encValue fmt o.val

def encObjects (fmt : UInt64 → Bytes) : Option Nat → List Obj → Bytes
  | _, [] => []
  | cur, o :: os => encObject fmt cur o ++ encObjects fmt (some o.db) os

/-- EncodeHeader, EncodeObject …, EncodeFooter -/
def encodeFile (fmt : UInt64 → Bytes) (objs : List Obj) : Bytes :=
  let b := fileHeader ++ encObjects fmt none objs ++ [0xFF]
  b ++ le64 (Spec.Crc64.crc64 b)

end RSVerif.RdbEncode
