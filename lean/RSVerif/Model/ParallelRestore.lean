import RSVerif.Spec.MiniRedisC07
/-
Model of the parallel full-sync / restore worker pool:
  src/redis-shake/dbSync/syncRDB.go  (`syncRDBFile`)        — `Mode.sync`
  src/redis-shake/restore.go         (`restoreRDBFile`)     — `Mode.restorePinned` (as pinned: the
      error of `RestoreRdbEntry` is discarded) and `Mode.restoreFixed` (after fixes/C07-restore-error.patch:
      identical to sync mode without the slot filter)

`N` worker goroutines, each with its own connection `c` and its own `lastdb`, receive from one channel
(`for e := range pipe` — Go channel FIFO: every receive takes the oldest undelivered entry).  A worker's turn is a
small-step machine, so that commands of different workers interleave at *command* granularity:

  idle --recv e--> [db filter] --> [SELECT bookkeeping: lastdb := d first, then the SELECT is sent] --> select e
  select e --SELECT lastdb--> [key filter, slot filter (sync only)] --> run e (restoreCmds e)
  run e (c :: rest) --c--> run e rest | idle           (or: error ⇒ childErrors[w] := err; return)
  idle --channel closed and drained--> returned

`restoreCmds e` (what one `RestoreRdbEntry(c, e)` sends, C02) and the filter predicates (C06) are parameters.
A schedule is a list of events; `Ev.worker w fail` lets worker `w` perform its next atomic action (`fail` = the
target answers the data command of this action, if it is one, with an error that `RestoreRdbEntry` returns);
`Ev.main` is the parent goroutine (`wg.Wait()` / `<-wait`, then the scan of `childErrors`).
Core Lean only.
-/
namespace RSVerif.Model.ParallelRestore
open RSVerif RSVerif.Spec.MiniRedisC07

/-- `rdb.BinEntry` as far as the loop looks at it: `DB`, `Key`; the rest is opaque and only feeds `restoreCmds`. -/
structure Entry where
  db : Nat
  key : Bytes
  kind : Nat := 0
  /-- has an expiry (`ExpireAt != 0`) -/
  expire : Bool := false
  body : List Bytes := []
deriving DecidableEq, Repr, Inhabited

inductive Mode
  | sync
  | restorePinned
  | restoreFixed
deriving DecidableEq, Repr

structure Cfg where
  mode : Mode
  /-- `conf.Options.TargetDB`: `none` = -1 -/
  targetDB : Option Nat
  /-- `filter.FilterDB(int(e.DB))`, true = do not restore -/
  filterDB : Nat → Bool
  /-- `filter.FilterKey(string(e.Key))`, true = do not restore -/
  filterKey : Bytes → Bool
  /-- `filter.FilterSlot(KeyToSlot(e.Key))`, true = do not restore; consulted by `syncRDBFile` only -/
  filterSlot : Bytes → Bool
  /-- the commands one `RestoreRdbEntry(c, e)` issues, in order (C02) -/
  restoreCmds : Entry → List DataCmd

/-- where the property says a key of source database `db` must land -/
def route (cfg : Cfg) (db : Nat) : Nat :=
  match cfg.targetDB with
  | some t => t
  | none => db

/-- the `continue` tests between the SELECT bookkeeping and `RestoreRdbEntry` -/
def keyFiltered (cfg : Cfg) (e : Entry) : Bool :=
  cfg.filterKey e.key || (decide (cfg.mode = .sync) && cfg.filterSlot e.key)

/-- the entry reaches `RestoreRdbEntry` -/
def passes (cfg : Cfg) (e : Entry) : Bool := !cfg.filterDB e.db && !keyFiltered cfg e

/-- commands of one entry together with the database they have to run in -/
def tagged (cfg : Cfg) (e : Entry) : List (Nat × DataCmd) := (cfg.restoreCmds e).map fun c => (route cfg e.db, c)

/-- SPEC: what must have been executed, per `(db, command)`, when the run succeeds. Sequential order. -/
def expected (cfg : Cfg) (entries : List Entry) : List (Nat × DataCmd) :=
  (entries.filter (passes cfg)).flatMap (tagged cfg)

inductive Phase
  | idle
  /-- `lastdb` already assigned, the `SELECT` not yet sent -/
  | select (e : Entry)
  /-- inside `RestoreRdbEntry(c, e)`; `rest` still to be sent -/
  | run (e : Entry) (rest : List DataCmd)
  | returned
deriving DecidableEq, Repr

structure Worker where
  lastdb : Nat := 0
  phase : Phase := .idle
  /-- `childErrors[childId] != nil` -/
  err : Bool := false
deriving DecidableEq, Repr

structure State where
  n : Nat
  /-- entries not yet received by any worker (loader output still to come ++ channel buffer) -/
  queue : List Entry
  workers : Nat → Worker
  server : Server
  /-- `none`: the parent has not returned yet; `some true`: returned nil / finished as a success -/
  result : Option Bool

inductive Ev
  | worker (w : Nat) (fail : Bool)
  | main
deriving DecidableEq, Repr

def init (n : Nat) (entries : List Entry) : State :=
  { n := n, queue := entries, workers := fun _ => {}, server := {}, result := none }

def State.setWorker (s : State) (w : Nat) (wk : Worker) : State :=
  { s with workers := fun i => if i = w then wk else s.workers i }

def phaseOfRest (e : Entry) : List DataCmd → Phase
  | [] => .idle
  | c :: cs => .run e (c :: cs)

/-- after the SELECT bookkeeping: key filter, slot filter, then `RestoreRdbEntry` begins -/
def startRestore (cfg : Cfg) (e : Entry) (wk : Worker) : Worker :=
  if keyFiltered cfg e then { wk with phase := .idle }
  else { wk with phase := phaseOfRest e (cfg.restoreCmds e) }

/-- the `if conf.Options.TargetDB != -1 { … } else { … }` block: `lastdb` is assigned before the SELECT is sent -/
def selectBookkeeping (cfg : Cfg) (e : Entry) (wk : Worker) : Worker :=
  match cfg.targetDB with
  | some t =>
    if t ≠ wk.lastdb then { wk with lastdb := t, phase := .select e }
    else startRestore cfg e wk
  | none =>
    if e.db ≠ wk.lastdb then { wk with lastdb := e.db, phase := .select e }
    else startRestore cfg e wk

/-- one atomic action of worker `w` -/
def stepWorker (cfg : Cfg) (s : State) (w : Nat) (fail : Bool) : State :=
  let wk := s.workers w
  match wk.phase with
  | .returned => s
  | .idle =>
    match s.queue with
    | [] => s.setWorker w { wk with phase := .returned }
    | e :: q =>
      if cfg.filterDB e.db then { s with queue := q }
      else { s with queue := q }.setWorker w (selectBookkeeping cfg e wk)
  | .select e =>
    { s with server := s.server.select w wk.lastdb }.setWorker w (startRestore cfg e wk)
  | .run _ [] => s.setWorker w { wk with phase := .idle }
  | .run e (c :: rest) =>
    if fail then
      match cfg.mode with
      | .restorePinned =>
        -- `utils.RestoreRdbEntry(c, e)` — result discarded, the loop goes on
        { s with server := s.server.exec w c false }.setWorker w { wk with phase := .idle }
      | _ =>
        -- `childErrors[childId] = err; return`
        { s with server := s.server.exec w c false }.setWorker w { wk with err := true, phase := .returned }
    else
      { s with server := s.server.exec w c true }.setWorker w { wk with phase := phaseOfRest e rest }

def allReturned (s : State) : Bool := (List.range s.n).all fun w => decide ((s.workers w).phase = .returned)

def anyErr (s : State) : Bool := (List.range s.n).any fun w => (s.workers w).err

/-- the parent: blocked until every worker is done (`wg.Wait()`), then `for _, err := range childErrors` -/
def stepMain (s : State) : State :=
  if s.result.isNone && allReturned s then { s with result := some (!anyErr s) } else s

def step (cfg : Cfg) (s : State) : Ev → State
  | .worker w fail => if w < s.n then stepWorker cfg s w fail else s
  | .main => stepMain s

def run (cfg : Cfg) (s : State) (evs : List Ev) : State := evs.foldl (step cfg) s

/-- commands a worker has committed to (it holds the entry) but not yet sent -/
def pendingOf (cfg : Cfg) (wk : Worker) : List (Nat × DataCmd) :=
  match wk.phase with
  | .select e => if keyFiltered cfg e then [] else tagged cfg e
  | .run e rest => rest.map fun c => (route cfg e.db, c)
  | _ => []

/-! ### A concrete `restoreCmds` for the entry kinds the trace harness generates (`go/harness/c07.go`)

What `RestoreRdbEntry` sends against the harness' fake target (which answers `EXISTS` with 0 and everything else
positively), as read off `common/utils.go`; C02 owns the general statement.
  kind 0: small string                → `RESTORE key ttl payload`
  kind 1: `lua` aux record            → `SCRIPT LOAD body` unless `filter.lua`
  kind 2: big hash, first/only chunk  → [`DEL key` if key_exists = rewrite] `HSET key f v` … [`PEXPIRE key ttl` if it expires]
  kind 3: big hash, continuation chunk (`NeedReadLen = 0`, `ExpireAt = 0`) → `HSET key f v` …
  kind 4: list in the quicklist encoding (always element by element) → `EXISTS key` (the target of the runs answers 0: the key
          is new, so no policy branch is taken) `RPUSH key e` … [`PEXPIRE key ttl` if it expires] -/
def concreteCmds (rewrite filterLua : Bool) (e : Entry) : List DataCmd :=
  match e.kind with
  | 0 => [{ name := .restore, key := e.key, arg := [] }]
  | 1 => if filterLua then [] else [{ name := .scriptLoad, key := e.key, arg := e.body.headD [] }]
  | 2 =>
    (if rewrite then [{ name := .del, key := e.key, arg := [] }] else []) ++
    e.body.map (fun f => { name := .hset, key := e.key, arg := f }) ++
    (if e.expire then [{ name := .pexpire, key := e.key, arg := [] }] else [])
  | 4 =>
    [{ name := .exists, key := e.key, arg := [] }] ++
    e.body.map (fun f => { name := .rpush, key := e.key, arg := f }) ++
    (if e.expire then [{ name := .pexpire, key := e.key, arg := [] }] else [])
  | _ => e.body.map (fun f => { name := .hset, key := e.key, arg := f })

/-- the sequential restore the property compares with: every passing entry's commands, one entry after the other,
    over a single connection -/
def seqLog (cfg : Cfg) (entries : List Entry) : List Exec :=
  (expected cfg entries).map fun p => { conn := 0, db := p.1, cmd := p.2, ok := true }

/-- a fair schedule that always finishes: round-robin over the workers, `k` rounds, then the parent -/
def roundRobin (n k : Nat) : List Ev :=
  (List.range k).flatMap (fun _ => (List.range n).map fun w => Ev.worker w false) ++ [Ev.main]

end RSVerif.Model.ParallelRestore
