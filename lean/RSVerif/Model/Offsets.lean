import RSVerif.Basic
import RSVerif.Generated.C08Offsets
/-
C08 — model of the replication-offset arithmetic of `redis-shake/dbSync/syncBegin.go`
(`sendPSyncCmd`, `runIncrementalSync`, `pSyncPipeCopy`), `common/utils.go` (`SendPSyncContinue`,
`SendPSyncAck`), `dbSyncer.go` (`incrementRetryCounter`) and the tag base of `syncIncrease.go`
(`Offset: ds.sourceOffset + incrOffset`). Core Lean only.

The tool is one `DbSyncer`; what happens to it is a list of events (one event = one atomic step of one of
its goroutines, in the order in which they take effect):

  recv k          one turn of the copy loop of pSyncPipeCopy: `br.Read` gave k bytes, they were written to
                  the pipe, `nread.Add(k)`, `ds.received.Add(k)`
  tick            the ticker of the ACK goroutine of the *current* pSyncPipeCopy fires
  staleTick c     the ticker of the ACK goroutine of an *earlier* pSyncPipeCopy (connection c) fires: that
                  goroutine only ends when a write on its connection fails, so it may outlive the copy loop
  waitFullClosed  `close(ds.WaitFull)` in Sync(): the full sync is over
  connDrop        `br.Read` fails: pSyncPipeCopy returns, runIncrementalSync counts a retry
  reopenFail      `OpenNetConnSoft` returned nil: sleep and try again
  quietHour       more than an hour passes without a retry: incrementRetryCounter will start from 0 again
  reconnect r     `OpenNetConnSoft` succeeded, `SendPSyncContinue(br, bw, runId, …)` was sent, the source
                  answered r; the next pSyncPipeCopy starts (also after a refusal, 30 s later)

Source side (the hypothesis "the source honours the requested offset"): the stream is identified with its
absolute replication offsets; on `PSYNC runid off` answered +CONTINUE the source sends the bytes at offsets
off, off+1, …; after a refusal it sends nothing. The pipe content is therefore a list of offsets.

`step` is the code after the repair `fixes/C08-ack-offset.patch` (base fixed, counter `ds.received`
cumulative over connections); `stepPinned` is the code as pinned (`ds.sourceOffset += nread.Get()` on every
tick, with the per-call cumulative `nread`).
-/
namespace RSVerif.Offsets

/-- constants of the arithmetic; `code` is what the source says now (regenerated on every run) -/
structure Consts where
  psyncSentinel : Int   -- `if offset != -1`
  psyncInc : Int        -- `offset += 1`
  psyncContBack : Int   -- `return runid, offset - 1` on +CONTINUE
  ackWaiting : Int      -- `SendPSyncAck(bw, 0)` while WaitFull is open
  maxRetries : Nat      -- `fullSyncRetryCounter > 3` aborts
  deriving DecidableEq, Repr

def Consts.code : Consts :=
  { psyncSentinel := Generated.C08.psyncSentinel
    psyncInc := Generated.C08.psyncInc
    psyncContBack := Generated.C08.psyncContBack
    ackWaiting := Generated.C08.ackWaiting
    maxRetries := Generated.C08.maxRetries.toNat }

/-- what the property says the constants are (retry bound: not part of the property, taken from the code) -/
def Consts.spec : Consts :=
  { psyncSentinel := -1, psyncInc := 1, psyncContBack := 1, ackWaiting := 0
    maxRetries := Generated.C08.maxRetries.toNat }

/-- reply of the source to a re-PSYNC -/
inductive Reply
  | cont      -- +CONTINUE
  | err       -- -ERR … (any error reply)
  deriving DecidableEq, Repr

/-- reply of the source to the first PSYNC (`sendPSyncCmd`) -/
inductive Reply0
  | cont                               -- +CONTINUE
  | full (runid : Bytes) (off : Int)   -- +FULLRESYNC runid off
  deriving DecidableEq, Repr

inductive Ev
  | recv (k : Nat)
  | tick
  | staleTick (conn : Nat)
  | waitFullClosed
  | connDrop
  | reopenFail
  | quietHour
  | reconnect (r : Reply)
  deriving DecidableEq, Repr

/-- what the source reads from the tool -/
inductive Out
  | ack (conn : Nat) (n : Int)                   -- REPLCONF ACK n on connection conn
  | psync (conn : Nat) (runid : Bytes) (off : Int)  -- PSYNC runid off, first command on connection conn
  deriving DecidableEq, Repr

/-- `offsFrom a k` = the k consecutive offsets a, a+1, … -/
def offsFrom (a : Int) : Nat → List Int
  | 0 => []
  | k + 1 => a :: offsFrom (a + 1) k

structure St where
  sourceOffset : Int     -- ds.sourceOffset
  received : Nat         -- ds.received
  nread : Nat            -- `nread` of the running pSyncPipeCopy (its return value)
  waitFull : Bool        -- ds.WaitFull is closed
  up : Bool              -- a copy loop is running
  conn : Nat             -- index of the connection it runs on
  stale : List Nat       -- earlier connections whose ACK goroutine has not ended yet
  retries : Nat          -- ds.fullSyncRetryCounter
  dead : Bool            -- log.Panicf reached: the process is gone
  runid : Bytes          -- runId handed to runIncrementalSync
  streaming : Bool       -- source side: it is sending the stream on the current connection
  srcNext : Int          -- source side: offset of the next byte it will send there
  pipe : List Int        -- offsets of the bytes written to the pipe so far
  out : List Out         -- everything the source has read from the tool so far
  deriving DecidableEq, Repr

/-- `SendPSyncContinue`: the offset put on the wire -/
def psyncArg (K : Consts) (off : Int) : Int :=
  if off != K.psyncSentinel then off + K.psyncInc else off

/-- argument of `SendPSyncAck` in the ACK goroutine -/
def ackValue (K : Consts) (s : St) : Int :=
  if s.waitFull then s.sourceOffset + s.received else K.ackWaiting

/-- base that parseSourceCommand adds to the decoder position -/
def tagBase (s : St) : Int := s.sourceOffset

/-- offset stored with a command whose last byte is the pos-th byte read from the pipe -/
def tag (s : St) (pos : Nat) : Int := tagBase s + pos

/-- state when runIncrementalSync starts on an established connection with `ds.sourceOffset = start` -/
def init (start : Int) (runid : Bytes) : St :=
  { sourceOffset := start, received := 0, nread := 0, waitFull := false, up := true, conn := 0, stale := [],
    retries := 0, dead := false, runid := runid, streaming := true, srcNext := start + 1, pipe := [], out := [] }

/-- `sendPSyncCmd` with `ds.sourceOffset = inOffset`: PSYNC on the wire, reply, `ds.sourceOffset = offset`,
    `ds.received.Set(0)`, start of runIncrementalSync with the returned runid. -/
def begin (K : Consts) (inOffset : Int) (runid : Bytes) (r : Reply0) : St :=
  let req := psyncArg K inOffset
  match r with
  | .cont =>
    { init (req - K.psyncContBack) runid with srcNext := req, out := [.psync 0 runid req] }
  | .full rid off =>
    { init off rid with out := [.psync 0 runid req] }

/-- outputs of one event (what is appended to `out`) -/
def emitted (K : Consts) (s : St) : Ev → List Out
  | .tick => if s.dead || !s.up then [] else [.ack s.conn (ackValue K s)]
  | .staleTick c => if s.dead || !s.stale.contains c then [] else [.ack c (ackValue K s)]
  | .reconnect _ =>
    if s.dead || s.up then [] else [.psync (s.conn + 1) s.runid (psyncArg K (s.sourceOffset + s.received))]
  | _ => []

def step (K : Consts) (s : St) (e : Ev) : St :=
  match e with
  | .recv k =>
    if s.dead || !s.up || !s.streaming then s
    else { s with pipe := s.pipe ++ offsFrom s.srcNext k, srcNext := s.srcNext + k,
                  nread := s.nread + k, received := s.received + k }
  | .tick => { s with out := s.out ++ emitted K s .tick }
  | .staleTick c => { s with out := s.out ++ emitted K s (.staleTick c) }
  | .waitFullClosed => { s with waitFull := true }
  | .connDrop =>
    if s.dead || !s.up then s
    else
      { s with up := false, streaming := false, stale := s.stale ++ [s.conn], retries := s.retries + 1,
               dead := decide (s.retries + 1 > K.maxRetries) }
  | .reopenFail => s
  | .quietHour => if s.dead then s else { s with retries := 0 }
  | .reconnect r =>
    if s.dead || s.up then s
    else
      let req := psyncArg K (s.sourceOffset + s.received)
      { s with up := true, conn := s.conn + 1, nread := 0, streaming := (r == .cont),
               srcNext := if r == .cont then req else s.srcNext,
               out := s.out ++ emitted K s (.reconnect r) }

def run (K : Consts) (s : St) (h : List Ev) : St := h.foldl (step K) s

/-- the ACK values among a list of outputs, in order -/
def acksOf (o : List Out) : List Int :=
  o.filterMap fun | .ack _ n => some n | _ => none

/-- values of the ACKs the source has read so far, in order -/
def acks (s : St) : List Int := acksOf s.out

/-! ### the code as pinned (before `fixes/C08-ack-offset.patch`) -/

/-- (the retry counter is the same as in `St` and left out: the pinned process never reaches it in the
    counterexamples) -/
structure StP where
  sourceOffset : Int
  nread : Nat
  waitFull : Bool
  up : Bool
  conn : Nat
  stale : List (Nat × Nat)   -- (connection, final nread) of ACK goroutines that outlived their copy loop
  runid : Bytes
  streaming : Bool
  srcNext : Int
  pipe : List Int
  out : List Out
  deriving DecidableEq, Repr

def initPinned (start : Int) (runid : Bytes) : StP :=
  { sourceOffset := start, nread := 0, waitFull := false, up := true, conn := 0, stale := [], runid := runid,
    streaming := true, srcNext := start + 1, pipe := [], out := [] }

/-- `ds.sourceOffset += nread.Get(); SendPSyncAck(bw, ds.sourceOffset)` / `SendPSyncAck(bw, 0)` -/
def ackPinned (K : Consts) (s : StP) (conn n : Nat) : StP :=
  if s.waitFull then
    { s with sourceOffset := s.sourceOffset + n, out := s.out ++ [.ack conn (s.sourceOffset + n)] }
  else { s with out := s.out ++ [.ack conn K.ackWaiting] }

def stepPinned (K : Consts) (s : StP) (e : Ev) : StP :=
  match e with
  | .recv k =>
    if !s.up || !s.streaming then s
    else { s with pipe := s.pipe ++ offsFrom s.srcNext k, srcNext := s.srcNext + k, nread := s.nread + k }
  | .tick => if !s.up then s else ackPinned K s s.conn s.nread
  | .staleTick c =>
    match s.stale.find? (·.1 == c) with
    | some (_, n) => ackPinned K s c n
    | none => s
  | .waitFullClosed => { s with waitFull := true }
  | .connDrop =>
    if !s.up then s
    else { s with up := false, streaming := false, stale := s.stale ++ [(s.conn, s.nread)] }
  | .reopenFail => s
  | .quietHour => s
  | .reconnect r =>
    if s.up then s
    else
      let req := psyncArg K s.sourceOffset
      { s with up := true, conn := s.conn + 1, nread := 0, streaming := (r == .cont),
               srcNext := if r == .cont then req else s.srcNext,
               out := s.out ++ [.psync (s.conn + 1) s.runid req] }

def runPinned (K : Consts) (s : StP) (h : List Ev) : StP := h.foldl (stepPinned K) s

end RSVerif.Offsets
