import RSVerif.Model.SyncBasic
import RSVerif.Generated.SyncConsts
/-
Model of `sendTargetCommand` (dbSync/syncIncrease.go:273-428) and `barrierStatus`
(dbSync/syncUtils.go:71-99): the batching automaton between the queue `sendBuf` and the target
connection. One `step` per iteration of the `select` loop. Core Lean only.

Events: `recv item` (case `item := <-ds.sendBuf`) and `tick bufEmpty` (case `<-ticker.C`, where
`bufEmpty` is the value of `len(ds.sendBuf) == 0` at that moment). Output: the groups of `c.Send`
calls, one group per `c.Flush()`.
-/
namespace RSVerif.Sender
open RSVerif RSVerif.Sync
open RSVerif.Generated

/-- the five barrier states (string constants of syncUtils.go:11-17) -/
inductive Bar | no | add | holdStart | holding | holdEnd
deriving DecidableEq, Repr, Inhabited

def Bar.str : Bar → String
  | .no => SyncConsts.barrierStatusNo
  | .add => SyncConsts.barrierStatusAdd
  | .holdStart => SyncConsts.barrierStatusHoldStart
  | .holding => SyncConsts.barrierStatusHolding
  | .holdEnd => SyncConsts.barrierStatusHoldEnd

def Bar.ofString (s : String) : Option Bar :=
  if s = SyncConsts.barrierStatusNo then some .no
  else if s = SyncConsts.barrierStatusAdd then some .add
  else if s = SyncConsts.barrierStatusHoldStart then some .holdStart
  else if s = SyncConsts.barrierStatusHolding then some .holding
  else if s = SyncConsts.barrierStatusHoldEnd then some .holdEnd
  else none

/-- `barrierMap[cmd]` — a case-sensitive lookup in the table extracted from the source. -/
def barrierLookup (cmd : String) : Option Bar :=
  (SyncConsts.barrierMap.lookup cmd).bind Bar.ofString

/-- `barrierStatus(cmd, prev)`: new status and "flush the cache first" (flushStatusYes). -/
def barrierStatus (cmd : String) (prev : Bar) : Bar × Bool :=
  match prev with
  | .no | .add | .holdEnd =>
    match barrierLookup cmd with
    | none => (.no, false)
    | some r => (r, true)
  | .holdStart | .holding =>
    if barrierLookup cmd = some .holdEnd then (.holdEnd, true) else (.holding, false)

structure Cfg where
  /-- `ds.enableResumeFromBreakPoint` -/
  resume : Bool
  /-- `conf.Options.SenderCount` -/
  senderCount : Nat
  /-- `conf.Options.SenderSize` -/
  senderSize : Nat
deriving DecidableEq, Repr

/-- local variables of `sendTargetCommand` that survive an iteration -/
structure S where
  cache : List Item        -- cachedTunnel
  count : Nat              -- cachedCount
  size : Nat               -- cachedSize
  bs : Bar                 -- barrier status
  runIdDbs : List Int      -- keys of runIdMap
deriving DecidableEq, Repr

def S.init : S := { cache := [], count := 0, size := 0, bs := .no, runIdDbs := [] }

/-- what one call of `sendFunc` with a non-empty cache writes before its `c.Flush()` -/
structure Group where
  items : List Item
  /-- wrapped as `multi … hset offset; exec` (needBatch) -/
  batched : Bool
  /-- `hset runid` and `hset version` included (first batch of this db) -/
  runId : Bool
deriving DecidableEq, Repr

/-- one call on the target connection -/
inductive Wire
  | fwd (it : Item)          -- c.Send(cacheItem.Cmd, cacheItem.Args...)
  | multi                    -- c.Send("multi")
  | hsetRunId                -- c.Send("hset", checkpointName, "<source>-runid", runId)
  | hsetVersion              -- c.Send("hset", checkpointName, "<source>-version", CurrentVersion)
  | hsetOffset (off : Int)   -- c.Send("hset", checkpointName, "<source>-offset", lastOplog.Offset)
  | exec                     -- c.Send("exec")
  | flush                    -- c.Flush()
deriving DecidableEq, Repr

/-- `lastOplog.Offset` -/
def lastOff (items : List Item) : Int :=
  match items.getLast? with
  | some l => l.off
  | none => 0

/-- the calls of one `sendFunc`, in program order -/
def Group.wire (g : Group) : List Wire :=
  (if g.batched then [Wire.multi] else []) ++ g.items.map Wire.fwd ++
  (if g.batched then
      (if g.runId then [Wire.hsetRunId, Wire.hsetVersion] else []) ++ [Wire.hsetOffset (lastOff g.items), Wire.exec]
   else []) ++ [Wire.flush]

/-- `sendFunc()` -/
def sendFunc (cfg : Cfg) (s : S) : S × List Group :=
  match s.cache.getLast? with
  | none => (s, [])
  | some last =>
    let needBatch := cfg.resume && !(s.count == 1 && last.cmd == "ping")
    let newDb := needBatch && !s.runIdDbs.contains last.db
    ({ s with cache := [], count := 0, size := 0,
              runIdDbs := if newDb then last.db :: s.runIdDbs else s.runIdDbs },
     [{ items := s.cache, batched := needBatch, runId := newDb }])

inductive Ev
  | recv (it : Item)
  | tick (bufEmpty : Bool)
deriving DecidableEq, Repr

/-- `cachedCount < SenderCount && cachedSize < SenderSize` -/
def belowThresholds (cfg : Cfg) (s : S) : Bool :=
  decide (s.count < cfg.senderCount) && decide (s.size < cfg.senderSize)

/-- one iteration of the `for { select { … } … }` loop, returning the groups flushed -/
def stepG (cfg : Cfg) (s : S) : Ev → S × List Group
  | .recv it =>
    let (bs, fl) := barrierStatus it.cmd s.bs
    -- flush previous data when the command is a barrier
    let (s1, o1) := if fl then sendFunc cfg s else (s, [])
    let s2 := { s1 with bs := bs }
    -- "remove command when bs == barrierStatusHoldStart or barrierStatusHoldEnd"
    let s3 := if bs ≠ .holdStart ∧ bs ≠ .holdEnd then
        { s2 with cache := s2.cache ++ [it], count := s2.count + 1, size := s2.size + itemLen it }
      else s2
    -- flushStatus has been reset to flushStatusNo after a barrier flush
    if belowThresholds cfg s3 then (s3, o1)
    else
      let (s4, o2) := sendFunc cfg s3
      (s4, o1 ++ o2)
  | .tick bufEmpty =>
    let fl := bufEmpty && !s.cache.isEmpty
    if belowThresholds cfg s && !fl then (s, []) else sendFunc cfg s

def runG (cfg : Cfg) : S → List Ev → S × List Group
  | s, [] => (s, [])
  | s, e :: es =>
    let (s1, o1) := stepG cfg s e
    let (s2, o2) := runG cfg s1 es
    (s2, o1 ++ o2)

def wireOf (gs : List Group) : List Wire := gs.flatMap Group.wire

/-- the automaton at the level of `c.Send`/`c.Flush` calls -/
def step (cfg : Cfg) (s : S) (e : Ev) : S × List Wire :=
  let (s', gs) := stepG cfg s e
  (s', wireOf gs)

def run (cfg : Cfg) (s : S) (evs : List Ev) : S × List Wire :=
  let (s', gs) := runG cfg s evs
  (s', wireOf gs)

/-- items taken from the queue, in order -/
def received : List Ev → List Item
  | [] => []
  | .recv it :: es => it :: received es
  | .tick _ :: es => received es

/-- the forwarded source commands on the wire (the tool's own multi/hset/exec stripped) -/
def wireData : List Wire → List Item
  | [] => []
  | .fwd it :: ws => it :: wireData ws
  | _ :: ws => wireData ws

/-! ### concrete rendering (what the fake `redigo.Conn` of the harness records) -/

structure RenderCfg where
  ckName : Bytes     -- ds.checkpointName
  source : Bytes     -- ds.node.Source
  runId : Bytes      -- ds.runId

/-- `fmt.Sprintf("%s-%s", ds.node.Source, suffix)` -/
def fieldName (rc : RenderCfg) (suffix : Bytes) : Bytes := rc.source ++ [45] ++ suffix

def offsetField (rc : RenderCfg) : Bytes := fieldName rc SyncConsts.checkpointOffsetBytes
def runIdField (rc : RenderCfg) : Bytes := fieldName rc SyncConsts.checkpointRunIdBytes
def versionField (rc : RenderCfg) : Bytes := fieldName rc SyncConsts.checkpointVersionBytes

/-- command name and arguments as redigo puts them on the wire; `none` for `Flush` -/
def Wire.render (rc : RenderCfg) : Wire → Option (String × List Bytes)
  | .fwd it => some (it.cmd, it.args)
  | .multi => some ("multi", [])
  | .hsetRunId => some ("hset", [rc.ckName, runIdField rc, rc.runId])
  | .hsetVersion => some ("hset", [rc.ckName, versionField rc, fmtInt SyncConsts.fcvCheckpointCurrent])
  | .hsetOffset o => some ("hset", [rc.ckName, offsetField rc, fmtInt o])
  | .exec => some ("exec", [])
  | .flush => none

/-- the command sequence received by the target -/
def renderWire (rc : RenderCfg) (ws : List Wire) : List (String × List Bytes) := ws.filterMap (Wire.render rc)

end RSVerif.Sender
