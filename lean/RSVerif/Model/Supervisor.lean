import RSVerif.Basic
import RSVerif.Spec.Supervisor
import RSVerif.Generated.Supervisor
/-
Executable model of `redis-shake/dbSync/slotsupervisor/supervisor.go` (C20). Core Lean only.

What is modelled, line by line:
* `getRedisNodeState` — connect through the factory, `INFO replication`, `strings.Split(resp, "\n")`,
  first line on which `masterRegex` or `slaveRegex` matches decides; no such line ⇒ error.
  The two patterns are not written here: they are `Generated.Supervisor.masterRegex/slaveRegex`
  (extracted from the source on every run) and interpreted by `regexMatch`, which understands the two
  shapes `^literal` and `literal` and matches nothing for any other shape (`regexSupported` is then false
  and theorem `regex_shapes_supported` of `Properties/C20.lean` stops building).
* `recursiveGetSlotState` — the loop over `[Source] ++ Slaves` (what is overwritten when), the
  `masterFound` test, the `recursionDept == 0` test, the recursive call with `recursionDept - 1`.
* `GetSlotState` — starts the recursion at `maxRetries` (`Generated.Supervisor.maxRetries`).

What is NOT modelled: `time.Sleep(time.Second * recursionDept)` between attempts (the property does not
speak about time; the harness pays the real 21 s), log output, `conn.Close()`, the password / TLS
arguments handed to the factory, and the fields of `SyncNode` other than `Source`/`Slaves` (copied
unchanged by `newSlot := s.slot`).

Two variants of the loop body are modelled: `Code.pinned` is the tree as pinned (deviation D21: a second
master overwrites the first, which is then in neither `Source` nor `Slaves`), `Code.repaired` is the tree
after `fixes/C20-displaced-master.patch`.
-/
namespace RSVerif.Supervisor
open RSVerif

open RSVerif.Spec.Supervisor (Probe ProbeErr SyncNode)

/-! ### `strings.Split(resp, "\n")` -/

/-- prepend a byte to the first line -/
def consHead (b : UInt8) : List Bytes → List Bytes
  | [] => [[b]]
  | l :: ls => (b :: l) :: ls

/-- Go `strings.Split(s, "\n")`: never empty; a trailing LF yields a trailing empty line; CR is an
ordinary byte (so a CRLF text leaves a trailing `\r` on every line). -/
def splitLF : Bytes → List Bytes
  | [] => [[]]
  | b :: rest => if b = 10 then [] :: splitLF rest else consHead b (splitLF rest)

/-! ### the two regexes, as far as their shape is understood -/

def isMeta (b : UInt8) : Bool :=
  b = 92 || b = 46 || b = 43 || b = 42 || b = 63 || b = 40 || b = 41 || b = 124 ||
  b = 91 || b = 93 || b = 123 || b = 125 || b = 94 || b = 36

/-- `needle` occurs somewhere in `hay` (unanchored literal regex) -/
def isInfix (needle : Bytes) : Bytes → Bool
  | [] => needle.isEmpty
  | hay@(_ :: rest) => needle.isPrefixOf hay || isInfix needle rest

/-- the pattern is `^literal` or `literal` with no regex metacharacter in the literal -/
def regexSupported (re : Bytes) : Bool :=
  match re with
  | 94 :: lit => !lit.any isMeta
  | lit => !lit.any isMeta

/-- Go `regexp.MustCompile(re).MatchString(line)` for the supported shapes. Without the `(?m)` flag `^`
matches only at the beginning of the text, i.e. of the line handed in. -/
def regexMatch (re line : Bytes) : Bool :=
  if regexSupported re then
    match re with
    | 94 :: lit => lit.isPrefixOf line
    | lit => isInfix lit line
  else false

/-! ### `getRedisNodeState` -/

/-- the loop over the lines: master regex is tried first, then the slave regex, else the next line -/
def scanLines (masterRe slaveRe : Bytes) : List Bytes → Except ProbeErr Bool
  | [] => .error .invalidRole
  | l :: ls =>
    if regexMatch masterRe l then .ok true
    else if regexMatch slaveRe l then .ok false
    else scanLines masterRe slaveRe ls

/-- `(isMaster, err)` of `getRedisNodeState`; `.ok b` is `(b, nil)`, `.error _` is `(false, err)`. -/
def getRedisNodeStateWith (masterRe slaveRe : Bytes) : Probe → Except ProbeErr Bool
  | .connErr => .error .conn
  | .cmdErr => .error .cmd
  | .info text => scanLines masterRe slaveRe (splitLF text)

def getRedisNodeState : Probe → Except ProbeErr Bool :=
  getRedisNodeStateWith Generated.Supervisor.masterRegex Generated.Supervisor.slaveRegex

/-! ### one attempt: the loop over the hosts -/

/-- which loop body: the pinned tree or the tree with `fixes/C20-displaced-master.patch` applied -/
inductive Code where
  | pinned | repaired
deriving DecidableEq, Repr

/-- loop state: `newSlot.Source`, `newSlot.Slaves`, `masterFound` -/
structure Acc where
  source : String
  slaves : List String
  masterFound : Bool
deriving DecidableEq, Repr

/-- One iteration of `for _, host := range hosts`. `cls` is the node-state function.
`isMaster && err == nil`: `Source` is overwritten (in the repaired code a previously found master is first
appended to `Slaves`); otherwise the host is appended to `Slaves` — also when the probe failed. -/
def step (code : Code) (cls : Probe → Except ProbeErr Bool) (acc : Acc) (host : String) (p : Probe) : Acc :=
  match cls p with
  | .ok true =>
    match code with
    | .pinned => { acc with masterFound := true, source := host }
    | .repaired =>
      { source := host, masterFound := true,
        slaves := if acc.masterFound then acc.slaves ++ [acc.source] else acc.slaves }
  | _ => { acc with slaves := acc.slaves ++ [host] }

/-- the loop; `out i` is the outcome of probing the host at position `i` in this attempt -/
def probeLoop (code : Code) (cls : Probe → Except ProbeErr Bool) (out : Nat → Probe) :
    Nat → List String → Acc → Acc
  | _, [], acc => acc
  | i, h :: hs, acc => probeLoop code cls out (i + 1) hs (step code cls acc h (out i))

/-- `hosts := append([]string{s.slot.Source}, s.slot.Slaves...)` -/
def hosts (s : SyncNode) : List String := s.source :: s.slaves

/-- one attempt: `newSlot := s.slot; newSlot.Slaves = []string{}; masterFound := false;` then the loop -/
def probeAll (code : Code) (cls : Probe → Except ProbeErr Bool) (s : SyncNode) (out : Nat → Probe) : Acc :=
  probeLoop code cls out 0 (hosts s) { source := s.source, slaves := [], masterFound := false }

/-! ### the bounded retry recursion -/

inductive Outcome where
  | ok (node : SyncNode)       -- `return &newSlot, nil`
  | maxRetriesReached           -- `return nil, errors.New("Max retries reached")`
deriving DecidableEq, Repr

/-- result plus the number of attempts (rounds of probing) that were made -/
structure Run where
  result : Outcome
  attempts : Nat
deriving DecidableEq, Repr

/-- `recursiveGetSlotState(recursionDept)`. `a` counts the attempts already made, so that the fault
sequence `out : attempt → position → Probe` can be indexed; structural recursion on the depth.
The sleep before the recursive call is not modelled. -/
def recursiveGetSlotState (code : Code) (cls : Probe → Except ProbeErr Bool) (s : SyncNode)
    (out : Nat → Nat → Probe) : (recursionDept : Nat) → (a : Nat) → Run
  | 0, a =>
    let acc := probeAll code cls s (out a)
    if acc.masterFound then ⟨.ok ⟨acc.source, acc.slaves⟩, a + 1⟩ else ⟨.maxRetriesReached, a + 1⟩
  | d + 1, a =>
    let acc := probeAll code cls s (out a)
    if acc.masterFound then ⟨.ok ⟨acc.source, acc.slaves⟩, a + 1⟩
    else recursiveGetSlotState code cls s out d (a + 1)

/-- The depth `GetSlotState` starts with. Go's `int` may be negative; then `recursionDept == 0` is never
reached and the real recursion does not terminate — `Properties.C20.maxRetries_nonneg` shows the extracted
value is not negative, so `toNat` loses nothing. -/
def maxRetries : Nat := Generated.Supervisor.maxRetries.toNat

/-- `GetSlotState()` with an explicit node-state function (the driver instantiates it with the spec's) -/
def getSlotStateWith (code : Code) (cls : Probe → Except ProbeErr Bool) (s : SyncNode)
    (out : Nat → Nat → Probe) : Run :=
  recursiveGetSlotState code cls s out maxRetries 0

/-- `GetSlotState()` of the code -/
def getSlotState (code : Code) (s : SyncNode) (out : Nat → Nat → Probe) : Run :=
  getSlotStateWith code getRedisNodeState s out

end RSVerif.Supervisor
