import RSVerif.Model.RdbRead
import RSVerif.Model.Dump
/-
Model of the DUMP-payload decoder `rdb.DecodeDump` (pkg/rdb/decoder.go) = the event adaptor of
pkg/rdb/decoder.go over the in-repo cupcake decoder (pkg/libs/cupcake/rdb/decoder.go, slice_buffer.go).

API (imported by C02, C12, C17):
  LValue                                   logical value (string | list | set | hash | zset), element order kept
  decodeDump  pf d  : Except DErr LValue   `rdb.DecodeDump(d)`: verifyDump, then readObject on d[1:], then the adaptor
  decodeValue pf t body                    the same without the 10-byte trailer check (t = type byte, body = value bytes)
  materialise pf d  : Option LValue        success part of decodeDump ("what the tool says the payload holds")
  readObject  fixed pf t body              the cupcake events (`Event`) of one object
  adapt evs                                the adaptor of pkg/rdb/decoder.go folded over events
`pf` is `strconv.ParseFloat(text, 64)` as bits (none = error); trusted codec, never proved (DESIGN §3).

The cupcake decoder is NOT the loader of Model/RdbRead.lean. Differences that are modelled here:
  * readLength: the 64-bit form (0x81) yields the LOW 32 bits; every other 10xxxxxx byte is the 32-bit form;
  * readString: an `encoded` length other than 0..3 falls through to a raw read of that many bytes;
    LZF output is a buffer of `ulen` zero bytes that is filled from the front (short streams leave zeros,
    the length test can never fail), out-of-range accesses are Go panics with no recover;
  * quicklist: the error of each node's `readZiplist` is DROPPED (`d.readZiplist(key, 0, false)`), decoding goes
    on with the next node from wherever the main reader stopped, elements pushed before the failure stay;
  * a sliceBuffer is modelled by its unread rest: after every Seek the next operation is a ReadByte, which
    fails exactly when the rest is empty, so overshooting needs no extra state. Seek's `>= 1<<31` failure is
    modelled only in countZipmapItems (the only place reachable with small inputs).
Zipmap (`fixed = false` is the pinned code, deviation D22):
  pinned: item length byte 253 = marker, 4 bytes BIG-endian, and a 5th byte taken as `free` even for fields;
          254 is rejected; after counting (`len byte >= 254`) the buffer is rewound to offset 0, i.e. onto the
          count byte itself.
  fixed:  254 = marker, 4 bytes little-endian (0..253 literal), `free` only for values; rewind to offset 1.
-/
namespace RSVerif.RdbDecode
open RSVerif RSVerif.Rdb

/-- logical values; scores are float64 bit patterns -/
inductive LValue
  | str (s : Bytes)
  | list (xs : List Bytes)
  | set (xs : List Bytes)
  | hash (fvs : List (Bytes × Bytes))
  | zset (ms : List (Bytes × UInt64))
  deriving DecidableEq, Repr

inductive DErr
  | dumpLength | dumpVersion | dumpCrc   -- verifyDump
  | eof            -- io.EOF / io.ErrUnexpectedEOF (main reader or slice buffer)
  | float          -- strconv.ParseFloat failed
  | zipmapLen      -- "rdb: invalid zipmap item length"
  | zlHeader       -- "rdb: unknown ziplist header byte"
  | intsetEnc      -- "rdb: unknown intset encoding"
  | seek           -- sliceBuffer.Seek "position out of range"
  | module         -- type 6
  | unknownType
  | panic          -- Go run-time panic (LZF index out of range); nothing recovers it
  | adaptor        -- "invalid object, …" of pkg/rdb/decoder.go (unreachable from one readObject)
  deriving DecidableEq, Repr

/-- main-stream reader: result and rest, or error and rest-at-failure -/
abbrev CR (α : Type) := Bytes → Except (DErr × Bytes) (α × Bytes)
/-- slice-buffer reader (rest at failure is never needed) -/
abbrev BR (α : Type) := Bytes → Except DErr (α × Bytes)

def goNaN : UInt64 := 0x7FF8000000000001     -- math.NaN()
def posInf : UInt64 := 0x7FF0000000000000
def negInf : UInt64 := 0xFFF0000000000000

/-! ### main reader (bytes.Reader) -/

def rByte : CR UInt8
  | [] => .error (.eof, [])
  | b :: r => .ok (b, r)

/-- the first n bytes and the rest, `none` when fewer than n are left (linear in n, not in the input) -/
def splitExact : Nat → Bytes → Option (Bytes × Bytes)
  | 0, r => some ([], r)
  | _ + 1, [] => none
  | n + 1, b :: r =>
    match splitExact n r with
    | some (a, r') => some (b :: a, r')
    | none => none

/-- io.ReadFull into a fresh buffer of n bytes: consumes what is there before failing -/
def rN (n : Nat) : CR Bytes := fun inp =>
  match splitExact n inp with
  | none => .error (.eof, [])
  | some x => .ok x

/-- `(*decode).readLength` of the cupcake decoder: (length as uint32, encoded) -/
def cReadLength : CR (Nat × Bool) := fun inp =>
  match inp with
  | [] => .error (.eof, [])
  | b :: r =>
    match b.toNat / 64 with
    | 0 => .ok ((b.toNat % 64, false), r)
    | 1 =>
      match r with
      | [] => .error (.eof, [])
      | b2 :: r2 => .ok (((b.toNat % 64) * 256 + b2.toNat, false), r2)
    | 3 => .ok ((b.toNat % 64, true), r)
    | _ =>
      if b.toNat = 0x81 then
        match rN 8 r with
        | .error e => .error e
        | .ok (x, r2) => .ok ((beNat x % 4294967296, false), r2)    -- uint32(uint64)
      else
        match rN 4 r with
        | .error e => .error e
        | .ok (x, r2) => .ok ((beNat x, false), r2)

/-- cupcake `lzfDecompress(in, outlen)`: `none` = panic. The output buffer is pre-sized, so a short stream
    leaves trailing zeros. -/
def cLzf (cin : Bytes) (ulen : Nat) : Option Bytes :=
  match lzfLoop ulen cin.length cin [] with
  | none => none
  | some out => some (out ++ List.replicate (ulen - out.length) 0)

/-- `(*decode).readString` -/
def cReadString : CR Bytes := fun inp =>
  match cReadLength inp with
  | .error e => .error e
  | .ok ((n, enc), r) =>
    if enc then
      match n with
      | 0 => match rByte r with
             | .error e => .error e
             | .ok (b, r2) => .ok (fmtInt (signed 8 b.toNat), r2)
      | 1 => match rN 2 r with
             | .error e => .error e
             | .ok (b, r2) => .ok (fmtInt (signed 16 (leNat b)), r2)
      | 2 => match rN 4 r with
             | .error e => .error e
             | .ok (b, r2) => .ok (fmtInt (signed 32 (leNat b)), r2)
      | 3 =>
        match cReadLength r with               -- the `encoded` flag of clen/ulen is ignored
        | .error e => .error e
        | .ok ((clen, _), r1) =>
          match cReadLength r1 with
          | .error e => .error e
          | .ok ((ulen, _), r2) =>
            match rN clen r2 with
            | .error e => .error e
            | .ok (cin, r3) =>
              match cLzf cin ulen with
              | none => .error (.panic, r3)
              | some s => .ok (s, r3)
      | _ => rN n r                            -- unknown encoding: falls through to the raw read
    else rN n r

/-- `readFloat64`: 253 NaN, 254 +Inf, 255 -Inf, else length-prefixed text through ParseFloat -/
def cReadFloat (pf : Bytes → Option UInt64) : CR UInt64 := fun inp =>
  match rByte inp with
  | .error e => .error e
  | .ok (l, r) =>
    if l.toNat = 253 then .ok (goNaN, r)
    else if l.toNat = 254 then .ok (posInf, r)
    else if l.toNat = 255 then .ok (negInf, r)
    else match rN l.toNat r with
      | .error e => .error e
      | .ok (t, r2) => match pf t with
        | none => .error (.float, r2)
        | some f => .ok (f, r2)

/-- `readDouble64`: 8 bytes little endian, bit-exact -/
def cReadDouble : CR UInt64 := fun inp =>
  match rN 8 inp with
  | .error e => .error e
  | .ok (b, r) => .ok (ofLe64 b, r)

/-- run a reader n times -/
def readMany {α : Type} (f : CR α) : Nat → CR (List α)
  | 0, inp => .ok ([], inp)
  | n + 1, inp =>
    match f inp with
    | .error e => .error e
    | .ok (a, r) =>
      match readMany f n r with
      | .error e => .error e
      | .ok (as, r2) => .ok (a :: as, r2)

def pairR {α β : Type} (f : CR α) (g : CR β) : CR (α × β) := fun inp =>
  match f inp with
  | .error e => .error e
  | .ok (a, r) =>
    match g r with
    | .error e => .error e
    | .ok (b, r2) => .ok ((a, b), r2)

/-! ### slice buffers -/

def bByte : BR UInt8
  | [] => .error .eof
  | b :: r => .ok (b, r)

/-- `Slice(n)` -/
def bSlice (n : Nat) : BR Bytes := fun buf =>
  match splitExact n buf with
  | none => .error .eof
  | some x => .ok x

def manyB {α : Type} (f : BR α) : Nat → BR (List α)
  | 0, buf => .ok ([], buf)
  | n + 1, buf =>
    match f buf with
    | .error e => .error e
    | .ok (a, r) =>
      match manyB f n r with
      | .error e => .error e
      | .ok (as, r2) => .ok (a :: as, r2)

def pairB {α β : Type} (f : BR α) (g : BR β) : BR (α × β) := fun buf =>
  match f buf with
  | .error e => .error e
  | .ok (a, r) =>
    match g r with
    | .error e => .error e
    | .ok (b, r2) => .ok ((a, b), r2)

/-- `readZiplistEntry` after the prevlen field: header byte and payload -/
def zlBody : BR Bytes := fun r1 =>
  match r1 with
  | [] => .error .eof
  | h :: r =>
    let hn := h.toNat
    if hn / 64 = 0 then bSlice (hn % 64) r
    else if hn / 64 = 1 then
      match r with
      | [] => .error .eof
      | b :: r' => bSlice ((hn % 64) * 256 + b.toNat) r'
    else if hn / 64 = 2 then
      match bSlice 4 r with
      | .error e => .error e
      | .ok (lb, r') => bSlice (beNat lb) r'
    else if hn = 0xC0 then
      match bSlice 2 r with
      | .error e => .error e
      | .ok (b, r') => .ok (fmtInt (signed 16 (leNat b)), r')
    else if hn = 0xD0 then
      match bSlice 4 r with
      | .error e => .error e
      | .ok (b, r') => .ok (fmtInt (signed 32 (leNat b)), r')
    else if hn = 0xE0 then
      match bSlice 8 r with
      | .error e => .error e
      | .ok (b, r') => .ok (fmtInt (signed 64 (leNat b)), r')
    else if hn = 0xF0 then
      -- `buf.Read(intBytes[1:])` copies UP TO three bytes (error only when none is left);
      -- value = int32(LE32([0,b0,b1,b2])) >> 8, arithmetic
      match r with
      | [] => .error .eof
      | _ =>
        let b := r.take 3
        let padded := b ++ List.replicate (3 - b.length) 0
        .ok (fmtInt (signed 32 (leNat (0 :: padded)) / 256), r.drop 3)
    else if hn = 0xFE then
      match r with
      | [] => .error .eof
      | b :: r' => .ok (fmtInt (signed 8 b.toNat), r')
    else if hn / 16 = 15 then .ok (fmtInt ((hn % 16 : Nat) - 1 : Int), r)
    else .error .zlHeader

/-- `readZiplistEntry` -/
def zlEntry : BR Bytes := fun buf =>
  match buf with
  | [] => .error .eof
  | p :: r0 => zlBody (if p.toNat = 254 then r0.drop 4 else r0)          -- skip the 4-byte prevlen

/-- the counting loop of `readZiplistLength` behind the 65535 marker ("65535 or more"): entries are read and
    dropped up to the 0xFF end byte.  `fuel`: every entry takes at least one byte. -/
def zlCount : Nat → Bytes → Nat → Except DErr Nat
  | 0, _, _ => .error .eof
  | fuel + 1, buf, acc =>
    match buf with
    | [] => .error .eof
    | b :: _ =>
      if b.toNat = 255 then .ok acc
      else
        match zlEntry buf with
        | .error e => .error e
        | .ok (_, r) => zlCount fuel r (acc + 1)

/-- `readZiplistLength`: Seek(8,0), two bytes little endian; 65535 = count by walking the entries, then Seek(10,0).
    Returns (count, buffer positioned at offset 10). -/
def zlLength (zl : Bytes) : Except DErr (Nat × Bytes) :=
  match bSlice 2 (zl.drop 8) with
  | .error e => .error e
  | .ok (b, r) =>
    if leNat b < 65535 then .ok (leNat b, r)
    else
      match zlCount (r.length + 1) r 0 with
      | .error e => .error e
      | .ok n => .ok (n, r)

/-- one member of an intset of width `intSize` bytes: little-endian two's complement, rendered in decimal -/
def intsetElem (intSize : Nat) : BR Bytes := fun buf =>
  match bSlice intSize buf with
  | .error e => .error e
  | .ok (b, r') => .ok (fmtInt (signed (8 * intSize) (leNat b)), r')

/-- `readIntset` on the decoded string: the members as decimal texts -/
def readIntset (s : Bytes) : Except DErr (List Bytes) :=
  match bSlice 4 s with
  | .error e => .error e
  | .ok (sz, r) =>
    let intSize := leNat sz
    if intSize ≠ 2 ∧ intSize ≠ 4 ∧ intSize ≠ 8 then .error .intsetEnc
    else
      match bSlice 4 r with
      | .error e => .error e
      | .ok (cb, r2) =>
        match manyB (intsetElem intSize) (leNat cb) r2 with
        | .error e => .error e
        | .ok (xs, _) => .ok xs

/-- `readZipmapItemLength(buf, readFree)`: (`none` = the 255 end marker, i.e. length -1; free) -/
def zmItemLen (fixed : Bool) (readFree : Bool) : BR (Option Nat × Nat) := fun buf =>
  match buf with
  | [] => .error .eof
  | b :: r =>
    let lit (len : Nat) (r : Bytes) : Except DErr ((Option Nat × Nat) × Bytes) :=
      if readFree then
        match r with
        | [] => .error .eof
        | f :: r' => .ok ((some len, f.toNat), r')
      else .ok ((some len, 0), r)
    if b.toNat = 255 then .ok ((none, 0), r)
    else if fixed then
      if b.toNat = 254 then
        match bSlice 4 r with
        | .error e => .error e
        | .ok (s, r') => lit (leNat s) r'
      else lit b.toNat r
    else
      if b.toNat = 253 then
        match bSlice 5 r with
        | .error e => .error e
        | .ok (s, r') => .ok ((some (beNat (s.take 4)), (s.getD 4 0).toNat), r')
      else if b.toNat = 254 then .error .zipmapLen
      else lit b.toNat r

/-- `readZipmapItem(buf, readFree)`: the end marker yields an empty item without consuming more -/
def zmItem (fixed : Bool) (readFree : Bool) : BR Bytes := fun buf =>
  match zmItemLen fixed readFree buf with
  | .error e => .error e
  | .ok ((none, _), r) => .ok ([], r)
  | .ok ((some len, free), r) =>
    match bSlice len r with
    | .error e => .error e
    | .ok (v, r') => .ok (v, r'.drop free)                     -- Seek(free, 1)

/-- `countZipmapItems`: `tot` = length of the whole zipmap string (for Seek's range check) -/
def zmCount (fixed : Bool) (tot : Nat) : Nat → Nat → Bytes → Except DErr Nat
  | 0, n, _ => .ok n                                           -- unreachable: every turn consumes a byte
  | fuel + 1, n, buf =>
    match zmItemLen fixed (n % 2 ≠ 0) buf with
    | .error e => .error e
    | .ok ((none, _), _) => .ok n
    | .ok ((some len, free), r) =>
      if (tot - r.length) + len + free ≥ 2147483648 then .error .seek
      else zmCount fixed tot fuel (n + 1) (r.drop (len + free))

/-- `readZipmap` on the decoded string: the pairs in order -/
def readZipmap (fixed : Bool) (zm : Bytes) : Except DErr (List (Bytes × Bytes)) :=
  match zm with
  | [] => .error .eof
  | lenByte :: r =>
    let start : Except DErr (Nat × Bytes) :=
      if lenByte.toNat ≥ 254 then
        match zmCount fixed zm.length (r.length + 1) 0 r with
        | .error e => .error e
        | .ok n => .ok (n / 2, if fixed then r else zm)        -- Seek(0,0) rewinds onto the count byte
      else .ok (lenByte.toNat, r)
    match start with
    | .error e => .error e
    | .ok (n, buf) =>
      match manyB (pairB (zmItem fixed false) (zmItem fixed true)) n buf with
      | .error e => .error e
      | .ok (ps, _) => .ok ps

/-! ### events and `readObject` -/

inductive Event
  | set (v : Bytes)
  | startHash | hset (f v : Bytes)
  | startSet | sadd (m : Bytes)
  | startList | rpush (v : Bytes)
  | startZSet | zadd (score : UInt64) (m : Bytes)
  deriving DecidableEq, Repr

/-- the entries of one ziplist read before the first error, and that error -/
def zlEntries : Nat → Bytes → List Bytes × Option DErr
  | 0, _ => ([], none)
  | n + 1, buf =>
    match zlEntry buf with
    | .error e => ([], some e)
    | .ok (x, r) => let (xs, e) := zlEntries n r; (x :: xs, e)

/-- one quicklist node = `readZiplist(key, 0, false)` whose error is dropped by the caller:
    (entries pushed, rest of the main reader, panicked?) -/
def qlNode (inp : Bytes) : List Bytes × Bytes × Bool :=
  match cReadString inp with
  | .error (.panic, r) => ([], r, true)
  | .error (_, r) => ([], r, false)
  | .ok (zl, r) =>
    match zlLength zl with
    | .error _ => ([], r, false)
    | .ok (n, buf) => ((zlEntries n buf).1, r, false)

def qlNodes : Nat → Bytes → Except DErr (List Bytes)
  | 0, _ => .ok []
  | n + 1, inp =>
    match qlNode inp with
    | (_, _, true) => .error .panic
    | (xs, r, false) =>
      match qlNodes n r with
      | .error e => .error e
      | .ok ys => .ok (xs ++ ys)

/-- member and score of a ziplist-encoded sorted set: two entries, the second through ParseFloat -/
def zsetElem (pf : Bytes → Option UInt64) : BR (Bytes × UInt64) := fun b =>
  match pairB zlEntry zlEntry b with
  | .error e => .error e
  | .ok ((m, st), r) =>
    match pf st with
    | none => .error .float
    | some s => .ok ((m, s), r)

/-- strip the rest from a main-reader result -/
def done {α : Type} (x : Except (DErr × Bytes) (α × Bytes)) : Except DErr α :=
  match x with
  | .error (e, _) => .error e
  | .ok (a, _) => .ok a

def counted {α : Type} (f : CR α) : CR (List α) := fun inp =>
  match cReadLength inp with
  | .error e => .error e
  | .ok ((n, _), r) => readMany f n r

/-- `readObject(key, typ, expiry)` on the bytes after the type byte: the events delivered when it returns nil -/
def readObject (fixed : Bool) (pf : Bytes → Option UInt64) (t : UInt8) (inp : Bytes) : Except DErr (List Event) :=
  match t.toNat with
  | 0 => (done (cReadString inp)).map fun v => [.set v]
  | 1 => (done (counted cReadString inp)).map fun xs => .startList :: xs.map .rpush
  | 2 => (done (counted cReadString inp)).map fun xs => .startSet :: xs.map .sadd
  | 3 => (done (counted (pairR cReadString (cReadFloat pf)) inp)).map fun xs =>
           .startZSet :: xs.map fun (m, s) => .zadd s m
  | 5 => (done (counted (pairR cReadString cReadDouble) inp)).map fun xs =>
           .startZSet :: xs.map fun (m, s) => .zadd s m
  | 4 => (done (counted (pairR cReadString cReadString) inp)).map fun xs =>
           .startHash :: xs.map fun (f, v) => .hset f v
  | 14 =>
    match cReadLength inp with
    | .error (e, _) => .error e
    | .ok ((n, _), r) => (qlNodes n r).map fun xs => .startList :: xs.map .rpush
  | 9 =>
    match done (cReadString inp) with
    | .error e => .error e
    | .ok zm => (readZipmap fixed zm).map fun ps => .startHash :: ps.map fun (f, v) => .hset f v
  | 10 =>
    match done (cReadString inp) with
    | .error e => .error e
    | .ok zl =>
      match zlLength zl with
      | .error e => .error e
      | .ok (n, buf) =>
        match manyB zlEntry n buf with
        | .error e => .error e
        | .ok (xs, _) => .ok (.startList :: xs.map .rpush)
  | 11 =>
    match done (cReadString inp) with
    | .error e => .error e
    | .ok s => (readIntset s).map fun xs => .startSet :: xs.map .sadd
  | 12 =>
    match done (cReadString inp) with
    | .error e => .error e
    | .ok zl =>
      match zlLength zl with
      | .error e => .error e
      | .ok (n, buf) =>
        match manyB (zsetElem pf) (n / 2) buf with
        | .error e => .error e
        | .ok (xs, _) => .ok (.startZSet :: xs.map fun (m, s) => .zadd s m)
  | 13 =>
    match done (cReadString inp) with
    | .error e => .error e
    | .ok zl =>
      match zlLength zl with
      | .error e => .error e
      | .ok (n, buf) =>
        match manyB (pairB zlEntry zlEntry) (n / 2) buf with
        | .error e => .error e
        | .ok (xs, _) => .ok (.startHash :: xs.map fun (f, v) => .hset f v)
  | 6 => .error .module
  | _ => .error .unknownType

/-! ### the adaptor of pkg/rdb/decoder.go -/

/-- Go's `append(slice, x)` is modelled by consing onto a REVERSED accumulator; `adapt` reverses once at the end
    (a snoc per element would make the executable model quadratic) -/
def LValue.rev : LValue → LValue
  | .str s => .str s
  | .list xs => .list xs.reverse
  | .set xs => .set xs.reverse
  | .hash fvs => .hash fvs.reverse
  | .zset ms => .zset ms.reverse

structure ASt where
  obj : Option LValue := none      -- element lists in reverse order of arrival
  err : Bool := false
  deriving DecidableEq, Repr

/-- `initObject` -/
def ASt.init (s : ASt) (o : LValue) : ASt :=
  if s.err then s
  else match s.obj with
    | some _ => { s with err := true }      -- "invalid object, init again"
    | none => { s with obj := some o }

def step (s : ASt) : Event → ASt
  | .set v => s.init (.str v)
  | .startHash => s.init (.hash [])
  | .startSet => s.init (.set [])
  | .startList => s.init (.list [])
  | .startZSet => s.init (.zset [])
  | .hset f v =>
    if s.err then s else
    match s.obj with
    | some (.hash h) => { s with obj := some (.hash ((f, v) :: h)) }
    | _ => { s with err := true }
  | .sadd m =>
    if s.err then s else
    match s.obj with
    | some (.set xs) => { s with obj := some (.set (m :: xs)) }
    | _ => { s with err := true }
  | .rpush v =>
    if s.err then s else
    match s.obj with
    | some (.list xs) => { s with obj := some (.list (v :: xs)) }
    | _ => { s with err := true }
  | .zadd sc m =>
    if s.err then s else
    match s.obj with
    | some (.zset xs) => { s with obj := some (.zset ((m, sc) :: xs)) }
    | _ => { s with err := true }

/-- `return d.obj, d.err` after all events -/
def adapt (evs : List Event) : Except DErr LValue :=
  let s := evs.foldl step {}
  if s.err then .error .adaptor
  else match s.obj with
    | some o => .ok o.rev
    | none => .error .adaptor

/-! ### entry points -/

def decodeValueG (fixed : Bool) (pf : Bytes → Option UInt64) (t : UInt8) (body : Bytes) : Except DErr LValue :=
  match readObject fixed pf t body with
  | .error e => .error e
  | .ok evs => adapt evs

/-- `rdb.DecodeDump(d)`; the reader runs over d[1:] INCLUDING the trailer, nothing checks full consumption -/
def decodeDumpG (fixed : Bool) (pf : Bytes → Option UInt64) (d : Bytes) : Except DErr LValue :=
  match Dump.verifyDump d with
  | .error .length => .error .dumpLength
  | .error .version => .error .dumpVersion
  | .error .crc => .error .dumpCrc
  | .ok _ =>
    match d with
    | [] => .error .dumpLength
    | t :: body => decodeValueG fixed pf t body

/-- the tree with the zipmap reader repaired (fixes/C12-zipmap-*.patch) -/
def decodeValue := decodeValueG true
def decodeDump := decodeDumpG true
/-- the pinned tree (deviation D22) -/
def decodeDumpPinned := decodeDumpG false

def materialise (pf : Bytes → Option UInt64) (d : Bytes) : Option LValue :=
  match decodeDump pf d with
  | .ok v => some v
  | .error _ => none

end RSVerif.RdbDecode
