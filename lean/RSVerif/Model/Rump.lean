import RSVerif.Basic
/-
C16 — rump (scan-based migration).

Part 1 (`RSVerif.Spec.MiniRedisC16`): the peers. A *source* that answers DUMP / PTTL from a keyspace in which keys
may vanish (deleted or expired) just before any command, and a *target* keyspace with the commands the tool sends
(SELECT, RESTORE [REPLACE], DEL, PEXPIRE and the element-level writes of the big-key route) on two connections.

Part 2 (`RSVerif.Rump`): the three stages of `dbRumperExecutor` (src/redis-shake/rump.go) as functions on lists. The
stages are goroutines connected by FIFO channels (a Kahn network), so what each stage does is a function of the
sequence it reads:
  fetcher/doFetch   rump.go:320-339, 481-562    -> `fetcher`, `fetchPages`, `fetchPage`
  NormalScanner     scanner/normalScanner.go    -> pages of the source's SCAN script, last page = cursor 0
  KeyFileScanner    scanner/keyFileScanner.go   -> `kfPages`
  writer/writeSend  rump.go:341-440             -> `writerStep`, `writeSend`, `writer`
  RestoreBigkey     common/split.go             -> `bigKey`  (element-wise expansion = parameter `Codec.expand`, owned by C02)
  receiver          rump.go:442-455             -> `receiver`
`Fixes` says which of the three repairs fixes/C16-*.patch are present; `Fixes.pinned` is the code as pinned.
-/
namespace RSVerif.Spec.MiniRedisC16
open RSVerif

abbrev Key := Bytes
abbrev Payload := Bytes

/-- logical values. Sets, hashes and sorted sets are kept in insertion order without duplicate members/fields. -/
inductive Value
  | str (b : Bytes)
  | list (xs : List Bytes)
  | set (xs : List Bytes)
  | hash (kv : List (Bytes × Bytes))
  | zset (ms : List (Bytes × Bytes))   -- member ↦ score (as the text that was sent)
  | opaque (tag : Bytes)               -- a value that only RESTORE can create (stream, module …)
  deriving DecidableEq, Repr

/-- element-level write commands of the big-key route (`SET k v`, `RPUSH k v`, `SADD k m`, `HSET k f v`, `ZADD k score m`) -/
inductive Elem
  | set (v : Bytes)
  | rpush (v : Bytes)
  | sadd (m : Bytes)
  | hset (f v : Bytes)
  | zadd (score m : Bytes)
  deriving DecidableEq, Repr

/-- insert or overwrite in an association list, keeping the position of an existing key -/
def upsert (k v : Bytes) : List (Bytes × Bytes) → List (Bytes × Bytes)
  | [] => [(k, v)]
  | (k', v') :: rest => if k' = k then (k, v) :: rest else (k', v') :: upsert k v rest

/-- effect of an element command on the value of its key (`none` on the left = key absent);
    result `none` = `-WRONGTYPE` and no change. -/
def Elem.apply : Option Value → Elem → Option Value
  | _, .set v => some (.str v)
  | none, .rpush v => some (.list [v])
  | some (.list xs), .rpush v => some (.list (xs ++ [v]))
  | none, .sadd m => some (.set [m])
  | some (.set xs), .sadd m => some (.set (if m ∈ xs then xs else xs ++ [m]))
  | none, .hset f v => some (.hash [(f, v)])
  | some (.hash kv), .hset f v => some (.hash (upsert f v kv))
  | none, .zadd s m => some (.zset [(m, s)])
  | some (.zset ms), .zadd s m => some (.zset (upsert m s ms))
  | _, _ => none

/-- replaying a command list on one key; `none` = some command was refused -/
def replay : Option Value → List Elem → Option (Option Value)
  | cur, [] => some cur
  | cur, e :: es => match e.apply cur with
    | none => none
    | some v => replay (some v) es

/-- What the target makes of a DUMP payload (`materialise`, `none` = RESTORE refuses it) and how the element-wise
    route of C02 (`restoreBigRdbEntry`) expands it (`none` = it cannot decode the payload and aborts). -/
structure Codec where
  materialise : Payload → Option Value
  expand : Payload → Option (List Elem)

/-- the assumption C02 discharges: replaying the expansion on an absent key yields the payload's logical value -/
def Codec.Sound (M : Codec) : Prop :=
  ∀ p es, M.expand p = some es → ∃ v, M.materialise p = some v ∧ replay none es = some (some v)

/-! ### target -/

structure Entry where
  val : Value
  ttl : Option Nat      -- remaining milliseconds; `none` = no expiry
  deriving DecidableEq, Repr

abbrev Keyspace := Nat → Key → Option Entry

def Keyspace.set (ks : Keyspace) (db : Nat) (k : Key) (e : Option Entry) : Keyspace :=
  fun d k' => if d = db ∧ k' = k then e else ks d k'

inductive Conn | main | big
  deriving DecidableEq, Repr

inductive Cmd
  | select (db : Nat)
  | restore (k : Key) (ttl : Int) (p : Payload) (replace : Bool)
  | del (k : Key)
  | pexpire (k : Key) (ms : Int)
  | elem (k : Key) (e : Elem)
  deriving DecidableEq, Repr

inductive Reply
  | ok | int (n : Nat) | busy | badTtl | badPayload | wrongType
  deriving DecidableEq, Repr

def Reply.isErr : Reply → Bool
  | .ok | .int _ => false
  | _ => true

structure Target where
  ks : Keyspace
  dbMain : Nat
  dbBig : Nat

/-- fresh connections have db 0 selected -/
def Target.init (ks : Keyspace) : Target := ⟨ks, 0, 0⟩

def Target.dbOf (t : Target) : Conn → Nat
  | .main => t.dbMain
  | .big => t.dbBig

/-- entry-level effect of an element command: a new key has no expiry, `SET` clears it, the others keep it -/
def elemEntry (cur : Option Entry) (e : Elem) : Option Entry :=
  match e.apply (cur.map (·.val)) with
  | none => none
  | some v => some ⟨v, match e with | .set _ => none | _ => cur.bind (·.ttl)⟩

/-- `SET` answers `+OK`, the collection writes answer an integer -/
def elemReply : Elem → Reply
  | .set _ => .ok
  | _ => .int 1

/-- one command arriving at the target on connection `c` (Appendix E of DESIGN.md) -/
def Target.exec (M : Codec) (t : Target) (c : Conn) : Cmd → Target × Reply
  | .select d => (match c with | .main => { t with dbMain := d } | .big => { t with dbBig := d }, .ok)
  | .restore k ttl p replace =>
    let db := t.dbOf c
    if (t.ks db k).isSome ∧ replace = false then (t, .busy)
    else if ttl < 0 then (t, .badTtl)
    else match M.materialise p with
      | none => (t, .badPayload)
      | some v => ({ t with ks := t.ks.set db k (some ⟨v, if ttl = 0 then none else some ttl.toNat⟩) }, .ok)
  | .del k =>
    let db := t.dbOf c
    ({ t with ks := t.ks.set db k none }, .int (if (t.ks db k).isSome then 1 else 0))
  | .pexpire k ms =>
    let db := t.dbOf c
    match t.ks db k with
    | none => (t, .int 0)
    | some e => ({ t with ks := t.ks.set db k (if ms ≤ 0 then none else some { e with ttl := some ms.toNat }) }, .int 1)
  | .elem k e =>
    let db := t.dbOf c
    match elemEntry (t.ks db k) e with
    | none => (t, .wrongType)
    | some en => ({ t with ks := t.ks.set db k (some en) }, elemReply e)

/-- commands arriving one after the other on one connection -/
def Target.execAll (M : Codec) (t : Target) (c : Conn) : List Cmd → Target × List Reply
  | [] => (t, [])
  | x :: xs =>
    let r := t.exec M c x
    let rs := Target.execAll M r.1 c xs
    (rs.1, r.2 :: rs.2)

/-! ### source -/

structure SEntry where
  payload : Payload
  ttl : Option Nat      -- `none` = no expiry
  deriving DecidableEq, Repr

abbrev SKeyspace := Nat → Key → Option SEntry

/-- keys that are deleted or expire at some moment -/
def SKeyspace.vanish (ks : SKeyspace) (vs : List (Nat × Key)) : SKeyspace :=
  fun d k => if (d, k) ∈ vs then none else ks d k

/-- `DUMP k` on the selected db: nil when the key does not exist -/
def SKeyspace.dump (ks : SKeyspace) (db : Nat) (k : Key) : Option Payload := (ks db k).map (·.payload)

/-- what `PTTL` answers for an existing key: -1 no expiry, otherwise the remaining milliseconds -/
def SEntry.pttl (e : SEntry) : Int :=
  match e.ttl with
  | none => -1
  | some t => t

/-- `PTTL k`: -2 when the key is absent -/
def SKeyspace.pttl (ks : SKeyspace) (db : Nat) (k : Key) : Int :=
  match ks db k with
  | none => -2
  | some e => e.pttl

end RSVerif.Spec.MiniRedisC16

namespace RSVerif.Rump
open RSVerif RSVerif.Spec.MiniRedisC16

/-- `conf.Options` as far as rump reads it -/
structure Config where
  pageSize : Nat              -- scan.key_number: SCAN COUNT, key-file page size and write batch size
  targetDb : Option Nat       -- target.db (`none` = -1: keep the source db)
  rewrite : Bool              -- key_exists == "rewrite"
  bigThreshold : Nat          -- big_key_threshold
  keyBlack : List Bytes
  keyWhite : List Bytes
  dbBlack : List String
  dbWhite : List String

/-- which repairs of fixes/C16-*.patch are in the code -/
structure Fixes where
  pttlZero : Bool        -- C16-pttl-zero: PTTL 0 is restored with ttl 1 instead of 0 (= no expiry)
  selectCounted : Bool   -- C16-select-reply: the receiver also consumes the reply of a pipelined "select"
  bigDel : Bool          -- C16-bigkey-rewrite: RestoreBigkey deletes the key first under key_exists = rewrite
  deriving DecidableEq, Repr

def Fixes.all : Fixes := ⟨true, true, true⟩
def Fixes.pinned : Fixes := ⟨false, false, false⟩

/-! ### filters (redis-shake/filter/filter.go as used by rump) -/

/-- `utils.CheckpointKey` -/
def checkpointKey : Bytes := "redis-shake-checkpoint".toUTF8.toList

def hasPrefixAny (k : Key) (ps : List Bytes) : Bool := ps.any (fun p => p.isPrefixOf k)

/-- `filter.FilterKey` (true = does not pass). The exact-match test against `innerFilterKeys` is subsumed by the prefix test. -/
def filterKey (cfg : Config) (k : Key) : Bool :=
  if checkpointKey.isPrefixOf k then true
  else if cfg.keyBlack ≠ [] then hasPrefixAny k cfg.keyBlack
  else if cfg.keyWhite ≠ [] then !hasPrefixAny k cfg.keyWhite
  else false

/-- doFetch: `FilterKey` is only consulted when a black or white list is configured -/
def pageKeys (cfg : Config) (raw : List Key) : List Key :=
  if cfg.keyBlack ≠ [] ∨ cfg.keyWhite ≠ [] then raw.filter (fun k => !filterKey cfg k) else raw

/-- `filter.FilterDB` (true = does not pass): string comparison with the decimal rendering of the db -/
def filterDB (cfg : Config) (db : Nat) : Bool :=
  if cfg.dbBlack ≠ [] then cfg.dbBlack.contains (toString db)
  else if cfg.dbWhite ≠ [] then !cfg.dbWhite.contains (toString db)
  else false

/-- `getSourceDbList` (rump.go:457-479): the dbs of `info keyspace` that hold at least one key and pass `FilterDB`, and
    the total of their key counts. Go collects them by ranging over a map, so the ORDER of the list is unspecified. -/
def sourceDbList (cfg : Config) (counts : List (Nat × Nat)) : List Nat × Nat :=
  let l := counts.filter (fun c => decide (c.2 > 0) && !filterDB cfg c.1)
  (l.map (·.1), (l.map (·.2)).sum)

/-! ### fetcher -/

structure KeyNode where
  key : Key
  value : Payload   -- "" when DUMP answered nil
  pttl : Int
  db : Nat
  deriving DecidableEq, Repr

/-- one reply of the scanner: the keys, the cursor that came with them (0 = this db is finished), and the keys that
    vanish at the source just before the i-th DUMP / the i-th PTTL issued for this page. -/
structure Page where
  cursor : Nat
  keys : List Key
  evDump : List (List (Nat × Key))
  evPttl : List (List (Nat × Key))

/-- the pipelined `DUMP`s of one page, executed in order by the source -/
def dumpAll (db : Nat) : SKeyspace → List Key → List (List (Nat × Key)) → List (Option Payload) × SKeyspace
  | ks, [], _ => ([], ks)
  | ks, k :: rest, evs =>
    let ks1 := ks.vanish (evs.headD [])
    let r := dumpAll db ks1 rest evs.tail
    (ks1.dump db k :: r.1, r.2)

/-- the pipelined `PTTL`s of one page -/
def pttlAll (db : Nat) : SKeyspace → List Key → List (List (Nat × Key)) → List Int × SKeyspace
  | ks, [], _ => ([], ks)
  | ks, k :: rest, evs =>
    let ks1 := ks.vanish (evs.headD [])
    let r := pttlAll db ks1 rest evs.tail
    (ks1.pttl db k :: r.1, r.2)

/-- `&KeyNode{k, dumps[i], pttls[i], db}` for every key of the page -/
def mkNodes (db : Nat) : List Key → List (Option Payload) → List Int → List KeyNode
  | k :: ks, d :: ds, t :: ts => ⟨k, d.getD [], t, db⟩ :: mkNodes db ks ds ts
  | _, _, _ => []

/-- body of the `for` loop of doFetch for one page -/
def fetchPage (cfg : Config) (db : Nat) (ks : SKeyspace) (pg : Page) : List KeyNode × SKeyspace :=
  let keys := pageKeys cfg pg.keys
  let d := dumpAll db ks keys pg.evDump
  let t := pttlAll db d.2 keys pg.evPttl
  (mkNodes db keys d.1 t.1, t.2)

structure FetchOut where
  nodes : List KeyNode
  ks : SKeyspace
  rest : List Page     -- replies of the scanner that were not asked for
  ok : Bool            -- false: ScanKey failed (the scanner ran out of replies), doFetch returns the error
  scans : Nat          -- number of ScanKey calls

/-- the `for { ScanKey … if EndNode() break }` loop of doFetch. `eofOk`: what an exhausted scanner does — the SCAN script
    of the source has no further reply (error), while the key-file scanner returns an empty last page. -/
def fetchPages (cfg : Config) (eofOk : Bool) (db : Nat) : SKeyspace → List Page → FetchOut
  | ks, [] => ⟨[], ks, [], eofOk, 1⟩
  | ks, pg :: rest =>
    let r := fetchPage cfg db ks pg
    if pg.cursor = 0 then ⟨r.1, r.2, rest, true, 1⟩
    else
      let o := fetchPages cfg eofOk db r.2 rest
      ⟨r.1 ++ o.nodes, o.ks, o.rest, o.ok, o.scans + 1⟩

/-- `KeyFileScanner`: pages of `n` lines; `EndNode` ⇔ the page has not exactly `n` lines. The first argument is fuel
    (`kfPages` supplies `lines.length + 1`, which `kfPages_complete` shows to be enough). Events are attached per page. -/
def kfPagesAux (n : Nat) : Nat → List Key → List (List (List (Nat × Key)) × List (List (Nat × Key))) → List Page
  | 0, _, _ => []
  | fuel + 1, lines, evs =>
    let pg := lines.take n
    let ev := evs.headD ([], [])
    if pg.length ≠ n then [⟨0, pg, ev.1, ev.2⟩]
    else ⟨1, pg, ev.1, ev.2⟩ :: kfPagesAux n fuel (lines.drop n) evs.tail

def kfPages (n : Nat) (lines : List Key) (evs : List (List (List (Nat × Key)) × List (List (Nat × Key)))) : List Page :=
  kfPagesAux n (lines.length + 1) lines evs

/-- what the scanner will answer -/
inductive ScanSrc
  | normal (script : Nat → List Page)   -- NormalScanner: the SCAN replies of each db of the source
  | keyFile (pages : List Page)         -- KeyFileScanner: one reader for the whole run

/-- replies the scanner holds for `db` -/
def ScanSrc.pages : ScanSrc → Nat → List Page
  | .normal script, db => script db
  | .keyFile pages, _ => pages

/-- an exhausted key file ends the db normally; an exhausted SCAN script is a failed SCAN -/
def ScanSrc.eofOk : ScanSrc → Bool
  | .normal _ => false
  | .keyFile _ => true

/-- the scanner after a db: the file reader keeps its position -/
def ScanSrc.next : ScanSrc → List Page → ScanSrc
  | .normal script, _ => .normal script
  | .keyFile _, rest => .keyFile rest

structure FetcherOut where
  nodes : List KeyNode     -- everything written to keyChan, in order
  ks : SKeyspace
  ok : Bool                -- false = log.Panic(err) in fetcher
  scans : List (Nat × Nat) -- (db, ScanKey calls) per fetched db

/-- `fetcher`: every db of the list that passes `FilterDB`, in order; stops at the first error -/
def fetcher (cfg : Config) : ScanSrc → SKeyspace → List Nat → FetcherOut
  | _, ks, [] => ⟨[], ks, true, []⟩
  | src, ks, db :: dbs =>
    if filterDB cfg db then fetcher cfg src ks dbs
    else
      let o := fetchPages cfg src.eofOk db ks (src.pages db)
      if o.ok then
        let r := fetcher cfg (src.next o.rest) o.ks dbs
        ⟨o.nodes ++ r.nodes, r.ks, r.ok, (db, o.scans) :: r.scans⟩
      else ⟨o.nodes, o.ks, false, [(db, o.scans)]⟩

/-! ### writer -/

/-- element of `resultChan`: the key and the number of replies that precede the reply of its RESTORE and that the
    receiver consumes as well (`preReplies` of fixes/C16-select-reply.patch; always 0 in the pinned code) -/
structure RNode where
  key : Key
  pre : Nat
  deriving DecidableEq, Repr

/-- what reaches the target, in arrival order -/
inductive Wire
  | cmd (c : Conn) (x : Cmd)
  | flush                       -- end of a `targetClient.Flush()` that had something to send
  deriving DecidableEq, Repr

structure WState where
  tgt : Target
  preDb : Nat
  preBigDb : Nat
  buf : List Cmd          -- `Send` on targetClient, not yet flushed
  batch : List RNode
  count : Nat
  wire : List Wire
  replies : List Reply    -- replies produced on targetClient, in order
  results : List RNode    -- written to resultChan
  aborted : Bool          -- log.Panic in the writer goroutine

def WState.init (t : Target) : WState := ⟨t, 0, 0, [], [], 0, [], [], [], false⟩

/-- `writeSend`: nothing when the batch is empty, else Flush and hand the batch to the receiver -/
def writeSend (M : Codec) (s : WState) : WState :=
  if s.batch = [] then s
  else
    let r := s.tgt.execAll M .main s.buf
    { s with tgt := r.1, buf := [], batch := [], count := 0,
             wire := s.wire ++ s.buf.map (Wire.cmd .main) ++ [Wire.flush],
             replies := s.replies ++ r.2, results := s.results ++ s.batch }

/-- the ttl the writer works with: (fix) 0 → 1, then -1 → 0 -/
def effPttl (fx : Fixes) (pttl : Int) : Int :=
  let p := if fx.pttlZero ∧ pttl = 0 then 1 else pttl
  if p = -1 then 0 else p

def targetDbOf (cfg : Config) (db : Nat) : Nat := cfg.targetDb.getD db

/-- commands `RestoreBigkey` issues for a decodable payload, before the optional PEXPIRE -/
def bigCmds (fx : Fixes) (cfg : Config) (preBigDb db : Nat) (k : Key) (es : List Elem) : List Cmd :=
  (if db ≠ preBigDb then [Cmd.select db] else []) ++
  (if fx.bigDel ∧ cfg.rewrite then [Cmd.del k] else []) ++
  es.map (Cmd.elem k)

/-- `utils.RestoreBigkey` on the big-key connection (every reply is read and checked there):
    the target afterwards, the commands that arrived, and whether the writer called log.Panic -/
def bigKeyT (fx : Fixes) (cfg : Config) (M : Codec) (t : Target) (preBigDb : Nat)
    (k : Key) (value : Payload) (pttl : Int) (db : Nat) : Target × List Cmd × Bool :=
  let cmds := bigCmds fx cfg preBigDb db k ((M.expand value).getD [])
  let r := t.execAll M .big cmds
  if (M.expand value).isNone ∨ r.2.any Reply.isErr then (r.1, cmds, true)
  else if pttl > 0 then ((r.1.exec M .big (.pexpire k pttl)).1, cmds ++ [Cmd.pexpire k pttl], false)
  else (r.1, cmds, false)

def bigKey (fx : Fixes) (cfg : Config) (M : Codec) (s : WState) (k : Key) (value : Payload) (pttl : Int) (db : Nat) : WState :=
  let b := bigKeyT fx cfg M s.tgt s.preBigDb k value pttl db
  { s with tgt := b.1, preBigDb := db, wire := s.wire ++ b.2.1.map (Wire.cmd .big), aborted := b.2.2 }

/-- the commands a small key adds to the pipeline of targetClient: `select` when the db differs from the previous
    one, then `RESTORE key pttl value [REPLACE]` -/
def smallCmds (cfg : Config) (preDb db : Nat) (nd : KeyNode) (pttl : Int) : List Cmd :=
  (if db ≠ preDb then [Cmd.select db] else []) ++ [Cmd.restore nd.key pttl nd.value cfg.rewrite]

/-- `Send` of a small key, `batch = append(batch, ele)`, `count++` -/
def smallKey (fx : Fixes) (cfg : Config) (s : WState) (nd : KeyNode) (pttl : Int) (db : Nat) : WState :=
  { s with
    preDb := db,
    buf := s.buf ++ smallCmds cfg s.preDb db nd pttl,
    batch := s.batch ++ [⟨nd.key, if db ≠ s.preDb ∧ fx.selectCounted then 1 else 0⟩],
    count := s.count + 1 }

/-- `if count >= conf.Options.ScanKeyNumber { writeSend }` -/
def flushIfFull (cfg : Config) (M : Codec) (s : WState) : WState :=
  if s.count ≥ cfg.pageSize then writeSend M s else s

/-- one iteration of `for ele := range dre.keyChan` -/
def writerStep (fx : Fixes) (cfg : Config) (M : Codec) (s : WState) (nd : KeyNode) : WState :=
  if s.aborted then s
  else
    let pttl := effPttl fx nd.pttl
    if pttl = -2 then s
    else
      let db := targetDbOf cfg nd.db
      if nd.value.length ≥ cfg.bigThreshold then
        bigKey fx cfg M (writeSend M s) nd.key nd.value pttl db
      else
        flushIfFull cfg M (smallKey fx cfg s nd pttl db)

/-- `writer`: the loop, the final `writeSend`, `close(resultChan)` -/
def writer (fx : Fixes) (cfg : Config) (M : Codec) (t : Target) (nodes : List KeyNode) : WState :=
  let s := nodes.foldl (writerStep fx cfg M) (WState.init t)
  if s.aborted then s else writeSend M s

/-! ### receiver -/

structure RecvOut where
  confirmed : Nat          -- stat.cCommands
  unread : List Reply      -- replies nobody reads
  aborted : Bool           -- log.Panicf on an error reply
  starved : Bool           -- a Receive with no reply to come (would block for ever)
  deriving DecidableEq, Repr

inductive Take
  | ok (rest : List Reply)     -- all replies were there and none was an error
  | err (rest : List Reply)    -- an error reply was read; `rest` follows it
  | starved                    -- a Receive with no reply to come (would block for ever)

/-- `n` calls of `Receive` -/
def takeReplies : Nat → List Reply → Take
  | 0, rs => .ok rs
  | _ + 1, [] => .starved
  | n + 1, r :: rs => if r.isErr then .err rs else takeReplies n rs

/-- `receiver`: per element of resultChan `1 + pre` calls of Receive; the first error reply aborts -/
def receiver : List RNode → List Reply → Nat → RecvOut
  | [], rs, c => ⟨c, rs, false, false⟩
  | nd :: nds, rs, c =>
    match takeReplies (1 + nd.pre) rs with
    | .ok rs' => receiver nds rs' (c + 1)
    | .err rest => ⟨c, rest, true, false⟩
    | .starved => ⟨c, [], false, true⟩

/-! ### commands seen by the source (for the trace comparison of the driver) -/

inductive SrcCmd
  | select (db : Nat)
  | scan (cursor count : Nat)
  | dump (k : Key)
  | pttl (k : Key)
  | exec                 -- `Do("")`: flush the pipeline and read all replies
  deriving DecidableEq, Repr

def pageTrace (cfg : Config) (normal : Bool) (cursorIn : Nat) (pg : Page) : List SrcCmd :=
  let keys := pageKeys cfg pg.keys
  (if normal then [SrcCmd.scan cursorIn cfg.pageSize] else []) ++
  (if keys = [] then [] else [SrcCmd.exec] ++ keys.map SrcCmd.dump ++ [SrcCmd.exec] ++ keys.map SrcCmd.pttl)

def pagesTrace (cfg : Config) (normal : Bool) : Nat → List Page → List SrcCmd
  | c, [] => if normal then [SrcCmd.scan c cfg.pageSize] else []
  | c, pg :: rest =>
    pageTrace cfg normal c pg ++ (if pg.cursor = 0 then [] else pagesTrace cfg normal pg.cursor rest)

/-- pages left after the loop of doFetch -/
def pagesRest : List Page → List Page
  | [] => []
  | pg :: rest => if pg.cursor = 0 then rest else pagesRest rest

def pagesOk (eofOk : Bool) (pages : List Page) : Bool := eofOk || pages.any (fun pg => pg.cursor = 0)

/-- `previousDb` starts at 0; a `select` is sent to the source only when the db changes -/
def fetcherTrace (cfg : Config) : ScanSrc → Nat → List Nat → List SrcCmd
  | _, _, [] => []
  | src, prev, db :: dbs =>
    if filterDB cfg db then fetcherTrace cfg src prev dbs
    else
      (if db ≠ prev then [SrcCmd.select db] else []) ++
      pagesTrace cfg (!src.eofOk) 0 (src.pages db) ++
      (if pagesOk src.eofOk (src.pages db) then fetcherTrace cfg (src.next (pagesRest (src.pages db))) db dbs else [])

/-! ### specification-level notions (what the theorems of Properties/C16.lean are stated with) -/

/-- the replies of the scanner that doFetch asks for: up to and including the first one with cursor 0 -/
def consumed : List Page → List Page
  | [] => []
  | pg :: rest => if pg.cursor = 0 then [pg] else pg :: consumed rest

/-- the keys the scan hands to the fetcher, with their source db: per db that passes the db filter, the keys of the
    consumed pages that pass the key filter; nothing after a db whose scan fails -/
def scanned (cfg : Config) : ScanSrc → List Nat → List (Nat × Key)
  | _, [] => []
  | src, db :: dbs =>
    if filterDB cfg db then scanned cfg src dbs
    else
      (consumed (src.pages db)).flatMap (fun pg => (pageKeys cfg pg.keys).map (fun k => (db, k))) ++
      (if pagesOk src.eofOk (src.pages db) then scanned cfg (src.next (pagesRest (src.pages db))) dbs else [])

/-- the scan of every db that is reached ends (cursor 0, or end of the key file) -/
def scanOk (cfg : Config) : ScanSrc → List Nat → Bool
  | _, [] => true
  | src, db :: dbs =>
    if filterDB cfg db then scanOk cfg src dbs
    else pagesOk src.eofOk (src.pages db) && scanOk cfg (src.next (pagesRest (src.pages db))) dbs

/-- target address of a scanned key -/
def tAddr (cfg : Config) (a : Nat × Key) : Nat × Key := (targetDbOf cfg a.1, a.2)

/-- ttl the target entry ends with, as a function of the source entry's ttl: no expiry stays no expiry, `t` ms stay
    `t` ms; a key in its last millisecond (PTTL 0) keeps an expiry (1 ms) -/
def ttlSpec (t : Option Nat) : Option Nat := t.map (fun n => max n 1)

/-! ### the whole run -/

structure RunOut where
  fetch : FetcherOut
  w : WState
  recv : RecvOut

def run (fx : Fixes) (cfg : Config) (M : Codec) (src : ScanSrc) (sks : SKeyspace) (dbs : List Nat) (t : Target) : RunOut :=
  let f := fetcher cfg src sks dbs
  let w := writer fx cfg M t f.nodes
  ⟨f, w, receiver w.results w.replies 0⟩

/-- all three stages ran to their end: `dre.close` is set and nothing called log.Panic -/
def RunOut.completed (r : RunOut) : Bool := r.fetch.ok && !r.w.aborted && !r.recv.aborted && !r.recv.starved

end RSVerif.Rump
