import RSVerif.Spec.Pipe
import RSVerif.Generated.C09Consts
/-
C09 — executable, total model of `src/pkg/libs/io/pipe/{pipe.go,buff.go,file.go,pipeio.go}`, as coded.

* `roffset` / `woffset` / `align` are transcribed verbatim (on `Nat`; the unsigned subtractions
  `wpos - rpos` and `size + rpos - wpos` never underflow in a reachable state — theorem
  `Properties.C09.no_underflow`).
* `memBuffer` and `fileBuffer` are one ring over a byte list `mem`:
    memory store: `mem` is `p.b` (length `size`, fixed);
    file store:   `mem` is the file's content; `WriteAt` extends it (zero-filling a hole), `ReadAt`
                  past its end is a short read with `io.EOF`, `Truncate(0)` empties it when the ring
                  is drained and on `rclose`.
* Each function of `pipe` that takes `p.mu` is ONE atomic step: `readSome`, `writeSome`, `RClose`,
  `WClose`, `Buffered`, `Available`.  A goroutine inside `cond.Wait()` is a flag (`rPark`/`wPark`);
  `cond.Signal()` clears the flag (Go: no spurious wake-ups; the woken thread returns `(0, nil)` to
  its `Read`/`Write` loop, which calls `readSome`/`writeSome` again).
* `Read` / `Write` (the loops around the atomic steps) are the thread programs `Sys.stepReader` /
  `Sys.stepWriter` below.
Core Lean only.
-/
namespace RSVerif.Pipe

/-! ### pipe.go: roffset / woffset / align -/

/-- `func roffset(blen int, size, rpos, wpos uint64) (maxlen, offset uint64)` -/
def roffset (blen size rpos wpos : Nat) : Nat × Nat :=
  let maxlen := blen
  let maxlen := if wpos - rpos < maxlen then wpos - rpos else maxlen
  let offset := rpos % size
  let maxlen := if size - offset < maxlen then size - offset else maxlen
  (maxlen, offset)

/-- `func woffset(blen int, size, rpos, wpos uint64) (maxlen, offset uint64)` -/
def woffset (blen size rpos wpos : Nat) : Nat × Nat :=
  let maxlen := blen
  let maxlen := if size + rpos - wpos < maxlen then size + rpos - wpos else maxlen
  let offset := wpos % size
  let maxlen := if size - offset < maxlen then size - offset else maxlen
  (maxlen, offset)

/-- `func align(size, unit int) int` (non-negative requests) -/
def align (size unit : Nat) : Nat :=
  if size < unit then unit else (size + unit - 1) / unit * unit

/-! ### the byte store behind both buffers -/

/-- `copy(p.b[off:off+len bs], bs)` / `f.WriteAt(bs, off)`: overwrite in place, extend (zero-filling a
    hole) when writing past the end. -/
def writeAt (mem : Bytes) (off : Nat) (bs : Bytes) : Bytes :=
  mem.take off ++ List.replicate (off - mem.length) 0 ++ bs ++ mem.drop (off + bs.length)

/-- `p.b[off:off+n]` / `f.ReadAt(b[:n], off)`: the bytes present in that range. -/
def readAt (mem : Bytes) (off n : Nat) : Bytes := (mem.drop off).take n

inductive Backend where
  | mem | file
  deriving DecidableEq, Repr

/-- `memBuffer` / `fileBuffer` -/
structure Store where
  backend : Backend
  size : Nat
  rpos : Nat
  wpos : Nat
  mem : Bytes
  closed : Bool        -- `p.b == nil` / `p.f == nil`

namespace Store

def init (b : Backend) (size : Nat) : Store :=
  { backend := b, size := size, rpos := 0, wpos := 0, closed := false,
    mem := match b with
      | .mem => List.replicate size 0      -- make([]byte, n)
      | .file => [] }                       -- a fresh, empty file

/-- `(*memBuffer).readSome` / `(*fileBuffer).readSome`: new store, bytes copied out, error -/
def readSome (s : Store) (k : Nat) : Store × Bytes × Option Err :=
  if s.closed then (s, [], some .closed) else
  let (maxlen, offset) := roffset k s.size s.rpos s.wpos
  if maxlen = 0 then (s, [], none) else
  let data := readAt s.mem offset maxlen
  match s.backend with
  | .mem =>
    -- n := copy(b, p.b[offset:offset+maxlen]); p.rpos += n; if p.rpos == p.wpos { reset }
    let rpos := s.rpos + data.length
    if rpos = s.wpos then ({ s with rpos := 0, wpos := 0 }, data, none)
    else ({ s with rpos := rpos }, data, none)
  | .file =>
    -- n, err := p.f.ReadAt(b[:maxlen], offset); p.rpos += n
    -- if p.rpos == p.wpos { reset; if err == nil { err = p.f.Truncate(0) } }
    let err : Option Err := if data.length < maxlen then some .eof else none
    let rpos := s.rpos + data.length
    if rpos = s.wpos then
      ({ s with rpos := 0, wpos := 0, mem := if err.isNone then [] else s.mem }, data, err)
    else ({ s with rpos := rpos }, data, err)

/-- `(*memBuffer).writeSome` / `(*fileBuffer).writeSome`: new store, bytes accepted, error -/
def writeSome (s : Store) (bs : Bytes) : Store × Nat × Option Err :=
  if s.closed then (s, 0, some .closed) else
  let (maxlen, offset) := woffset bs.length s.size s.rpos s.wpos
  if maxlen = 0 then (s, 0, none) else
  -- n := copy(p.b[offset:offset+maxlen], b)  /  n, err := p.f.WriteAt(b[:maxlen], offset); p.wpos += n
  let chunk := bs.take maxlen
  ({ s with mem := writeAt s.mem offset chunk, wpos := s.wpos + chunk.length }, chunk.length, none)

def buffered (s : Store) : Nat := if s.closed then 0 else s.wpos - s.rpos

def available (s : Store) : Nat := if s.closed then 0 else s.size + s.rpos - s.wpos

/-- `rclose`: `p.b = nil` / truncate and close the file -/
def rclose (s : Store) : Store := { s with closed := true, mem := [] }

/-- `wclose`: nothing -/
def wclose (s : Store) : Store := s

end Store

/-! ### pipe.go: the six critical sections -/

structure Pipe where
  store : Store
  rerr : Option Err
  werr : Option Err
  rPark : Bool      -- a goroutine is inside `p.rwait.Wait()`
  wPark : Bool      -- a goroutine is inside `p.wwait.Wait()`

namespace Pipe

def init (b : Backend) (size : Nat) : Pipe :=
  { store := Store.init b size, rerr := none, werr := none, rPark := false, wPark := false }

/-- `(*pipe).readSome` -/
def readSome (p : Pipe) (k : Nat) : Pipe × RObs :=
  if p.rerr.isSome then (p, .ret [] (some .closed)) else
  if k = 0 then
    if p.store.buffered ≠ 0 then (p, .ret [] none) else (p, .ret [] p.werr)
  else
    match p.store.readSome k with
    | (st, data, err) =>
      if err.isSome ∨ data ≠ [] then
        ({ p with store := st, wPark := false }, .ret data err)      -- p.wwait.Signal()
      else if p.werr.isSome then ({ p with store := st }, .ret [] p.werr)
      else ({ p with store := st, rPark := true }, .park)             -- p.rwait.Wait()

/-- `(*pipe).writeSome` -/
def writeSome (p : Pipe) (bs : Bytes) : Pipe × WObs :=
  if p.werr.isSome then (p, .ret 0 (some .closed)) else
  if p.rerr.isSome then (p, .ret 0 p.rerr) else
  if bs.length = 0 then (p, .ret 0 none) else
    match p.store.writeSome bs with
    | (st, n, err) =>
      if err.isSome ∨ n ≠ 0 then
        ({ p with store := st, rPark := false }, .ret n err)         -- p.rwait.Signal()
      else ({ p with store := st, wPark := true }, .park)             -- p.wwait.Wait()

/-- `(*pipe).RClose(err)`; `e = none` is `Close()` -/
def rclose (p : Pipe) (e : Option Err) : Pipe :=
  { p with rerr := setOnce p.rerr (e.getD .closed), rPark := false, wPark := false,
           store := p.store.rclose }

/-- `(*pipe).WClose(err)`; `e = none` is `Close()` -/
def wclose (p : Pipe) (e : Option Err) : Pipe :=
  { p with werr := setOnce p.werr (e.getD .eof), rPark := false, wPark := false,
           store := p.store.wclose }

/-- `(*pipe).Buffered` -/
def buffered (p : Pipe) : Nat × Option Err :=
  if p.rerr.isSome then (0, p.rerr)
  else if p.store.buffered ≠ 0 then (p.store.buffered, none)
  else (0, p.werr)

/-- `(*pipe).Available` -/
def available (p : Pipe) : Nat × Option Err :=
  if p.werr.isSome then (0, p.werr)
  else if p.rerr.isSome then (0, p.rerr)
  else (p.store.available, none)

/-- One atomic step of some thread.  The reader thread cannot call `readSome` while it sits in
    `rwait.Wait()` (and no second reader can: `Read` holds `p.rl`); likewise the writer. -/
def step (p : Pipe) : Step → Pipe × Obs
  | .readSome k => if p.rPark then (p, .disabled) else
      match p.readSome k with | (p', o) => (p', .r o)
  | .writeSome bs => if p.wPark then (p, .disabled) else
      match p.writeSome bs with | (p', o) => (p', .w o)
  | .rclose e => (p.rclose e, .closeOk)
  | .wclose e => (p.wclose e, .closeOk)
  | .buffered => (p, .count p.buffered.1 p.buffered.2)
  | .available => (p, .count p.available.1 p.available.2)

/-- run a whole schedule; returns the final state and the trace (step, observation) -/
def run (p : Pipe) : List Step → Pipe × List (Step × Obs)
  | [] => (p, [])
  | s :: rest =>
    match p.step s with
    | (p', o) => match run p' rest with
      | (p'', tr) => (p'', (s, o) :: tr)

end Pipe

/-! ### the public constructors (`New`, `NewSize`, `NewFilePipe`) -/

/-- `NewSize(buffSize)`: `newMemBuffer` aligns the request to `BuffSizeAlign` -/
def newSize (req : Nat) : Pipe := Pipe.init .mem (align req Generated.C09.pipeBuffSizeAlign)

/-- `New()` -/
def new : Pipe := newSize Generated.C09.pipeBuffSizeAlign

/-- `NewFilePipe(fileSize, f)` on a fresh empty file: `newFileBuffer` aligns to `FileSizeAlign` -/
def newFilePipe (req : Nat) : Pipe := Pipe.init .file (align req Generated.C09.pipeFileSizeAlign)

/-! ### ghost view: what is in the ring -/

/-- `cnt` ring cells starting at absolute position `pos` -/
def cells (mem : Bytes) (size : Nat) : Nat → Nat → Bytes
  | _, 0 => []
  | pos, cnt + 1 => mem.getD (pos % size) 0 :: cells mem size (pos + 1) cnt

/-- the bytes written and not yet read, oldest first (nothing once the reader closed the store) -/
def Store.contents (s : Store) : Bytes :=
  if s.closed then [] else cells s.mem s.size s.rpos (s.wpos - s.rpos)

/-- abstraction to the specification's state -/
def Pipe.abs (p : Pipe) : APipe :=
  { cap := p.store.size, q := p.store.contents, rerr := p.rerr, werr := p.werr,
    rPark := p.rPark, wPark := p.wPark }

/-! ### pipe.go `Read` / `Write`: the loops around the atomic steps, as thread programs -/

/-- the reader goroutine -/
inductive RThread where
  | idle
  | reading (k : Nat)                      -- inside `Read(b)`, `len(b) = k`
  deriving DecidableEq, Repr

/-- the writer goroutine -/
inductive WThread where
  | idle
  | writing (rest : Bytes) (nn : Nat)      -- inside `Write`, `b = rest`, `nn` accepted so far
  deriving DecidableEq, Repr

structure Sys where
  p : Pipe
  rt : RThread
  wt : WThread

/-- what a finished `Read` returned -/
structure RRet where
  data : Bytes
  err : Option Err
  deriving DecidableEq, Repr

/-- what a finished `Write` returned -/
structure WRet where
  n : Nat
  err : Option Err
  deriving DecidableEq, Repr

namespace Sys

def init (b : Backend) (size : Nat) : Sys := { p := Pipe.init b size, rt := .idle, wt := .idle }

/-- the reader thread can take a step: it is inside `Read` and not parked -/
def readerRunnable (s : Sys) : Bool :=
  match s.rt with
  | .idle => false
  | .reading _ => !s.p.rPark

def writerRunnable (s : Sys) : Bool :=
  match s.wt with
  | .idle => false
  | .writing _ _ => !s.p.wPark

/-- one iteration of the `for` loop of `(*pipe).Read` -/
def stepReader (s : Sys) : Sys × Option RRet :=
  match s.rt with
  | .idle => (s, none)
  | .reading k =>
    if s.p.rPark then (s, none) else
    match s.p.readSome k with
    | (p', .park) => ({ s with p := p' }, none)
    | (p', .ret data err) =>
      if err.isSome ∨ data.length ≠ 0 then ({ s with p := p', rt := .idle }, some ⟨data, err⟩)
      else if k = 0 then ({ s with p := p', rt := .idle }, some ⟨[], none⟩)
      else ({ s with p := p' }, none)

/-- one iteration of the `for` loop of `(*pipe).Write` -/
def stepWriter (s : Sys) : Sys × Option WRet :=
  match s.wt with
  | .idle => (s, none)
  | .writing rest nn =>
    if s.p.wPark then (s, none) else
    match s.p.writeSome rest with
    | (p', .park) => ({ s with p := p' }, none)
    | (p', .ret n err) =>
      if err.isSome then ({ s with p := p', wt := .idle }, some ⟨nn + n, err⟩)
      else
        let rest' := rest.drop n
        if rest'.length = 0 then ({ s with p := p', wt := .idle }, some ⟨nn + n, none⟩)
        else ({ s with p := p', wt := .writing rest' (nn + n) }, none)

end Sys

end RSVerif.Pipe
