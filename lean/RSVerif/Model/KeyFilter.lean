import RSVerif.Basic
import RSVerif.Generated.RedisCommands
/-
Executable model of redis-shake/filter/{redis_command.go, filter.go} (C13):
`getMatchKeys`, `HandleFilterKeyWithCommand`, `FilterKey`, and the lower-casing done by `redis.ParseArgs`
before the call in dbSync.parseSourceCommand.

Go `int` index arithmetic is kept as written (`Int`); every slice read/write is bounds-checked and an
out-of-range index is the outcome `panic`; a loop that never ends is the outcome `hang`.
-/
namespace RSVerif.KeyFilter
open RSVerif

/-- one row of `RedisCommands`: `firstkey`, `lastkey`, `keystep` (getkey_proc is always nil) -/
structure Row where
  name : Bytes
  first : Int
  last : Int
  step : Int
deriving DecidableEq, Repr

inductive Fail
  | panic   -- Go run-time panic (index out of range, negative make)
  | hang    -- the loop does not terminate
deriving DecidableEq, Repr

abbrev M := Except Fail

/-- Go `xs[i]` (read) with `i : int` -/
def rd {α} (xs : List α) (i : Int) : M α :=
  if i < 0 then .error .panic
  else match xs[i.toNat]? with
    | some x => .ok x
    | none => .error .panic

/-- Go `xs[i] = v` with `i : int` -/
def wr {α} (xs : List α) (i : Int) (v : α) : M (List α) :=
  if i < 0 then .error .panic
  else if i.toNat < xs.length then .ok (xs.set i.toNat v)
  else .error .panic

/-- First loop of `getMatchKeys`:
    `for firstkey := first-1; firstkey <= lastkey; firstkey += keystep { if pass(args[firstkey]) { array[number] = firstkey; number++ } }`.
    `keys` is `array[0:number]`; `array` has `len(args)` cells, so appending needs `number < len(args)`.
    Every iteration that does not panic reads a fresh in-range index (step ≠ 0) or fills one more cell
    (step = 0, key passes), so `len(args)+2` units of fuel run out only when the Go loop spins forever. -/
def scan (pass : Bytes → Bool) (args : List Bytes) (lastkey step : Int) : Nat → Int → List Int → M (List Int)
  | 0, firstkey, keys => if firstkey ≤ lastkey then .error .hang else .ok keys
  | fuel + 1, firstkey, keys =>
    if firstkey ≤ lastkey then
      match rd args firstkey with
      | .error e => .error e
      | .ok key =>
        if pass key then
          if keys.length < args.length then scan pass args lastkey step fuel (firstkey + step) (keys ++ [firstkey])
          else .error .panic
        else scan pass args lastkey step fuel (firstkey + step) keys
    else .ok keys

/-- `for i := 0; i < leading; i++ { new_args[i] = args[i] }` -/
def copyLeading (args : List Bytes) (leading : Int) (new : List Bytes) : M (List Bytes) :=
  (List.range leading.toNat).foldlM (fun acc (i : Nat) =>
    match rd args (i : Int) with
    | .error e => .error e
    | .ok v => wr acc (i : Int) v) new

/-- inner loop of the key copy for `k = array[i]`, `base = leading + i*keystep`:
    `for j := 0; j < keystep; j++ { new_args[base + j] = args[k + j] }` -/
def copyOne (args : List Bytes) (k base step : Int) (new : List Bytes) : M (List Bytes) :=
  (List.range step.toNat).foldlM (fun acc (j : Nat) =>
    match rd args (k + (j : Int)) with
    | .error e => .error e
    | .ok v => wr acc (base + (j : Int)) v) new

/-- `for i := 0; i < number; i++ { for j := 0; j < keystep; j++ { new_args[leading + i*keystep + j] = args[array[i] + j] } }`
    (`array[i]` with `i < number` is always in range) -/
def copyKeys (args : List Bytes) (keys : List Int) (leading step : Int) (new : List Bytes) : M (List Bytes) :=
  (List.range keys.length).foldlM (fun acc (i : Nat) =>
    match rd keys (i : Int) with
    | .error e => .error e
    | .ok k => copyOne args k (leading + (i : Int) * step) step acc) new

/-- `j := 0; for i := start; i < len(args); i++ { new_args[base + j] = args[i]; j++ }` -/
def copyTrailing (args : List Bytes) (start base : Int) (new : List Bytes) : M (List Bytes) :=
  (List.range ((args.length : Int) - start).toNat).foldlM (fun acc (j : Nat) =>
    match rd args (start + (j : Int)) with
    | .error e => .error e
    | .ok v => wr acc (base + (j : Int)) v) new

/-- `getMatchKeys`. `pinned = true` is the function as pinned (no `leading` copy, `new_args` starts at the first
    kept key); `pinned = false` is the function after fixes/C13-keytable.patch (arguments in front of the first
    key are kept). Result: `(new_args, pass)`. -/
def getMatchKeysWith (pinned : Bool) (pass : Bytes → Bool) (row : Row) (args : List Bytes) : M (List Bytes × Bool) :=
  let n : Int := args.length
  let lastkey0 := row.last - 1
  let lastkey := if lastkey0 < 0 then lastkey0 + n else lastkey0
  let leading : Int := if pinned then 0 else row.first - 1
  match scan pass args lastkey row.step (args.length + 2) (row.first - 1) [] with
  | .error e => .error e
  | .ok keys =>
    let number : Int := keys.length
    let size := leading + number * row.step + n - lastkey - row.step
    if size < 0 then .error .panic
    else
      match copyLeading args leading (List.replicate size.toNat []) with
      | .error e => .error e
      | .ok b1 =>
        match copyKeys args keys leading row.step b1 with
        | .error e => .error e
        | .ok b2 =>
          match copyTrailing args (lastkey + row.step) (leading + number * row.step) b2 with
          | .error e => .error e
          | .ok b3 => .ok (b3, decide (0 < keys.length))

/-- the function in the current source (repaired) -/
def getMatchKeys := getMatchKeysWith false
/-- the function as pinned -/
def getMatchKeysPinned := getMatchKeysWith true

/-! ### FilterKey -/

structure Config where
  whitelist : List Bytes
  blacklist : List Bytes
deriving DecidableEq, Repr

def checkpointKey : Bytes := Generated.c13CheckpointKey

/-- `strings.HasPrefix(key, prefix)` -/
def hasPrefix (key pre : Bytes) : Bool := pre.isPrefixOf key

/-- `hasAtLeastOnePrefix` -/
def hasAtLeastOnePrefix (key : Bytes) : List Bytes → Bool
  | [] => false
  | p :: ps => if hasPrefix key p then true else hasAtLeastOnePrefix key ps

/-- `FilterKey`: true means NOT pass -/
def filterKey (c : Config) (key : Bytes) : Bool :=
  if key == checkpointKey then true
  else if hasPrefix key checkpointKey then true
  else if c.blacklist.length != 0 then
    (if hasAtLeastOnePrefix key c.blacklist then true else false)
  else if c.whitelist.length != 0 then
    (if hasAtLeastOnePrefix key c.whitelist then false else true)
  else false

/-! ### HandleFilterKeyWithCommand -/

/-- the table of the current source -/
def table : List Row := Generated.redisCommands.map fun r => ⟨r.1, r.2.1, r.2.2.1, r.2.2.2⟩

/-- Go map lookup `RedisCommands[scmd]` (exact, case-sensitive; map keys are unique) -/
def lookup (tbl : List Row) (scmd : Bytes) : Option Row := tbl.find? (fun r => r.name == scmd)

/-- `HandleFilterKeyWithCommand`, parametric in the table, in whether a key filter is configured, and in the
    predicate (`pass key = !FilterKey(key)`). Result: `(args to forward, reject)`. -/
def handleWith (pinned : Bool) (tbl : List Row) (active : Bool) (pass : Bytes → Bool) (scmd : Bytes) (args : List Bytes) :
    M (List Bytes × Bool) :=
  if !active then .ok (args, false)
  else match lookup tbl scmd with
    | none => .ok (args, false)
    | some row =>
      if args.length == 0 then .ok (args, false)
      else match getMatchKeysWith pinned pass row args with
        | .error e => .error e
        | .ok (newArgs, p) => .ok (newArgs, !p)

def Config.active (c : Config) : Bool := !(c.whitelist.length == 0 && c.blacklist.length == 0)

/-- the real thing: current table, current code, configured prefix lists -/
def handle (c : Config) (scmd : Bytes) (args : List Bytes) : M (List Bytes × Bool) :=
  handleWith false table c.active (fun k => !filterKey c k) scmd args

/-! ### the caller: `redis.ParseArgs` lower-cases the command name -/

/-- `strings.ToLower` on an ASCII name (command names on a replication stream are ASCII; Go additionally
    folds non-ASCII letters, which is outside the model) -/
def toLowerByte (b : UInt8) : UInt8 := if 0x41 ≤ b ∧ b ≤ 0x5a then b + 0x20 else b
def toLower (s : Bytes) : Bytes := s.map toLowerByte

/-- `ParseArgs` on an array of bulk strings `[cmd, args…]`; `none` = error "empty command" -/
def parseArgs (cmd : Bytes) (args : List Bytes) : Option (Bytes × List Bytes) :=
  let c := toLower cmd
  if c.isEmpty then none else some (c, args)

/-- parseSourceCommand's pair of calls: ParseArgs, then HandleFilterKeyWithCommand -/
def handleWire (c : Config) (cmd : Bytes) (args : List Bytes) : Option (M (List Bytes × Bool)) :=
  (parseArgs cmd args).map fun p => handle c p.1 p.2

end RSVerif.KeyFilter
