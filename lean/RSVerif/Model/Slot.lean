import RSVerif.Basic
import RSVerif.Spec.Slot
import RSVerif.Generated.Crc16Tables
import RSVerif.Generated.C15Search
import RSVerif.Generated.C15Consts
import RSVerif.Generated.C15LatSearch
/-
Models of the slot code (C15):
  crc16                 redis-shake/common/crc16.go:82  and  dbSync/latencymonitor/crc16.go:82
                        (two copies of the table driven loop; tables regenerated from the source)
  KeyToSlot             redis-shake/common/slot.go:15   (with fixes/C15-first-tag.patch: the scan stops
                        at the first '{'; the pinned behaviour is kept as `keyToSlotPinned`)
  ChoseSlotInRange /
  pickSuffixDfs         redis-shake/common/slot.go:35/48 (EXTERNAL redis.GetSlot of redis-go-cluster is
                        modelled by the specification `slotSpec` and compared on every harness case)
  FilterKey             redis-shake/filter/filter.go:31
  findKeyInRange        dbSync/latencymonitor/producer.go:55
Core Lean only.
-/
namespace RSVerif.Slot
open RSVerif RSVerif.Spec.Slot

/-! ### crc16 (both copies) -/

/-- one iteration of `crc = (crc << uint16(8)) ^ crc16tab[((crc>>uint16(8))^uint16(buf[i]))&0x00FF]` -/
@[inline] def stepT (tbl : Array UInt16) (crc : UInt16) (b : UInt8) : UInt16 :=
  (crc <<< 8) ^^^ tbl[(((crc >>> 8) ^^^ b.toUInt16) &&& 0x00FF).toNat]!

def updateT (tbl : Array UInt16) (crc : UInt16) (bs : Bytes) : UInt16 := bs.foldl (stepT tbl) crc

/-- `crc16(buf)` with `var crc uint16` (= 0) -/
def crc16T (tbl : Array UInt16) (bs : Bytes) : UInt16 := updateT tbl 0 bs

/-- `utils.crc16` (redis-shake/common) -/
def crc16Common (bs : Bytes) : UInt16 := crc16T Generated.crc16TableCommon bs
/-- `latencymonitor.crc16` -/
def crc16Latency (bs : Bytes) : UInt16 := crc16T Generated.crc16TableLatency bs

/-! ### `for i, s := range key` — Go iterates over the RUNES of a string

Keys are arbitrary bytes. The language specification defines the iteration through UTF-8 decoding
(`unicode/utf8.DecodeRuneInString`): an ASCII byte is a rune of width 1; a well-formed multi-byte
sequence is one rune of width 2..4 (its continuation bytes are *not* visited); anything else yields
RuneError (0xFFFD) of width 1. `decodeRune` transcribes that function; the rune value is written
arithmetically (`(s0 & 0x1F) << 6 | (s1 & 0x3F)` = `(s0 % 32) * 64 + s1 % 64`, …).
-/

def runeError : Nat := 0xFFFD

/-- is `c` in `[lo, hi]` -/
@[inline] def inB (lo hi : Nat) (c : UInt8) : Bool := decide (lo ≤ c.toNat) && decide (c.toNat ≤ hi)

/-- a 2-byte sequence (lead byte 0xC2..0xDF): `n < sz`, then the accept range of `s[1]` -/
def decode2 (n0 : Nat) : Bytes → Nat × Nat
  | s1 :: _ =>
    if !inB 0x80 0xBF s1 then (runeError, 1)
    else ((n0 % 32) * 64 + s1.toNat % 64, 2)
  | _ => (runeError, 1)

/-- a 3-byte sequence (lead byte 0xE0..0xEF); `[lo, hi]` is the accept range of `s[1]` -/
def decode3 (n0 lo hi : Nat) : Bytes → Nat × Nat
  | s1 :: s2 :: _ =>
    if !inB lo hi s1 then (runeError, 1)
    else if !inB 0x80 0xBF s2 then (runeError, 1)
    else ((n0 % 16) * 4096 + (s1.toNat % 64) * 64 + s2.toNat % 64, 3)
  | _ => (runeError, 1)

/-- a 4-byte sequence (lead byte 0xF0..0xF4) -/
def decode4 (n0 lo hi : Nat) : Bytes → Nat × Nat
  | s1 :: s2 :: s3 :: _ =>
    if !inB lo hi s1 then (runeError, 1)
    else if !inB 0x80 0xBF s2 then (runeError, 1)
    else if !inB 0x80 0xBF s3 then (runeError, 1)
    else ((n0 % 8) * 262144 + (s1.toNat % 64) * 4096 + (s2.toNat % 64) * 64 + s3.toNat % 64, 4)
  | _ => (runeError, 1)

/-- `(rune, width)` of the first rune of the non-empty string `s0 :: rest`
    (`utf8.DecodeRuneInString`: tables `first` and `acceptRanges` written out; a string shorter than
    the announced size, or a byte outside its accept range, gives `(RuneError, 1)`) -/
def decodeRune (s0 : UInt8) (rest : Bytes) : Nat × Nat :=
  let n0 := s0.toNat
  if n0 < 0x80 then (n0, 1)                          -- first[s0] = as
  else if n0 < 0xC2 ∨ 0xF5 ≤ n0 then (runeError, 1)  -- first[s0] = xx
  else if n0 < 0xE0 then decode2 n0 rest             -- s1
  else if n0 < 0xF0 then                             -- s2 (0xE0), s4 (0xED), s3 (others)
    decode3 n0 (if n0 = 0xE0 then 0xA0 else 0x80) (if n0 = 0xED then 0x9F else 0xBF) rest
  else                                               -- s5 (0xF0), s7 (0xF4), s6 (others)
    decode4 n0 (if n0 = 0xF0 then 0x90 else 0x80) (if n0 = 0xF4 then 0x8F else 0xBF) rest

/-! ### KeyToSlot -/

/-- index of the first `c` in `l` -/
def indexOf (c : UInt8) : Bytes → Option Nat
  | [] => none
  | b :: bs => if b = c then some 0 else (indexOf c bs).map (· + 1)

/-- The inner loop, run on `l = key[i:]` (so `l` starts with the '{'):
    `for k := i; k < len(key); k++ { if key[k] == '}' { hashtag = key[i+1 : k]; break } }`.
    `some tag` if the assignment happens. (`k = i` cannot match because `key[i]` is '{'; Go would
    panic on `key[i+1:i]`, the model would give `[]` — unreachable, see `closeTag_cons`.) -/
def closeTag (l : Bytes) : Option Bytes :=
  match indexOf closeBrace l with
  | some off => some ((l.take off).drop 1)
  | none => none

/-- The outer loop up to the first rune that equals '{': returns `key[i:]` for that rune start `i`.
    `skip` = bytes of the current rune still to be passed over. -/
def scanOpen : Nat → Bytes → Option Bytes
  | _, [] => none
  | skip + 1, _ :: rest => scanOpen skip rest
  | 0, b :: rest =>
    let (r, w) := decodeRune b rest
    if r = openBrace.toNat then some (b :: rest) else scanOpen (w - 1) rest

/-- `hashtag` after the (repaired) loop: set by the first '{' only -/
def hashtagOf (key : Bytes) : Bytes :=
  match scanOpen 0 key with
  | some l => (closeTag l).getD []
  | none => []

/-- `KeyToSlot(key)` as repaired by fixes/C15-first-tag.patch -/
def keyToSlot (key : Bytes) : UInt16 :=
  let hashtag := hashtagOf key
  if hashtag.length > 0 then crc16Common hashtag &&& Generated.C15.keyToSlotMaskTag
  else crc16Common key &&& Generated.C15.keyToSlotMaskKey

/-- The pinned outer loop: it does NOT stop at the first '{'; every later '{' that has a '}' after
    it overwrites `hashtag` (`h`). -/
def scanPinned : Nat → Bytes → Bytes → Bytes
  | _, [], h => h
  | skip + 1, _ :: rest, h => scanPinned skip rest h
  | 0, b :: rest, h =>
    let (r, w) := decodeRune b rest
    let h' := if r = openBrace.toNat then (closeTag (b :: rest)).getD h else h
    scanPinned (w - 1) rest h'

/-- `KeyToSlot(key)` of the pinned tree (deviation D17) -/
def keyToSlotPinned (key : Bytes) : UInt16 :=
  let hashtag := scanPinned 0 key []
  if hashtag.length > 0 then crc16Common hashtag &&& Generated.C15.keyToSlotMaskTag
  else crc16Common key &&& Generated.C15.keyToSlotMaskKey

/-! ### ChoseSlotInRange / pickSuffixDfs -/

/-- the bytes visited by `for i = LO; i <= HI; i++` (`var i byte`; requires HI < 255, else the Go loop
    never ends) -/
def alphabet : List UInt8 :=
  (List.range (Generated.C15.suffixHi.toNat + 1 - Generated.C15.suffixLo.toNat)).map
    fun i => UInt8.ofNat (Generated.C15.suffixLo.toNat + i)

/-- `pickSuffixDfs(depth, judge, prefix)` with `n = checkpointSuffixLen - depth` letters still to
    append. `(false, "")` is `none`. `redis.GetSlot` never fails on a `[]byte`. -/
def pickSuffixDfs (judge : Nat → Bool) : Nat → Bytes → Option Bytes
  | 0, pre => if judge (slotSpec pre) then some pre else none
  | n + 1, pre => alphabet.findSome? fun c => pickSuffixDfs judge n (pre ++ [c])

/-- the closure `judge` of ChoseSlotInRange -/
def judge (left right : Int) (slot : Nat) : Bool := inRange left right slot

/-- `ChoseSlotInRange(prefix, left, right)`; returns the whole key (not only the suffix), "" if the
    search fails -/
def choseSlotInRange (pre : Bytes) (left right : Int) : Bytes :=
  (pickSuffixDfs (judge left right) Generated.C15.suffixLen (pre ++ Generated.C15.checkpointSep)).getD []

/-! ### FilterKey -/

/-- `FilterKey(key)` under `conf.Options.FilterKeyBlacklist = black`, `FilterKeyWhitelist = white`
    (true = the key is NOT passed on) -/
def filterKey (black white : List Bytes) (key : Bytes) : Bool :=
  if key = Generated.C15.checkpointKey then true                    -- innerFilterKeys
  else if Generated.C15.checkpointKey.isPrefixOf key then true      -- strings.HasPrefix(key, CheckpointKey)
  else if black.length ≠ 0 then black.any (·.isPrefixOf key)
  else if white.length ≠ 0 then !(white.any (·.isPrefixOf key))
  else false

/-- `FilterSlot(slot)` (redis-shake/filter/filter.go:52) with `conf.Options.FilterSlot` already parsed
    to integers (`strconv.Atoi`; its error handling belongs to C06): true = the key is NOT passed on -/
def filterSlot (allowed : List Nat) (slot : Nat) : Bool :=
  if allowed.length = 0 then false else !(allowed.contains slot)

/-- the decision of dbSync/syncRDB.go:58-69 for one RDB entry: true = skipped -/
def fullSyncSkips (black white : List Bytes) (allowed : List Nat) (key : Bytes) : Bool :=
  if filterKey black white key then true else filterSlot allowed (keyToSlot key).toNat

/-! ### latencymonitor.findKeyInRange -/

/-- `fmt.Sprintf("%s%s", keyPrefix, strconv.Itoa(i))` (`Spec.Slot.itoa` = `strconv.Itoa` for `i ≥ 0`) -/
def latencyKey (i : Nat) : Bytes := Generated.C15.latencyKeyPrefix ++ itoa i

/-- `int(crc16(key) & (16384 - 1))` -/
def latencySlot (key : Bytes) : Nat := (crc16Latency key &&& Generated.C15.latencyMask).toNat

/-- `for i := 0; ; i++ { … }` run for at most `fuel` iterations starting at `i`; `none` = still
    searching after that many iterations (the Go loop has no bound). -/
def findKeyFrom (min max : Int) : Nat → Nat → Option Bytes
  | 0, _ => none
  | fuel + 1, i =>
    if inRange min max (latencySlot (latencyKey i)) then some (latencyKey i)
    else findKeyFrom min max fuel (i + 1)

def findKeyInRange (fuel : Nat) (min max : Int) : Option Bytes := findKeyFrom min max fuel 0

end RSVerif.Slot
