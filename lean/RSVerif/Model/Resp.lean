import RSVerif.Basic
import RSVerif.Spec.Resp
import RSVerif.Generated.RespConsts
/-
Executable model of src/pkg/redis/{encoder.go, decoder.go, handler.go} (property C10).

  itos / encodeResp …                 encoder.go:31-167   (the `imap` bounds are regenerated from the source)
  parseInt                            strconv.ParseInt(s, 10, 64)   (trusted base, restated)
  decodeType / decodeText / decodeInt / decodeBulkBytes / decodeArray /
  decodeSingleLineBulkBytesArray / decodeResp        decoder.go:66-218
  parseArgs / changeArgsToResp        handler.go:86-117

The decoder state is the pair (bytes still in the stream, `offset`); every function returns the new pair.
`bufio.Reader` is taken as given: `ReadByte`, `ReadBytes('\n')`, `io.ReadFull` and `UnreadByte` behave as on
the plain byte sequence, independently of how the underlying reader fragments it.
`offset` moves exactly where the Go code moves it (DESIGN.md, appendix D).

`decodeRespG fixed`: `fixed = true` is the tree with fixes/C10-inline-offset.patch applied (`d.offset--` after
`UnreadByte`), `fixed = false` the pinned behaviour (deviation D13).
-/
namespace RSVerif.Resp
open RSVerif RSVerif.Spec.Resp

/-! ### encoder -/

/-- two's complement wrap of a Go `int64` expression -/
def wrap64 (i : Int) : Int := (i + 9223372036854775808) % 18446744073709551616 - 9223372036854775808

/-- `imap[n]` as filled by `init()`: `strconv.Itoa(n + imapFillOff)` -/
def imapEntry (n : Int) : Bytes := fmtInt (n + Generated.C10.imapFillOff)

/-- `itos`: `if n := i + 1024; n >= 0 && n < int64(len(imap)) { return imap[n] } else { FormatInt(i, 10) }` -/
def itos (i : Int) : Bytes :=
  let n := wrap64 (i + Generated.C10.imapLookupOff)
  if 0 ≤ n ∧ n < Generated.C10.imapLen then imapEntry n else fmtInt i

/-- `encodeInt` = `encodeString(itos(v))` -/
def encodeInt (v : Int) : Bytes := itos v ++ crlf

mutual
/-- `encoder.encodeResp` -/
def encodeResp : Resp → Bytes
  | .str b => 43 :: (b ++ crlf)
  | .err b => 45 :: (b ++ crlf)
  | .int i => 58 :: encodeInt i
  | .bulk none => 36 :: encodeInt (-1)
  | .bulk (some b) => 36 :: (encodeInt b.length ++ (b ++ crlf))
  | .arr none => 42 :: encodeInt (-1)
  | .arr (some l) => 42 :: (encodeInt l.length ++ encodeList l)
/-- the loop of `encoder.encodeArray` -/
def encodeList : List Resp → Bytes
  | [] => []
  | x :: xs => encodeResp x ++ encodeList xs
end

/-! ### strconv.ParseInt(s, 10, 64) -/

def isDigit (b : UInt8) : Bool := 48 ≤ b && b ≤ 57

/-- digit loop of `ParseUint` (unbounded accumulator; the range test is applied afterwards) -/
def parseDigits : Nat → Bytes → Option Nat
  | acc, [] => some acc
  | acc, b :: bs => if isDigit b then parseDigits (acc * 10 + (b.toNat - 48)) bs else none

/-- `ParseUint` without the 64-bit cut-off: non-empty, digits only -/
def parseUint (s : Bytes) : Option Nat :=
  match s with
  | [] => none
  | _ => parseDigits 0 s

/-- `strconv.ParseInt(s, 10, 64)`: optional sign, digits, range −2^63 … 2^63−1; `none` = any error -/
def parseInt (s : Bytes) : Option Int :=
  match s with
  | [] => none
  | c :: t =>
    let neg := c == 45
    let body := if c == 43 || c == 45 then t else s
    match parseUint body with
    | none => none
    | some un =>
      if !neg && un ≥ 9223372036854775808 then none
      else if neg && un > 9223372036854775808 then none
      else some (if neg then -(un : Int) else (un : Int))

/-! ### decoder -/

inductive Err where
  | eof          -- io.EOF / io.ErrUnexpectedEOF
  | crlf         -- ErrBadRespCRLFEnd
  | badInt       -- strconv error
  | bytesLen     -- ErrBadRespBytesLen
  | arrayLen     -- ErrBadRespArrayLen
  | badType      -- "bad resp type" at depth ≠ 0
  | lenOverflow  -- `make([]byte, n+2)` with `n+2` overflowing int64 (runtime panic)
  | fuel         -- nesting budget of the model exhausted (never happens: `decode_ne_fuel`)
  deriving DecidableEq, Repr, Inhabited

/-- result of a decoder step: value, bytes left in the stream, new offset -/
abbrev DRes (α : Type) := Except Err (α × Bytes × Nat)

/-- `decodeType`: `offset++` before every `ReadByte`, LF bytes are skipped. (On EOF the Go code has already
incremented the offset; after an error the decoder is dead, so the model carries no state.) -/
def decodeType : Bytes → Nat → DRes UInt8
  | [], _ => .error .eof
  | b :: rest, off => if b = 10 then decodeType rest (off + 1) else .ok (b, rest, off + 1)

/-- `ReadBytes('\n')`: the line including its LF and what follows; `none` if there is no LF (EOF) -/
def splitLF : Bytes → Option (Bytes × Bytes)
  | [] => none
  | b :: rest =>
    if b = 10 then some ([b], rest)
    else match splitLF rest with
      | none => none
      | some (l, r) => some (b :: l, r)

/-- `decodeText`: `b := ReadBytes('\n'); offset += len(b); n := len(b)-2; n < 0 || b[n] != '\r' → error; b[:n]` -/
def decodeText (inp : Bytes) (off : Nat) : DRes Bytes :=
  match splitLF inp with
  | none => .error .eof
  | some (line, rest) =>
    if line.length < 2 ∨ line.getD (line.length - 2) 0 ≠ 13 then .error .crlf
    else .ok (line.take (line.length - 2), rest, off + line.length)

/-- `decodeInt` -/
def decodeInt (inp : Bytes) (off : Nat) : DRes Int :=
  match decodeText inp off with
  | .error e => .error e
  | .ok (b, rest, off) =>
    match parseInt b with
    | none => .error .badInt
    | some n => .ok (n, rest, off)

/-- `decodeBulkBytes` -/
def decodeBulkBytes (inp : Bytes) (off : Nat) : DRes (Option Bytes) :=
  match decodeInt inp off with
  | .error e => .error e
  | .ok (n, rest, off) =>
    if n < -1 then .error .bytesLen
    else if n = -1 then .ok (none, rest, off)
    else if n + 2 > 9223372036854775807 then .error .lenOverflow
    else
      let k := n.toNat
      if rest.length < k + 2 then .error .eof          -- io.ReadFull
      else
        let b := rest.take (k + 2)
        if b.getD k 0 ≠ 13 ∨ b.getD (k + 1) 0 ≠ 10 then .error .crlf
        else .ok (some (b.take k), rest.drop (k + 2), off + (k + 2))

/-- pieces of an inline line: split at every single space, empty pieces dropped
(`for l, r := 0, 0; r <= n; r++ { if r == n || b[r] == ' ' { if l < r { append(b[l:r]) }; l = r+1 } }`);
`cur` is the current piece, reversed -/
def splitSp : Bytes → Bytes → List Bytes
  | cur, [] => if cur.isEmpty then [] else [cur.reverse]
  | cur, b :: bs =>
    if b = 32 then (if cur.isEmpty then splitSp [] bs else cur.reverse :: splitSp [] bs)
    else splitSp (b :: cur) bs

/-- `decodeSingleLineBulkBytesArray` (the stream still contains the un-read first byte).
No piece ⇒ `resp.Value` stays nil. -/
def decodeInline (inp : Bytes) (off : Nat) : DRes Resp :=
  match splitLF inp with
  | none => .error .eof
  | some (line, rest) =>
    if line.length < 2 ∨ line.getD (line.length - 2) 0 ≠ 13 then .error .crlf
    else
      let pieces := splitSp [] (line.take (line.length - 2))
      let v := if pieces.isEmpty then Resp.arr none else Resp.arr (some (pieces.map fun p => Resp.bulk (some p)))
      .ok (v, rest, off + line.length)

/-- the loop of `decodeArray`: `n` values one after the other with the element decoder `g` -/
def decodeSeq (g : Bytes → Nat → DRes Resp) : Nat → Bytes → Nat → DRes (List Resp)
  | 0, inp, off => .ok ([], inp, off)
  | n + 1, inp, off =>
    match g inp off with
    | .error e => .error e
    | .ok (x, inp, off) =>
      match decodeSeq g n inp off with
      | .error e => .error e
      | .ok (xs, inp, off) => .ok (x :: xs, inp, off)

/-- The body of `decodeResp(depth)`; `elem` decodes one array element (the recursive call `decodeResp(depth+1)`). -/
def decodeBody (fixed : Bool) (elem : Bytes → Nat → DRes Resp) (depth : Nat) (inp : Bytes) (off : Nat) : DRes Resp :=
  match decodeType inp off with
  | .error e => .error e
  | .ok (t, rest, off1) =>
    if t = 43 then
      match decodeText rest off1 with
      | .error e => .error e
      | .ok (b, r, o) => .ok (.str b, r, o)
    else if t = 45 then
      match decodeText rest off1 with
      | .error e => .error e
      | .ok (b, r, o) => .ok (.err b, r, o)
    else if t = 58 then
      match decodeInt rest off1 with
      | .error e => .error e
      | .ok (i, r, o) => .ok (.int i, r, o)
    else if t = 36 then
      match decodeBulkBytes rest off1 with
      | .error e => .error e
      | .ok (b, r, o) => .ok (.bulk b, r, o)
    else if t = 42 then
      -- decodeArray
      match decodeInt rest off1 with
      | .error e => .error e
      | .ok (n, rest2, off2) =>
        if n < -1 then .error .arrayLen
        else if n = -1 then .ok (.arr none, rest2, off2)
        else
          match decodeSeq elem n.toNat rest2 off2 with
          | .error e => .error e
          | .ok (xs, r, o) => .ok (.arr (some xs), r, o)
    else if depth ≠ 0 then .error .badType
    else
      -- UnreadByte: the byte is back in the stream; the repaired code also takes back its `offset++`
      decodeInline (t :: rest) (if fixed then off1 - 1 else off1)

/-- `decodeResp(depth)`. The first argument is the nesting budget of the model (one unit per array level);
the Go recursion has no such bound, and none is needed: `decodeRespG_ne_fuel`, `decodeRespG_fuel_irrelevant`. -/
def decodeRespG (fixed : Bool) : Nat → Nat → Bytes → Nat → DRes Resp
  | 0, _, _, _ => .error .fuel
  | fuel + 1, depth, inp, off => decodeBody fixed (decodeRespG fixed fuel (depth + 1)) depth inp off

/-- the five RESP type bytes -/
def isTypeByte (t : UInt8) : Bool := t = 43 || t = 45 || t = 58 || t = 36 || t = 42

/-- the next value of the stream is an inline (non-RESP) command line: the first byte that is not LF is not a
RESP type byte -/
def startsInline (inp : Bytes) : Bool :=
  match decodeType inp 0 with
  | .ok (t, _, _) => !isTypeByte t
  | .error _ => false

/-- one top-level value with the repaired decoder (`MustDecodeOpt` without the abort).
The nesting budget `length + 1` always suffices (`Properties.C10.decode_ne_fuel`, `decode_fuel_irrelevant`). -/
def decode (inp : Bytes) (off : Nat) : DRes Resp := decodeRespG true (inp.length + 1) 0 inp off

/-- the same for the pinned tree (D13) -/
def decodePinned (inp : Bytes) (off : Nat) : DRes Resp := decodeRespG false (inp.length + 1) 0 inp off

/-- all values of a stream until the first error: (value, offset after it, bytes left) per value, and the error.
The first argument bounds the number of values; `length + 1` suffices (`Properties.C10.decodeStream_ne_fuel`). -/
def decodeStream (fixed : Bool) : Nat → Bytes → Nat → List (Resp × Nat × Nat) × Err
  | 0, _, _ => ([], .fuel)
  | n + 1, inp, off =>
    match decodeRespG fixed (inp.length + 1) 0 inp off with
    | .error e => ([], e)
    | .ok (v, rest, off') =>
      let (vs, e) := decodeStream fixed n rest off'
      ((v, off', rest.length) :: vs, e)

/-! ### handler.go -/

inductive ArgErr where
  | notArray | emptyArray | notBulk | emptyCmd
  deriving DecidableEq, Repr

/-- ASCII lower-casing (`strings.ToLower` on ASCII text; non-ASCII command names are outside the model) -/
def lowerByte (b : UInt8) : UInt8 := if 65 ≤ b ∧ b ≤ 90 then b + 32 else b

/-- `AsBulkBytes` over the items -/
def asBulks : List Resp → Except ArgErr (List (Option Bytes))
  | [] => .ok []
  | .bulk b :: xs =>
    match asBulks xs with
    | .error e => .error e
    | .ok bs => .ok (b :: bs)
  | _ :: _ => .error .notBulk

/-- `ParseArgs`: (lower-cased command, remaining arguments; a nil argument stays nil) -/
def parseArgs (r : Resp) : Except ArgErr (Bytes × List (Option Bytes)) :=
  match r with
  | .arr a =>
    match a.getD [] with
    | [] => .error .emptyArray
    | items =>
      match asBulks items with
      | .error e => .error e
      | .ok [] => .error .emptyArray
      | .ok (c :: args) =>
        let cmd := (c.getD []).map lowerByte
        if cmd.isEmpty then .error .emptyCmd else .ok (cmd, args)
  | _ => .error .notArray

/-- `ChangeArgsToResp` -/
def changeArgsToResp (cmd : Option Bytes) (args : List (Option Bytes)) : Resp :=
  .arr (some (.bulk cmd :: args.map Resp.bulk))

end RSVerif.Resp
