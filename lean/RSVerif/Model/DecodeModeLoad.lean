import RSVerif.Model.RdbRead
import RSVerif.Model.RdbDecode
import RSVerif.Model.DecodeMode
import RSVerif.Generated.Consts
/-
Bridge used only for byte-level witnesses of C17: what `decoderMain` sees for a record delivered by the RDB
loader. `Rdb.run` is C01's model of `utils.NewRDBLoader` (pkg/rdb/loader.go, incl. the hash chunking),
`RdbDecode.decodeDump` is C12's model of `rdb.DecodeDump` (unmodified copy of C12's file). Core Lean only.
-/
namespace RSVerif.DecodeMode
open RSVerif RSVerif.Spec.DecodeMode

def ofLValue : RdbDecode.LValue → Value
  | .str s => .str s
  | .list xs => .list xs
  | .set xs => .set xs
  | .hash fvs => .hash fvs
  | .zset ms => .zset ms

/-- `e.Type == rdb.RdbFlagAUX` → raw key/value; otherwise `rdb.DecodeDump(e.Value)`, `none` on error. -/
def entryOfBin (pf : Bytes → Option UInt64) (e : Rdb.Entry) : Entry :=
  if e.type = 0xfa then .aux e.key e.value
  else .obj e.db e.expireAt e.key
    (match RdbDecode.decodeDump pf e.value with | .ok v => some (ofLValue v) | .error _ => none)

/-- the entries `ipipe` carries for a file, with chunk limit `L` (16 MiB in the real build). -/
def loaderEntries (pf : Bytes → Option UInt64) (L : Nat) (file : Bytes) : List Entry :=
  (Rdb.run (fun t => (pf t).isSome) true L Generated.rdbFromVersion file).1.map (entryOfBin pf)

/-- witness file: hash "h" = {a: 40×'x', b: 40×'y', c: 40×'z'} in plain (type 4) encoding, 135 value bytes. -/
def chunkWitnessFile : Bytes :=
  ascii "REDIS0009" ++ [4, 1, 0x68, 3] ++
  [1, 0x61, 40] ++ List.replicate 40 0x78 ++ [1, 0x62, 40] ++ List.replicate 40 0x79 ++
  [1, 0x63, 40] ++ List.replicate 40 0x7a ++ [0xff] ++ [0xda, 0x20, 0xe7, 0x28, 0xc4, 0x23, 0x42, 0xbf]

def chunkWitnessItem : Item :=
  .key ⟨0, 0, [0x68], .hash [([0x61], List.replicate 40 0x78), ([0x62], List.replicate 40 0x79),
                             ([0x63], List.replicate 40 0x7a)]⟩

end RSVerif.DecodeMode
