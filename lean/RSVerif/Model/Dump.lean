import RSVerif.Model.Crc64
import RSVerif.Spec.Crc64
import RSVerif.Generated.Consts
/-
Models of the DUMP payload trailer code:
  createValueDump        pkg/rdb/loader.go:223
  verifyDump             pkg/libs/cupcake/rdb/decoder.go:817   (in-repo cupcake crc64 table)
  CheckVersionChecksum   redis-shake/common/common.go:137      (EXTERNAL github.com/cupcake/rdb/crc64,
                                                               modelled by the bitwise specification)
  Loader.Footer          pkg/rdb/loader.go (checksum comparison only)
-/
namespace RSVerif.Dump
open RSVerif

def ofLe16 : Bytes → UInt16
  | [a, b] => a.toUInt16 ||| (b.toUInt16 <<< 8)
  | _ => 0

inductive Err | length | version | crc
  deriving DecidableEq, Repr

def toVersion16 : UInt16 := UInt16.ofNat Generated.rdbToVersion.toNat

/-- `createValueDump(t, val)` -/
def createValueDump (t : UInt8) (val : Bytes) : Bytes :=
  let body := [t] ++ val ++ le16 toVersion16
  body ++ le64 (Crc64.digestUpdate 0 body)

/-- `verifyDump(d)` of the in-repo cupcake decoder -/
def verifyDump (d : Bytes) : Except Err Unit :=
  if d.length < 10 then .error .length
  else
    let version := ofLe16 ((d.drop (d.length - 10)).take 2)
    if version ≠ UInt16.ofNat Generated.cupcakeVersion.toNat then .error .version
    else if ofLe64 (d.drop (d.length - 8)) ≠ Crc64.cupcakeUpdate 0 (d.take (d.length - 8)) then .error .crc
    else .ok ()

/-- `rdbVersion` as computed by `CheckVersionChecksum`: `uint(d[footer+1])<<8 | uint(d[footer])`
   (after the fix of D14; the pinned code shifted a `byte`, losing the high byte) -/
def versionOf (d : Bytes) : Nat := (ofLe16 ((d.drop (d.length - 10)).take 2)).toNat

/-- the pinned, defective computation `uint((d[footer+1] << 8) | d[footer])` on bytes: the shift is
    performed in 8 bits, so the high byte vanishes. Kept for the counter-example theorem. -/
def versionOfPinned (d : Bytes) : Nat :=
  match (d.drop (d.length - 10)).take 2 with
  | [a, _b] => a.toNat   -- Go: `byte << 8` is 0 (Lean's UInt8 shift would reduce the amount mod 8)
  | _ => 0

/-- `CheckVersionChecksum(d)`: returns (version, checksum) -/
def checkVersionChecksum (d : Bytes) : Except Err (Nat × UInt64) :=
  if d.length < 10 then .error .length
  else
    let v := versionOf d
    if v > Generated.commonRDBVersion.toNat then .error .version
    else
      let checksum := ofLe64 (d.drop (d.length - 8))
      if checksum ≠ Spec.Crc64.crc64 (d.take (d.length - 8)) then .error .crc
      else .ok (v, checksum)

def checkVersionChecksumPinned (d : Bytes) : Except Err (Nat × UInt64) :=
  if d.length < 10 then .error .length
  else
    let v := versionOfPinned d
    if v > Generated.commonRDBVersion.toNat then .error .version
    else
      let checksum := ofLe64 (d.drop (d.length - 8))
      if checksum ≠ Spec.Crc64.crc64 (d.take (d.length - 8)) then .error .crc
      else .ok (v, checksum)

/-- The comparison `Loader.Footer` performs: `covered` = every byte read so far (header … 0xFF),
    `trailer` = the next 8 bytes. -/
def footerOk (covered trailer : Bytes) : Bool :=
  ofLe64 trailer == Crc64.digestUpdate 0 covered

end RSVerif.Dump
