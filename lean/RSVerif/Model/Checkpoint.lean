import RSVerif.Basic
import RSVerif.Generated.CheckpointConsts
/-
Executable model of the checkpoint loader (C14), transcribed from
  src/redis-shake/common/command.go      ParseKeyspace
  src/redis-shake/checkpoint/checkpoint.go  LoadCheckpoint / fetchCheckpoint / ClearCheckpoint
over a small MiniRedis state  db ↦ (checkpoint hash in HGETALL order, number of other keys).

Byte strings are `List UInt8` (Go strings are byte strings; Redis field names and values are binary safe).
Core Lean only; every definition is structurally recursive so that closed instances reduce in the kernel.

Two field matchers are modelled: `exactMatch` (the tree with fixes/C14-exact-fields.patch applied — the main
model) and `pinnedMatch` (`strings.HasPrefix(field, addr)` + `strings.Contains(field, word)`, the pinned tree,
kept for the counter-example D16).
-/
namespace RSVerif.Checkpoint
open RSVerif

/-! ### Go `strconv.ParseInt(s, 10, 64)` (= `strconv.Atoi` on a 64-bit platform) -/

def digitVal (b : UInt8) : Option Nat :=
  if 48 ≤ b.toNat ∧ b.toNat ≤ 57 then some (b.toNat - 48) else none

/-- digits only, most significant first; `none` on the first non-digit (Go: `ErrSyntax`) -/
def parseDigits : Bytes → Nat → Option Nat
  | [], acc => some acc
  | b :: bs, acc =>
    match digitVal b with
    | none => none
    | some d => parseDigits bs (acc * 10 + d)

def two63 : Nat := 9223372036854775808

/-- `strconv.ParseInt(s, 10, 64)`: optional sign, at least one digit, digits only (no `_` in base 10),
    range −2^63 … 2^63−1; any failure is `none` (the callers only test `err != nil`). -/
def parseInt64 (s : Bytes) : Option Int :=
  let neg := s.head? == some 45
  let ds := if s.head? == some 43 ∨ s.head? == some 45 then s.drop 1 else s
  if ds.isEmpty then none else
  match parseDigits ds 0 with
  | none => none
  | some n =>
    if neg then (if n ≤ two63 then some (-(n : Int)) else none)
    else (if n < two63 then some (n : Int) else none)

/-- Go `int32(x)` of an `int` -/
def toInt32 (x : Int) : Int := (x + 2147483648) % 4294967296 - 2147483648

/-! ### decimal rendering (redigo renders `int`/`int64` arguments with `strconv.AppendInt(…, 10)`;
    MiniRedis renders `INFO keyspace` numbers the same way) -/

def digitChar (d : Nat) : UInt8 := UInt8.ofNat (48 + d)

def renderNatAux : Nat → Nat → Bytes → Bytes
  | 0, _, acc => acc
  | fuel + 1, n, acc =>
    if n < 10 then digitChar n :: acc else renderNatAux fuel (n / 10) (digitChar (n % 10) :: acc)

/-- decimal digits of `n`, no leading zeros ("0" for 0) -/
def renderNat (n : Nat) : Bytes := renderNatAux (n + 1) n []

def renderInt (i : Int) : Bytes :=
  if i < 0 then 45 :: renderNat i.natAbs else renderNat i.natAbs

/-! ### `bytes.Split` with a one-byte separator, `bytes.TrimSpace` (ASCII), prefix / substring tests -/

def splitAux (sep : UInt8) : Bytes → Bytes → List Bytes
  | [], cur => [cur.reverse]
  | b :: bs, cur => if b = sep then cur.reverse :: splitAux sep bs [] else splitAux sep bs (b :: cur)

/-- `bytes.Split(s, []byte{sep})`: always at least one piece -/
def splitOn (sep : UInt8) (s : Bytes) : List Bytes := splitAux sep s []

/-- ASCII white space of `bytes.TrimSpace` (`\t \n \v \f \r` and space). Multi-byte Unicode spaces
    (U+0085, U+00A0 …) are outside the model: INFO replies are ASCII. -/
def isSpace (b : UInt8) : Bool := b = 9 ∨ b = 10 ∨ b = 11 ∨ b = 12 ∨ b = 13 ∨ b = 32

def trimRight : Bytes → Bytes
  | [] => []
  | b :: bs =>
    match trimRight bs with
    | [] => if isSpace b then [] else [b]
    | r => b :: r

def trimSpace (s : Bytes) : Bytes := trimRight (s.dropWhile isSpace)

/-- `strings.Contains(s, p)` -/
def containsSub (p : Bytes) : Bytes → Bool
  | [] => p.isEmpty
  | b :: bs => p.isPrefixOf (b :: bs) || containsSub p bs

/-! ### `ParseKeyspace` -/

inductive KsResult where
  | ok (dbs : List Int)   -- key set of the returned map, in order of first insertion
  | err                   -- a non-nil error
  | panic                 -- `items[1]`: index out of range (a `db…` line without `:`)
deriving DecidableEq, Repr

def ksHeader : Bytes := [35, 32, 75, 101, 121, 115, 112, 97, 99, 101]   -- "# Keyspace"
def ksDb : Bytes := [100, 98]                                          -- "db"
def ksKeys : Bytes := [107, 101, 121, 115, 61]                         -- "keys="

inductive LineResult where
  | skip | db (d : Int) | err | panic
deriving DecidableEq, Repr

/-- one iteration of the loop over lines -/
def ksLine (raw : Bytes) : LineResult :=
  let line := trimSpace raw
  if !ksDb.isPrefixOf line then .skip else
  let items := splitOn 58 line                       -- ':'
  match parseInt64 ((items.headD []).drop 2) with    -- strconv.Atoi(items[0][2:])
  | none => .err
  | some db =>
    match items with
    | _ :: item1 :: _ =>
      let n0 := (splitOn 44 item1).headD []          -- nums[0], split at ','
      if !ksKeys.isPrefixOf n0 then .err else
      match parseInt64 (n0.drop 5) with              -- strconv.ParseInt(nums[0][5:], 10, 0)
      | none => .err
      | some _ => .db (toInt32 db)                   -- reply[int32(db)] = …
    | _ => .panic

def insertKey (k : Int) (acc : List Int) : List Int := if k ∈ acc then acc else acc ++ [k]

def ksLines : List Bytes → List Int → KsResult
  | [], acc => .ok acc
  | l :: ls, acc =>
    match ksLine l with
    | .skip => ksLines ls acc
    | .db d => ksLines ls (insertKey d acc)
    | .err => .err
    | .panic => .panic

def parseKeyspace (content : Bytes) : KsResult :=
  if !ksHeader.isPrefixOf content then .err else ksLines (splitOn 10 content) []

/-! ### MiniRedis state seen by the loader -/

/-- a hash in HGETALL order (field, value) -/
abbrev Hash := List (Bytes × Bytes)

structure Db where
  ckpt : Hash      -- the checkpoint hash (empty list = the key does not exist)
  others : Nat     -- number of other keys in this logical db
deriving DecidableEq, Repr

abbrev State := List (Int × Db)

def hashOf (st : State) (d : Int) : Hash :=
  match st.find? (fun p => p.1 == d) with
  | some p => p.2.ckpt
  | none => []

def mapHash (st : State) (d : Int) (f : Hash → Hash) : State :=
  st.map fun p => if p.1 == d then (p.1, { p.2 with ckpt := f p.2.ckpt }) else p

def dbKeyCount (db : Db) : Nat := db.others + (if db.ckpt.isEmpty then 0 else 1)

def infoLine (p : Int × Db) : Bytes :=
  ksDb ++ renderInt p.1 ++ [58] ++ ksKeys ++ renderNat (dbKeyCount p.2) ++
    [44, 101, 120, 112, 105, 114, 101, 115, 61, 48, 44, 97, 118, 103, 95, 116, 116, 108, 61, 48, 13, 10]
    -- ",expires=0,avg_ttl=0\r\n"

/-- dbs that `INFO keyspace` lists: the non-empty ones -/
def liveDbs (st : State) : State := st.filter fun p => 0 < dbKeyCount p.2

/-- MiniRedis `INFO keyspace` (Appendix E): header, then one line per non-empty db -/
def infoKeyspace (st : State) : Bytes := ksHeader ++ [13, 10] ++ (liveDbs st).flatMap infoLine

/-! ### field names and the two matchers -/

def sep : Bytes := [45]                                  -- the "-" of "%s-%s"
def offsetField (addr : Bytes) : Bytes := addr ++ sep ++ Generated.C14.ckptOffset
def runIdField (addr : Bytes) : Bytes := addr ++ sep ++ Generated.C14.ckptRunId
def versionField (addr : Bytes) : Bytes := addr ++ sep ++ Generated.C14.ckptVersion

/-- which of (offset, runid, version) a hash field is taken for -/
structure Kinds where
  isOffset : Bool
  isRunId : Bool
  isVersion : Bool
deriving DecidableEq, Repr

abbrev Matcher := Bytes → Bytes → Kinds

/-- repaired tree: `lineS == "<addr>-offset"` … -/
def exactMatch : Matcher := fun addr f =>
  ⟨f == offsetField addr, f == runIdField addr, f == versionField addr⟩

/-- pinned tree: `strings.HasPrefix(lineS, addr)` and then `strings.Contains(lineS, word)` -/
def pinnedMatch : Matcher := fun addr f =>
  let pre := addr.isPrefixOf f
  ⟨pre && containsSub Generated.C14.ckptOffset f, pre && containsSub Generated.C14.ckptRunId f,
   pre && containsSub Generated.C14.ckptVersion f⟩

/-! ### `fetchCheckpoint` -/

structure Fetched where
  runid : Bytes
  offset : Int
  version : Int
deriving DecidableEq, Repr

def unknownRunId : Bytes := [63]   -- "?"

/-- one pair of the HGETALL reply; `none` = a `strconv.ParseInt` error is returned -/
def fetchPair (k : Kinds) (v : Bytes) (acc : Fetched) : Option Fetched :=
  match (if k.isOffset then (parseInt64 v).map (fun o => { acc with offset := o }) else some acc) with
  | none => none
  | some a1 =>
    let a2 := if k.isRunId then { a1 with runid := v } else a1
    if k.isVersion then (parseInt64 v).map (fun x => { a2 with version := x }) else some a2

def fetchLoop (m : Bytes → Kinds) : Hash → Fetched → Option Fetched
  | [], acc => some acc
  | (f, v) :: rest, acc =>
    match fetchPair (m f) v acc with
    | none => none
    | some a => fetchLoop m rest a

/-- `select db; exists name; hgetall name` and the loop over the reply. `none` = error. -/
def fetchCheckpoint (m : Matcher) (addr : Bytes) (h : Hash) : Option Fetched :=
  if h.isEmpty then some ⟨[], -1, -1⟩            -- `exists` = 0
  else fetchLoop (m addr) h ⟨unknownRunId, -1, 0⟩

/-! ### `LoadCheckpoint`: the loop over `range mp`, the gate, `ClearCheckpoint` -/

structure Acc where
  newest : Int
  runid : Bytes
  db : Int
  version : Int
deriving DecidableEq, Repr

def Acc.init : Acc := ⟨-1, [], 0, -1⟩

def scanStep (m : Matcher) (addr : Bytes) (st : State) (acc : Acc) (d : Int) : Option Acc :=
  match fetchCheckpoint m addr (hashOf st d) with
  | none => none
  | some f => if f.offset > acc.newest then some ⟨f.offset, f.runid, d, f.version⟩ else some acc

/-- the loop `for db := range mp` in the order `ord`; `none` = a fetch error was returned -/
def scan (m : Matcher) (addr : Bytes) (st : State) : List Int → Acc → Option Acc
  | [], acc => some acc
  | d :: ds, acc =>
    match scanStep m addr st acc d with
    | none => none
    | some a => scan m addr st ds a

/-- the fields of `hdel name <addr>-runid <addr>-offset` -/
def clearFields (addr : Bytes) : List Bytes := [runIdField addr, offsetField addr]

def clearHash (addr : Bytes) (h : Hash) : Hash := h.filter fun p => !(clearFields addr).contains p.1

def clearStep (addr : Bytes) (exceptDb : Int) (st : State) (d : Int) : State :=
  if d = exceptDb then st else mapHash st d (clearHash addr)

/-- `ClearCheckpoint`: `for db := range dbKeyMap` in the order `ord` -/
def clearAll (addr : Bytes) (exceptDb : Int) (ord : List Int) (st : State) : State :=
  ord.foldl (clearStep addr exceptDb) st

inductive Ret where
  | ok (runid : Bytes) (offset : Int) (db : Int)
  | err
  | panic
deriving DecidableEq, Repr

/-- `LoadCheckpoint` after `ParseKeyspace` succeeded: `ord1` is the iteration order of the first
    `range mp`, `ord2` that of the one inside `ClearCheckpoint`. Returns the tuple and the state afterwards. -/
def loadFrom (m : Matcher) (addr : Bytes) (st : State) (ord1 ord2 : List Int) : Ret × State :=
  match scan m addr st ord1 Acc.init with
  | none => (.err, st)
  | some acc =>
    if acc.version ≠ -1 ∧ acc.version < Generated.C14.fcvCheckpointCompatible then (.err, st)
    else
      let recDb := if acc.runid = unknownRunId then -1 else acc.db
      (.ok acc.runid acc.newest recDb, clearAll addr recDb ord2 st)

/-- `LoadCheckpoint` on the text `ks` served for `INFO keyspace`, given iteration orders -/
def loadText (m : Matcher) (addr ks : Bytes) (st : State) (ord : List Int → List Int × List Int) : Ret × State :=
  match parseKeyspace ks with
  | .err => (.err, st)
  | .panic => (.panic, st)
  | .ok dbs => loadFrom m addr st (ord dbs).1 (ord dbs).2

/-- Nondeterministic semantics of one `LoadCheckpoint` call against the target `st`:
    Go's `range` over the keyspace map may visit the dbs in any order, independently in both loops. -/
def LoadRun (m : Matcher) (addr : Bytes) (st : State) (r : Ret × State) : Prop :=
  match parseKeyspace (infoKeyspace st) with
  | .err => r = (.err, st)
  | .panic => r = (.panic, st)
  | .ok dbs => ∃ o1 o2, o1.Perm dbs ∧ o2.Perm dbs ∧ r = loadFrom m addr st o1 o2

/-! ### what the sender and the other actors do to the target (MiniRedis `hset`/`hdel`) -/

def hsetHash (f v : Bytes) : Hash → Hash
  | [] => [(f, v)]
  | (g, w) :: rest => if g = f then (f, v) :: rest else (g, w) :: hsetHash f v rest

/-- `hset name f v` in db `d` (creates the db entry if it has none) -/
def hset (st : State) (d : Int) (f v : Bytes) : State :=
  if st.any (fun p => p.1 == d) then mapHash st d (hsetHash f v) else st ++ [(d, ⟨[(f, v)], 0⟩)]

/-- `hdel name f` in db `d` -/
def hdel (st : State) (d : Int) (f : Bytes) : State := mapHash st d (fun h => h.filter fun p => p.1 != f)

/-- one flushed group of the sender with resume enabled (`multi … exec` is atomic): in the db of the
    group's last command, `hset runid` + `hset version CurrentVersion` the first time the session touches
    that db (`stamp`), then `hset offset`. -/
structure Batch where
  src : Bytes
  db : Int
  runid : Bytes
  offset : Int
  stamp : Bool
deriving DecidableEq, Repr

def applyBatch (st : State) (b : Batch) : State :=
  let st1 := if b.stamp then
      hset (hset st b.db (runIdField b.src) b.runid) b.db (versionField b.src) (renderInt Generated.C14.fcvCheckpointCurrent)
    else st
  hset st1 b.db (offsetField b.src) (renderInt b.offset)

end RSVerif.Checkpoint
