import RSVerif.Model.Dump
/-
Model of the RDB parser of pkg/rdb:
  reader.go   readEncodedLength / ReadLength / ReadString / lzfDecompress / ReadFloat / ReadDouble /
              readObjectValue (per-type value skipping with tee-capture, hash chunking state)
  mix.go      rdbLoadCheckModuleValue
  loader.go   Header / NextBinEntry / Footer / createValueDump (the latter in Model/Dump.lean)

A reader is a function from the remaining input to either (result, rest) or (error, rest-at-failure).
The rest at failure matters because NextBinEntry ignores the errors of the AUX and RESIZEDB readers and
simply goes on reading from wherever the failed reader stopped.

Byte-field arithmetic is written on `Nat` (`u.toNat / 64`, `% 64`) instead of `>> 6`, `& 0x3f`.
`pf` is the stand-in for `strconv.ParseFloat(text, 64)` succeeding (trusted, see DESIGN §3).
The hash chunk limit (`16*1024*1024` in the source, regenerated as `Generated.C01.chunkLimit`, see `Properties.C01.consts_tie`) is the
parameter `L`, so that the same model serves the scaled correspondence build.
-/
namespace RSVerif.Rdb
open RSVerif

inductive Err
  | eof            -- io.EOF / io.ErrUnexpectedEOF
  | badLength      -- "unknown encoding length"
  | encodedLength  -- "encoded-length" (ReadLength met an encoded marker)
  | badString      -- "invalid encoded-string"
  | lzf            -- decompress exception / length mismatch
  | float          -- strconv.ParseFloat failed
  | unknownType    -- "unknown object-type"
  | header         -- magic / version
  | checksum       -- footer mismatch
  deriving DecidableEq, Repr

abbrev R (α : Type) := Bytes → Except (Err × Bytes) (α × Bytes)

@[inline] def fail {α : Type} (e : Err) (rest : Bytes) : Except (Err × Bytes) α := .error (e, rest)

/-- `ReadByte` -/
def readByte : R UInt8
  | [] => fail .eof []
  | b :: r => .ok (b, r)

/-- `ReadBytes(n)` / `readFull`: io.ReadFull consumes everything that is there before failing -/
def readN (n : Nat) : R Bytes := fun inp =>
  if inp.length < n then fail .eof [] else .ok (inp.take n, inp.drop n)

/-- big-endian value of a byte list -/
def beNat (bs : Bytes) : Nat := bs.foldl (fun acc b => acc * 256 + b.toNat) 0
/-- little-endian value of a byte list -/
def leNat : Bytes → Nat
  | [] => 0
  | b :: r => b.toNat + 256 * leNat r

/-- `readEncodedLength`: (length as uint32, encoded flag) -/
def readEncodedLength : R (Nat × Bool) := fun inp =>
  match readByte inp with
  | .error e => .error e
  | .ok (u, r) =>
    match u.toNat / 64 with
    | 0 => .ok ((u.toNat % 64, false), r)
    | 1 =>
      match readByte r with
      | .error e => .error e
      | .ok (u2, r2) => .ok (((u.toNat % 64) * 256 + u2.toNat, false), r2)
    | 3 => .ok ((u.toNat % 64, true), r)
    | _ =>
      if u.toNat = 0x80 then
        match readN 4 r with
        | .error e => .error e
        | .ok (b, r2) => .ok ((beNat b, false), r2)
      else if u.toNat = 0x81 then
        -- readUint64BigEndian reads 8 bytes but returns BigEndian.Uint32 of the FIRST four
        match readN 8 r with
        | .error e => .error e
        | .ok (b, r2) => .ok ((beNat (b.take 4), false), r2)
      else fail .badLength r

/-- `ReadLength` -/
def readLength : R Nat := fun inp =>
  match readEncodedLength inp with
  | .error e => .error e
  | .ok ((n, enc), r) => if enc then fail .encodedLength r else .ok (n, r)

/-! ### decimal rendering (`strconv.FormatInt(i, 10)`) -/

def digitsRev : Nat → Nat → List UInt8
  | 0, _ => []
  | fuel + 1, n => if n < 10 then [UInt8.ofNat (48 + n)] else UInt8.ofNat (48 + n % 10) :: digitsRev fuel (n / 10)

def fmtNat (n : Nat) : Bytes := (digitsRev (n + 1) n).reverse

def fmtInt (i : Int) : Bytes :=
  if i < 0 then 45 :: fmtNat i.natAbs else fmtNat i.toNat

/-- two's complement reading of an unsigned little-endian value of `bits` bits -/
def signed (bits : Nat) (u : Nat) : Int :=
  if u < 2 ^ (bits - 1) then (u : Int) else (u : Int) - (2 ^ bits : Nat)

/-! ### LZF -/

/-- `for x := 0; x <= length+1; x++ { out[o] = out[ref]; ref++; o++ }` on a growing output;
    the caller has checked `ref < out.length` and the capacity. Overlap is allowed. -/
def copyRef : Nat → Nat → Bytes → Bytes
  | 0, _, out => out
  | n + 1, ref, out => copyRef n (ref + 1) (out ++ [out.getD ref 0])

/-- the decompression loop; `none` = a Go panic (index out of range), turned into an error by `recover` -/
def lzfLoop (outlen : Nat) : Nat → Bytes → Bytes → Option Bytes
  | 0, _, out => some out
  | fuel + 1, inp, out =>
    match inp with
    | [] => some out
    | c :: r =>
      let ctrl := c.toNat
      if ctrl < 32 then
        -- literal run of ctrl+1 bytes
        if r.length < ctrl + 1 then none
        else if out.length + (ctrl + 1) > outlen then none
        else lzfLoop outlen fuel (r.drop (ctrl + 1)) (out ++ r.take (ctrl + 1))
      else
        let len0 := ctrl / 32
        -- optional extra length byte
        match (if len0 = 7 then (match r with | [] => none | x :: r' => some (len0 + x.toNat, r')) else some (len0, r)) with
        | none => none
        | some (len, r1) =>
          match r1 with
          | [] => none
          | lo :: r2 =>
            let back := (ctrl % 32) * 256 + lo.toNat + 1
            if back > out.length then none                    -- ref < 0
            else if out.length + (len + 2) > outlen then none  -- out[o] beyond the buffer
            else lzfLoop outlen fuel r2 (copyRef (len + 2) (out.length - back) out)

/-- `lzfDecompress(in, outlen)` -/
def lzfDecompress (inp : Bytes) (outlen : Nat) : Option Bytes :=
  match lzfLoop outlen inp.length inp [] with
  | none => none
  | some out => if out.length = outlen then some out else none

/-- `ReadString`: the *logical* string -/
def readString : R Bytes := fun inp =>
  match readEncodedLength inp with
  | .error e => .error e
  | .ok ((n, enc), r) =>
    if !enc then readN n r
    else
      match n with
      | 0 => match readN 1 r with
             | .error e => .error e
             | .ok (b, r2) => .ok (fmtInt (signed 8 (leNat b)), r2)
      | 1 => match readN 2 r with
             | .error e => .error e
             | .ok (b, r2) => .ok (fmtInt (signed 16 (leNat b)), r2)
      | 2 => match readN 4 r with
             | .error e => .error e
             | .ok (b, r2) => .ok (fmtInt (signed 32 (leNat b)), r2)
      | 3 =>
        match readLength r with
        | .error e => .error e
        | .ok (inlen, r1) =>
          match readLength r1 with
          | .error e => .error e
          | .ok (outlen, r2) =>
            match readN inlen r2 with
            | .error e => .error e
            | .ok (cin, r3) =>
              match lzfDecompress cin outlen with
              | none => fail .lzf r3
              | some s => .ok (s, r3)
      | _ => fail .badString r

/-- `ReadFloat` (only success and position matter) -/
def readFloat (pf : Bytes → Bool) : R Unit := fun inp =>
  match readByte inp with
  | .error e => .error e
  | .ok (u, r) =>
    if u.toNat ≥ 253 then .ok ((), r)
    else match readN u.toNat r with
      | .error e => .error e
      | .ok (t, r2) => if pf t then .ok ((), r2) else fail .float r2

/-- `ReadDouble` -/
def readDouble : R Unit := fun inp =>
  match readN 8 inp with
  | .error e => .error e
  | .ok (_, r) => .ok ((), r)

/-- run a unit reader `n` times -/
def repeatR (f : R Unit) : Nat → R Unit
  | 0, inp => .ok ((), inp)
  | n + 1, inp => match f inp with
    | .error e => .error e
    | .ok (_, r) => repeatR f n r

def skipString : R Unit := fun inp =>
  match readString inp with
  | .error e => .error e
  | .ok (_, r) => .ok ((), r)

def skipLength : R Unit := fun inp =>
  match readLength inp with
  | .error e => .error e
  | .ok (_, r) => .ok ((), r)

def skipN (n : Nat) : R Unit := fun inp =>
  match readN n inp with
  | .error e => .error e
  | .ok (_, r) => .ok ((), r)

/-- sequencing of unit readers -/
def andThen (f g : R Unit) : R Unit := fun inp =>
  match f inp with
  | .error e => .error e
  | .ok (_, r) => g r

/-- read a count, then run `f` that many times -/
def counted (f : R Unit) : R Unit := fun inp =>
  match readLength inp with
  | .error e => .error e
  | .ok (n, r) => repeatR f n r

/-- the progress of a hash that is being delivered in chunks (fields of the *loader's* rdbReader) -/
structure ChunkSt where
  remain : Nat := 0     -- remainMember
  lastRead : Nat := 0   -- lastReadCount
  tot : Nat := 0        -- totMemberCount
  deriving DecidableEq, Repr

/-- the hash loop: `i` pairs done so far of `n`; `start` = input at the beginning of this call
    (so that `start.length - inp.length` is `b.Len()`).  Returns (lastReadCount, remainMember?, rest). -/
def hashLoop (L : Nat) (startLen : Nat) (n : Nat) : Nat → Nat → Bytes → Except (Err × Bytes) (Nat × Option Nat × Bytes)
  | 0, i, inp => .ok (i, none, inp)                      -- fuel = n - i exhausted: loop ended normally
  | fuel + 1, i, inp =>
    match skipString inp with
    | .error e => .error e
    | .ok (_, r1) =>
      match skipString r1 with
      | .error e => .error e
      | .ok (_, r2) =>
        -- lastReadCount++ ; if b.Len() > L && i != n-1 { remainMember = n - i - 1; break }
        if startLen - r2.length > L ∧ i + 1 ≠ n then .ok (i + 1, some (n - i - 1), r2)
        else hashLoop L startLen n fuel (i + 1) r2

/-- the stream (type 15) reader -/
def skipStream : R Unit :=
  andThen (counted (andThen skipString skipString)) <|
  andThen skipLength <| andThen skipLength <| andThen skipLength <|
  counted (
    andThen skipString <| andThen skipLength <| andThen skipLength <|
    andThen (counted (andThen (skipN 16) <| andThen (skipN 8) skipLength)) <|
    counted (andThen skipString <| andThen (skipN 8) <| counted (skipN 16)))

/-- `readObjectValue(t, l)`: returns the rest and the new chunk state; the captured bytes are the
    consumed prefix of the input. -/
def readObjectValue (pf : Bytes → Bool) (L : Nat) (t : UInt8) (cs : ChunkSt) (inp : Bytes) :
    Except (Err × Bytes) (ChunkSt × Bytes) :=
  let reset : ChunkSt := {}
  let unit (f : R Unit) : Except (Err × Bytes) (ChunkSt × Bytes) :=
    match f inp with
    | .error e => .error e
    | .ok (_, r) => .ok (reset, r)
  match t.toNat with
  | 0xfa | 0xfb | 9 | 10 | 11 | 12 | 13 | 0 => unit skipString
  | 1 | 2 | 14 => unit (counted skipString)
  | 3 => unit (counted (andThen skipString (readFloat pf)))
  | 5 => unit (counted (andThen skipString readDouble))
  | 4 =>
    -- n: from the state when a chunked hash is being continued, else from the stream
    let hdr : Except (Err × Bytes) (Nat × Nat × Bytes) :=
      if cs.remain ≠ 0 then .ok (cs.remain, cs.tot, inp)
      else match readLength inp with
        | .error e => .error e
        | .ok (n, r) => .ok (n, n, r)
    match hdr with
    | .error e => .error e
    | .ok (n, tot, r) =>
      match hashLoop L inp.length n n 0 r with
      | .error e => .error e
      | .ok (last, rem, r2) =>
        let remain := match rem with | some k => k | none => cs.remain
        -- if lr.lastReadCount == n { lr.remainMember = 0 }
        let remain := if last = n then 0 else remain
        .ok ({ remain := remain, lastRead := last, tot := tot }, r2)
  | 15 => unit skipStream
  | _ => fail .unknownType inp

/-- `rdbLoadCheckModuleValue` after the fix of D1 (`floatRaw = true`: the float opcode is 4 raw bytes);
    `floatRaw = false` is the pinned behaviour (zset text-float reader). -/
def moduleLoop (pf : Bytes → Bool) (floatRaw : Bool) : Nat → R Unit
  | 0, inp => .ok ((), inp)
  | fuel + 1, inp =>
    match readLength inp with
    | .error e => .error e
    | .ok (op, r) =>
      if op = 0 then .ok ((), r)
      else
        let body : R Unit :=
          if op = 1 ∨ op = 2 then skipLength
          else if op = 5 then skipString
          else if op = 3 then (if floatRaw then skipN 4 else readFloat pf)
          else if op = 4 then readDouble
          else fun i => .ok ((), i)           -- unknown opcodes are silently ignored
        match body r with
        | .error e => .error e
        | .ok (_, r2) => moduleLoop pf floatRaw fuel r2

/-- one record delivered by `NextBinEntry` -/
structure Entry where
  db : Nat
  key : Bytes
  type : UInt8
  value : Bytes          -- DUMP payload (or the raw script for a Lua aux record)
  expireAt : Nat := 0
  realMemberCount : Nat := 0
  needReadLen : Nat := 0
  idle : Nat := 0
  freq : Nat := 0
  /-- the Lua aux value reader failed and NextBinEntry ignored it: the Go code then delivers whatever
      partial buffer the failed reader returned (unspecified; only possible on malformed input) -/
  valueUnspecified : Bool := false
  deriving DecidableEq, Repr

structure LState where
  db : Nat := 0
  last : Option (Bytes × UInt8) := none   -- key and type of the last entry (for continuation chunks)
  cs : ChunkSt := {}
  deriving DecidableEq, Repr

/-- what `ReadString`/`ReadLength` leave behind when NextBinEntry ignores their error -/
def lenient {α : Type} (f : R α) (inp : Bytes) : Option α × Bytes :=
  match f inp with
  | .ok (a, r) => (some a, r)
  | .error (_, r) => (none, r)

def luaName : Bytes := [108, 117, 97]

/-- the `default:` branch of NextBinEntry's switch: a key record (first visit or continuation chunk) -/
def keyBranch (pf : Bytes → Bool) (L : Nat) (st : LState) (acc : Entry) (t : UInt8) (r : Bytes) :
    Except (Err × Bytes) (Option Entry × LState × Bytes) :=
  let keyR : Except (Err × Bytes) (Bytes × Nat × Bytes) :=
    if st.cs.remain = 0 then
      match readString r with
      | .error e => .error e
      | .ok (k, r1) => .ok (k, 1, r1)
    else
      match st.last with
      | some (k, _) => .ok (k, 0, r)
      | none => fail .eof r
  match keyR with
  | .error e => .error e
  | .ok (key, need, r1) =>
    match readObjectValue pf L t st.cs r1 with
    | .error e => .error e
    | .ok (cs', r2) =>
      let captured := r1.take (r1.length - r2.length)
      let real := if cs'.lastRead = cs'.tot then 0 else cs'.lastRead
      let e : Entry := { acc with db := st.db, key := key, type := t,
                                  value := Dump.createValueDump t captured,
                                  realMemberCount := real, needReadLen := need }
      .ok (some e, { st with last := some (key, t), cs := cs' }, r2)

/-- `NextBinEntry`: `acc` is the local `entry` being filled by expiry/idle/freq opcodes. -/
def nextLoop (pf : Bytes → Bool) (floatRaw : Bool) (L : Nat) :
    Nat → LState → Entry → Bytes → Except (Err × Bytes) (Option Entry × LState × Bytes)
  | 0, _, _, inp => fail .eof inp            -- unreachable: every turn consumes a byte
  | fuel + 1, st, acc, inp =>
    -- type byte: from the last entry while a chunked hash is in progress
    let tb : Except (Err × Bytes) (UInt8 × Bytes) :=
      if st.cs.remain ≠ 0 then
        match st.last with
        | some (_, t) => .ok (t, inp)
        | none => fail .eof inp              -- unreachable (remain ≠ 0 only after an entry)
      else readByte inp
    match tb with
    | .error e => .error e
    | .ok (t, r) =>
      match t.toNat with
      | 0xfa =>
        let k := (lenient readString r).1
        let r1 := (lenient readString r).2
        let v := (lenient readString r1).1
        let r2 := (lenient readString r1).2
        if k = some luaName then
          .ok (some { acc with db := st.db, key := luaName, type := t, value := v.getD [],
                                 valueUnspecified := v.isNone }, st, r2)
        else nextLoop pf floatRaw L fuel st acc r2
      | 0xfb =>
        let r1 := (lenient readLength r).2
        let r2 := (lenient readLength r1).2
        nextLoop pf floatRaw L fuel st acc r2
      | 0xfc =>
        match readN 8 r with
        | .error e => .error e
        | .ok (b, r1) => nextLoop pf floatRaw L fuel st { acc with expireAt := leNat b } r1
      | 0xfd =>
        match readN 4 r with
        | .error e => .error e
        | .ok (b, r1) => nextLoop pf floatRaw L fuel st { acc with expireAt := leNat b * 1000 } r1
      | 0xfe =>
        match readLength r with
        | .error e => .error e
        | .ok (n, r1) => nextLoop pf floatRaw L fuel { st with db := n } acc r1
      | 0xff => .ok (none, st, r)
      | 0xf7 =>
        match readLength r with
        | .error e => .error e
        | .ok (_, r1) =>
          match moduleLoop pf floatRaw r1.length r1 with
          | .error e => .error e
          | .ok (_, r2) => nextLoop pf floatRaw L fuel st acc r2
      | 0xf8 =>
        match readLength r with
        | .error e => .error e
        | .ok (n, r1) => nextLoop pf floatRaw L fuel st { acc with idle := n } r1
      | 0xf9 =>
        match readByte r with
        | .error e => .error e
        | .ok (f, r1) => nextLoop pf floatRaw L fuel st { acc with freq := f.toNat } r1
      | _ => keyBranch pf L st acc t r

def nextBinEntry (pf : Bytes → Bool) (floatRaw : Bool) (L : Nat) (st : LState) (inp : Bytes) :=
  nextLoop pf floatRaw L (inp.length + 1) st { db := 0, key := [], type := 0, value := [] } inp

/-- decimal digit value -/
def digitVal (b : UInt8) : Option Nat := if 48 ≤ b.toNat ∧ b.toNat ≤ 57 then some (b.toNat - 48) else none

/-- `strconv.ParseInt(string(header[5:]), 10, 64)` on exactly four bytes: optional sign, then digits -/
def parseVersion (bs : Bytes) : Option Int :=
  let digits (ds : Bytes) : Option Nat :=
    if ds.isEmpty then none else ds.foldl (fun acc b => match acc, digitVal b with
      | some a, some d => some (a * 10 + d) | _, _ => none) (some 0)
  match bs with
  | 43 :: ds => (digits ds).map Int.ofNat
  | 45 :: ds => (digits ds).map fun n => - (Int.ofNat n)
  | ds => (digits ds).map Int.ofNat

def magic : Bytes := [82, 69, 68, 73, 83]

/-- `Loader.Header` -/
def header (fromVersion : Int) : R Unit := fun inp =>
  match readN 9 inp with
  | .error e => .error e
  | .ok (h, r) =>
    if h.take 5 ≠ magic then fail .header r
    else match parseVersion (h.drop 5) with
      | none => fail .header r
      | some v => if v ≤ 0 ∨ v > fromVersion then fail .header r else .ok ((), r)

/-- The whole pipeline of `utils.NewRDBLoader`: Header, NextBinEntry until nil, Footer.
    Result: the records delivered, then either the unread rest (success) or the error. -/
def runLoop (pf : Bytes → Bool) (floatRaw : Bool) (L : Nat) (all : Bytes) :
    Nat → LState → Bytes → List Entry → List Entry × Except Err Bytes
  | 0, _, _, acc => (acc.reverse, .error .eof)
  | fuel + 1, st, inp, acc =>
    match nextBinEntry pf floatRaw L st inp with
    | .error (e, _) => (acc.reverse, .error e)
    | .ok (some ent, st', r) => runLoop pf floatRaw L all fuel st' r (ent :: acc)
    | .ok (none, _, r) =>
      -- Footer: crc of everything read so far vs the next 8 bytes (little endian)
      let covered := all.take (all.length - r.length)
      match readN 8 r with
      | .error (e, _) => (acc.reverse, .error e)
      | .ok (tr, r2) =>
        if Dump.footerOk covered tr then (acc.reverse, .ok r2) else (acc.reverse, .error .checksum)

def run (pf : Bytes → Bool) (floatRaw : Bool) (L : Nat) (fromVersion : Int) (all : Bytes) :
    List Entry × Except Err Bytes :=
  match header fromVersion all with
  | .error (e, _) => ([], .error e)
  | .ok (_, r) => runLoop pf floatRaw L all (all.length + 1) {} r []

end RSVerif.Rdb
