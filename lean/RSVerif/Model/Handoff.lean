import RSVerif.Basic
import RSVerif.Generated.Handoff
/-
C05 — executable model of the RDB/command-stream hand-off, transcribed from

  redis-shake/common/utils.go     waitRdbDump, SendPSyncContinue, Iocopy, OpenSyncConn
  pkg/redis/decoder.go            decodeType (leading "\n"), decodeText (status / error line)
  redis-shake/dbSync/syncBegin.go sendPSyncCmd, runIncrementalSync (rdbSize countdown), pSyncPipeCopy
  redis-shake/dump.go             dbDumper.sendCmd / dump / dumpRDBFile (nsize - nread loop)

The source is the byte string it will ever send (`rem`) plus `closed` (does EOF follow, or does the
connection stay open).  TCP segmentation + `bufio` are a *chunk oracle*: every `Read(p)` that returns data
returns a non-empty prefix of what remains, of at most `len(p)` bytes.  A schedule (`Sched`) is the list of
the oracle's wishes, one per bulk `Read`; any wish is clamped into `[1, min(len p, |rem|)]`, so every list
is a legal oracle and every legal chunking is some list.  When the schedule is used up the observation
ends (`blocked`): results are therefore statements about every prefix of every execution.
Byte-wise reads (`waitRdbDump`, the RESP decoder) request one byte and hence leave the oracle no choice.
Core Lean only.
-/
namespace RSVerif.Handoff
open RSVerif

/-! ## bytes, decimal numbers, words -/

def LF : UInt8 := 10
def CR : UInt8 := 13
def SP : UInt8 := 32
def PLUS : UInt8 := 43
def MINUS : UInt8 := 45
def DOLLAR : UInt8 := 36

def isDigit (b : UInt8) : Bool := 48 ≤ b.toNat && b.toNat ≤ 57
def digitVal (b : UInt8) : Nat := b.toNat - 48

/-- value of a digit string, most significant digit first (`n = n*10 + d`). -/
def decVal (ds : Bytes) : Nat := ds.foldl (fun acc b => acc * 10 + digitVal b) 0

/-- the digits after an optional sign -/
def stripSign (s : Bytes) : Bytes := if s.head? = some PLUS ∨ s.head? = some MINUS then s.tail else s

/-- `strconv.ParseInt(s, 10, 64)` and `strconv.Atoi` on a 64-bit platform: optional sign, at least one
digit, only digits, value within int64. -/
def parseInt (s : Bytes) : Option Int :=
  if (stripSign s).isEmpty || !(stripSign s).all isDigit then none
  else if s.head? = some MINUS then
    (if decVal (stripSign s) ≤ 2 ^ 63 then some (-(decVal (stripSign s) : Int)) else none)
  else (if decVal (stripSign s) < 2 ^ 63 then some (decVal (stripSign s) : Int) else none)

/-- `strings.ToLower` restricted to ASCII input. -/
def toLower (b : UInt8) : UInt8 := if 65 ≤ b.toNat ∧ b.toNat ≤ 90 then b + 32 else b
def lower (s : Bytes) : Bytes := s.map toLower
def isAscii (s : Bytes) : Bool := s.all fun b => b.toNat < 128

/-- "continue" -/
def kwContinue : Bytes := [99, 111, 110, 116, 105, 110, 117, 101]
/-- "fullresync" -/
def kwFullresync : Bytes := [102, 117, 108, 108, 114, 101, 115, 121, 110, 99]

/-- `strings.Split(x, " ")`. -/
def splitSp : Bytes → List Bytes
  | [] => [[]]
  | b :: bs =>
    if b = SP then [] :: splitSp bs
    else match splitSp bs with
      | [] => [[b]]
      | f :: fs => (b :: f) :: fs

/-! ## waitRdbDump -/

inductive WaitRes where
  /-- `size <- 0` was sent `keepAlives` times, then `size <- n`; `rest` is what the reader has not consumed -/
  | size (keepAlives n : Nat) (rest : Bytes)
  /-- `log.Panic*`: the line is not `$<n>` with `n > 0` -/
  | abort (keepAlives : Nat)
  /-- the stream ends inside the header: `Read` blocks, or fails (then `log.PanicErrorf`) if the source closed -/
  | starved (keepAlives : Nat)
  deriving Repr, DecidableEq

/-- after the loop: `rsp[0] != '$'` → panic; `n, err := strconv.Atoi(rsp[1:len(rsp)-2])`; `err != nil || n <= 0` → panic. -/
def parseHeader (rsp : Bytes) : Option Nat :=
  match rsp with
  | [] => none
  | c :: t =>
    if c ≠ DOLLAR then none
    else match parseInt (t.take (t.length - 2)) with
      | some v => if v ≤ 0 then none else some v.toNat
      | none => none

/-- what happens after the loop with the complete line `rsp`. -/
def finishHeader (rsp : Bytes) (k : Nat) (rest : Bytes) : WaitRes :=
  match parseHeader rsp with
  | some n => .size k n rest
  | none => .abort k

/-- the read loop; `acc` is `rsp` reversed (so that `strings.HasSuffix(rsp, "\r\n")` is a look at its head). -/
def waitLoop : Bytes → Bytes → Nat → WaitRes
  | [], _, k => .starved k
  | b :: rest, acc, k =>
    if acc.isEmpty && b == LF then waitLoop rest acc (k + 1)      -- `size <- 0; continue`
    else if b = LF ∧ acc.head? = some CR then                       -- `rsp += string(b)`; HasSuffix → break
      finishHeader (b :: acc).reverse k rest
    else waitLoop rest (b :: acc) k

def waitRdbDump (stream : Bytes) : WaitRes := waitLoop stream [] 0

/-! ## SendPSyncContinue -/

/-- offset put into the PSYNC command: `if offset != -1 { offset += 1 }`. -/
def psyncOffset (inOffset : Int) : Int := if inOffset ≠ -1 then inOffset + 1 else inOffset

inductive Reply where
  /-- `+CONTINUE`: `(runid, offset-1, nil, nil)`; `rest` is where the command stream starts -/
  | cont (runid : Bytes) (offset : Int) (rest : Bytes)
  /-- `+FULLRESYNC id off`: `(xx[1], v, waitRdbDump(br), nil)`; `rest` is what `waitRdbDump` will read -/
  | full (runid : Bytes) (offset : Int) (rest : Bytes)
  /-- an error is returned -/
  | err
  /-- the reply line is incomplete: the decoder waits (returns an error once the source closes) -/
  | starved
  /-- replies this model does not describe: types other than status/error, non-ASCII status word -/
  | unmodelled
  deriving Repr, DecidableEq

/-- `decodeType`: `"\n"` before the type byte is skipped (`goto ReadByte`). -/
def skipLF : Bytes → Bytes
  | [] => []
  | b :: bs => if b = LF then skipLF bs else b :: bs

/-- `ReadBytes('\n')`: the bytes before the first `\n`, and the bytes after it; `none` if no `\n` arrives. -/
def readLine : Bytes → Option (Bytes × Bytes)
  | [] => none
  | b :: bs =>
    if b = LF then some ([], bs)
    else match readLine bs with
      | some (l, r) => some (b :: l, r)
      | none => none

/-- the branches of `SendPSyncContinue` on the decoded status text `x`. -/
def interpretStatus (inRunid : Bytes) (offset : Int) (x rest : Bytes) : Reply :=
  match splitSp x with
  | [w] =>
    if !isAscii w then .unmodelled
    else if lower w = kwContinue then .cont inRunid (offset - 1) rest
    else .err
  | w :: id :: o :: _ =>
    if !isAscii w then .unmodelled
    else if lower w = kwFullresync then
      match parseInt o with
      | some v => .full id v rest
      | none => .err
    else .err
  | _ => .err

def sendPSyncContinue (inRunid : Bytes) (inOffset : Int) (stream : Bytes) : Reply :=
  let offset := psyncOffset inOffset
  match skipLF stream with
  | [] => .starved
  | t :: s1 =>
    if t = PLUS ∨ t = MINUS then
      match readLine s1 with
      | none => .starved
      | some (pre, rest) =>
        -- decodeText on `b = pre ++ "\n"`: `n := len(b) - 2; n < 0 || b[n] != '\r'` → ErrBadRespCRLFEnd
        if pre.getLast? ≠ some CR then .err
        else if t = MINUS then .err                        -- `*redis.Error`
        else interpretStatus inRunid offset pre.dropLast rest
    else .unmodelled

/-! ## the chunk oracle, Iocopy and the copy loops -/

abbrev Sched := List Nat

/-- length of what a `Read(p)` returns: the wish clamped into `[1, min(len p, available)]`. -/
def chunkLen (wish req avail : Nat) : Nat := min (max wish 1) (min req avail)

inductive St where
  /-- the loop ended normally (RDB complete) -/
  | done
  /-- the observation ends here: no further read event, or nothing more to read on an open connection -/
  | blocked
  /-- `Read` returned EOF in `pSyncPipeCopy` (it returns the error; the caller goes to its reconnect loop) -/
  | eof
  /-- `log.Panic*` -/
  | aborted
  deriving Repr, DecidableEq

structure Copy where
  /-- bytes written to the destination, in order -/
  out : Bytes
  /-- bytes of the source not yet consumed -/
  rem : Bytes
  /-- read events not used -/
  sched : Sched
  /-- for every `Iocopy`: (`len(p)` passed to `Read`, `max`) -/
  reqs : List (Nat × Int)
  /-- final value of the counter (`rdbSize`, resp. `nread`) -/
  count : Int
  st : St
  deriving Repr, DecidableEq

/-- `Iocopy(r, w, p, max)`: `none` = `log.Panicf("invalid max …")`; otherwise the length passed to `Read`. -/
def iocopyReq (buf : Nat) (max : Int) : Option Nat :=
  if max ≤ 0 ∨ buf = 0 then none else some (min buf max.toNat)

/-- `for rdbSize != 0 { rdbSize -= utils.Iocopy(br, pipew, p, rdbSize) }` -/
def rdbLoop (buf : Nat) (closed : Bool) : Sched → Int → Bytes → Copy
  | [], size, rem =>
    if size = 0 then ⟨[], rem, [], [], size, .done⟩
    else match iocopyReq buf size with
      | none => ⟨[], rem, [], [], size, .aborted⟩
      | some _ => if rem.isEmpty && closed then ⟨[], rem, [], [], size, .aborted⟩ else ⟨[], rem, [], [], size, .blocked⟩
  | w :: ws, size, rem =>
    if size = 0 then ⟨[], rem, w :: ws, [], size, .done⟩
    else match iocopyReq buf size with
      | none => ⟨[], rem, w :: ws, [], size, .aborted⟩
      | some req =>
        if rem.isEmpty then
          (if closed then ⟨[], rem, w :: ws, [], size, .aborted⟩     -- "read error, please check source redis log or network"
           else ⟨[], rem, w :: ws, [], size, .blocked⟩)
        else
          let n := chunkLen w req rem.length
          let r := rdbLoop buf closed ws (size - n) (rem.drop n)
          { r with out := rem.take n ++ r.out, reqs := (req, size) :: r.reqs }

/-- the copy loop of `pSyncPipeCopy`: `n, err := br.Read(p); copyto.Write(p[:n])`. -/
def copyLoop (buf : Nat) (closed : Bool) : Sched → Bytes → Copy
  | [], rem => ⟨[], rem, [], [], 0, .blocked⟩
  | w :: ws, rem =>
    if rem.isEmpty then
      (if closed then ⟨[], rem, ws, [], 0, .eof⟩ else ⟨[], rem, w :: ws, [], 0, .blocked⟩)
    else
      let n := chunkLen w buf rem.length
      let r := copyLoop buf closed ws (rem.drop n)
      { r with out := rem.take n ++ r.out, count := r.count + n }

/-- `for nsize != nread { nstep := nsize - nread; ncopy := Iocopy(reader, writer, p, nstep); nread += ncopy; flush }` -/
def dumpLoop (buf : Nat) (closed : Bool) (nsize : Int) : Sched → Int → Bytes → Copy
  | [], nread, rem =>
    if nsize = nread then ⟨[], rem, [], [], nread, .done⟩
    else match iocopyReq buf (nsize - nread) with
      | none => ⟨[], rem, [], [], nread, .aborted⟩
      | some _ => if rem.isEmpty && closed then ⟨[], rem, [], [], nread, .aborted⟩ else ⟨[], rem, [], [], nread, .blocked⟩
  | w :: ws, nread, rem =>
    if nsize = nread then ⟨[], rem, w :: ws, [], nread, .done⟩
    else match iocopyReq buf (nsize - nread) with
      | none => ⟨[], rem, w :: ws, [], nread, .aborted⟩
      | some req =>
        if rem.isEmpty then
          (if closed then ⟨[], rem, w :: ws, [], nread, .aborted⟩ else ⟨[], rem, w :: ws, [], nread, .blocked⟩)
        else
          let n := chunkLen w req rem.length
          let r := dumpLoop buf closed nsize ws (nread + n) (rem.drop n)
          { r with out := rem.take n ++ r.out, reqs := (req, nsize - nread) :: r.reqs }

/-! ## runIncrementalSync, sendPSyncCmd, dump -/

structure Bufs where
  rdb : Nat
  pipe : Nat
  dump : Nat

/-- the buffer sizes of the current source tree (regenerated by factgen). -/
def codeBufs : Bufs := ⟨Generated.Handoff.rdbCopyBuf, Generated.Handoff.pipeCopyBuf, Generated.Handoff.dumpCopyBuf⟩

/-- `runIncrementalSync(…, rdbSize, …, pipew, true)` up to the first return of `pSyncPipeCopy`:
RDB phase, then the command phase, both into the same pipe. -/
def runIncrementalSync (b : Bufs) (closed : Bool) (sched : Sched) (rdbSize : Int) (rem : Bytes) : Copy :=
  let r1 := rdbLoop b.rdb closed sched rdbSize rem
  match r1.st with
  | .done =>
    let r2 := copyLoop b.pipe closed r1.sched r1.rem
    { r2 with out := r1.out ++ r2.out, reqs := r1.reqs }
  | _ => r1

inductive Psync where
  /-- `sendPSyncCmd` returned `(piper, nsize, isFullSync, runid, nil)` having stored `ds.sourceOffset = offset`;
  `run` is what its `runIncrementalSync` goroutine does with the rest of the stream -/
  | started (isFull : Bool) (runid : Bytes) (offset : Int) (nsize : Nat) (run : Copy)
  | err
  /-- the `waitRdbDump` goroutine aborts the process -/
  | abort
  | starved
  | unmodelled
  deriving Repr, DecidableEq

def sendPSyncCmd (b : Bufs) (inRunid : Bytes) (inOffset : Int) (closed : Bool) (sched : Sched) (stream : Bytes) : Psync :=
  match sendPSyncContinue inRunid inOffset stream with
  | .err => .err
  | .starved => if closed then .err else .starved      -- `redis.Decode` fails with EOF once the source closed
  | .unmodelled => .unmodelled
  | .cont runid offset rest => .started false runid offset 0 (runIncrementalSync b closed sched 0 rest)
  | .full runid offset rest =>
    match waitRdbDump rest with
    | .size _ n rest' => .started true runid offset n (runIncrementalSync b closed sched (n : Int) rest')
    | .abort _ => .abort
    | .starved _ => if closed then .abort else .starved

/-! ## the reconnect loop of runIncrementalSync -/

inductive Reconn where
  /-- `+CONTINUE`: `pSyncPipeCopy` goes on with what follows the reply line -/
  | copying (run : Copy)
  /-- `+FULLRESYNC` (repaired tree): `log.Panicf` — an RDB follows, and the pipe's reader is the command parser -/
  | abort
  /-- `SendPSyncContinue` returned an error (logged; 30 s later `pSyncPipeCopy` runs on that connection anyway) -/
  | failed
  | starved
  | unmodelled
  deriving Repr, DecidableEq

/-- one turn of the reconnect loop after `pSyncPipeCopy` returned: new connection, `SendPSyncContinue(br, bw, runId,
ds.sourceOffset)` with the run id of the first reply; its returned ids are discarded (`_, _, wait, err =`). -/
def reconnect (b : Bufs) (runId : Bytes) (sourceOffset : Int) (closed : Bool) (sched : Sched) (stream : Bytes) : Reconn :=
  match sendPSyncContinue runId sourceOffset stream with
  | .cont _ _ rest => .copying (copyLoop b.pipe closed sched rest)
  | .full _ _ _ => .abort
  | .err => .failed
  | .starved => if closed then .failed else .starved
  | .unmodelled => .unmodelled

/-- the pinned tree (before fixes/C05-reconnect-fullresync.patch): the result of `SendPSyncContinue` is dropped
(`_, _, _, err =`), so after `+FULLRESYNC` the `waitRdbDump` goroutine it started and `pSyncPipeCopy` read the same
`bufio.Reader` concurrently. This is the interleaving in which `pSyncPipeCopy` is served first (observed on the
real code; in the other ones `waitRdbDump` steals some header bytes or aborts on EOF). -/
def reconnectPinned (b : Bufs) (runId : Bytes) (sourceOffset : Int) (closed : Bool) (sched : Sched) (stream : Bytes) : Reconn :=
  match sendPSyncContinue runId sourceOffset stream with
  | .cont _ _ rest => .copying (copyLoop b.pipe closed sched rest)
  | .full _ _ rest => .copying (copyLoop b.pipe closed sched rest)
  | .err => .failed
  | .starved => if closed then .failed else .starved
  | .unmodelled => .unmodelled

inductive Dump where
  /-- `sendCmd` returned `nsize`; `file` was written, `rest` is what remains unread in the reader -/
  | dumped (nsize : Nat) (run : Copy)
  | abort
  | starved
  deriving Repr, DecidableEq

/-- `dbDumper.dump`: `OpenSyncConn` (SYNC, then `waitRdbDump` on the raw connection), then `dumpRDBFile`. -/
def dump (b : Bufs) (closed : Bool) (sched : Sched) (stream : Bytes) : Dump :=
  match waitRdbDump stream with
  | .size _ n rest => .dumped n (dumpLoop b.dump closed (n : Int) sched 0 rest)
  | .abort _ => .abort
  | .starved _ => if closed then .abort else .starved

end RSVerif.Handoff
