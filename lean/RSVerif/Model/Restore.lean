import RSVerif.Model.RdbRead
import RSVerif.Spec.MiniRedisC02
/-
Model of `RestoreRdbEntry` (redis-shake/common/utils.go:748) and everything it calls:
  CompareVersion            common/common.go:189   (index arithmetic as written; `none` = index out of range)
  restoreQuicklistEntry     utils.go:348
  restoreBigRdbEntry        utils.go:393           (every type code; batches of 100 with `count == 100 || last`)
  flushAndCheckReply        utils.go:335
over the MiniRedis target of Spec/MiniRedisC02.lean.

The Go loops read an element, send it, read the next …; reading does not depend on the connection, so the model
first reads the longest readable prefix (`readMany`, with a `complete` flag) and then runs the sending loop over
it; an incomplete prefix ends in the panic the Go code raises at the first unreadable element (the batch in
progress stays unflushed).

`Fixes` selects, per repaired defect, the repaired (true) or the pinned (false) behaviour:
  D3 cmpVersion        `l >= len(as)` instead of `l > len(as)` in CompareVersion
  D4 retryAfterDel     rewrite ∧ ¬TargetReplace ∧ BUSYKEY: DEL, then RESTORE again (pinned: DEL and return)
  D5 fallbackTtl       "Bad data format" fallback sets the TTL with PEXPIRE (pinned: never)
  D5b fallbackDel      … and deletes the key first under `rewrite` (pinned: merges into the key RESTORE REPLACE refused)
  D6b quicklistIgnore  quicklist route returns under `ignore` when the key exists (pinned: pushes onto it)
The compact encodings (ziplist, intset, zipmap; quicklist nodes) are expanded by the parameter `Params.expand`
(C12's decoder at integration time); `Params.ft` is strconv's float codec.
-/
namespace RSVerif.RestoreEntry
open RSVerif RSVerif.Rdb RSVerif.Spec.MiniRedisC02

inductive Policy | none | rewrite | ignore
  deriving DecidableEq, Repr

/-- the fields of `conf.Options` the function reads -/
structure Cfg where
  keyExists : Policy
  targetReplace : Bool
  bigKeyThreshold : Nat
  targetVersion : Bytes
  /-- `ShiftTime` (a time.Duration: nanoseconds) -/
  shiftNs : Int := 0
  replaceHashTag : Bool := false
  /-- `SourceRdbSpecialCloud == UCloudCluster` -/
  ucloud : Bool := false
  filterLua : Bool := false

structure Fixes where
  cmpVersion : Bool
  retryAfterDel : Bool
  fallbackTtl : Bool
  fallbackDel : Bool
  quicklistIgnore : Bool
  deriving DecidableEq, Repr

/-- the tree with fixes/C02-*.patch applied -/
def Fixes.all : Fixes := ⟨true, true, true, true, true⟩
/-- the pinned tree -/
def Fixes.pinned : Fixes := ⟨false, false, false, false, false⟩

inductive Result
  | ok
  | error      -- a Go error is returned
  | abort      -- log.Panic* (process exit) or a run-time panic
  | hang       -- blocked in Receive with nothing outstanding
  deriving DecidableEq, Repr

/-! ### CompareVersion -/

/-- `strings.Split(s, ".")` -/
def splitDot : Bytes → List Bytes
  | [] => [[]]
  | b :: r =>
    if b = 46 then [] :: splitDot r
    else match splitDot r with
      | [] => [[b]]
      | p :: ps => (b :: p) :: ps

/-- `strconv.Atoi`; none = error (syntax or out of the int64 range) -/
def atoi (s : Bytes) : Option Int :=
  let (neg, ds) : Bool × Bytes := match s with
    | 43 :: r => (false, r)
    | 45 :: r => (true, r)
    | r => (false, r)
  if ds.isEmpty then none
  else
    match ds.foldl (fun acc b => match acc, digitVal b with
        | some a, some d => some (a * 10 + d) | _, _ => none) (some 0) with
    | none => none
    | some n =>
      if neg then (if n > 2 ^ 63 then none else some (- (Int.ofNat n)))
      else (if n ≥ 2 ^ 63 then none else some (Int.ofNat n))

/-- one component: outer none = index out of range (run-time panic), inner none = Atoi error -/
def versionPart (fixed : Bool) (parts : List Bytes) (l : Nat) : Option (Option Int) :=
  if (if fixed then l ≥ parts.length else l > parts.length) then some (some 0)
  else match parts[l]? with
    | none => none
    | some s => some (atoi s)

def cmpLoop (fixed : Bool) (as bs : List Bytes) : Nat → Nat → Option Nat
  | 0, _ => some 0
  | fuel + 1, l =>
    match versionPart fixed as l with
    | none => none
    | some none => some 3
    | some (some av) =>
      match versionPart fixed bs l with
      | none => none
      | some none => some 3
      | some (some bv) =>
        if av > bv then some 2
        else if av < bv then some 1
        else cmpLoop fixed as bs fuel (l + 1)

/-- `CompareVersion(a, b, level)`: 0 equal, 1 smaller, 2 bigger, 3 unknown; none = the function panics -/
def compareVersion (fixed : Bool) (a b : Bytes) (level : Int) : Option Nat :=
  if level ≤ 0 then some 0 else cmpLoop fixed (splitDot a) (splitDot b) level.toNat 0

def v50 : Bytes := [53, 46, 48]   -- "5.0"

/-! ### key rewriting and TTL -/

def removeFirst (c : UInt8) : Bytes → Bytes
  | [] => []
  | b :: r => if b = c then r else b :: removeFirst c r

/-- `e.Key[7:]` for UCloud (none = slice bounds out of range), then the first `{` and the first `}` removed -/
def rewriteKey (cfg : Cfg) (k : Bytes) : Option Bytes :=
  let k1 : Option Bytes := if cfg.ucloud then (if k.length < 7 then none else some (k.drop 7)) else some k
  k1.map fun k => if cfg.replaceHashTag then removeFirst 125 (removeFirst 123 k) else k

/-- `uint64(time.Now().Add(ShiftTime).UnixNano()) / uint64(time.Millisecond)` -/
def shiftedNowMs (nowNs : Nat) (shiftNs : Int) : Nat := (Int.ofNat nowNs + shiftNs).toNat / 1000000

/-- `ttlms` -/
def ttlMs (cfg : Cfg) (nowNs : Nat) (expireAt : Nat) : Nat :=
  if expireAt = 0 then 0
  else
    let now := shiftedNowMs nowNs cfg.shiftNs
    if now ≥ expireAt then 1 else expireAt - now

/-! ### what a payload holds, element by element -/

inductive Elems
  | list (xs : List Bytes)
  | set (xs : List Bytes)
  | hash (fvs : List (Bytes × Bytes))
  /-- scores as bit patterns (read by ReadFloat / ReadDouble); sent as `FormatFloat(score,'f',-1,64)` -/
  | zset (ms : List (Bytes × Score))
  /-- scores as the text found in a ziplist; sent verbatim -/
  | zsetText (ms : List (Bytes × Bytes))
  deriving DecidableEq, Repr

/-- the elements read before the first failure, the number the loop was going to read, and whether all were read -/
structure Expansion where
  n : Nat
  elems : Elems
  complete : Bool
  deriving DecidableEq, Repr

structure Params where
  /-- types 9..13: the blob (result of ReadString) expanded the way utils.go walks it; none = the header
      (ziplist length, intset sizes, zipmap length byte) is unreadable, which panics before anything is sent -/
  expand : UInt8 → Bytes → Option Expansion
  ft : FloatText

def Elems.length : Elems → Nat
  | .list xs => xs.length | .set xs => xs.length | .hash f => f.length | .zset m => m.length | .zsetText m => m.length

/-- the commands of the element-wise route, in order -/
def Elems.ops (ft : FloatText) : Elems → List ElemOp
  | .list xs => xs.map .rpush
  | .set xs => xs.map .sadd
  | .hash fvs => fvs.map fun p => .hset p.1 p.2
  | .zset ms => ms.map fun p => .zadd (ft.fmt p.2) p.1
  | .zsetText ms => ms.map fun p => .zadd p.2 p.1

/-- the value these elements make up (what Redis' rdbLoadObject builds): later duplicates win, order of first
    appearance kept. none = a text score that does not parse. -/
def Elems.logical (ft : FloatText) : Elems → Option LValue
  | .list xs => some (.list xs)
  | .set xs => some (.set (xs.foldl (fun acc m => insertMember m acc) []))
  | .hash fvs => some (.hash (fvs.foldl (fun acc p => upsert p.1 p.2 acc) []))
  | .zset ms => some (.zset (ms.foldl (fun acc p => upsert p.1 p.2 acc) []))
  | .zsetText ms =>
    if ms.all (fun p => (ft.parse p.2).isSome)
    then some (.zset (ms.foldl (fun acc p => upsert p.1 ((ft.parse p.2).getD 0) acc) []))
    else none

/-- read with `f` up to `n` times; stops at the first failure -/
def readMany {α : Type} (f : R α) : Nat → Bytes → List α × Bool
  | 0, _ => ([], true)
  | n + 1, inp =>
    match f inp with
    | .error _ => ([], false)
    | .ok (a, r) => let (xs, c) := readMany f n r; (a :: xs, c)

def pairR {α β : Type} (f : R α) (g : R β) : R (α × β) := fun inp =>
  match f inp with
  | .error e => .error e
  | .ok (a, r) =>
    match g r with
    | .error e => .error e
    | .ok (b, r2) => .ok ((a, b), r2)

def goNaN : Score := 0x7FF8000000000001
def posInf : Score := 0x7FF0000000000000
def negInf : Score := 0xFFF0000000000000

/-- `ReadFloat` with its value -/
def readFloatV (ft : FloatText) : R Score := fun inp =>
  match readByte inp with
  | .error e => .error e
  | .ok (u, r) =>
    if u.toNat = 253 then .ok (goNaN, r)
    else if u.toNat = 254 then .ok (posInf, r)
    else if u.toNat = 255 then .ok (negInf, r)
    else match readN u.toNat r with
      | .error e => .error e
      | .ok (t, r2) => match ft.parse t with
        | none => fail .float r2
        | some b => .ok (b, r2)

/-- `ReadDouble` with its value -/
def readDoubleV : R Score := fun inp =>
  match readN 8 inp with
  | .error e => .error e
  | .ok (b, r) => .ok (ofLe64 b, r)

/-- `n` elements of a plain collection of type `ty` (1 list, 2 set, 3 zset, 5 zset2, otherwise hash) read from `r`:
    the readable prefix and whether all `n` were readable -/
def readElems (ft : FloatText) (ty : Nat) (n : Nat) (r : Bytes) : Elems × Bool :=
  match ty with
  | 1 => (.list (readMany readString n r).1, (readMany readString n r).2)
  | 2 => (.set (readMany readString n r).1, (readMany readString n r).2)
  | 3 => (.zset (readMany (pairR readString (readFloatV ft)) n r).1, (readMany (pairR readString (readFloatV ft)) n r).2)
  | 5 => (.zset (readMany (pairR readString readDoubleV) n r).1, (readMany (pairR readString readDoubleV) n r).2)
  | _ => (.hash (readMany (pairR readString readString) n r).1, (readMany (pairR readString readString) n r).2)

/-- the element loop of `restoreBigRdbEntry` for payload type `ty` (≠ 0, ≠ 14) on the bytes after the type byte;
    none = a panic before the first Send (count / blob / header unreadable, or an unknown type).
    Hash: `n` is RealMemberCount when the hash comes in chunks, else the count in the payload; the count is only
    present (and read) when NeedReadLen = 1. -/
def expansion (P : Params) (ty : UInt8) (needReadLen realMemberCount : Nat) (inp : Bytes) : Option Expansion :=
  if ty = 1 ∨ ty = 2 ∨ ty = 3 ∨ ty = 5 ∨ (ty = 4 ∧ needReadLen = 1) then
    match readLength inp with
    | .error _ => none
    | .ok (rlen, r) =>
      let n := if ty = 4 ∧ realMemberCount ≠ 0 then realMemberCount else rlen
      some ⟨n, (readElems P.ft ty.toNat n r).1, (readElems P.ft ty.toNat n r).2⟩
  else if ty = 4 then
    some ⟨realMemberCount, (readElems P.ft 4 realMemberCount inp).1, (readElems P.ft 4 realMemberCount inp).2⟩
  else if ty = 9 ∨ ty = 10 ∨ ty = 11 ∨ ty = 12 ∨ ty = 13 then
    match readString inp with
    | .error _ => none
    | .ok (blob, _) => P.expand ty blob
  else none

/-- quicklist: per node the expansion of its ziplist (none = ziplist length unreadable), and whether every
    node blob could be read -/
def quicklistNodes (P : Params) (inp : Bytes) : Option (List (Option Expansion) × Bool) :=
  match readLength inp with
  | .error _ => none
  | .ok (n, r) =>
    let (blobs, c) := readMany readString n r
    some (blobs.map (P.expand 10), c)

def Elems.items : Elems → List Bytes
  | .list xs => xs
  | _ => []

/-- all entries of all nodes, if everything is readable -/
def quicklistAll : List (Option Expansion) → Option (List Bytes)
  | [] => some []
  | none :: _ => none
  | some ex :: r =>
    if ex.complete then (quicklistAll r).map (ex.elems.items ++ ·) else none

/-- The logical value of a DUMP payload: what the key holds on the source.
    string / list / set / zset / zset2 / hash are read here through `Rdb.readString`; the compact encodings
    through `P.expand`; anything else (stream, module) is opaque. -/
def logicalPayload (P : Params) (payload : Bytes) : Option LValue :=
  match payload with
  | [] => none
  | ty :: inp =>
    match ty.toNat with
    | 0 => match readString inp with
      | .error _ => none
      | .ok (v, _) => some (.str v)
    | 14 => match quicklistNodes P inp with
      | some (nodes, true) => (quicklistAll nodes).map .list
      | _ => none
    | 1 | 2 | 3 | 4 | 5 | 9 | 10 | 11 | 12 | 13 =>
      match expansion P ty 1 0 inp with
      | some ex => if ex.complete then ex.elems.logical P.ft else none
      | none => none
    | _ => some (.opaque payload)

/-! ### flushAndCheckReply and the batching loop -/

inductive Status | ok | abort | hang
  deriving DecidableEq, Repr

/-- `for j := 0; j < count; j++ { _, err := c.Receive(); if err != nil { panic } }` -/
def recvN : Nat → Target → Status × Target
  | 0, t => (.ok, t)
  | n + 1, t =>
    match t.receive with
    | none => (.hang, t)
    | some (r, t') => if r.isErr then (.abort, t') else recvN n t'

/-- `flushAndCheckReply(c, count)` -/
def flushCheck (t : Target) (count : Nat) : Status × Target := recvN count t.flush

/-- `for i := …; i < n; i++ { read; count++; Send; if count == 100 || i == n-1 { flushAndCheckReply; count = 0 } }`
    over the elements that could be read; `n = 0` never satisfies `i == n-1` (the quicklist loops have no such
    clause). Returns the final `count`. -/
def sendLoop (key : Bytes) (n : Nat) : Nat → Nat → List ElemOp → Target → Status × Target × Nat
  | _, count, [], t => (.ok, t, count)
  | i, count, op :: ops, t =>
    let t1 := t.send (.elem key op)
    if count + 1 = 100 ∨ i + 1 = n then
      match flushCheck t1 (count + 1) with
      | (.ok, t2) => sendLoop key n (i + 1) 0 ops t2
      | (s, t2) => (s, t2, count + 1)
    else sendLoop key n (i + 1) (count + 1) ops t1

/-- one collection through the loop; an unreadable element panics after the readable ones were sent -/
def sendExpansion (P : Params) (key : Bytes) (ex : Expansion) (t : Target) : Status × Target :=
  match sendLoop key ex.n 0 0 (ex.elems.ops P.ft) t with
  | (.ok, t1, _) => if ex.complete then (.ok, t1) else (.abort, t1)
  | (s, t1, _) => (s, t1)

/-- the nodes of a quicklist: per ziplist, entries in batches of 100, then `flushAndCheckReply(c, count)` -/
def sendNodes (P : Params) (key : Bytes) : List (Option Expansion) → Target → Status × Target
  | [], t => (.ok, t)
  | none :: _, t => (.abort, t)
  | some ex :: rest, t =>
    match sendLoop key 0 0 0 (ex.elems.ops P.ft) t with
    | (.ok, t1, count) =>
      if ex.complete then
        match flushCheck t1 count with
        | (.ok, t2) => sendNodes P key rest t2
        | r => r
      else (.abort, t1)
    | (s, t1, _) => (s, t1)

def sendQuicklist (P : Params) (key : Bytes) (inp : Bytes) (t : Target) : Status × Target :=
  match quicklistNodes P inp with
  | none => (.abort, t)
  | some (nodes, complete) =>
    match sendNodes P key nodes t with
    | (.ok, t1) => if complete then (.ok, t1) else (.abort, t1)
    | r => r

/-- `restoreQuicklistEntry(c, e)` -/
def restoreQuicklistEntry (P : Params) (key : Bytes) (value : Bytes) (t : Target) : Status × Target :=
  match value with
  | [] => (.abort, t)
  | _ :: inp => sendQuicklist P key inp t

/-- `restoreBigRdbEntry(c, e)` (`Send` never fails on a live connection, so the function returns nil or panics) -/
def restoreBigRdbEntry (P : Params) (key : Bytes) (e : Entry) (t : Target) : Status × Target :=
  match e.value with
  | [] => (.abort, t)
  | ty :: inp =>
    if ty = 0 then
      match readString inp with
      | .error _ => (.abort, t)
      | .ok (v, _) =>
        match t.doCmd (.set key v) with
        | (.ok, t1) => (.ok, t1)
        | (_, t1) => (.abort, t1)
    else if ty = 14 then sendQuicklist P key inp t
    else
      match expansion P ty e.needReadLen e.realMemberCount inp with
      | none => (.abort, t)
      | some ex => sendExpansion P key ex t

/-! ### RestoreRdbEntry -/

inductive Route | quicklist | lua | big | restore
  deriving DecidableEq, Repr

/-- which branch of `RestoreRdbEntry` an entry takes (`key` is the rewritten key) -/
def route (cfg : Cfg) (key : Bytes) (e : Entry) : Route :=
  if e.type = 14 then .quicklist
  else if e.type = 0xfa ∧ key = luaName then .lua
  else if e.type ≠ 15 ∧ (e.value.length > cfg.bigKeyThreshold ∨ e.realMemberCount ≠ 0) then .big
  else .restore

def statusResult : Status → Result
  | .ok => .ok | .abort => .abort | .hang => .hang

/-- `r, err := Int64(c.Do("pexpire", key, ttlms)); if err != nil && r != 1 { onErr }` -/
def pexpireStep (key : Bytes) (ttl : Nat) (onErr : Result) (t : Target) : Target × Result :=
  match t.doCmd (.pexpire key ttl) with
  | (.int _, t1) => (t1, .ok)
  | (_, t1) => (t1, onErr)

/-- `restoreQuicklistEntry`, then `pexpire` when the source key has an expiry (a failing PEXPIRE panics here) -/
def quickThenExpire (P : Params) (key : Bytes) (ttl : Nat) (e : Entry) (t : Target) : Target × Result :=
  match restoreQuicklistEntry P key e.value t with
  | (.ok, t1) => if e.expireAt ≠ 0 then pexpireStep key ttl .abort t1 else (t1, .ok)
  | (s, t1) => (t1, statusResult s)

def quicklistRoute (fx : Fixes) (P : Params) (cfg : Cfg) (key : Bytes) (ttl : Nat) (e : Entry) (t : Target) :
    Target × Result :=
  match t.doCmd (.exists key) with
  | (.int n, t1) =>
    if n ≠ 0 then
      match cfg.keyExists with
      | .rewrite =>
        match t1.doCmd (.del key) with
        | (.int _, t2) => quickThenExpire P key ttl e t2
        | (_, t2) => (t2, .abort)
      | .ignore => if fx.quicklistIgnore then (t1, .ok) else quickThenExpire P key ttl e t1
      | .none => (t1, .error)
    else quickThenExpire P key ttl e t1
  | (_, t1) => (t1, .abort)

def luaRoute (cfg : Cfg) (e : Entry) (t : Target) : Target × Result :=
  if cfg.filterLua then (t, .ok)
  else match t.doCmd (.scriptLoad e.value) with
    | (.err _, t1) => (t1, .error)
    | (_, t1) => (t1, .ok)

/-- `restoreBigRdbEntry`, then (`withTtl`) `pexpire` when the source key has an expiry (a failing PEXPIRE is
    returned as an error) -/
def bigThenExpire (P : Params) (key : Bytes) (ttl : Nat) (e : Entry) (withTtl : Bool) (t : Target) : Target × Result :=
  match restoreBigRdbEntry P key e t with
  | (.ok, t1) => if withTtl ∧ e.expireAt ≠ 0 then pexpireStep key ttl .error t1 else (t1, .ok)
  | (s, t1) => (t1, statusResult s)

def bigRoute (P : Params) (cfg : Cfg) (key : Bytes) (ttl : Nat) (e : Entry) (t : Target) : Target × Result :=
  if cfg.keyExists = .rewrite ∧ e.needReadLen = 1 then
    match t.doCmd (.del key) with
    | (.int _, t1) => bigThenExpire P key ttl e true t1
    | (_, t1) => (t1, .abort)
  else bigThenExpire P key ttl e true t

/-- the `RESTORE:` label and everything below it; `fuel` bounds the `goto` (two rounds suffice against MiniRedis) -/
def restoreLoop (fx : Fixes) (P : Params) (cfg : Cfg) (key : Bytes) (ttl : Nat) (e : Entry)
    (idle freq : Option Nat) : Nat → Bool → Target → Target × Result
  | 0, _, t => (t, .hang)
  | fuel + 1, replace, t =>
    match t.doCmd (.restore key ttl e.value idle freq replace) with
    | (.ok, t1) => (t1, .ok)
    | (.bulk b, t1) => (t1, if b = ascii "OK" then .ok else .error)
    | (.int _, t1) => (t1, .error)
    | (.err k, t1) =>
      if k = .busy ∨ k = .busyOld then
        match cfg.keyExists with
        | .rewrite =>
          if cfg.targetReplace then restoreLoop fx P cfg key ttl e idle freq fuel true t1
          else
            match t1.doCmd (.del key) with
            | (.int _, t2) =>
              if fx.retryAfterDel then restoreLoop fx P cfg key ttl e idle freq fuel replace t2 else (t2, .ok)
            | (_, t2) => (t2, .error)
        | .ignore => (t1, .ok)
        | .none => (t1, .error)
      else if k = .badData then
        if fx.fallbackDel ∧ cfg.keyExists = .rewrite then
          match t1.doCmd (.del key) with
          | (.int _, t2) => bigThenExpire P key ttl e fx.fallbackTtl t2
          | (_, t2) => (t2, .abort)
        else bigThenExpire P key ttl e fx.fallbackTtl t1
      else (t1, .error)

def restoreRoute (fx : Fixes) (P : Params) (cfg : Cfg) (key : Bytes) (ttl : Nat) (e : Entry) (t : Target) :
    Target × Result :=
  match compareVersion fx.cmpVersion cfg.targetVersion v50 2 with
  | none => (t, .abort)
  | some ret =>
    let withHints := ret = 0 ∨ ret = 2
    let idle := if withHints ∧ e.idle ≠ 0 then some e.idle else none
    let freq := if withHints ∧ e.freq ≠ 0 then some e.freq else none
    restoreLoop fx P cfg key ttl e idle freq 3 false t

/-- `RestoreRdbEntry(c, e)` without the trace bookkeeping -/
def restoreCore (fx : Fixes) (P : Params) (cfg : Cfg) (nowNs : Nat) (e : Entry) (t : Target) : Target × Result :=
  match rewriteKey cfg e.key with
  | none => (t, .abort)
  | some key =>
    let ttl := ttlMs cfg nowNs e.expireAt
    match route cfg key e with
    | .quicklist => quicklistRoute fx P cfg key ttl e t
    | .lua => luaRoute cfg e t
    | .big => bigRoute P cfg key ttl e t
    | .restore => restoreRoute fx P cfg key ttl e t

abbrev Trace := List (List Bytes)

/-- the sizes of the batches the loop `sendLoop key n i count` flushes for `len` more elements -/
def batches (n : Nat) : Nat → Nat → Nat → List Nat
  | _, _, 0 => []
  | i, count, len + 1 =>
    if count + 1 = 100 ∨ i + 1 = n then (count + 1) :: batches n (i + 1) 0 len
    else batches n (i + 1) (count + 1) len

/-- the same for a quicklist node: `count == 100` inside, `flushAndCheckReply(c, count)` after the node -/
def batchesQ : Nat → Nat → Nat → List Nat
  | _, count, 0 => [count]
  | i, count, len + 1 =>
    if count + 1 = 100 ∨ i + 1 = 0 then (count + 1) :: batchesQ (i + 1) 0 len
    else batchesQ (i + 1) (count + 1) len

/-- `RestoreRdbEntry` of the repaired tree: final target, result, and the commands sent (as rendered) -/
def restoreRdbEntryWith (fx : Fixes) (P : Params) (cfg : Cfg) (nowNs : Nat) (e : Entry) (t : Target) :
    Target × Result × Trace :=
  let (t', r) := restoreCore fx P cfg nowNs e { t with log := [], flog := [] }
  (t', r, t'.log.map Cmd.render)

def restoreRdbEntry := restoreRdbEntryWith Fixes.all
def restoreRdbEntryPinned := restoreRdbEntryWith Fixes.pinned

/-! ### the one-command specification (what the property promises, independent of the route) -/

/-- absolute expiry on the server clock: source expiry minus the shifted tool clock, counted from the server's now -/
def expiryOf (cfg : Cfg) (nowNs srvNow expireAt : Nat) : Option Nat :=
  if expireAt = 0 then none else some (srvNow + ttlMs cfg nowNs expireAt)

/-- restoring value `v` with expiry `exp` under `key`: the policy decides when the key exists -/
def specOutcome (pol : Policy) (ks : Keyspace) (d : Nat) (key : Bytes) (v : LValue) (exp : Option Nat) :
    Keyspace × Result :=
  if (ks d key).isSome then
    match pol with
    | .none => (ks, .error)
    | .ignore => (ks, .ok)
    | .rewrite => (ks.put d key (some (v, exp)), .ok)
  else (ks.put d key (some (v, exp)), .ok)

/-- finding D6 (`sig=bigkey-policy`): the element-wise route never consults the policy, so a pre-existing key
    under `none`/`ignore` is merged into / overwritten -/
def bigPolicyCond (cfg : Cfg) (key : Bytes) (t : Target) : Bool :=
  (t.get key).isSome && cfg.keyExists != .rewrite

/-- finding D7 (`sig=chunked-expired`): the key created by the first chunk is gone (expired) when a later chunk
    arrives at server time `laterNow` -/
def chunkExpiredCond (exp : Option Nat) (laterNow : Nat) : Bool :=
  match exp with
  | some x => x ≤ laterNow
  | none => false

/-- a sequence of entries (the chunks of one key) restored at successive server times; stops at the first
    result that is not ok -/
def restoreSeq (fx : Fixes) (P : Params) (cfg : Cfg) : List (Nat × Nat × Entry) → Target → Target × Result
  | [], t => (t, .ok)
  | (nowNs, srvNow, e) :: rest, t =>
    match restoreCore fx P cfg nowNs e (t.advance srvNow) with
    | (t1, .ok) => restoreSeq fx P cfg rest t1
    | r => r

end RSVerif.RestoreEntry
