import RSVerif.Basic
import RSVerif.Generated.C18
/-
Executable, total model of `pkg/libs/io/backlog/{backlog.go,buff.go,file.go}` exactly as coded.

  roffset / woffset / align          backlog.go:37-66
  memBuffer.{readSomeAt,writeSome,dataRange,close}     buff.go
  fileBuffer.{readSomeAt,writeSome,dataRange,close}    file.go  (os.File = growable byte array)
  Backlog.{readSomeAt,writeSome,Write,CloseWithError,DataRange,NewReader}, ReadAt as a loop of
  atomic `readSomeAt` steps that may park inside `rwait.Wait()`, Reader.{Read,SeekTo,IsValid,Offset}

Positions are `Nat` (uint64 wrap-around of `wpos` is not modelled: 2^64 bytes of traffic).
Every critical section under `bl.mu` is ONE atomic step of `Sys.step`; any number of reader threads,
each idle / running (about to call `readSomeAt`) / parked (inside `rwait.Wait()`); `Broadcast` moves
every parked thread to running.  Core Lean only.
-/
namespace RSVerif.Backlog
open RSVerif

inductive Err
  | closed            -- ErrClosedBacklog
  | invalidOffset     -- ErrInvalidOffset
  | eof               -- io.EOF out of os.File.ReadAt (short file)
  | custom (c : Nat)  -- an error value handed to CloseWithError
  deriving DecidableEq, Repr

/-! ### ring arithmetic (backlog.go:37-66) -/

/-- `roffset(blen, size, rpos, wpos) (maxlen, offset)`; only called with `rpos ≤ wpos`. -/
def roffset (blen size rpos wpos : Nat) : Nat × Nat :=
  let maxlen := blen
  let maxlen := if wpos - rpos < maxlen then wpos - rpos else maxlen
  let offset := rpos % size
  let maxlen := if size - offset < maxlen then size - offset else maxlen
  (maxlen, offset)

/-- `woffset(blen, size, wpos) (maxlen, offset)` -/
def woffset (blen size wpos : Nat) : Nat × Nat :=
  let maxlen := blen
  let maxlen := if size < maxlen then size else maxlen
  let offset := wpos % size
  let maxlen := if size - offset < maxlen then size - offset else maxlen
  (maxlen, offset)

/-- `align(size, unit)` -/
def align (size unit : Nat) : Nat :=
  if size < unit then unit else (size + unit - 1) / unit * unit

/-! ### byte stores -/

/-- `copy(p.b[off:off+len bs], bs)` into a fixed-size slice (an index outside the slice would be a
    Go panic; `Properties.C18.woffset_in_bounds` shows it cannot happen). -/
def memCopy : Array UInt8 → Nat → Bytes → Array UInt8
  | a, _, [] => a
  | a, off, b :: bs => memCopy (a.setIfInBounds off b) (off + 1) bs

/-- `f.WriteAt(bs, off)` on a file whose content is `a`: overwrites, extends, zero-fills a hole. -/
def fileWriteAt : Array UInt8 → Nat → Bytes → Array UInt8
  | a, _, [] => a
  | a, off, b :: bs =>
    if off < a.size then fileWriteAt (a.setIfInBounds off b) (off + 1) bs
    else fileWriteAt ((a ++ Array.replicate (off - a.size) 0).push b) (off + 1) bs

inductive Kind | mem | file
  deriving DecidableEq, Repr

/-- `memBuffer` / `fileBuffer`: `cells` is `p.b` (length `size`) resp. the content of `p.f`;
    `live = false` is `p.b == nil` resp. `p.f == nil`. -/
structure Store where
  kind : Kind
  size : Nat
  wpos : Nat
  cells : Array UInt8
  live : Bool

/-- `newMemBuffer(buffSize)` (the `n <= 0` panic is unreachable for a non-negative request) -/
def Store.newMem (req : Nat) : Store :=
  let n := align req Generated.C18.buffSizeAlign
  { kind := .mem, size := n, wpos := 0, cells := Array.replicate n 0, live := true }

/-- `newFileBuffer(fileSize, f)`, `content` = what the file holds when it is handed over -/
def Store.newFile (req : Nat) (content : Array UInt8) : Store :=
  let n := align req Generated.C18.fileSizeAlign
  { kind := .file, size := n, wpos := 0, cells := content, live := true }

/-- a store of an arbitrary capacity (what the theorems quantify over) -/
def Store.ofSize (kind : Kind) (size : Nat) (content : Array UInt8) : Store :=
  match kind with
  | .mem => { kind := .mem, size := size, wpos := 0, cells := Array.replicate size 0, live := true }
  | .file => { kind := .file, size := size, wpos := 0, cells := content, live := true }

/-- `(n, bytes placed in b[0:n], err)` of `p.readSomeAt(b, rpos)` with `len(b) = k` -/
def Store.readSomeAt (p : Store) (k rpos : Nat) : Nat × Bytes × Option Err :=
  if !p.live then (0, [], some .closed)
  else if rpos > p.wpos ∨ rpos + p.size < p.wpos then (0, [], some .invalidOffset)
  else
    let (maxlen, offset) := roffset k p.size rpos p.wpos
    if maxlen = 0 then (0, [], none)
    else match p.kind with
      | .mem =>      -- n := copy(b, p.b[offset:offset+maxlen])
        let bs := ((p.cells.extract offset (offset + maxlen)).toList).take k
        (bs.length, bs, none)
      | .file =>     -- n, err := p.f.ReadAt(b[:maxlen], offset)
        let bs := (p.cells.extract offset (offset + maxlen)).toList
        (bs.length, bs, if bs.length < maxlen then some .eof else none)

/-- `p.writeSome(b)`: `(p', n, err)` -/
def Store.writeSome (p : Store) (bs : Bytes) : Store × Nat × Option Err :=
  match p with
  | ⟨kind, size, wpos, cells, live⟩ =>
    if !live then (⟨kind, size, wpos, cells, live⟩, 0, some .closed)
    else
      let (maxlen, offset) := woffset bs.length size wpos
      if maxlen = 0 then (⟨kind, size, wpos, cells, live⟩, 0, none)
      else
        let chunk := bs.take maxlen
        match kind with
        | .mem =>    -- n := copy(p.b[offset:offset+maxlen], b); p.wpos += n
          (⟨.mem, size, wpos + chunk.length, memCopy cells offset chunk, live⟩, chunk.length, none)
        | .file =>   -- n, err := p.f.WriteAt(b[:maxlen], offset); p.wpos += n
          (⟨.file, size, wpos + chunk.length, fileWriteAt cells offset chunk, live⟩, chunk.length, none)

/-- `p.dataRange()` -/
def Store.dataRange (p : Store) : Nat × Nat :=
  if !p.live then (0, 0)
  else if p.wpos ≥ p.size then (p.wpos - p.size, p.wpos)
  else (0, p.wpos)

/-- `p.close()`: memory drops the slice; the file is truncated to 0 and closed. Returns nil. -/
def Store.close (p : Store) : Store :=
  match p.kind with
  | .mem => { p with cells := #[], live := false }
  | .file => if p.live then { p with cells := #[], live := false } else p

/-! ### Backlog -/

/-- `Backlog`: `store` is `bl.store` (set by every constructor, never cleared), `err` is `bl.err`. -/
structure Backlog where
  store : Option Store
  err : Option Err

/-- outcome of one `bl.readSomeAt(b, rpos)` critical section -/
inductive RdRes
  | done (n : Nat) (bs : Bytes) (err : Option Err)   -- returned before reaching `rwait.Wait()`
  | wait                                            -- reached `rwait.Wait()`
  deriving DecidableEq, Repr

def Backlog.readSomeAt (bl : Backlog) (k rpos : Nat) : RdRes :=
  match bl.store with
  | none => .done 0 [] (some .closed)
  | some st =>
    if k = 0 ∨ bl.err ≠ none then .done 0 [] bl.err
    else
      let (n, bs, err) := st.readSomeAt k rpos
      if err ≠ none ∨ n ≠ 0 then .done n bs err else .wait

/-- `bl.writeSome(b)`: `(bl', n, err, broadcast?)` -/
def Backlog.writeSome (bl : Backlog) (bs : Bytes) : Backlog × Nat × Option Err × Bool :=
  match bl with
  | ⟨none, e⟩ => (⟨none, e⟩, 0, some .closed, false)
  | ⟨some st, e⟩ =>
    if bs.length = 0 ∨ e ≠ none then (⟨some st, e⟩, 0, e, false)
    else
      match st.writeSome bs with
      | (st', n, err) =>
        if err ≠ none ∨ n ≠ 0 then (⟨some st', e⟩, n, err, true) else (⟨some st', e⟩, 0, none, false)

/-- `bl.CloseWithError(err)` with its `nil` test exactly as written (`if bl.err != nil { bl.err = err }`):
    `(bl', returned error)`; always broadcasts. -/
def Backlog.closeWithError (bl : Backlog) (e : Option Err) : Backlog × Option Err :=
  let err := match e with | none => Err.closed | some x => x
  let bl := if bl.err ≠ none then { bl with err := some err } else bl
  match bl.store with
  | some st => ({ bl with store := some st.close }, none)
  | none => (bl, none)

/-- `bl.DataRange()` -/
def Backlog.dataRange (bl : Backlog) : Nat × Nat × Option Err :=
  match bl.store with
  | none => (0, 0, some .closed)
  | some st =>
    if bl.err ≠ none then (0, 0, bl.err)
    else let (r, w) := st.dataRange; (r, w, none)

/-- `bl.Write(b)` when nobody interleaves: the loop over `writeSome`. `fuel` bounds the iterations
    (`bs.length + 1` suffices whenever the capacity is positive; `none` = the Go loop would spin). -/
def Backlog.write : Nat → Backlog → Bytes → Nat → Option (Backlog × Nat × Option Err)
  | 0, _, _, _ => none
  | fuel + 1, bl, bs, nn =>
    match bl.writeSome bs with
    | (bl', n, err, _) =>
      if err ≠ none then some (bl', nn + n, err)
      else if (bs.drop n).length = 0 then some (bl', nn + n, none)
      else Backlog.write fuel bl' (bs.drop n) (nn + n)

/-! ### threads -/

/-- where a reader thread is inside `Backlog.ReadAt(b, o)`, `len(b) = k`; `upd` = the call came from
    `Reader.Read`, which adds the count to `seek` on return. -/
inductive Phase
  | idle
  | running (k o : Nat) (upd : Bool)
  | parked (k o : Nat) (upd : Bool)
  deriving DecidableEq, Repr

structure Reader where
  seek : Nat
  ph : Phase
  deriving DecidableEq, Repr

structure Sys where
  bl : Backlog
  rds : List Reader      -- reader/thread id = index

inductive Op
  | writeSome (bs : Bytes)       -- one `bl.writeSome(b)` (a `Write` is a sequence of these)
  | close (e : Option Err)       -- `CloseWithError(e)`; `Close()` = `close none`
  | dataRange
  | newReader                    -- `bl.NewReader()`; on success the new reader gets the next id
  | begin (r k : Nat)            -- thread r enters `Reader.Read(b)`: reads `r.seek`, enters `ReadAt`
  | beginAt (r k o : Nat)        -- thread r enters `bl.ReadAt(b, o)`
  | step (r : Nat)               -- thread r (running) performs one `readSomeAt` critical section
  | seekTo (r o : Nat)
  | isValid (r : Nat)
  | offset (r : Nat)
  deriving DecidableEq, Repr

inductive Ev
  | wrote (n : Nat) (err : Option Err)
  | closed (err : Option Err)
  | range (lo hi : Nat) (err : Option Err)
  | reader (r : Nat) (err : Option Err)
  | began (r : Nat)
  | done (r o n : Nat) (bs : Bytes) (err : Option Err)   -- `ReadAt` of thread r at offset o returned
  | parked (r : Nat)
  | valid (r : Nat) (b : Bool)
  | off (r o : Nat)
  | refused                                              -- the op is not enabled in this state
  deriving DecidableEq, Repr

/-- a thread inside `rwait.Wait()` returns from it (and will call `readSomeAt` again) -/
def wake1 (r : Reader) : Reader :=
  match r.ph with
  | .parked k o u => { r with ph := .running k o u }
  | _ => r

/-- `rwait.Broadcast()` -/
def wakeAll (rds : List Reader) : List Reader := rds.map wake1

/-- `r.IsValid()` -/
def Backlog.isValid (bl : Backlog) (seek : Nat) : Bool :=
  match bl.dataRange with
  | (_, _, some _) => false
  | (rpos, wpos, none) => decide (seek ≥ rpos) && decide (seek ≤ wpos)

def Sys.step (s : Sys) (op : Op) : Sys × Ev :=
  match s with
  | ⟨bl, rds⟩ =>
  match op with
  | .writeSome bs =>
    match bl.writeSome bs with
    | (bl', n, err, bc) => (⟨bl', if bc then wakeAll rds else rds⟩, .wrote n err)
  | .close e =>
    match bl.closeWithError e with
    | (bl', err) => (⟨bl', wakeAll rds⟩, .closed err)
  | .dataRange =>
    match bl.dataRange with
    | (lo, hi, err) => (⟨bl, rds⟩, .range lo hi err)
  | .newReader =>
    match bl.store with
    | none => (⟨bl, rds⟩, .reader rds.length (some .closed))
    | some st =>
      if bl.err ≠ none then (⟨bl, rds⟩, .reader rds.length bl.err)
      else (⟨bl, rds ++ [⟨st.dataRange.2, .idle⟩]⟩, .reader rds.length none)
  | .begin r k =>
    match rds[r]? with
    | some ⟨seek, .idle⟩ => (⟨bl, rds.set r ⟨seek, .running k seek true⟩⟩, .began r)
    | _ => (⟨bl, rds⟩, .refused)
  | .beginAt r k o =>
    match rds[r]? with
    | some ⟨seek, .idle⟩ => (⟨bl, rds.set r ⟨seek, .running k o false⟩⟩, .began r)
    | _ => (⟨bl, rds⟩, .refused)
  | .step r =>
    match rds[r]? with
    | some ⟨seek, .running k o u⟩ =>
      match bl.readSomeAt k o with
      | .done n bs err => (⟨bl, rds.set r ⟨if u then seek + n else seek, .idle⟩⟩, .done r o n bs err)
      | .wait => (⟨bl, rds.set r ⟨seek, .parked k o u⟩⟩, .parked r)
    | _ => (⟨bl, rds⟩, .refused)
  | .seekTo r o =>
    match rds[r]? with
    | some ⟨_, .idle⟩ => (⟨bl, rds.set r ⟨o, .idle⟩⟩, .valid r (bl.isValid o))
    | _ => (⟨bl, rds⟩, .refused)
  | .isValid r =>
    match rds[r]? with
    | some rd => (⟨bl, rds⟩, .valid r (bl.isValid rd.seek))
    | none => (⟨bl, rds⟩, .refused)
  | .offset r =>
    match rds[r]? with
    | some rd => (⟨bl, rds⟩, .off r rd.seek)
    | none => (⟨bl, rds⟩, .refused)

/-- run a schedule, collecting what each step returned -/
def Sys.run : Sys → List Op → Sys × List Ev
  | s, [] => (s, [])
  | s, op :: ops =>
    match s.step op with
    | (s', ev) => match Sys.run s' ops with
      | (s'', evs) => (s'', ev :: evs)

def Sys.ofStore (st : Store) : Sys := ⟨⟨some st, none⟩, []⟩

/-- `backlog.NewSize(req)` -/
def Sys.newMem (req : Nat) : Sys := Sys.ofStore (Store.newMem req)
/-- `backlog.NewFileBacklog(req, f)` -/
def Sys.newFile (req : Nat) (content : Array UInt8) : Sys := Sys.ofStore (Store.newFile req content)

end RSVerif.Backlog
