import RSVerif.Model.SyncBasic
import RSVerif.Generated.SyncConsts
/-
Model of `parseSourceCommand` (dbSync/syncIncrease.go:163-271): from already-decoded commands
`(cmd, args, posAfter)` (what `redis.MustDecodeOpt` + `redis.ParseArgs` return: command name lower-cased,
argument bytes, decoder offset after the command) to the items put on `sendBuf`. Core Lean only.

Parameters owned by other properties: the key filter `filter.HandleFilterKeyWithCommand` (C13), the
database filter `filter.FilterDB` and the command filter `filter.FilterCommands` (C06).
-/
namespace RSVerif.IncrParse
open RSVerif RSVerif.Sync

structure PCfg where
  /-- `conf.Options.TargetDB` (−1: keep the source's databases) -/
  targetDB : Int
  /-- `filter.FilterDB` — true = do not pass -/
  filterDB : Int → Bool
  /-- `filter.FilterCommands` — true = do not pass -/
  filterCmd : String → Bool
  /-- `filter.HandleFilterKeyWithCommand` — (new arguments, reject) -/
  keyFilter : String → List Bytes → List Bytes × Bool
  /-- the repair of deviation D8 is present (`Generated.SyncConsts.selectKeepsLastDbUnderTargetDb`):
      `lastDb = n` only when `TargetDB == -1` -/
  d8fix : Bool

/-- one decoded source command -/
structure SrcCmd where
  cmd : String          -- lower-cased by `redis.ParseArgs`
  args : List Bytes
  pos : Int             -- `incrOffset`: decoder offset after this command
deriving DecidableEq, Repr

/-- the loop variables `lastDb`, `bypass` -/
structure PState where
  lastDb : Int
  bypass : Bool
deriving DecidableEq, Repr

def PState.init : PState := { lastDb := -1, bypass := false }

def sentinelHello : String := "__sentinel__:hello"

/-- one iteration of the `for` loop: `none` = the process aborts (`log.Panic*` or an index panic),
otherwise the new loop variables and the items sent -/
def pstep (cfg : PCfg) (base : Int) (st : PState) (c : SrcCmd) : Option (PState × List Item) :=
  let off := base + c.pos
  -- the tail shared by all paths that reach `HandleFilterKeyWithCommand`
  let finish (st : PState) (isSelect ignoreCmd : Bool) : Option (PState × List Item) :=
    let kf := cfg.keyFilter c.cmd c.args        -- (newArgv, reject)
    if st.bypass || ignoreCmd || kf.2 then some (st, [])
    else if isSelect && cfg.targetDB != -1 then
      if cfg.targetDB != st.lastDb then
        some ({ st with lastDb := cfg.targetDB },
              [{ cmd := "SELECT", args := [fmtInt cfg.targetDB], off := off, db := cfg.targetDB }])
      else some (st, [])
    else some (st, [{ cmd := c.cmd, args := kf.1, off := off, db := st.lastDb }])
  if c.cmd != "ping" then
    if eqFold c.cmd "select" then
      match c.args with
      | [a] =>
        match atoi a with
        | none => none                                    -- "parse db = %s failed"
        | some n =>
          let st' : PState :=
            { lastDb := if cfg.d8fix && cfg.targetDB != -1 then st.lastDb else n, bypass := cfg.filterDB n }
          if st'.bypass then some (st', []) else finish st' true false
      | _ => none                                          -- "select command len(args) = %d"
    else if cfg.filterCmd c.cmd then some (st, [])         -- ignoreCmd
    else if eqFold c.cmd "publish" then
      match c.args with
      | [] => none                                         -- argv[0]: index out of range
      | a0 :: _ =>
        if eqFoldBytes a0 sentinelHello then some (st, [])  -- ignoresentinel
        else if st.bypass then some (st, []) else finish st false false
    else if st.bypass then some (st, []) else finish st false false
  else finish st false false

/-- the loop: items sent so far and whether the process aborted -/
def ploop (cfg : PCfg) (base : Int) : PState → List SrcCmd → List Item × Bool
  | _, [] => ([], false)
  | st, c :: cs =>
    match pstep cfg base st c with
    | none => ([], true)
    | some (st', out) =>
      let (rest, ab) := ploop cfg base st' cs
      (out ++ rest, ab)

/-- "if the start db Id != 0, send dbid to the Target at first" -/
def startItems (startDb base : Int) : List Item :=
  if startDb != 0 then [{ cmd := "select", args := [fmtInt startDb], off := base, db := startDb }] else []

/-- `parseSourceCommand` with `ds.startDbId = startDb`, `ds.sourceOffset = base` -/
def parseFull (cfg : PCfg) (startDb base : Int) (cmds : List SrcCmd) : List Item × Bool :=
  let (items, ab) := ploop cfg base PState.init cmds
  (startItems startDb base ++ items, ab)

def parse (cfg : PCfg) (startDb base : Int) (cmds : List SrcCmd) : List Item :=
  (parseFull cfg startDb base cmds).1

end RSVerif.IncrParse
