import RSVerif.Basic
import RSVerif.Generated.Crc64Tables
/-
Model of the two in-repo CRC-64 implementations
  pkg/rdb/digest/crc64.go              (digest.update / Write / Sum / Sum64)
  pkg/libs/cupcake/rdb/crc64/crc64.go  (crc64 / Digest)
Both are `crc = table[byte(crc) ^ b] ^ (crc >> 8)` folded over the bytes; the tables are
regenerated from the source (`Generated.Crc64Tables`).
-/
namespace RSVerif.Crc64
open RSVerif

/-- one step of the table driven loop, for an arbitrary table -/
@[inline] def stepT (tbl : Array UInt64) (crc : UInt64) (b : UInt8) : UInt64 :=
  tbl[(crc.toUInt8 ^^^ b).toNat]! ^^^ (crc >>> 8)

def updateT (tbl : Array UInt64) (crc : UInt64) (bs : Bytes) : UInt64 := bs.foldl (stepT tbl) crc

/-- `digest.update` with the table of pkg/rdb/digest -/
def digestUpdate (crc : UInt64) (bs : Bytes) : UInt64 := updateT Generated.crc64TableDigest crc bs
/-- `crc64.crc64` of the in-repo cupcake copy -/
def cupcakeUpdate (crc : UInt64) (bs : Bytes) : UInt64 := updateT Generated.crc64TableCupcake crc bs

/-- A `hash.Hash64` object: state after a sequence of `Write` calls starting from `Reset`. -/
def writes (chunks : List Bytes) : UInt64 := chunks.foldl digestUpdate 0

/-- `Sum(nil)`: little endian rendering of the state -/
def sum (crc : UInt64) : Bytes := le64 crc

end RSVerif.Crc64
