/-
C19 — model side of "configured passwords never appear in logs or status output".

The "model of the Go code" for this property is a *regenerated abstraction*: `Generated/LogFlow.lean`
(written on every run by go/logflow from the current sources) instantiates the structures below with
 * `TypeDef` rows: every struct / named type reachable from an output argument, with one *location id*
   per field;
 * value-flow edges `loc → loc` and hand-over edges `static type → loc`;
 * `Site`s: every output call (log.*, fmt.Print*, panic, REST handler result, HTTP writes, prometheus
   labels), each argument with its static type and the locations its value is read from;
 * candidate closed sets `tainted` / `taintedTypes` as bit masks.

This file defines what "closed" and "clean" mean (`Graph.closed`, `siteClean`), the least taint relation
`Derivable` that the candidate over-approximates, and a small value/formatting model (`GoVal`, `render`,
`mask`) for the non-interference statement. Core Lean only.
-/
namespace RSVerif.LogFlow

/-- static Go types; struct and other named types are rows of the generated type table -/
inductive GoType where
  | basic (name : String)
  | named (id : Nat)
  | ptr (t : GoType)
  | slice (t : GoType)
  | array (t : GoType)
  | chan (t : GoType)
  | map (k v : GoType)
  | iface
  | func
  deriving Repr, DecidableEq, Inhabited

structure Field where
  loc : Nat
  name : String
  ty : GoType
  deriving Repr, DecidableEq

structure TypeDef where
  id : Nat
  name : String
  fields : List Field
  under : Option GoType
  deriving Repr, DecidableEq

structure Arg where
  ty : GoType
  locs : List Nat
  src : String
  deriving Repr, DecidableEq

structure Site where
  loc : String
  kind : String
  callee : String
  args : List Arg
  deriving Repr, DecidableEq

/-- the extracted flow graph -/
structure Graph where
  typeDefs : List TypeDef
  edges : List (Nat × Nat)
  typeEdges : List (GoType × Nat)
  sources : List Nat

/-! ### Sets as bit masks (kernel-friendly: `Nat.testBit` reduces by GMP arithmetic) -/

/-- does a value of static type `t` possibly contain a field of a row in `tt`? Interface-typed
    positions are not looked through: their content is tracked by location. -/
def GoType.reaches (tt : Nat) : GoType → Bool
  | .basic _ => false
  | .named id => tt.testBit id
  | .ptr t => t.reaches tt
  | .slice t => t.reaches tt
  | .array t => t.reaches tt
  | .chan t => t.reaches tt
  | .map k v => k.reaches tt || v.reaches tt
  | .iface => false
  | .func => false

def fieldHit (T TT : Nat) (f : Field) : Bool := T.testBit f.loc || f.ty.reaches TT

def underHit (TT : Nat) : Option GoType → Bool
  | some u => u.reaches TT
  | none => false

/-- a row whose field location is tainted, or whose field type reaches a tainted row, is tainted -/
def typeDefClosed (T TT : Nat) (d : TypeDef) : Bool :=
  !(d.fields.any (fieldHit T TT) || underHit TT d.under) || TT.testBit d.id

def edgeClosed (T : Nat) (e : Nat × Nat) : Bool := !T.testBit e.1 || T.testBit e.2

def typeEdgeClosed (T TT : Nat) (e : GoType × Nat) : Bool := !e.1.reaches TT || T.testBit e.2

def Graph.closed (G : Graph) (T TT : Nat) : Bool :=
  G.sources.all (fun l => T.testBit l) && G.edges.all (edgeClosed T) &&
  G.typeEdges.all (typeEdgeClosed T TT) && G.typeDefs.all (typeDefClosed T TT)

def argClean (T TT : Nat) (a : Arg) : Bool := !a.ty.reaches TT && a.locs.all (fun l => !T.testBit l)

def siteClean (T TT : Nat) (s : Site) : Bool := s.args.all (argClean T TT)

/-! ### The least taint relation of a graph -/

inductive Fact where
  | loc (l : Nat)
  | row (id : Nat)
  | ty (t : GoType)

/-- everything that follows from the sources by the extracted rules -/
inductive Derivable (G : Graph) : Fact → Prop where
  | source {l} : l ∈ G.sources → Derivable G (.loc l)
  | edge {a b} : (a, b) ∈ G.edges → Derivable G (.loc a) → Derivable G (.loc b)
  | handOver {t d} : (t, d) ∈ G.typeEdges → Derivable G (.ty t) → Derivable G (.loc d)
  | fieldLoc {d f} : d ∈ G.typeDefs → f ∈ d.fields → Derivable G (.loc f.loc) → Derivable G (.row d.id)
  | fieldTy {d f} : d ∈ G.typeDefs → f ∈ d.fields → Derivable G (.ty f.ty) → Derivable G (.row d.id)
  | under {d u} : d ∈ G.typeDefs → d.under = some u → Derivable G (.ty u) → Derivable G (.row d.id)
  | named {id} : Derivable G (.row id) → Derivable G (.ty (.named id))
  | ptr {t} : Derivable G (.ty t) → Derivable G (.ty (.ptr t))
  | slice {t} : Derivable G (.ty t) → Derivable G (.ty (.slice t))
  | array {t} : Derivable G (.ty t) → Derivable G (.ty (.array t))
  | chan {t} : Derivable G (.ty t) → Derivable G (.ty (.chan t))
  | mapKey {k v} : Derivable G (.ty k) → Derivable G (.ty (.map k v))
  | mapVal {k v} : Derivable G (.ty v) → Derivable G (.ty (.map k v))

def Fact.holds (T TT : Nat) : Fact → Prop
  | .loc l => T.testBit l = true
  | .row id => TT.testBit id = true
  | .ty t => t.reaches TT = true

/-- an output argument is *possibly secret* if its static type or one of its read locations is derivable -/
def Arg.possiblySecret (G : Graph) (a : Arg) : Prop :=
  Derivable G (.ty a.ty) ∨ ∃ l ∈ a.locs, Derivable G (.loc l)

/-! ### Values, low-equivalence, masking, formatting -/

mutual
  /-- run-time values; a struct value carries the location id and name of each field -/
  inductive GoVal where
    | str (s : String)
    | num (n : Int)
    | bool (b : Bool)
    | nil
    | ptr (v : GoVal)
    | list (vs : GoVals)
    | map (kvs : GoVals)
    | struct (fs : GoFields)
  inductive GoVals where
    | nil
    | cons (v : GoVal) (vs : GoVals)
  inductive GoFields where
    | nil
    | cons (loc : Nat) (name : String) (v : GoVal) (fs : GoFields)
end

mutual
  /-- no struct field whose location is in `S` occurs anywhere in the value -/
  def GoVal.clean (S : List Nat) : GoVal → Bool
    | .str _ => true | .num _ => true | .bool _ => true | .nil => true
    | .ptr v => v.clean S
    | .list vs => vs.clean S
    | .map kvs => kvs.clean S
    | .struct fs => fs.clean S
  def GoVals.clean (S : List Nat) : GoVals → Bool
    | .nil => true
    | .cons v vs => v.clean S && vs.clean S
  def GoFields.clean (S : List Nat) : GoFields → Bool
    | .nil => true
    | .cons loc _ v fs => !S.contains loc && v.clean S && fs.clean S
end

mutual
  /-- every `S`-field occurring in the value is in `M` -/
  def GoVal.covered (S M : List Nat) : GoVal → Bool
    | .str _ => true | .num _ => true | .bool _ => true | .nil => true
    | .ptr v => v.covered S M
    | .list vs => vs.covered S M
    | .map kvs => kvs.covered S M
    | .struct fs => fs.covered S M
  def GoVals.covered (S M : List Nat) : GoVals → Bool
    | .nil => true
    | .cons v vs => v.covered S M && vs.covered S M
  def GoFields.covered (S M : List Nat) : GoFields → Bool
    | .nil => true
    | .cons loc _ v fs => (!S.contains loc || M.contains loc) && v.covered S M && fs.covered S M
end

mutual
  /-- equal except (arbitrarily) inside the fields whose location is in `S` -/
  def GoVal.lowEq (S : List Nat) : GoVal → GoVal → Prop
    | .str a, .str b => a = b
    | .num a, .num b => a = b
    | .bool a, .bool b => a = b
    | .nil, .nil => True
    | .ptr a, .ptr b => GoVal.lowEq S a b
    | .list a, .list b => GoVals.lowEq S a b
    | .map a, .map b => GoVals.lowEq S a b
    | .struct a, .struct b => GoFields.lowEq S a b
    | _, _ => False
  def GoVals.lowEq (S : List Nat) : GoVals → GoVals → Prop
    | .nil, .nil => True
    | .cons a as, .cons b bs => GoVal.lowEq S a b ∧ GoVals.lowEq S as bs
    | _, _ => False
  def GoFields.lowEq (S : List Nat) : GoFields → GoFields → Prop
    | .nil, .nil => True
    | .cons l n a as, .cons l' n' b bs =>
        l = l' ∧ n = n' ∧ (S.contains l = true ∨ GoVal.lowEq S a b) ∧ GoFields.lowEq S as bs
    | _, _ => False
end

mutual
  /-- what `GetSafeOptions` does, generalised: overwrite the fields in `M` with the literal mask -/
  def GoVal.mask (M : List Nat) : GoVal → GoVal
    | .str s => .str s | .num n => .num n | .bool b => .bool b | .nil => .nil
    | .ptr v => .ptr (v.mask M)
    | .list vs => .list (vs.mask M)
    | .map kvs => .map (kvs.mask M)
    | .struct fs => .struct (fs.mask M)
  def GoVals.mask (M : List Nat) : GoVals → GoVals
    | .nil => .nil
    | .cons v vs => .cons (v.mask M) (vs.mask M)
  def GoFields.mask (M : List Nat) : GoFields → GoFields
    | .nil => .nil
    | .cons loc n v fs => .cons loc n (if M.contains loc then .str "***" else v.mask M) (fs.mask M)
end

/-! ### Typing of values against the generated type table -/

mutual
  /-- typing of run-time values against the type table. An interface-typed position may hold any value
      that is clean w.r.t. `S` — that is what the *location* part of the analysis is trusted to establish;
      everything else is by static type. -/
  inductive HasType (defs : List TypeDef) (S : List Nat) : GoType → GoVal → Prop where
    | str {n s} : HasType defs S (.basic n) (.str s)
    | num {n i} : HasType defs S (.basic n) (.num i)
    | bool {n b} : HasType defs S (.basic n) (.bool b)
    | nil {t} : HasType defs S t .nil
    | ptr {t v} : HasType defs S t v → HasType defs S (.ptr t) (.ptr v)
    | slice {t vs} : AllType defs S t vs → HasType defs S (.slice t) (.list vs)
    | array {t vs} : AllType defs S t vs → HasType defs S (.array t) (.list vs)
    | map {k v kvs} : MapType defs S k v kvs → HasType defs S (.map k v) (.map kvs)
    | struct {d fs} : d ∈ defs → FieldsType defs S d.fields fs → HasType defs S (.named d.id) (.struct fs)
    | namedUnder {d u v} : d ∈ defs → d.under = some u → HasType defs S u v → HasType defs S (.named d.id) v
    | iface {v} : v.clean S = true → HasType defs S .iface v
  inductive AllType (defs : List TypeDef) (S : List Nat) : GoType → GoVals → Prop where
    | nil {t} : AllType defs S t .nil
    | cons {t v vs} : HasType defs S t v → AllType defs S t vs → AllType defs S t (.cons v vs)
  inductive MapType (defs : List TypeDef) (S : List Nat) : GoType → GoType → GoVals → Prop where
    | nil {k v} : MapType defs S k v .nil
    | cons {k v a b rest} : HasType defs S k a → HasType defs S v b → MapType defs S k v rest →
        MapType defs S k v (.cons a (.cons b rest))
  inductive FieldsType (defs : List TypeDef) (S : List Nat) : List Field → GoFields → Prop where
    | nil : FieldsType defs S [] .nil
    | cons {f fs v vs} : HasType defs S f.ty v → FieldsType defs S fs vs →
        FieldsType defs S (f :: fs) (.cons f.loc f.name v vs)
end

/-- formatting directives of the model -/
inductive Verb where
  | v      -- %v, Sprint, Sprintln operands
  | plusV  -- %+v
  | s      -- %s
  | d      -- %d
  | json   -- encoding/json of exported fields
  deriving DecidableEq, Repr

def jsonEscapeChar (c : Char) : List Char :=
  if c = '"' then ['\\', '"'] else if c = '\\' then ['\\', '\\']
  else if c = '\n' then ['\\', 'n'] else if c = '<' then "\\u003c".toList
  else if c = '>' then "\\u003e".toList else if c = '&' then "\\u0026".toList
  else [c]

/-- encoding/json string escaping (HTML-safe variant, as `json.Marshal` does) for the characters used -/
def jsonEscape (s : String) : String := String.ofList (s.toList.flatMap jsonEscapeChar)

def exported (name : String) : Bool :=
  match name.toList with
  | c :: _ => c.isUpper
  | [] => false

mutual
  /-- a small model of fmt's and encoding/json's rendering of a value (top-level pointers to structs
      print `&{…}`; nested pointers are followed too, which over-approximates fmt, who prints an address) -/
  def GoVal.render (f : Verb) : GoVal → String
    | .str s => if f = .json then "\"" ++ jsonEscape s ++ "\"" else s
    | .num n => toString n
    | .bool b => toString b
    | .nil => if f = .json then "null" else "<nil>"
    | .ptr v => if f = .json then v.render f else "&" ++ v.render f
    | .list vs => if f = .json then "[" ++ vs.render f "," ++ "]" else "[" ++ vs.render f " " ++ "]"
    | .map kvs => if f = .json then "{" ++ kvs.render f "," ++ "}" else "map[" ++ kvs.render f " " ++ "]"
    | .struct fs => "{" ++ fs.render f ++ "}"
  def GoVals.render (f : Verb) : GoVals → String → String
    | .nil, _ => ""
    | .cons v .nil, _ => v.render f
    | .cons v vs, sep => v.render f ++ sep ++ vs.render f sep
  def GoFields.render (f : Verb) : GoFields → String
    | .nil => ""
    | .cons _ n v fs =>
      let one :=
        if f = .json then (if exported n then "\"" ++ n ++ "\":" ++ v.render f else "")
        else if f = .plusV then n ++ ":" ++ v.render f
        else v.render f
      let sep := if f = .json then "," else " "
      match fs with
      | .nil => one
      | _ => one ++ sep ++ fs.render f
end

/-- `fmt.Sprintf` for the verbs the tool uses (`%v %+v %s %d %%`); other verbs render like `%v` -/
def sprintfAux : List Char → List GoVal → String → String
  | [], _, acc => acc
  | '%' :: '%' :: cs, ops, acc => sprintfAux cs ops (acc.push '%')
  | '%' :: '+' :: 'v' :: cs, v :: ops, acc => sprintfAux cs ops (acc ++ v.render .plusV)
  | '%' :: 's' :: cs, v :: ops, acc => sprintfAux cs ops (acc ++ v.render .s)
  | '%' :: 'd' :: cs, v :: ops, acc => sprintfAux cs ops (acc ++ v.render .d)
  | '%' :: _ :: cs, v :: ops, acc => sprintfAux cs ops (acc ++ v.render .v)
  | '%' :: c :: cs, [], acc => sprintfAux cs [] (acc ++ "%!" ++ c.toString ++ "(MISSING)")
  | c :: cs, ops, acc => sprintfAux cs ops (acc.push c)

def sprintf (fmt : String) (ops : List GoVal) : String := sprintfAux fmt.toList ops ""

/-- `fmt.Sprint`: operands rendered with `%v` (spacing between non-strings is immaterial here) -/
def sprint (ops : List GoVal) : String := String.join (ops.map (GoVal.render .v))

end RSVerif.LogFlow
