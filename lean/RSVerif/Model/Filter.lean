import RSVerif.Spec.Filter
/-
C06 — executable model of the filter code AS WRITTEN:
  src/redis-shake/filter/filter.go       FilterCommands, FilterKey, FilterSlot, FilterDB, hasAtLeastOnePrefix, matchOne
  src/redis-shake/dbSync/syncRDB.go      loop body of syncRDBFile           -> fullSyncDecision
  src/redis-shake/restore.go             loop body of restoreRDBFile        -> restoreDecision
                                         loop body of restoreCommand        -> restoreCmdDecision
  src/redis-shake/dbSync/syncIncrease.go filter part of parseSourceCommand  -> incrSelect / incrDecision
  src/redis-shake/rump.go                getSourceDbList, fetcher, doFetch  -> rumpDecision
  src/redis-shake/common/utils.go        RestoreRdbEntry, aux "lua" branch  -> luaDecision*
`true` always means "not passed on" (the convention of filter.go). Core Lean only.
The configuration record is `Spec.Filter.Cfg` (= conf.Options.Filter*).
-/
namespace RSVerif.Filter
open RSVerif RSVerif.Spec.Filter

/-! ### Go library functions the code calls -/

/-- one step of `strings.EqualFold` on two ASCII bytes -/
def asciiFoldEq (b c : UInt8) : Bool :=
  if b == c then true
  else
    let lo := if c < b then c else b
    let hi := if c < b then b else c
    65 ≤ lo && lo ≤ 90 && hi == lo + 32

/-- `strings.EqualFold(s, t)` for an ASCII string `t` (all call sites compare with an ASCII literal).
    Go folds by Unicode *simple case folding*: besides upper/lower ASCII, the only non-ASCII runes that
    fold to an ASCII letter are U+017F (ſ, bytes C5 BF) ~ s and U+212A (Kelvin sign, bytes E2 84 AA) ~ k.
    Every other non-ASCII or invalid byte sequence decodes to a rune that folds to no ASCII character. -/
def equalFold : Bytes → Bytes → Bool
  | s, [] => s.isEmpty
  | s, c :: t =>
    match s with
    | [] => false
    | b :: s1 =>
      if b < 128 then asciiFoldEq b c && equalFold s1 t
      else if b == 0xC5 && s1.head? == some 0xBF then (c == 115 || c == 83) && equalFold (s1.drop 1) t
      else if b == 0xE2 && s1.take 2 == [0x84, 0xAA] then (c == 107 || c == 75) && equalFold (s1.drop 2) t
      else false

def int64Max : Int := 9223372036854775807
def int64Min : Int := -9223372036854775808

/-- `v, _ := strconv.Atoi(s)`: the value with the error DISCARDED — 0 after a syntax error, the nearest
    int64 bound after a range error. (Accepted syntax: optional sign, one or more decimal digits.) -/
def atoi (s : Bytes) : Int :=
  match numeral? s with
  | none => 0
  | some v => if v > int64Max then int64Max else if v < int64Min then int64Min else v

/-- `strconv.FormatInt(int64(db), 10)` -/
def formatInt (i : Int) : Bytes := decimal i

/-! ### filter.go -/

/-- `hasAtLeastOnePrefix(key, prefixes)` — `strings.HasPrefix(key, prefix)` for some listed prefix -/
def hasAtLeastOnePrefix (key : Bytes) : List Bytes → Bool
  | [] => false
  | p :: ps => if p.isPrefixOf key then true else hasAtLeastOnePrefix key ps

/-- `matchOne(input, list)` -/
def matchOne (input : Bytes) : List Bytes → Bool
  | [] => false
  | e :: es => if e == input then true else matchOne input es

/-- `FilterCommands(cmd)` with the compared literals as parameters: `always` = names compared
    unconditionally, `underLua` = names compared under `conf.Options.FilterLua` -/
def filterCommandsOf (always underLua : List Bytes) (cfg : Cfg) (cmd : Bytes) : Bool :=
  if always.any (fun n => equalFold cmd n) then true
  else if cfg.lua && underLua.any (fun n => equalFold cmd n) then true
  else false

/-- The literals of `FilterCommands`, taken from the source when factgen recognises the function's shape
    (`if EqualFold… { return true } … return false`); after a refactoring into another shape the names of
    the specification are used and the tie to the code rests on the differential run alone. -/
def cmdAlways : List Bytes :=
  if Generated.filterCmdRecognised then Generated.filterCmdAlways else [nOpinfo]
def cmdUnderLua : List Bytes :=
  if Generated.filterCmdRecognised then Generated.filterCmdLua else [nEval, nScript, nEvalsha]

/-- `FilterCommands(cmd)` -/
def filterCommands (cfg : Cfg) (cmd : Bytes) : Bool :=
  filterCommandsOf cmdAlways cmdUnderLua cfg cmd

/-- `FilterKey(key)` -/
def filterKey (cfg : Cfg) (key : Bytes) : Bool :=
  if Generated.innerFilterKeys.contains key then true
  else if Generated.checkpointKey.isPrefixOf key then true
  else if cfg.keyBlack.length != 0 then
    (if hasAtLeastOnePrefix key cfg.keyBlack then true else false)
  else if cfg.keyWhite.length != 0 then
    (if hasAtLeastOnePrefix key cfg.keyWhite then false else true)
  else false

/-- the `for _, ele := range conf.Options.FilterSlot` loop of `FilterSlot` -/
def slotLoop (slot : Int) : List Bytes → Bool
  | [] => true
  | e :: es => if slot == atoi e then false else slotLoop slot es

/-- `FilterSlot(slot)` -/
def filterSlot (cfg : Cfg) (slot : Int) : Bool :=
  if cfg.slots.length == 0 then false else slotLoop slot cfg.slots

/-- `FilterDB(db)` -/
def filterDB (cfg : Cfg) (db : Int) : Bool :=
  let dbString := formatInt db
  if cfg.dbBlack.length != 0 then
    (if matchOne dbString cfg.dbBlack then true else false)
  else if cfg.dbWhite.length != 0 then
    (if matchOne dbString cfg.dbWhite then false else true)
  else false

/-! ### full sync: loop body of `syncRDBFile` (syncRDB.go:37-79) -/

/-- `true` = the entry is not restored. Order as coded: db filter → (SELECT, not a filter decision) →
    key filter → slot filter on `KeyToSlot(key)` (parameter `slot`, C15 owns its definition). -/
def fullSyncDecision (cfg : Cfg) (slot : Bytes → Nat) (db : Int) (key : Bytes) : Bool :=
  if filterDB cfg db then true
  else
    if filterKey cfg key == true then true
    else if filterSlot cfg (slot key) == true then true
    else false

/-! ### restore: loop body of `restoreRDBFile` (restore.go:157-186) -/

/-- db filter → (SELECT) → key filter; no slot filter -/
def restoreDecision (cfg : Cfg) (db : Int) (key : Bytes) : Bool :=
  if filterDB cfg db then true
  else if filterKey cfg key then true
  else false

def bPing : Bytes := [0x70, 0x69, 0x6e, 0x67]                       -- "ping"
def bPublish : Bytes := [0x70, 0x75, 0x62, 0x6c, 0x69, 0x73, 0x68]  -- "publish"
def bSentinelHello : Bytes :=                                       -- "__sentinel__:hello"
  [0x5f, 0x5f, 0x73, 0x65, 0x6e, 0x74, 0x69, 0x6e, 0x65, 0x6c, 0x5f, 0x5f, 0x3a, 0x68, 0x65, 0x6c, 0x6c, 0x6f]

/-- restore: loop body of `restoreCommand` (restore.go:237-259, the `extra` command tail of a dump file)
    for a command other than `select`; `bypass` = `FilterDB(n)` of the last `select n`.
    Only the database bypass is applied: no `FilterCommands`, no key filter. -/
def restoreCmdDecision (bypass : Bool) (cmd : Bytes) : Bool :=
  if cmd != bPing then (if bypass then true else false) else false

/-! ### incremental sync: the filter part of `parseSourceCommand` (syncIncrease.go:196-238) -/

/-- What `filter.RedisCommands[sCmd]` says about the command, as far as this property looks:
    no row, or the row `{nil, 1, 1, 1}` (one key, first argument). Other rows belong to C13. -/
inductive KeySpec | notInTable | single
deriving DecidableEq, Repr

/-- `HandleFilterKeyWithCommand(sCmd, argv)` (second result, `true` = reject) for those commands;
    `getMatchKeys` with the row (1,1,1) passes iff `FilterKey(argv[0]) == false`. -/
def handleFilterKey (cfg : Cfg) (ks : KeySpec) (args : List Bytes) : Bool :=
  if cfg.keyWhite.length == 0 && cfg.keyBlack.length == 0 then false
  else match ks, args with
    | .notInTable, _ => false
    | .single, [] => false
    | .single, k :: _ => if filterKey cfg k == false then false else true

inductive Verdict
  | forward   -- queued for the target (`ds.sendBuf <- …`)
  | drop      -- counted as filtered, `continue`
  | abort     -- the goroutine dies (index out of range on `argv[0]`)
deriving DecidableEq, Repr

/-- `select n`: the new value of `bypass` -/
def incrSelect (cfg : Cfg) (n : Int) : Bool := filterDB cfg n

/-- a command other than `select` (`strings.EqualFold(sCmd, "select")` false), given the current `bypass` -/
def incrDecision (cfg : Cfg) (bypass : Bool) (cmd : Bytes) (ks : KeySpec) (args : List Bytes) : Verdict :=
  if cmd != bPing then
    let ignoreCmd := filterCommands cfg cmd
    if !ignoreCmd && equalFold cmd bPublish && args.isEmpty then .abort
    else
      let ignoresentinel := !ignoreCmd && equalFold cmd bPublish &&
        (match args with | a :: _ => equalFold a bSentinelHello | [] => false)
      if bypass || ignoreCmd || ignoresentinel then .drop
      else
        let reject := handleFilterKey cfg ks args
        if bypass || ignoreCmd || reject then .drop else .forward
  else
    let reject := handleFilterKey cfg ks args
    if bypass || false || reject then .drop else .forward

/-- a command arriving while database `db` is selected on the source -/
def incrPathDecision (cfg : Cfg) (db : Int) (cmd : Bytes) (ks : KeySpec) (args : List Bytes) : Verdict :=
  incrDecision cfg (incrSelect cfg db) cmd ks args

/-! ### rump: `getSourceDbList` / `fetcher` (db) and `doFetch` (keys) (rump.go:320-339,457-479,503-514) -/

/-- the database is scanned iff `!FilterDB(db)`; `FilterKey` is consulted ONLY when a key list is configured -/
def rumpDecision (cfg : Cfg) (db : Int) (key : Bytes) : Bool :=
  if filterDB cfg db then true
  else if cfg.keyBlack.length != 0 || cfg.keyWhite.length != 0 then
    (if filterKey cfg key then true else false)
  else false

/-! ### Lua scripts of a snapshot: aux field `lua` (loader.go:126-137 → the same loops → utils.go:802-809) -/

/-- The loader turns an aux field named `lua` into an ordinary entry with `Key = "lua"` and the database
    number current at that point of the file; it then runs through the SAME loop body as a key, and only
    if it survives does `RestoreRdbEntry` look at `FilterLua`. `true` = the script is not loaded. -/
def luaDecisionFullSync (cfg : Cfg) (slot : Bytes → Nat) (db : Int) : Bool :=
  if fullSyncDecision cfg slot db nLua then true
  else (if cfg.lua == false then false else true)

def luaDecisionRestore (cfg : Cfg) (db : Int) : Bool :=
  if restoreDecision cfg db nLua then true
  else (if cfg.lua == false then false else true)

end RSVerif.Filter
