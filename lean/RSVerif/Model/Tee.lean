import RSVerif.Model.Crc64
/-
The byte source in front of the RDB loader: `rdbReader.Read` → `io.TeeReader(source, digest)` → `source.Read`, driven by
`io.ReadFull` (pkg/rdb/loader.go NewLoader, pkg/rdb/reader.go Read/readFull).

The underlying `io.Reader` hands its bytes out in *pieces* of its own choosing (network segments, bufio refills, a reader
that returns its last bytes together with io.EOF, empty reads): a stream is a `List Bytes`, one element per piece still
to come, the head possibly being the unread rest of a piece.  One `ReadFull` of `n` bytes keeps calling `Read` until it has
them; the tee feeds every delivered piece into the running CRC *as it is delivered* (`Crc64.digestUpdate`, the table-driven
update of pkg/rdb/digest).
-/
namespace RSVerif.Tee
open RSVerif

/-- `io.ReadFull(tee, buf[:n])`: the bytes, the stream that is left, the digest state — or `none` when the source ends first -/
def readFull : Nat → List Bytes → UInt64 → Option (Bytes × List Bytes × UInt64)
  | 0, ps, crc => some ([], ps, crc)
  | _ + 1, [], _ => none
  | n + 1, pc :: ps, crc =>
    if pc.length ≤ n + 1 then
      -- the whole piece (possibly an empty read) is delivered by one Read and written to the digest; ReadFull goes on
      match readFull (n + 1 - pc.length) ps (Crc64.digestUpdate crc pc) with
      | none => none
      | some (bs, ps', c) => some (pc ++ bs, ps', c)
    else
      -- the request ends inside the piece: Read is asked for exactly what is missing, the rest of the piece stays
      some (pc.take (n + 1), pc.drop (n + 1) :: ps, Crc64.digestUpdate crc (pc.take (n + 1)))

/-- a sequence of requests (the loader's reads, one after the other) on one stream -/
def readAll : List Nat → List Bytes → UInt64 → Option (List Bytes × List Bytes × UInt64)
  | [], ps, crc => some ([], ps, crc)
  | n :: ns, ps, crc =>
    match readFull n ps crc with
    | none => none
    | some (b, ps', c) =>
      match readAll ns ps' c with
      | none => none
      | some (bs, ps'', c') => some (b :: bs, ps'', c')

end RSVerif.Tee
