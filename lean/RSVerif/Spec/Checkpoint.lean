import RSVerif.Model.Checkpoint
/-
Specification side of C14: what a checkpoint *is* on the target (three exactly-named hash fields per source and
db), well-formed target states, and the histories that produce them. Core Lean only.
-/
namespace RSVerif.Checkpoint
open RSVerif

/-- value of hash field `f` (a Redis hash has at most one) -/
def fieldOf (f : Bytes) (h : Hash) : Option Bytes := h.lookup f

/-- numeric field: absent ↦ the default, present ↦ must parse -/
def numField (x : Option Bytes) (dflt : Int) : Option Int :=
  match x with
  | none => some dflt
  | some v => parseInt64 v

/-- The checkpoint source `addr` has in a db whose checkpoint hash is `h`, read field by exact name:
    no hash ↦ ("", −1, −1); otherwise run id (default "?"), offset (default −1), version (default 0).
    `none` = a stored offset/version is not a decimal int64 (the loader reports an error). -/
def ownCkpt (addr : Bytes) (h : Hash) : Option Fetched :=
  if h.isEmpty then some ⟨[], -1, -1⟩ else
  match numField (fieldOf (offsetField addr) h) (-1), numField (fieldOf (versionField addr) h) 0 with
  | some o, some v => some ⟨(fieldOf (runIdField addr) h).getD unknownRunId, o, v⟩
  | _, _ => none

/-- a hash has distinct fields -/
def HashWF (h : Hash) : Prop := (h.map Prod.fst).Nodup

def maxDb : Int := 2147483648

/-- well-formed target: one entry per db, db indices in int32 range, hashes with distinct fields,
    key counts that `INFO keyspace` can print as an int64 -/
structure WF (st : State) : Prop where
  nodup : (st.map Prod.fst).Nodup
  range : ∀ p ∈ st, 0 ≤ p.1 ∧ p.1 < maxDb
  hashes : ∀ p ∈ st, HashWF p.2.ckpt
  counts : ∀ p ∈ st, p.2.others + 1 < two63

/-- number of other keys := n in db d (data written / deleted / expired) -/
def setOthers (st : State) (d : Int) (n : Nat) : State :=
  if st.any (fun p => p.1 == d) then st.map fun p => if p.1 == d then (p.1, { p.2 with others := n }) else p
  else st ++ [(d, ⟨[], n⟩)]

/-- everything that can happen to the target between two loads -/
inductive Op where
  | batch (b : Batch)                                   -- a sender group of any source (C04's writer)
  | oldBatch (src : Bytes) (d : Int) (runid : Option Bytes) (offset : Int)
                                                        -- a sender of an older release: no version field
  | data (d : Int) (n : Nat)                            -- data keys come and go
  | hset (d : Int) (f v : Bytes)                        -- any single field write (partial / foreign / garbage)
  | hdel (d : Int) (f : Bytes)                          -- any single field removal (partial clear, eviction)
  | clear (src : Bytes) (exceptDb : Int) (ord : List Int)  -- ClearCheckpoint of any source
deriving Repr

def validDb (d : Int) : Prop := 0 ≤ d ∧ d < maxDb

/-- db indices a Redis server has; key counts it can report -/
def Op.Valid : Op → Prop
  | .batch b => validDb b.db
  | .oldBatch _ d _ _ => validDb d
  | .data d n => validDb d ∧ n + 1 < two63
  | .hset d _ _ => validDb d
  | .hdel d _ => validDb d
  | .clear _ _ _ => True

def applyOp (st : State) : Op → State
  | .batch b => applyBatch st b
  | .oldBatch src d runid offset =>
    let st1 := match runid with | some r => hset st d (runIdField src) r | none => st
    hset st1 d (offsetField src) (renderInt offset)
  | .data d n => setOthers st d n
  | .hset d f v => hset st d f v
  | .hdel d f => hdel st d f
  | .clear src ex ord => clearAll src ex ord st

/-- target states reachable from the empty target by any history over valid db indices -/
inductive Reachable : State → Prop where
  | empty : Reachable []
  | step (st : State) (op : Op) : Reachable st → op.Valid → Reachable (applyOp st op)

/-! ### what "the newest checkpoint of its own source" means -/

/-- the checkpoint source `a` has in db `d` of the target -/
def own (a : Bytes) (st : State) (d : Int) : Option Fetched := ownCkpt a (hashOf st d)

/-- the dbs `INFO keyspace` lists (the non-empty ones) -/
def keysOf (st : State) : List Int := (liveDbs st).map Prod.fst

/-- db `d` holds THE newest checkpoint of `a` among the dbs `ks`: its offset is above −1 and strictly
    greater than the offset of every other db, and every db's fields parse -/
def IsNewest (a : Bytes) (st : State) (ks : List Int) (d : Int) (f : Fetched) : Prop :=
  d ∈ ks ∧ own a st d = some f ∧ f.offset > -1 ∧
    ∀ d' ∈ ks, d' ≠ d → ∃ f', own a st d' = some f' ∧ f'.offset < f.offset

/-- no db holds a usable checkpoint of `a` -/
def NoneValid (a : Bytes) (st : State) (ks : List Int) : Prop :=
  ∀ d ∈ ks, ∃ f, own a st d = some f ∧ f.offset ≤ -1

/-- some db holds an offset or version of `a` that is not a decimal int64 -/
def Broken (a : Bytes) (st : State) (ks : List Int) : Prop := ∃ d ∈ ks, own a st d = none

/-- two different dbs never hold the same usable offset of `a` (otherwise Go's map order decides) -/
def NoTie (a : Bytes) (st : State) (ks : List Int) : Prop :=
  ∀ d1 ∈ ks, ∀ d2 ∈ ks, ∀ f1 f2, own a st d1 = some f1 → own a st d2 = some f2 →
    f1.offset > -1 → f1.offset = f2.offset → d1 = d2

/-- the version gate: a stored version below the compatible one (a missing field counts as 0) -/
def Refused (f : Fetched) : Prop := f.version ≠ -1 ∧ f.version < Generated.C14.fcvCheckpointCompatible

instance (f : Fetched) : Decidable (Refused f) := by unfold Refused; exact inferInstance

/-- the db reported for a picked checkpoint: −1 when its run id is unknown -/
def reportedDb (f : Fetched) (d : Int) : Int := if f.runid = unknownRunId then -1 else d

/-- the three fields of `a` agree in every db of two targets -/
def SameOwn (a : Bytes) (st st' : State) : Prop :=
  ∀ d, fieldOf (offsetField a) (hashOf st d) = fieldOf (offsetField a) (hashOf st' d) ∧
       fieldOf (runIdField a) (hashOf st d) = fieldOf (runIdField a) (hashOf st' d) ∧
       fieldOf (versionField a) (hashOf st d) = fieldOf (versionField a) (hashOf st' d)

def ownFields (a : Bytes) : List Bytes := [offsetField a, runIdField a, versionField a]

/-- an event that is not a write or clear of source `a`'s own fields -/
def Op.Foreign (a : Bytes) : Op → Prop
  | .batch b => b.src ≠ a
  | .oldBatch src _ _ _ => src ≠ a
  | .data _ _ => True
  | .hset _ f _ => f ∉ ownFields a
  | .hdel _ f => f ∉ ownFields a
  | .clear src _ _ => src ≠ a

/-! ### the same notions over ALL dbs of the target (what the property talks about) -/

/-- db `d` holds THE newest checkpoint of `a` on the whole target -/
def Newest (a : Bytes) (st : State) (d : Int) (f : Fetched) : Prop :=
  own a st d = some f ∧ f.offset > -1 ∧ ∀ d', d' ≠ d → ∃ f', own a st d' = some f' ∧ f'.offset < f.offset

/-- the target holds no usable checkpoint of `a` -/
def NoCheckpoint (a : Bytes) (st : State) : Prop := ∀ d, ∃ f, own a st d = some f ∧ f.offset ≤ -1

/-- some db holds an offset or version of `a` that is not a decimal int64 -/
def Unreadable (a : Bytes) (st : State) : Prop := ∃ d, own a st d = none

/-- no two dbs hold the same usable offset of `a` -/
def NoTies (a : Bytes) (st : State) : Prop :=
  ∀ d1 d2 f1 f2, own a st d1 = some f1 → own a st d2 = some f2 → f1.offset > -1 → f1.offset = f2.offset → d1 = d2

/-! ### a sender session (one run of `sendTargetCommand` with resume enabled) seen from the target -/

/-- one flushed group: the db of its last command and that command's offset -/
structure Group where
  db : Int
  offset : Int
deriving DecidableEq, Repr

inductive SessEv where
  | group (g : Group)     -- a `multi … hset … exec` of this session
  | other (op : Op)       -- anything else happening on the target meanwhile
deriving Repr

structure Sess where
  st : State
  seen : List Int          -- dbs the session has stamped with run id + version (`runIdMap`)
  last : Option Group

/-- the session stamps run id and version the first time it writes a checkpoint into a db -/
def sessStep (a runid : Bytes) (s : Sess) : SessEv → Sess
  | .group g => ⟨applyBatch s.st ⟨a, g.db, runid, g.offset, !s.seen.contains g.db⟩, g.db :: s.seen, some g⟩
  | .other op => ⟨applyOp s.st op, s.seen, s.last⟩

def runSession (a runid : Bytes) (evs : List SessEv) (s : Sess) : Sess := evs.foldl (sessStep a runid) s

/-- offsets of successive groups increase strictly (every command has a positive length) starting above `lo`;
    the interleaved events are valid and not writes of `a`'s own fields -/
def EventsOk (a : Bytes) : Int → List SessEv → Prop
  | _, [] => True
  | lo, .group g :: rest => validDb g.db ∧ lo < g.offset ∧ g.offset < two63 ∧ EventsOk a g.offset rest
  | lo, .other op :: rest => op.Valid ∧ op.Foreign a ∧ EventsOk a lo rest

/-! ### histories in which source `a`'s offsets only grow -/

/-- the offset source `a` has recorded in db `d` (−1 if none); `none` if it is not a decimal int64 -/
def offsetOf (a : Bytes) (st : State) (d : Int) : Option Int :=
  numField (fieldOf (offsetField a) (hashOf st d)) (-1)

/-- an event of a history in which `a`'s recorded offsets only grow: groups of `a` carry an offset above every
    offset of `a` on the target (a sender's offsets increase; a resumed sender continues above the loaded one),
    nobody else writes `a`'s offset field; everything else is arbitrary (removals and clears included) -/
def Op.Mono (a : Bytes) (st : State) : Op → Prop
  | .batch b => b.src = a → (-1 < b.offset ∧ b.offset < two63 ∧ ∀ d o, offsetOf a st d = some o → o < b.offset)
  | .oldBatch src _ _ offset => src = a → (-1 < offset ∧ offset < two63 ∧ ∀ d o, offsetOf a st d = some o → o < offset)
  | .hset _ f _ => f ≠ offsetField a
  | _ => True

inductive MonoReachable (a : Bytes) : State → Prop where
  | empty : MonoReachable a []
  | step (st : State) (op : Op) : MonoReachable a st → op.Valid → op.Mono a st → MonoReachable a (applyOp st op)

end RSVerif.Checkpoint
