import RSVerif.Basic
/-
Specification of the RDB file format (versions 1–9) as an abstract syntax with a serializer.
"Every RDB stream a Redis server can emit" = `ser items` for a well-formed `items`.
Written from the format description in the Redis sources (rdb.c / rdb.h), independent of the parser.
-/
namespace RSVerif.Spec.Rdb
open RSVerif

/-- the four length forms: 00xxxxxx | 01xxxxxx yy | 0x80 + 4 bytes BE | 0x81 + 8 bytes BE -/
inductive LenForm | b6 | b14 | b32 | b64
  deriving DecidableEq, Repr

/-- a number together with the form chosen to write it (canonical or wider than necessary) -/
structure ELen where
  val : Nat
  form : LenForm
  deriving DecidableEq, Repr

def ELen.fits (e : ELen) : Prop :=
  match e.form with
  | .b6 => e.val < 64
  | .b14 => e.val < 16384
  | .b32 => e.val < 2 ^ 32
  | .b64 => e.val < 2 ^ 64

instance (e : ELen) : Decidable e.fits := by unfold ELen.fits; cases e.form <;> exact inferInstance

/-- big-endian rendering in `n` bytes -/
def beBytes : Nat → Nat → Bytes
  | 0, _ => []
  | n + 1, v => UInt8.ofNat (v / 256 ^ n % 256) :: beBytes n v

/-- little-endian rendering in `n` bytes -/
def leBytes : Nat → Nat → Bytes
  | 0, _ => []
  | n + 1, v => UInt8.ofNat (v % 256) :: leBytes n (v / 256)

def encLen (e : ELen) : Bytes :=
  match e.form with
  | .b6 => [UInt8.ofNat e.val]
  | .b14 => [UInt8.ofNat (64 + e.val / 256), UInt8.ofNat (e.val % 256)]
  | .b32 => 0x80 :: beBytes 4 e.val
  | .b64 => 0x81 :: beBytes 8 e.val

/-- LZF tokens: a literal run of 1..32 bytes, or a back-reference (distance 1..8192, length 3..264) -/
inductive LzfTok
  | lit (bs : Bytes)
  | ref (off len : Nat)
  deriving DecidableEq, Repr

/-- output of a token given the output so far (back-references may overlap their own output) -/
def copyFrom : Nat → Nat → Bytes → Bytes
  | 0, _, out => out
  | n + 1, pos, out => copyFrom n (pos + 1) (out ++ [out.getD pos 0])

def expandTok (out : Bytes) : LzfTok → Bytes
  | .lit bs => out ++ bs
  | .ref off len => copyFrom len (out.length - off) out

def expand (ts : List LzfTok) : Bytes := ts.foldl expandTok []

def encTok : LzfTok → Bytes
  | .lit bs => UInt8.ofNat (bs.length - 1) :: bs
  | .ref off len =>
    if len - 2 < 7 then [UInt8.ofNat ((len - 2) * 32 + (off - 1) / 256), UInt8.ofNat ((off - 1) % 256)]
    else [UInt8.ofNat (7 * 32 + (off - 1) / 256), UInt8.ofNat (len - 2 - 7), UInt8.ofNat ((off - 1) % 256)]

def encToks (ts : List LzfTok) : Bytes := (ts.map encTok).flatten

/-- token well-formedness relative to the output produced so far -/
def tokOk (outLen : Nat) : LzfTok → Prop
  | .lit bs => 1 ≤ bs.length ∧ bs.length ≤ 32
  | .ref off len => 1 ≤ off ∧ off ≤ 8192 ∧ off ≤ outLen ∧ 3 ≤ len ∧ len ≤ 264

def toksOk : Bytes → List LzfTok → Prop
  | _, [] => True
  | out, t :: ts => tokOk out.length t ∧ toksOk (expandTok out t) ts

/-- string objects: raw with a length form, integer encoded (8/16/32 bit two's complement LE), LZF -/
inductive RStr
  | raw (form : LenForm) (bs : Bytes)
  | int8 (b : Bytes)        -- 1 byte
  | int16 (b : Bytes)       -- 2 bytes LE
  | int32 (b : Bytes)       -- 4 bytes LE
  | lzf (cform uform : LenForm) (ts : List LzfTok)
  deriving DecidableEq, Repr

def serStr : RStr → Bytes
  | .raw f bs => encLen ⟨bs.length, f⟩ ++ bs
  | .int8 b => 0xC0 :: b
  | .int16 b => 0xC1 :: b
  | .int32 b => 0xC2 :: b
  | .lzf cf uf ts => 0xC3 :: (encLen ⟨(encToks ts).length, cf⟩ ++ encLen ⟨(expand ts).length, uf⟩ ++ encToks ts)

/-- decimal text of an integer (what Redis materialises for an integer-encoded string) -/
def decDigits : Nat → Nat → List UInt8
  | 0, _ => []
  | fuel + 1, n => if n < 10 then [UInt8.ofNat (48 + n)] else decDigits fuel (n / 10) ++ [UInt8.ofNat (48 + n % 10)]

def decimal (i : Int) : Bytes :=
  if i < 0 then 45 :: decDigits (i.natAbs + 1) i.natAbs else decDigits (i.toNat + 1) i.toNat

def leVal : Bytes → Nat
  | [] => 0
  | b :: r => b.toNat + 256 * leVal r

def twos (bits : Nat) (u : Nat) : Int := if u < 2 ^ (bits - 1) then (u : Int) else (u : Int) - (2 ^ bits : Nat)

/-- the logical content of a string object -/
def logical : RStr → Bytes
  | .raw _ bs => bs
  | .int8 b => decimal (twos 8 (leVal b))
  | .int16 b => decimal (twos 16 (leVal b))
  | .int32 b => decimal (twos 32 (leVal b))
  | .lzf _ _ ts => expand ts

def strOk : RStr → Prop
  | .raw f bs => f ≠ .b64 ∧ (ELen.mk bs.length f).fits
  | .int8 b => b.length = 1
  | .int16 b => b.length = 2
  | .int32 b => b.length = 4
  | .lzf cf uf ts => cf ≠ .b64 ∧ uf ≠ .b64 ∧ (ELen.mk (encToks ts).length cf).fits ∧
      (ELen.mk (expand ts).length uf).fits ∧ toksOk [] ts

/-- sorted-set score in the old (type 3) format -/
inductive Score
  | text (bs : Bytes)     -- length byte (≤ 252) + that many bytes of decimal text
  | nan | pinf | ninf     -- 253 | 254 | 255
  deriving DecidableEq, Repr

def serScore : Score → Bytes
  | .text bs => UInt8.ofNat bs.length :: bs
  | .nan => [253]
  | .pinf => [254]
  | .ninf => [255]

/-- a pending-entry-list item of a consumer group: 16-byte id, 8-byte time, delivery count -/
structure Pel where
  id : Bytes
  seen : Bytes
  count : ELen
  deriving DecidableEq, Repr

structure Consumer where
  name : RStr
  seen : Bytes
  npel : LenForm
  pel : List Bytes          -- 16-byte ids
  deriving DecidableEq, Repr

structure CGroup where
  name : RStr
  lastMs : ELen
  lastSeq : ELen
  npel : LenForm
  pel : List Pel
  ncons : LenForm
  consumers : List Consumer
  deriving DecidableEq, Repr

/-- values by type code -/
inductive Value
  | str (t : UInt8) (s : RStr)                        -- 0 string; 9,10,11,12,13: one string blob
  | seq (t : UInt8) (n : LenForm) (xs : List RStr)    -- 1 list, 2 set, 14 quicklist
  | zset (n : LenForm) (xs : List (RStr × Score))     -- 3
  | zset2 (n : LenForm) (xs : List (RStr × Bytes))    -- 5: 8-byte binary double
  | hash (n : LenForm) (fvs : List (RStr × RStr))     -- 4
  | stream (nlp : LenForm) (lps : List (RStr × RStr)) (items lastMs lastSeq : ELen)
           (ngroups : LenForm) (groups : List CGroup)  -- 15
  deriving Repr

def Value.type : Value → UInt8
  | .str t _ => t
  | .seq t _ _ => t
  | .zset _ _ => 3
  | .zset2 _ _ => 5
  | .hash _ _ => 4
  | .stream .. => 15

def serStrs (xs : List RStr) : Bytes := (xs.map serStr).flatten
def serPair (p : RStr × RStr) : Bytes := serStr p.1 ++ serStr p.2
def serPairs (ps : List (RStr × RStr)) : Bytes := (ps.map serPair).flatten

def serPel (p : Pel) : Bytes := p.id ++ p.seen ++ encLen p.count
def serConsumer (c : Consumer) : Bytes :=
  serStr c.name ++ c.seen ++ encLen ⟨c.pel.length, c.npel⟩ ++ c.pel.flatten
def serGroup (g : CGroup) : Bytes :=
  serStr g.name ++ encLen g.lastMs ++ encLen g.lastSeq ++
  encLen ⟨g.pel.length, g.npel⟩ ++ (g.pel.map serPel).flatten ++
  encLen ⟨g.consumers.length, g.ncons⟩ ++ (g.consumers.map serConsumer).flatten

/-- serialized value WITHOUT the type byte (this is what ends up inside the DUMP payload) -/
def serValue : Value → Bytes
  | .str _ s => serStr s
  | .seq _ n xs => encLen ⟨xs.length, n⟩ ++ serStrs xs
  | .zset n xs => encLen ⟨xs.length, n⟩ ++ (xs.map fun p => serStr p.1 ++ serScore p.2).flatten
  | .zset2 n xs => encLen ⟨xs.length, n⟩ ++ (xs.map fun p => serStr p.1 ++ p.2).flatten
  | .hash n fvs => encLen ⟨fvs.length, n⟩ ++ serPairs fvs
  | .stream nlp lps items lastMs lastSeq ng groups =>
    encLen ⟨lps.length, nlp⟩ ++ serPairs lps ++ encLen items ++ encLen lastMs ++ encLen lastSeq ++
    encLen ⟨groups.length, ng⟩ ++ (groups.map serGroup).flatten

/-- module-aux sub-records -/
inductive ModOp
  | sint (v : ELen) | uint (v : ELen)
  | float (b4 : Bytes) | double (b8 : Bytes)
  | str (s : RStr)
  deriving DecidableEq, Repr

def serModOp : ModOp → Bytes
  | .sint v => 1 :: encLen v
  | .uint v => 2 :: encLen v
  | .float b => 3 :: b
  | .double b => 4 :: b
  | .str s => 5 :: serStr s

inductive Expiry
  | none
  | sec (b4 : Bytes)     -- 0xFD + 4 bytes LE seconds
  | ms (b8 : Bytes)      -- 0xFC + 8 bytes LE milliseconds
  deriving DecidableEq, Repr

/-- top-level items of a file -/
inductive Item
  | aux (k v : RStr)                       -- 0xFA (k's logical text ≠ "lua")
  | lua (k script : RStr)                  -- 0xFA with k's logical text = "lua"
  | resizeDb (a b : ELen)                  -- 0xFB
  | selectDb (n : ELen)                    -- 0xFE
  | moduleAux (id : ELen) (ops : List ModOp)   -- 0xF7 … 0
  | key (exp : Expiry) (idle : Option ELen) (freq : Option UInt8) (name : RStr) (v : Value)
  deriving Repr

def serExpiry : Expiry → Bytes
  | .none => []
  | .sec b => 0xFD :: b
  | .ms b => 0xFC :: b

def serItem : Item → Bytes
  | .aux k v => 0xFA :: (serStr k ++ serStr v)
  | .lua k s => 0xFA :: (serStr k ++ serStr s)
  | .resizeDb a b => 0xFB :: (encLen a ++ encLen b)
  | .selectDb n => 0xFE :: encLen n
  | .moduleAux id ops => 0xF7 :: (encLen id ++ (ops.map serModOp).flatten ++ [0])
  | .key exp idle freq name v =>
    serExpiry exp ++
    (match idle with | some i => 0xF8 :: encLen i | none => []) ++
    (match freq with | some f => [0xF9, f] | none => []) ++
    [v.type] ++ serStr name ++ serValue v

def ser (items : List Item) : Bytes := (items.map serItem).flatten

/-- "REDIS" + four decimal digits -/
def hdr (ver : Nat) : Bytes :=
  [82, 69, 68, 73, 83, UInt8.ofNat (48 + ver / 1000 % 10), UInt8.ofNat (48 + ver / 100 % 10),
   UInt8.ofNat (48 + ver / 10 % 10), UInt8.ofNat (48 + ver % 10)]

/-! ### Well-formedness (what a Redis server emits) -/

/-- an element count: never written in the 64-bit form, and fits its form -/
def cntOk (n : LenForm) (len : Nat) : Prop := n ≠ .b64 ∧ (ELen.mk len n).fits

/-- `pf` = "this text is a float strconv.ParseFloat accepts" (trusted parameter) -/
def scoreOk (pf : Bytes → Bool) : Score → Prop
  | .text bs => bs.length ≤ 252 ∧ pf bs = true
  | _ => True

def pelOk (p : Pel) : Prop := p.id.length = 16 ∧ p.seen.length = 8 ∧ p.count.fits

def consumerOk (c : Consumer) : Prop :=
  strOk c.name ∧ c.seen.length = 8 ∧ cntOk c.npel c.pel.length ∧ ∀ i ∈ c.pel, i.length = 16

def groupOk (g : CGroup) : Prop :=
  strOk g.name ∧ g.lastMs.fits ∧ g.lastSeq.fits ∧ cntOk g.npel g.pel.length ∧ (∀ p ∈ g.pel, pelOk p) ∧
  cntOk g.ncons g.consumers.length ∧ ∀ c ∈ g.consumers, consumerOk c

def valueOk (pf : Bytes → Bool) : Value → Prop
  | .str t s => (t = 0 ∨ t = 9 ∨ t = 10 ∨ t = 11 ∨ t = 12 ∨ t = 13) ∧ strOk s
  | .seq t n xs => (t = 1 ∨ t = 2 ∨ t = 14) ∧ cntOk n xs.length ∧ ∀ x ∈ xs, strOk x
  | .zset n xs => cntOk n xs.length ∧ ∀ p ∈ xs, strOk p.1 ∧ scoreOk pf p.2
  | .zset2 n xs => cntOk n xs.length ∧ ∀ p ∈ xs, strOk p.1 ∧ p.2.length = 8
  | .hash n fvs => cntOk n fvs.length ∧ ∀ p ∈ fvs, strOk p.1 ∧ strOk p.2
  | .stream nlp lps items lastMs lastSeq ng groups =>
    cntOk nlp lps.length ∧ (∀ p ∈ lps, strOk p.1 ∧ strOk p.2) ∧ items.fits ∧ lastMs.fits ∧ lastSeq.fits ∧
    cntOk ng groups.length ∧ ∀ g ∈ groups, groupOk g

def modOpOk : ModOp → Prop
  | .sint v => v.fits
  | .uint v => v.fits
  | .float b => b.length = 4
  | .double b => b.length = 8
  | .str s => strOk s

def luaText : Bytes := [108, 117, 97]

def itemOk (pf : Bytes → Bool) : Item → Prop
  | .aux k v => strOk k ∧ strOk v ∧ logical k ≠ luaText
  | .lua k s => strOk k ∧ strOk s ∧ logical k = luaText
  | .resizeDb a b => a.fits ∧ b.fits
  | .selectDb n => n.form ≠ .b64 ∧ n.fits
  | .moduleAux id ops => id.fits ∧ ∀ o ∈ ops, modOpOk o
  | .key exp idle _ name v =>
    (match exp with | .none => True | .sec b => b.length = 4 | .ms b => b.length = 8) ∧
    (match idle with | none => True | some i => i.form ≠ .b64 ∧ i.fits) ∧
    strOk name ∧ valueOk pf v

def itemsOk (pf : Bytes → Bool) (items : List Item) : Prop := ∀ it ∈ items, itemOk pf it

/-! ### Chunking of big hashes and the expected records -/

abbrev Pair := RStr × RStr

/-- One chunk: pairs are taken until the bytes captured so far (`b`, then each pair's serialized length)
    exceed `L` — but the last pair of the hash never ends a chunk early. Returns (chunk, remaining). -/
def takeChunk (L : Nat) : Nat → List Pair → List Pair × List Pair
  | _, [] => ([], [])
  | b, p :: rest =>
    if b + (serPair p).length > L ∧ rest ≠ [] then ([p], rest)
    else ((p :: (takeChunk L (b + (serPair p).length) rest).1), (takeChunk L (b + (serPair p).length) rest).2)

end RSVerif.Spec.Rdb
