import RSVerif.Model.Backlog
/-
C18 — what the user of the backlog relies on: a log addressed by ABSOLUTE offset.

`Log` is the whole specification state: the capacity, everything that was ever written, and whether
the log is still open.  `Log.read` is the behaviour the property promises for a read of at most `k`
bytes at offset `o`; `Log.range` / `Log.valid` are the promised data range and reader validity.

The second half instruments the executable model with the ghost history (`histStep`, `runH`) and defines
the states reachable from a fresh backlog of ANY positive capacity through ANY schedule (`Reach`).
-/
namespace RSVerif.Spec.Backlog
open RSVerif RSVerif.Backlog

structure Log where
  size : Nat          -- capacity
  hist : Bytes        -- every byte ever written, hist[q] = the byte written at absolute offset q
  isOpen : Bool

/-- absolute write position = total written -/
def Log.w (l : Log) : Nat := l.hist.length
/-- start of the retained data: the most recent `min (total, capacity)` bytes are `[lo, w)` -/
def Log.lo (l : Log) : Nat := l.w - min l.w l.size

inductive Outcome
  | empty                 -- zero-length buffer: returns 0 bytes at once
  | closed                -- closed-backlog error
  | invalidOffset         -- the offset was overwritten or lies beyond the write position
  | waits                 -- nothing to return yet: the reader sleeps until a write or close
  | bytes (bs : Bytes)    -- these bytes, no error
  deriving DecidableEq, Repr

/-- how many bytes one read returns: at least one, at most the buffer, never across the ring seam -/
def Log.count (l : Log) (k o : Nat) : Nat := min k (min (l.w - o) (l.size - o % l.size))

def Log.read (l : Log) (k o : Nat) : Outcome :=
  if k = 0 then .empty
  else if !l.isOpen then .closed
  else if o > l.w ∨ o + l.size < l.w then .invalidOffset
  else if o = l.w then .waits
  else .bytes ((l.hist.drop o).take (l.count k o))

def Log.range (l : Log) : Nat × Nat := (l.lo, l.w)
def Log.valid (l : Log) (seek : Nat) : Bool := decide (l.lo ≤ seek) && decide (seek ≤ l.w)

/-! ### ghost history of the model -/

/-- the history after one atomic step: a `writeSome` appends exactly the bytes it reports as written -/
def histStep (s : Sys) (h : Bytes) : Op → Bytes
  | .writeSome bs => h ++ bs.take (s.bl.writeSome bs).2.1
  | _ => h

/-- run a schedule with the ghost history: final state, final history, what every step returned -/
def runH : Sys → Bytes → List Op → Sys × Bytes × List Ev
  | s, h, [] => (s, h, [])
  | s, h, op :: ops =>
    match runH (s.step op).1 (histStep s h op) ops with
    | (s', h', evs) => (s', h', (s.step op).2 :: evs)

/-- states (with their history) reachable from a fresh backlog of any positive capacity, either
    backend, any initial file content, by any schedule of atomic steps -/
inductive Reach : Sys → Bytes → Prop
  | init (kind : Kind) (size : Nat) (content : Array UInt8) (h : 0 < size) :
      Reach (Sys.ofStore (Store.ofSize kind size content)) []
  | step {s : Sys} {h : Bytes} (op : Op) : Reach s h → Reach (s.step op).1 (histStep s h op)

end RSVerif.Spec.Backlog

namespace RSVerif.Backlog
/-! accessors used in the theorem statements (`bl.store` is never nil in a reachable state) -/
def Sys.live (s : Sys) : Bool := match s.bl.store with | some st => st.live | none => false
def Sys.size (s : Sys) : Nat := match s.bl.store with | some st => st.size | none => 0
def Sys.wpos (s : Sys) : Nat := match s.bl.store with | some st => st.wpos | none => 0
def Sys.cells (s : Sys) : Array UInt8 := match s.bl.store with | some st => st.cells | none => #[]
/-- the specification state a model state (with its ghost history) stands for -/
def Sys.log (s : Sys) (h : Bytes) : Spec.Backlog.Log := ⟨s.size, h, s.live⟩
end RSVerif.Backlog

namespace RSVerif.Spec.Backlog
open RSVerif RSVerif.Backlog

/-- the specification state a store stands for -/
def logOf (st : Store) (h : Bytes) : Log := ⟨st.size, h, st.live⟩

end RSVerif.Spec.Backlog
