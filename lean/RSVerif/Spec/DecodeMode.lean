import RSVerif.Basic
/-
Specification side of property C17 ("decode mode prints every element of the RDB, recoverably").

What the user relies on, with no reference to JSON, base64 or goroutines: an RDB file is a sequence of
*items* (keys with a classic value, and Lua scripts); decode mode must print one *record* per element of
every key and one per script, each record naming the database, expiry and key it belongs to.
Core Lean only.
-/
namespace RSVerif.Spec.DecodeMode
open RSVerif

/-- Logical value of a key (what `rdb.DecodeDump` delivers for a whole key, whatever the RDB encoding was).
    A sorted-set score is the IEEE-754 bit pattern of the `float64` (so that -0, ±Inf and NaN are values
    like any other and equality is decidable). -/
inductive Value where
  | str (v : Bytes)
  | list (xs : List Bytes)
  | hash (ps : List (Bytes × Bytes))
  | set (ms : List Bytes)
  | zset (ms : List (Bytes × UInt64))
  deriving DecidableEq, Repr

/-- A key of the file: database, absolute expiry in ms (0 = none), name, value. -/
structure KeyItem where
  db : Nat
  expireAt : Nat
  key : Bytes
  value : Value
  deriving DecidableEq, Repr

/-- The things of an RDB file decode mode has to report. -/
inductive Item where
  | key (k : KeyItem)
  | lua (script : Bytes)
  deriving DecidableEq, Repr

/-- One printed element. -/
inductive Elem where
  | str (v : Bytes)
  | listElem (index : Nat) (v : Bytes)
  | hashField (f v : Bytes)
  | setMember (m : Bytes)
  | zsetMember (m : Bytes) (score : UInt64)
  deriving DecidableEq, Repr

/-- What one output line must convey. -/
inductive SRecord where
  | data (db expireAt : Nat) (key : Bytes) (e : Elem)
  | script (s : Bytes)
  deriving DecidableEq, Repr

/-- elements of a value: one per string, list element *with its 0-based index*, hash field, set member,
    sorted-set member. -/
def elemsOf : Value → List Elem
  | .str v => [.str v]
  | .list xs => xs.zipIdx.map fun (v, i) => .listElem i v
  | .hash ps => ps.map fun (f, v) => .hashField f v
  | .set ms => ms.map .setMember
  | .zset ms => ms.map fun (m, s) => .zsetMember m s

/-- the records the property demands for one item. -/
def specRecords : Item → List SRecord
  | .key k => (elemsOf k.value).map (.data k.db k.expireAt k.key)
  | .lua s => [.script s]

/-- The human-readable companion fields (`key`, `field`, `member`): printable ASCII from `#` to `~` as is,
    every other byte (controls, space, `!`, `"`, DEL, ≥ 0x80) as `.`. Informative only — binary data is
    recovered from the `*64` fields — but part of the output format. -/
def textByte (c : UInt8) : UInt8 := if 0x23 ≤ c.toNat ∧ c.toNat ≤ 0x7e then c else 0x2e

def textOf (p : Bytes) : Bytes := p.map textByte

/-- IEEE-754 binary64: exponent field all ones ⇔ ±Inf or NaN. -/
def nonFinite (bits : UInt64) : Bool := (bits >>> 52) &&& 0x7ff == 0x7ff

def Value.hasNonFinite : Value → Bool
  | .zset ms => ms.any fun (_, s) => nonFinite s
  | _ => false

def Item.hasNonFinite : Item → Bool
  | .key k => k.value.hasNonFinite
  | .lua _ => false

end RSVerif.Spec.DecodeMode
