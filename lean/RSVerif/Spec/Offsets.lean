import RSVerif.Basic
/-
C08 — what the user relies on, in closed form. `start` is the offset the source announced at sync start
(+FULLRESYNC id start, or the offset a +CONTINUE confirmed); `received` is the number of replication-stream
bytes the tool has taken from the source since. Stream bytes are identified with their absolute offsets:
the first byte after the announcement has offset start + 1.
-/
namespace RSVerif.Spec.Offsets

/-- offset to acknowledge (`REPLCONF ACK`) -/
def ackOffset (start : Int) (received : Nat) : Int := start + received

/-- offset to ask for when the connection is re-established (`PSYNC runid offset`): the next byte wanted -/
def psyncOffset (start : Int) (received : Nat) : Int := start + received + 1

/-- offset of the k-th stream byte (k = 1, 2, …); offset stored with a command that ends at byte k -/
def streamOffset (start : Int) (k : Nat) : Int := start + k

/-- offsets of the first n stream bytes, in order: start+1, …, start+n -/
def streamOffsets (start : Int) (n : Nat) : List Int := (List.range n).map fun (i : Nat) => start + 1 + (i : Int)

end RSVerif.Spec.Offsets
