import RSVerif.Basic
/-
C05 — what the user relies on at the RDB/command-stream hand-off, stated without reference to the code:

a source answers PSYNC with   LF^j "+FULLRESYNC" SP id SP offset CRLF   LF^k "$" n CRLF   rdb   cmds
(or  LF^j "+CONTINUE" CRLF cmds), answers SYNC with  LF^k "$" n CRLF rdb cmds ; the tool must hand exactly
`rdb` to the RDB consumer (the dump file), exactly `cmds` to the command parser, and continue with the
announced `(id, offset)`.
Core Lean only.
-/
namespace RSVerif.Spec.Handoff
open RSVerif

def isDigit (b : UInt8) : Bool := 48 ≤ b.toNat && b.toNat ≤ 57

/-- the natural number denoted by a non-empty string of decimal digits. -/
def denote (ds : Bytes) : Option Nat :=
  if ds.isEmpty || !ds.all isDigit then none
  else some (ds.foldl (fun acc b => acc * 10 + (b.toNat - 48)) 0)

/-- the integer denoted by an optional `-` followed by decimal digits. -/
def denoteInt (s : Bytes) : Option Int :=
  if s.head? = some 45 then
    match denote s.tail with
    | some v => some (-(v : Int))
    | none => none
  else
    match denote s with
    | some v => some (v : Int)
    | none => none

def digitByte (d : Nat) : UInt8 := UInt8.ofNat (48 + d)

/-- the canonical decimal numeral of `n` (what `%lld` prints for a non-negative number). -/
def decimal (n : Nat) : Bytes :=
  if _h : n < 10 then [digitByte n] else decimal (n / 10) ++ [digitByte (n % 10)]
decreasing_by omega

/-- ASCII lower-casing; two words are the same "in any letter case" iff their images agree. -/
def lowerAscii (b : UInt8) : UInt8 := if 65 ≤ b.toNat ∧ b.toNat ≤ 90 then b + 32 else b

def sameWord (w kw : Bytes) : Bool := w.map lowerAscii == kw

/-- "fullresync" -/
def fullresync : Bytes := [102, 117, 108, 108, 114, 101, 115, 121, 110, 99]
/-- "continue" -/
def continue_ : Bytes := [99, 111, 110, 116, 105, 110, 117, 101]

def newlines (k : Nat) : Bytes := List.replicate k 10
def crlf : Bytes := [13, 10]

/-- offset a replica asks for: the byte after the last one it has, or -1 for "no history". -/
def requestOffset (have_ : Int) : Int := if have_ = -1 then -1 else have_ + 1

def int64 (v : Int) : Bool := decide (-(2 ^ 63 : Int) ≤ v) && decide (v < (2 ^ 63 : Int))

/-- `LF^k "$" n CRLF rdb cmds` — the answer to SYNC, and the second part of a full resync. -/
structure Bulk where
  k : Nat
  nTxt : Bytes
  rdb : Bytes
  cmds : Bytes
  deriving Repr

def Bulk.stream (f : Bulk) : Bytes := newlines f.k ++ [36] ++ f.nTxt ++ crlf ++ f.rdb ++ f.cmds

/-- the announced size is a decimal numeral of the RDB's length, which is positive (and fits an int64). -/
def Bulk.wf (f : Bulk) : Bool :=
  denote f.nTxt == some f.rdb.length && decide (0 < f.rdb.length) && decide (f.rdb.length < 2 ^ 63)

/-- a full resynchronisation reply. -/
structure Full where
  j : Nat
  word : Bytes
  id : Bytes
  offTxt : Bytes
  bulk : Bulk
  deriving Repr

def Full.stream (f : Full) : Bytes :=
  newlines f.j ++ [43] ++ f.word ++ [32] ++ f.id ++ [32] ++ f.offTxt ++ crlf ++ f.bulk.stream

/-- the offset announced by the source -/
def Full.offset (f : Full) : Int := (denoteInt f.offTxt).getD 0

def Full.wf (f : Full) : Bool :=
  sameWord f.word fullresync
  && f.id.all (fun b => b != 32 && b != 10)
  && (match denoteInt f.offTxt with | some v => int64 v | none => false)
  && f.bulk.wf

/-- a partial resynchronisation reply followed by the command stream. -/
structure Cont where
  j : Nat
  word : Bytes
  cmds : Bytes
  deriving Repr

def Cont.stream (f : Cont) : Bytes := newlines f.j ++ [43] ++ f.word ++ crlf ++ f.cmds

def Cont.wf (f : Cont) : Bool := sameWord f.word continue_

end RSVerif.Spec.Handoff
