import RSVerif.Basic
/-
Specification side of C10: the RESP value syntax, its wire format and decimal integers.

  value  ::=  '+' text CRLF | '-' text CRLF | ':' decimal CRLF
           |  '$' "-1" CRLF | '$' decimal(len) CRLF bytes CRLF
           |  '*' "-1" CRLF | '*' decimal(count) CRLF value^count

A nil bulk/array (`none`) is different from an empty one (`some []`).  `text` must not contain LF
(that is the only restriction: a CR inside a simple string is data).  Core Lean only.
-/
namespace RSVerif.Spec.Resp
open RSVerif

/-- RESP value tree (Go: `*String | *Error | *Int | *BulkBytes | *Array`, `Value == nil` ↦ `none`). -/
inductive Resp where
  | str  (b : Bytes)
  | err  (b : Bytes)
  | int  (i : Int)
  | bulk (b : Option Bytes)
  | arr  (a : Option (List Resp))
  deriving Repr, Inhabited

def LF : UInt8 := 10
def CR : UInt8 := 13
def crlf : Bytes := [13, 10]

/-! ### decimal rendering -/

/-- ASCII digit of `d < 10` -/
def digitChar (d : Nat) : UInt8 := UInt8.ofNat (48 + d)

/-- decimal digits of `n`, most significant first; `fuel` bounds the number of digits -/
def natDigitsF : Nat → Nat → Bytes
  | 0, _ => []
  | f + 1, n => if n < 10 then [digitChar n] else natDigitsF f (n / 10) ++ [digitChar (n % 10)]

/-- decimal rendering of a natural number (`n + 1` digits always suffice) -/
def fmtNat (n : Nat) : Bytes := natDigitsF (n + 1) n

/-- decimal rendering of an integer: `-` sign for negatives, no `+`, no leading zeros
(Go `strconv.FormatInt(i, 10)` / `strconv.Itoa`). -/
def fmtInt (i : Int) : Bytes :=
  if i < 0 then 45 :: fmtNat i.natAbs else fmtNat i.natAbs

/-! ### wire format -/

mutual
/-- the bytes of one value -/
def enc : Resp → Bytes
  | .str b => 43 :: (b ++ crlf)
  | .err b => 45 :: (b ++ crlf)
  | .int i => 58 :: (fmtInt i ++ crlf)
  | .bulk none => 36 :: (fmtInt (-1) ++ crlf)
  | .bulk (some b) => 36 :: (fmtInt b.length ++ crlf ++ (b ++ crlf))
  | .arr none => 42 :: (fmtInt (-1) ++ crlf)
  | .arr (some l) => 42 :: (fmtInt l.length ++ crlf ++ encL l)
/-- the concatenated bytes of a sequence of values -/
def encL : List Resp → Bytes
  | [] => []
  | x :: xs => enc x ++ encL xs
end

/-- the 64-bit integer range -/
def isInt64 (i : Int) : Prop := -9223372036854775808 ≤ i ∧ i ≤ 9223372036854775807

instance (i : Int) : Decidable (isInt64 i) := by unfold isInt64; exact inferInstance

/-- largest length the decoder can take: `len + 2` must still be an `int64` -/
def maxLen : Nat := 9223372036854775805

mutual
/-- Well-formed values: simple strings and errors contain no LF; integers are 64-bit; lengths fit
the 64-bit length field (`len + 2` is computed in `int64`).  Nesting depth, payload bytes and sizes
are otherwise unrestricted. -/
def WF : Resp → Bool
  | .str b => !b.contains 10
  | .err b => !b.contains 10
  | .int i => decide (isInt64 i)
  | .bulk none => true
  | .bulk (some b) => decide (b.length ≤ maxLen)
  | .arr none => true
  | .arr (some l) => decide (l.length ≤ maxLen) && WFL l
def WFL : List Resp → Bool
  | [] => true
  | x :: xs => WF x && WFL xs
end

mutual
/-- nesting depth (number of array levels on the deepest path, plus one) -/
def depth : Resp → Nat
  | .arr (some l) => depthL l + 1
  | _ => 1
def depthL : List Resp → Nat
  | [] => 0
  | x :: xs => max (depth x) (depthL xs)
end

/-! ### streams -/

/-- wire image of a stream: every value preceded by `k` keep-alive newlines -/
def wire : List (Nat × Resp) → Bytes
  | [] => []
  | (k, v) :: xs => List.replicate k 10 ++ enc v ++ wire xs

/-- what a consumer of that stream must observe, starting at offset `off` and with `tail` more bytes after the
stream: each value, the offset after it, the bytes still unread -/
def observed : List (Nat × Resp) → Nat → Nat → List (Resp × Nat × Nat)
  | [], _, _ => []
  | (k, v) :: xs, off, tail =>
    (v, off + k + (enc v).length, (wire xs).length + tail) :: observed xs (off + k + (enc v).length) tail

end RSVerif.Spec.Resp
