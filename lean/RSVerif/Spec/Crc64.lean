import RSVerif.Basic
/-
Specification: the Redis CRC-64 ("Jones" polynomial, reflected in/out, init 0, no final xor),
processed bit by bit. Independent of any table.
-/
namespace RSVerif.Spec.Crc64
open RSVerif

/-- reflected Jones polynomial 0xad93d23594c935a9 -/
def poly : UInt64 := 0x95ac9329ac4bc9b5

/-- shift one bit out (LSB first) -/
def bitStep (c : UInt64) : UInt64 :=
  if c &&& 1 = 1 then (c >>> 1) ^^^ poly else c >>> 1

def bitStep8 (c : UInt64) : UInt64 :=
  bitStep (bitStep (bitStep (bitStep (bitStep (bitStep (bitStep (bitStep c)))))))

/-- absorb one byte: xor into the low byte, then 8 bit steps -/
def byteStep (crc : UInt64) (b : UInt8) : UInt64 := bitStep8 (crc ^^^ b.toUInt64)

def update (crc : UInt64) (bs : Bytes) : UInt64 := bs.foldl byteStep crc

/-- CRC-64/Jones(Redis) of a byte string -/
def crc64 (bs : Bytes) : UInt64 := update 0 bs

end RSVerif.Spec.Crc64
