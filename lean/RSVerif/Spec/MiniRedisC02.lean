import RSVerif.Basic
/-
MiniRedis for C02 (DESIGN §2.5, appendix E): the specification of the target the restorer talks to.

  * keyspace   `db → key → Option (LValue × Option expireAtMs)` — the *live view* at the server clock
                (expired keys are absent; `Target.advance` moves the clock and purges);
  * the commands `RestoreRdbEntry` sends, with the replies the tool branches on;
  * a redigo connection as two queues (`Send` → outq, `Flush` executes outq and queues the replies,
    `Receive` pops one reply, `Do` = Send + Flush + drain).

What a DUMP payload *holds* (`Server.load`, Redis' rdbLoadObject) is a field of the server: the theorems of
C02 assume it agrees, on the payload in question, with the logical value defined in Model/Restore.lean.
Collections keep insertion order and are duplicate free *by construction of the operations* (`sadd`/`hset`/`zadd`
update in place or append), so structural equality of two values reached through these operations implies
equality as set / field→value map / member→score map (see the `mem_`/`lookup_` lemmas in Properties/C02).
Fidelity of this file to a real Redis is part of the trusted base.
-/
namespace RSVerif.Spec.MiniRedisC02
open RSVerif

/-- float64 bit pattern -/
abbrev Score := UInt64

def isNaN (b : Score) : Bool := (b >>> 52) &&& 0x7ff == 0x7ff && b &&& 0xfffffffffffff != 0

/-- `strconv.ParseFloat(text, 64)` / `strconv.FormatFloat(f, 'f', -1, 64)` / Redis' strtod as bit patterns.
    Never proved; the theorems that need it assume `FloatText.RoundTrips`. -/
structure FloatText where
  parse : Bytes → Option Score
  fmt : Score → Bytes

def FloatText.RoundTrips (ft : FloatText) : Prop := ∀ b, isNaN b = false → ft.parse (ft.fmt b) = some b

inductive LValue
  | str (b : Bytes)
  | list (xs : List Bytes)
  | set (ms : List Bytes)
  | hash (fvs : List (Bytes × Bytes))
  | zset (ms : List (Bytes × Score))
  /-- a value this specification does not look into (stream, module, or a compact encoding nobody expanded):
      it is whatever RESTORE stored -/
  | opaque (payload : Bytes)
  deriving DecidableEq, Repr

/-- value with optional absolute expiry (ms, server clock) -/
abbrev Binding := LValue × Option Nat

abbrev Keyspace := Nat → Bytes → Option Binding

def Keyspace.empty : Keyspace := fun _ _ => none

def Keyspace.put (ks : Keyspace) (d : Nat) (k : Bytes) (b : Option Binding) : Keyspace :=
  fun d' k' => if d' = d ∧ k' = k then b else ks d' k'

/-- drop every binding whose expiry is not after `now` -/
def Keyspace.purge (ks : Keyspace) (now : Nat) : Keyspace :=
  fun d k => match ks d k with
    | some (v, some exp) => if exp ≤ now then none else some (v, some exp)
    | x => x

/-! ### value-level operations (none = WRONGTYPE) -/

def insertMember (m : Bytes) (ms : List Bytes) : List Bytes := if ms.contains m then ms else ms ++ [m]

/-- update in place or append -/
def upsert {β : Type} (k : Bytes) (v : β) : List (Bytes × β) → List (Bytes × β)
  | [] => [(k, v)]
  | (k', v') :: r => if k' = k then (k, v) :: r else (k', v') :: upsert k v r

def hasKey {β : Type} (k : Bytes) (l : List (Bytes × β)) : Bool := l.any fun p => p.1 == k

inductive ErrKind
  | busy          -- "BUSYKEY Target key name already exists."
  | busyOld       -- "ERR Target key name is busy."   (2.8)
  | badData       -- "ERR Bad data format"
  | badPayload    -- "ERR DUMP payload version or checksum are wrong"
  | wrongType     -- "WRONGTYPE Operation against a key holding the wrong kind of value"
  | notFloat      -- "ERR value is not a valid float"
  deriving DecidableEq, Repr

inductive Reply
  | ok                -- +OK
  | int (n : Nat)     -- :n
  | bulk (b : Bytes)  -- $len …
  | err (e : ErrKind)
  deriving DecidableEq, Repr

def Reply.isErr : Reply → Bool
  | .err _ => true
  | _ => false

/-- the element commands (what `restoreBigRdbEntry` sends per element) -/
inductive ElemOp
  | rpush (v : Bytes)
  | sadd (m : Bytes)
  | hset (f v : Bytes)
  | zadd (scoreText m : Bytes)
  deriving DecidableEq, Repr

/-- one element command applied to the current binding of the key: new binding and integer reply, or an error
    that leaves the key alone. -/
def applyElem (ft : FloatText) (cur : Option Binding) : ElemOp → Except ErrKind (Binding × Nat)
  | .rpush v =>
    match cur with
    | none => .ok ((.list [v], none), 1)
    | some (.list xs, exp) => .ok ((.list (xs ++ [v]), exp), xs.length + 1)
    | some _ => .error .wrongType
  | .sadd m =>
    match cur with
    | none => .ok ((.set [m], none), 1)
    | some (.set ms, exp) => .ok ((.set (insertMember m ms), exp), if ms.contains m then 0 else 1)
    | some _ => .error .wrongType
  | .hset f v =>
    match cur with
    | none => .ok ((.hash [(f, v)], none), 1)
    | some (.hash fvs, exp) => .ok ((.hash (upsert f v fvs), exp), if hasKey f fvs then 0 else 1)
    | some _ => .error .wrongType
  | .zadd st m =>
    -- Redis parses the score first (strtod, NaN refused), then looks the key up
    match ft.parse st with
    | none => .error .notFloat
    | some sc =>
      if isNaN sc then .error .notFloat
      else match cur with
        | none => .ok ((.zset [(m, sc)], none), 1)
        | some (.zset ms, exp) => .ok ((.zset (upsert m sc ms), exp), if hasKey m ms then 0 else 1)
        | some _ => .error .wrongType

/-! ### commands -/

inductive Cmd
  | restore (key : Bytes) (ttl : Nat) (payload : Bytes) (idle freq : Option Nat) (replace : Bool)
  | del (key : Bytes)
  | exists (key : Bytes)
  | elem (key : Bytes) (op : ElemOp)
  | set (key v : Bytes)
  | pexpire (key : Bytes) (ms : Nat)
  | scriptLoad (body : Bytes)
  deriving DecidableEq, Repr

/-- immutable properties of the target server -/
structure Server where
  /-- server clock, ms -/
  now : Nat
  /-- DUMP trailer (RDB version, CRC-64) acceptable to this server -/
  trailerOk : Bytes → Bool
  /-- value type codes this server's rdbLoadObject knows -/
  accepts : UInt8 → Bool
  /-- the logical value a payload holds (Redis' rdbLoadObject); none = "Bad data format" -/
  load : Bytes → Option LValue
  /-- 2.8 wording of the busy reply -/
  busyOld : Bool
  ft : FloatText

/-- what the server keeps -/
structure Store where
  ks : Keyspace
  scripts : List Bytes

def busyErr (srv : Server) : ErrKind := if srv.busyOld then .busyOld else .busy

/-- one command against the selected database `d` -/
def exec (srv : Server) (d : Nat) (s : Store) : Cmd → Store × Reply
  | .restore k ttl payload _ _ replace =>
    -- order of Redis' restoreCommand: busy check, trailer, rdbLoadObject, then (REPLACE) delete + add
    if !replace && (s.ks d k).isSome then (s, .err (busyErr srv))
    else if !srv.trailerOk payload then (s, .err .badPayload)
    else match payload with
      | [] => (s, .err .badPayload)
      | t :: _ =>
        if !srv.accepts t then (s, .err .badData)
        else match srv.load payload with
          | none => (s, .err .badData)
          | some v => ({ s with ks := s.ks.put d k (some (v, if ttl = 0 then none else some (srv.now + ttl))) }, .ok)
  | .del k =>
    ({ s with ks := s.ks.put d k none }, .int (if (s.ks d k).isSome then 1 else 0))
  | .exists k => (s, .int (if (s.ks d k).isSome then 1 else 0))
  | .elem k op =>
    match applyElem srv.ft (s.ks d k) op with
    | .ok (b, n) => ({ s with ks := s.ks.put d k (some b) }, .int n)
    | .error e => (s, .err e)
  | .set k v => ({ s with ks := s.ks.put d k (some (.str v, none)) }, .ok)
  | .pexpire k ms =>
    match s.ks d k with
    | none => (s, .int 0)
    | some (v, _) =>
      if ms = 0 then ({ s with ks := s.ks.put d k none }, .int 1)
      else ({ s with ks := s.ks.put d k (some (v, some (srv.now + ms))) }, .int 1)
  | .scriptLoad body =>
    ({ s with scripts := if s.scripts.contains body then s.scripts else s.scripts ++ [body] }, .bulk [])

/-- a pipeline executed in order -/
def runCmds (srv : Server) (d : Nat) : Store → List Cmd → Store × List Reply
  | s, [] => (s, [])
  | s, c :: cs =>
    let (s1, r) := exec srv d s c
    let (s2, rs) := runCmds srv d s1 cs
    (s2, r :: rs)

/-! ### the connection (redigo `Conn`) together with the server behind it -/

structure Target where
  srv : Server
  /-- database selected on this connection (RestoreRdbEntry never sends SELECT) -/
  db : Nat
  store : Store
  /-- written by `Send`, not yet flushed -/
  outq : List Cmd := []
  /-- replies of flushed commands not yet received -/
  inq : List Reply := []
  /-- ghost: every command handed to the connection, in order -/
  log : List Cmd := []
  /-- ghost counters -/
  nSent : Nat := 0
  nRecv : Nat := 0
  /-- ghost: how many commands each `Flush` wrote out, in order -/
  flog : List Nat := []

def Target.send (t : Target) (c : Cmd) : Target :=
  { t with outq := t.outq ++ [c], log := t.log ++ [c], nSent := t.nSent + 1 }

def Target.flush (t : Target) : Target :=
  let (s, rs) := runCmds t.srv t.db t.store t.outq
  { t with store := s, outq := [], inq := t.inq ++ rs, flog := t.flog ++ [t.outq.length] }

/-- `Receive`: none = nothing to read, the caller would block for ever -/
def Target.receive (t : Target) : Option (Reply × Target) :=
  match t.inq with
  | [] => none
  | r :: rs => some (r, { t with inq := rs, nRecv := t.nRecv + 1 })

/-- `Do(cmd)`: Send, Flush, read every outstanding reply; returns the last reply and whether an earlier one was
    an error (redigo then reports that earlier error). -/
def Target.doCmd (t : Target) (c : Cmd) : Reply × Target :=
  let t1 := (t.send c).flush
  let last := t1.inq.getLast?.getD (.err .badPayload)   -- inq is non-empty after a flush of ≥ 1 command
  let firstErr := t1.inq.find? Reply.isErr
  (match firstErr with | some e => e | none => last,
   { t1 with inq := [], nRecv := t1.nRecv + t1.inq.length })

/-- the connection is quiescent: nothing written-but-unflushed, nothing flushed-but-unread -/
def Target.Idle (t : Target) : Prop := t.outq = [] ∧ t.inq = []

/-- time passes on the server: clock moves to `now`, expired keys disappear -/
def Target.advance (t : Target) (now : Nat) : Target :=
  { t with srv := { t.srv with now := now }, store := { t.store with ks := t.store.ks.purge now } }

def Target.get (t : Target) (k : Bytes) : Option Binding := t.store.ks t.db k

/-! ### rendering (what redigo puts on the wire, command names lower-cased) -/

def ascii (s : String) : Bytes := s.toUTF8.toList

def digitsRev : Nat → Nat → List UInt8
  | 0, _ => []
  | fuel + 1, n => if n < 10 then [UInt8.ofNat (48 + n)] else UInt8.ofNat (48 + n % 10) :: digitsRev fuel (n / 10)

def fmtNat (n : Nat) : Bytes := (digitsRev (n + 1) n).reverse

def Cmd.render : Cmd → List Bytes
  | .restore k ttl p idle freq replace =>
    [ascii "restore", k, fmtNat ttl, p]
      ++ (match idle with | some i => [ascii "IDLETIME", fmtNat i] | none => [])
      ++ (match freq with | some f => [ascii "FREQ", fmtNat f] | none => [])
      ++ (if replace then [ascii "REPLACE"] else [])
  | .del k => [ascii "del", k]
  | .exists k => [ascii "exists", k]
  | .elem k (.rpush v) => [ascii "rpush", k, v]
  | .elem k (.sadd m) => [ascii "sadd", k, m]
  | .elem k (.hset f v) => [ascii "hset", k, f, v]
  | .elem k (.zadd st m) => [ascii "zadd", k, st, m]
  | .set k v => [ascii "set", k, v]
  | .pexpire k ms => [ascii "pexpire", k, fmtNat ms]
  | .scriptLoad b => [ascii "script", ascii "load", b]

end RSVerif.Spec.MiniRedisC02
