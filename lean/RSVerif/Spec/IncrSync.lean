import RSVerif.Model.SyncBasic
import RSVerif.Model.IncrParse
import RSVerif.Spec.MiniRedis
/-
Vocabulary of the C03/C04 statements: which queue items are source transaction markers, and the
well-formedness of a source stream (what a master emits). Core Lean only.
-/
namespace RSVerif.Spec.IncrSync
open RSVerif RSVerif.Sync

/-- source-side transaction markers: never forwarded -/
def marker (it : Item) : Bool := it.cmd == "multi" || it.cmd == "exec"

/-- well-formedness from a given "inside a source transaction" mode: no MULTI and no SELECT inside a
transaction. An EXEC is accepted in both modes, so every suffix of a well-formed stream (a resumed
stream may begin inside a transaction) is well-formed from `false`. -/
def wfFrom : Bool → List Item → Bool
  | _, [] => true
  | t, it :: rest =>
    if it.cmd = "multi" then !t && wfFrom true rest
    else if it.cmd = "exec" then wfFrom false rest
    else if it.cmd = "select" then !t && wfFrom t rest
    else wfFrom t rest

/-- `WF`: the hypothesis on the stream handed to the sender -/
def WF (items : List Item) : Prop := wfFrom false items = true

instance (items : List Item) : Decidable (WF items) := by unfold WF; infer_instance

/-- what a master emits from the start of a stream: MULTI and EXEC strictly alternate (beginning outside a
transaction) and no SELECT occurs inside a transaction -/
def strictFrom : Bool → List Item → Bool
  | _, [] => true
  | t, it :: rest =>
    if it.cmd = "multi" then !t && strictFrom true rest
    else if it.cmd = "exec" then t && strictFrom false rest
    else if it.cmd = "select" then !t && strictFrom t rest
    else strictFrom t rest

def WFstrict (items : List Item) : Prop := strictFrom false items = true

instance (items : List Item) : Decidable (WFstrict items) := by unfold WFstrict; infer_instance

/-- is this batch a lone `ping`? (`cachedCount == 1 && lastOplog.Cmd == "ping"`) -/
def lonePing (items : List Item) : Bool :=
  match items with
  | [it] => it.cmd == "ping"
  | _ => false

/-- offsets handed to the sender increase strictly (tags `base + pos` of a constant base, see D9) -/
def offsetsIncreasing : List Item → Bool
  | [] => true
  | [_] => true
  | a :: b :: rest => decide (a.off < b.off) && offsetsIncreasing (b :: rest)


/-! ### what the target is meant to execute for a source stream (the reference for `db_routing`) -/

open RSVerif.IncrParse in
/-- is this the sentinel hello publish? (`none`: a `publish` without arguments — not a stream a master emits) -/
def isSentinelHello (c : SrcCmd) : Option Bool :=
  if eqFold c.cmd "publish" then
    match c.args with
    | [] => none
    | a0 :: _ => some (eqFoldBytes a0 sentinelHello)
  else some false

open RSVerif.IncrParse in
/-- is a command other than SELECT dropped by the command filters? `ping` never is; `none`: invalid stream -/
def dropStatus (cfg : PCfg) (c : SrcCmd) : Option Bool :=
  if c.cmd == "ping" then some false
  else if cfg.filterCmd c.cmd then some true
  else isSentinelHello c

open RSVerif.IncrParse in
/-- The source commands that survive the configured filters, in order: issued while a non-filtered database is
selected (`byp` = the selected one is filtered), not dropped by the command filters, not rejected by the key
filter; SELECTs themselves are not listed. An invalid stream (SELECT without a valid number, `publish` without
arguments) ends the list. -/
def survivors (cfg : PCfg) : Bool → List SrcCmd → List SrcCmd
  | _, [] => []
  | byp, c :: cs =>
    if c.cmd = "select" then
      match c.args with
      | [a] =>
        match atoi a with
        | some n => survivors cfg (cfg.filterDB n) cs
        | none => []
      | _ => []
    else
      match dropStatus cfg c with
      | none => []
      | some dropped =>
        (if !byp && !dropped && !(cfg.keyFilter c.cmd c.args).2 then [c] else []) ++ survivors cfg byp cs

open RSVerif.IncrParse in
/-- For every surviving command that is not a MULTI/EXEC marker: the database it must run in (the one selected on
the source when it was issued, or the fixed `target.db`) and the command with the arguments the key filter
leaves. `cur` = database selected on the source. -/
def intended (cfg : PCfg) : Int → Bool → List SrcCmd → List (Int × MiniRedis.Cmd)
  | _, _, [] => []
  | cur, byp, c :: cs =>
    if c.cmd = "select" then
      match c.args with
      | [a] =>
        match atoi a with
        | some n => intended cfg n (cfg.filterDB n) cs
        | none => []
      | _ => []
    else
      match dropStatus cfg c with
      | none => []
      | some dropped =>
        let kf := cfg.keyFilter c.cmd c.args
        let survives := !byp && !dropped && !kf.2 && !(c.cmd == "multi" || c.cmd == "exec")
        let db := if cfg.targetDB != -1 then cfg.targetDB else cur
        (if survives then [(db, (c.cmd, kf.1))] else []) ++ intended cfg cur byp cs


open RSVerif.IncrParse in
/-- well-formedness of the *source* stream (same shape as `wfFrom`, on decoded commands): no MULTI and no SELECT
inside a transaction -/
def srcWfFrom : Bool → List SrcCmd → Bool
  | _, [] => true
  | t, c :: cs =>
    if c.cmd = "multi" then !t && srcWfFrom true cs
    else if c.cmd = "exec" then srcWfFrom false cs
    else if c.cmd = "select" then !t && srcWfFrom t cs
    else srcWfFrom t cs

/-- a data command runs in its intended database; everything else the target reads (PING, …) has no effect on
the dataset -/
def execIn {D : Type} (ck : Bytes) (apply : Int → MiniRedis.Cmd → D → D) (d : D) (e : Int × MiniRedis.Cmd) : D :=
  match MiniRedis.classify ck e.2 with
  | .data => apply e.1 e.2 d
  | _ => d

open RSVerif.IncrParse in
/-- Hypothesis of `db_routing` under a fixed `target.db = k`: no command can be forwarded before the target
connection has reached `k`. `ready` = the connection is already in `k` (resumed in `k`), `byp` = the selected
source database is filtered. A non-filtered SELECT makes the connection ready — except, on the pinned tree
(`d8fix = false`), when it selects `k` itself (deviation D8). -/
def routeSafe (cfg : PCfg) : Bool → Bool → List SrcCmd → Bool
  | _, _, [] => true
  | ready, byp, c :: cs =>
    if c.cmd = "select" then
      match c.args with
      | [a] =>
        match atoi a with
        | some n =>
          if cfg.filterDB n then routeSafe cfg ready true cs
          else (ready || cfg.d8fix || n != cfg.targetDB) && routeSafe cfg true false cs
        | none => true
      | _ => true
    else (ready || byp) && routeSafe cfg ready byp cs

end RSVerif.Spec.IncrSync
