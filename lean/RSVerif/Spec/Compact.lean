import RSVerif.Model.RdbEncode
import RSVerif.Spec.Rdb
/-
Specification of Redis' compact value encodings, written from the format descriptions in ziplist.c, intset.c,
zipmap.c, quicklist.c, lzf_d.c and rdb.c (NOT from the tool's readers): syntax trees, their serializers and the logical
value Redis materialises from them. "Every compact encoding a Redis server can emit" = every well-formed tree.

  ziplist   <zlbytes:4 LE> <zltail:4 LE> <zllen:2 LE> entry* 0xFF
            entry = prevlen (1 byte if < 254, else 0xFE + 4 bytes LE; Redis may keep the 5-byte form after
                    deletions: `bigPrev`) · header · payload
            header  00pppppp                     string, 6-bit length
                    01pppppp qqqqqqqq            string, 14-bit length (big endian)
                    10______ + 4 bytes BE        string, 32-bit length
                    0xC0 int16 LE | 0xD0 int32 LE | 0xE0 int64 LE | 0xF0 int24 LE | 0xFE int8 | 0xF1..0xFD = 0..12
  intset    <encoding:4 LE ∈ {2,4,8}> <length:4 LE> members (LE two's complement)
  zipmap    <zmlen> ( <len> key <len> <free> value <free bytes> )* 0xFF ;  zmlen = number of pairs if < 254, else 254
            len = 0..253 literal, or 254 + 4 bytes LITTLE endian
  quicklist count · one RDB string per node, each a ziplist
  the blob is stored as an RDB string object (raw with a length form, or LZF): `Spec.Rdb.RStr` of C01
-/
namespace RSVerif.Spec.Compact
open RSVerif RSVerif.Rdb RSVerif.RdbDecode RSVerif.RdbEncode

/-! ### RDB string wrappers

A compact blob sits inside an RDB *string object*. String objects (raw with any length form, integer encoded, LZF with
its token streams), their serializer `serStr`, logical content `logical` and well-formedness are those of the RDB
syntax of C01 (`Spec/Rdb.lean`); they are not redefined here. -/

abbrev RStr := Spec.Rdb.RStr
abbrev LenForm := Spec.Rdb.LenForm

/-- string objects the DUMP decoder reads back exactly: like `Spec.Rdb.strOk`, except that the 64-bit length form is
    allowed as long as the number fits 32 bits (the cupcake reader keeps the LOW half of a 64-bit length) -/
def strOkC : RStr → Prop
  | .raw f bs => (Spec.Rdb.ELen.mk bs.length f).fits ∧ bs.length < 4294967296
  | .int8 b => b.length = 1
  | .int16 b => b.length = 2
  | .int32 b => b.length = 4
  | .lzf cf uf ts =>
    (Spec.Rdb.ELen.mk (Spec.Rdb.encToks ts).length cf).fits ∧ (Spec.Rdb.encToks ts).length < 4294967296 ∧
    (Spec.Rdb.ELen.mk (Spec.Rdb.expand ts).length uf).fits ∧ (Spec.Rdb.expand ts).length < 4294967296 ∧
    Spec.Rdb.toksOk [] ts

/-- an element count in a chosen form -/
def cntOkC (f : LenForm) (n : Nat) : Prop := (Spec.Rdb.ELen.mk n f).fits ∧ n < 4294967296

/-! ### ziplist -/

inductive IntEnc | i4 | i8 | i16 | i24 | i32 | i64
  deriving DecidableEq, Repr

def IntEnc.fits : IntEnc → Int → Prop
  | .i4, v => 0 ≤ v ∧ v ≤ 12
  | .i8, v => -128 ≤ v ∧ v ≤ 127
  | .i16, v => -32768 ≤ v ∧ v ≤ 32767
  | .i24, v => -8388608 ≤ v ∧ v ≤ 8388607
  | .i32, v => -2147483648 ≤ v ∧ v ≤ 2147483647
  | .i64, v => -9223372036854775808 ≤ v ∧ v ≤ 9223372036854775807

instance (e : IntEnc) (v : Int) : Decidable (e.fits v) := by cases e <;> unfold IntEnc.fits <;> infer_instance

inductive StrForm | s6 | s14 | s32
  deriving DecidableEq, Repr

def StrForm.fits : StrForm → Nat → Prop
  | .s6, n => n < 64
  | .s14, n => n < 16384
  | .s32, n => n < 4294967296

instance (f : StrForm) (n : Nat) : Decidable (f.fits n) := by cases f <;> unfold StrForm.fits <;> infer_instance

inductive ZlEntry
  | str (bigPrev : Bool) (f : StrForm) (s : Bytes)
  | int (bigPrev : Bool) (e : IntEnc) (v : Int)
  deriving DecidableEq, Repr

def ZlEntry.WF : ZlEntry → Prop
  | .str _ f s => f.fits s.length
  | .int _ e v => e.fits v

instance (e : ZlEntry) : Decidable e.WF := by cases e <;> unfold ZlEntry.WF <;> infer_instance

/-- the element Redis hands out for an entry: the string, or the integer in decimal -/
def ZlEntry.logical : ZlEntry → Bytes
  | .str _ _ s => s
  | .int _ _ v => fmtInt v

def ZlEntry.bigPrev : ZlEntry → Bool
  | .str b _ _ => b
  | .int b _ _ => b

def serPrevLen (big : Bool) (prev : Nat) : Bytes :=
  if big ∨ prev ≥ 254 then 0xFE :: leBytes 4 prev else [UInt8.ofNat prev]

def serEntryBody : ZlEntry → Bytes
  | .str _ .s6 s => UInt8.ofNat s.length :: s
  | .str _ .s14 s => UInt8.ofNat (64 + s.length / 256) :: UInt8.ofNat (s.length % 256) :: s
  | .str _ .s32 s => 0x80 :: (beBytes 4 s.length ++ s)
  | .int _ .i4 v => [UInt8.ofNat (0xF1 + v.toNat)]
  | .int _ .i8 v => 0xFE :: leBytes 1 (twos 8 v)
  | .int _ .i16 v => 0xC0 :: leBytes 2 (twos 16 v)
  | .int _ .i24 v => 0xF0 :: leBytes 3 (twos 24 v)
  | .int _ .i32 v => 0xD0 :: leBytes 4 (twos 32 v)
  | .int _ .i64 v => 0xE0 :: leBytes 8 (twos 64 v)

def serEntry (prev : Nat) (e : ZlEntry) : Bytes := serPrevLen e.bigPrev prev ++ serEntryBody e

/-- entries in sequence; `prev` = encoded length of the preceding entry (0 for the first) -/
def serEntries : Nat → List ZlEntry → Bytes
  | _, [] => []
  | prev, e :: es => serEntry prev e ++ serEntries (serEntry prev e).length es

def serZiplist (es : List ZlEntry) : Bytes :=
  let body := serEntries 0 es
  let tail := 10 + (serEntries 0 es.dropLast).length
  leBytes 4 (10 + body.length + 1) ++ leBytes 4 tail ++ leBytes 2 (min es.length 65535) ++ body ++ [0xFF]

/-- a ziplist Redis can hand to the RDB writer: any number of entries (the 16-bit count saturates at 65535,
    which tells the reader to walk the entries) -/
def zlWF (es : List ZlEntry) : Prop := ∀ e ∈ es, e.WF

instance (es : List ZlEntry) : Decidable (zlWF es) := by unfold zlWF; infer_instance

def flattenPairs (ps : List (ZlEntry × ZlEntry)) : List ZlEntry := ps.flatMap fun (a, b) => [a, b]

/-! ### intset -/

def widthFits (w : Nat) (v : Int) : Prop := - (2 ^ (8 * w - 1) : Nat) ≤ v ∧ v < (2 ^ (8 * w - 1) : Nat)

def serIntset (w : Nat) (xs : List Int) : Bytes :=
  leBytes 4 w ++ leBytes 4 xs.length ++ xs.flatMap fun v => leBytes w (twos (8 * w) v)

/-! ### zipmap -/

structure ZmPair where
  k : Bytes
  v : Bytes
  free : Bytes          -- unused bytes after the value (`free` = their number)
  deriving DecidableEq, Repr

/-- zipmap.c: 0..253 literal, else 254 + 4 bytes little endian -/
def serZmLen (n : Nat) : Bytes := if n < 254 then [UInt8.ofNat n] else 254 :: leBytes 4 n

def serZmPair (p : ZmPair) : Bytes :=
  serZmLen p.k.length ++ p.k ++ serZmLen p.v.length ++ [UInt8.ofNat p.free.length] ++ p.v ++ p.free

def serZipmap (ps : List ZmPair) : Bytes :=
  UInt8.ofNat (min ps.length 254) :: (ps.flatMap serZmPair ++ [0xFF])

def ZmPair.WF (p : ZmPair) : Prop := p.k.length < 4294967296 ∧ p.v.length < 4294967296 ∧ p.free.length < 256

instance (p : ZmPair) : Decidable p.WF := by unfold ZmPair.WF; infer_instance

/-! ### compact values -/

inductive Compact
  | zipmap (ps : List ZmPair)                                   -- type 9
  | listZl (es : List ZlEntry)                                  -- type 10
  | intset (w : Nat) (xs : List Int)                            -- type 11
  | zsetZl (ps : List (ZlEntry × ZlEntry))                      -- type 12: member, score (text or integer entry)
  | hashZl (ps : List (ZlEntry × ZlEntry))                      -- type 13
  deriving Repr

def Compact.type : Compact → UInt8
  | .zipmap _ => 9 | .listZl _ => 10 | .intset _ _ => 11 | .zsetZl _ => 12 | .hashZl _ => 13

def serCompact : Compact → Bytes
  | .zipmap ps => serZipmap ps
  | .listZl es => serZiplist es
  | .intset w xs => serIntset w xs
  | .zsetZl ps => serZiplist (flattenPairs ps)
  | .hashZl ps => serZiplist (flattenPairs ps)

def Compact.WF : Compact → Prop
  | .zipmap ps => (∀ p ∈ ps, p.WF) ∧ (serZipmap ps).length < 2147483648     -- a string of less than 2 GiB
  | .listZl es => zlWF es
  | .intset w xs => (w = 2 ∨ w = 4 ∨ w = 8) ∧ (∀ v ∈ xs, widthFits w v) ∧ xs.length < 4294967296
  | .zsetZl ps => zlWF (flattenPairs ps)
  | .hashZl ps => zlWF (flattenPairs ps)

/-- scores of a ziplist-encoded sorted set are texts (or integers); `pf` turns them into doubles -/
def scoresOf (pf : Bytes → Option UInt64) : List (ZlEntry × ZlEntry) → Option (List (Bytes × UInt64))
  | [] => some []
  | (m, s) :: ps =>
    match pf s.logical, scoresOf pf ps with
    | some f, some r => some ((m.logical, f) :: r)
    | _, _ => none

/-- what Redis materialises -/
def logicalOf (pf : Bytes → Option UInt64) : Compact → Option LValue
  | .zipmap ps => some (.hash (ps.map fun p => (p.k, p.v)))
  | .listZl es => some (.list (es.map (·.logical)))
  | .intset _ xs => some (.set (xs.map fmtInt))
  | .zsetZl ps => (scoresOf pf ps).map .zset
  | .hashZl ps => some (.hash (ps.map fun (f, v) => (f.logical, v.logical)))

/-- quicklist (type 14): one string object per node, each holding a ziplist -/
structure QNode where
  w : RStr
  es : List ZlEntry
  deriving Repr

def serQuicklist (cf : LenForm) (ns : List QNode) : Bytes :=
  Spec.Rdb.encLen ⟨ns.length, cf⟩ ++ ns.flatMap fun n => Spec.Rdb.serStr n.w

def qlLogical (ns : List QNode) : LValue := .list (ns.flatMap fun n => n.es.map (·.logical))

def qlWF (cf : LenForm) (ns : List QNode) : Prop :=
  cntOkC cf ns.length ∧ ∀ n ∈ ns, zlWF n.es ∧ strOkC n.w ∧ Spec.Rdb.logical n.w = serZiplist n.es

/-- DUMP payload of a compact value whose blob is stored as the string object `w` (WF: `logical w = serCompact c`) -/
def wrapDump (w : RStr) (t : UInt8) : Bytes := withDumpFooter (t :: Spec.Rdb.serStr w)

def quicklistDump (cf : LenForm) (ns : List QNode) : Bytes :=
  withDumpFooter (14 :: serQuicklist cf ns)

/-! ### plain values (types 0–5) as Redis writes them: any string-object encoding per element

The syntax (`Spec.Rdb.Value`: per-element string objects incl. integer and LZF encodings, counts in any length form,
text scores for type 3, binary doubles for type 5) is C01's; here is the logical value Redis materialises from it. -/

def scoreBits (pf : Bytes → Option UInt64) : Spec.Rdb.Score → Option UInt64
  | .text bs => pf bs
  | .nan => some goNaN
  | .pinf => some posInf
  | .ninf => some negInf

def plainLogical (pf : Bytes → Option UInt64) : Spec.Rdb.Value → Option LValue
  | .str t s => if t = 0 then some (.str (Spec.Rdb.logical s)) else none
  | .seq t _ xs =>
    if t = 1 then some (.list (xs.map Spec.Rdb.logical))
    else if t = 2 then some (.set (xs.map Spec.Rdb.logical))
    else none
  | .zset _ xs => some (.zset (xs.map fun p => (Spec.Rdb.logical p.1, (scoreBits pf p.2).getD 0)))
  | .zset2 _ xs => some (.zset (xs.map fun p => (Spec.Rdb.logical p.1, ofLe64 p.2)))    -- bit-exact
  | .hash _ fvs => some (.hash (fvs.map fun p => (Spec.Rdb.logical p.1, Spec.Rdb.logical p.2)))
  | .stream .. => none

def scoreOkC (pf : Bytes → Option UInt64) : Spec.Rdb.Score → Prop
  | .text bs => bs.length ≤ 252 ∧ (pf bs).isSome
  | _ => True

def plainOk (pf : Bytes → Option UInt64) : Spec.Rdb.Value → Prop
  | .str _ s => strOkC s
  | .seq _ n xs => cntOkC n xs.length ∧ ∀ x ∈ xs, strOkC x
  | .zset n xs => cntOkC n xs.length ∧ ∀ p ∈ xs, strOkC p.1 ∧ scoreOkC pf p.2
  | .zset2 n xs => cntOkC n xs.length ∧ ∀ p ∈ xs, strOkC p.1 ∧ p.2.length = 8
  | .hash n fvs => cntOkC n fvs.length ∧ ∀ p ∈ fvs, strOkC p.1 ∧ strOkC p.2
  | .stream .. => False

end RSVerif.Spec.Compact
