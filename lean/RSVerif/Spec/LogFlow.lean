import RSVerif.Model.LogFlow
import RSVerif.Generated.LogFlow
/-
C19 — what the property demands of the regenerated tables, plus the fixed witnesses used by the
counter-example and non-vacuity statements (kept here so that Properties/C19.lean holds theorems only).
-/
namespace RSVerif.Spec.LogFlow
open RSVerif.LogFlow RSVerif.Generated.LogFlow

/-- fields of a row of the generated type table (`[]` if the row does not exist — the theorems that use
    it come with a non-vacuity companion) -/
def fieldsOfRow (id : Nat) : List Field :=
  match typeDefs.find? (fun d => d.id == id) with
  | some d => d.fields
  | none => []

/-- the secret fields of `conf.Configuration`: these must show the mask wherever a configuration is shown -/
def configurationSecrets : List Field :=
  (fieldsOfRow configurationType).filter (fun f => secretFields.contains f.loc)

/-- all tainted locations of the candidate (fields among them) -/
def taintedLocs : List Nat := taintedNames.map (·.1)

/-- the pinned statement `log.Infof("Starting sync for node: %v", ds.node)` (dbSyncer.go:118, deviation D20) -/
def pinnedSyncNodeLog : Site :=
  ⟨"redis-shake/dbSync/dbSyncer.go:118", "log", "log.Infof",
   [⟨.basic "string", [], "\"Starting sync for node: %v\""⟩, ⟨.ptr (.named syncNodeType), [], "ds.node"⟩]⟩

/-- a `*slot.SyncNode` value (locations 4 and 5 stand for the two password fields) -/
def nodeWith (sp tp : String) : GoVal :=
  .ptr (.struct (.cons 100 "Id" (.num 0) (.cons 101 "Source" (.str "10.0.0.1:6379")
    (.cons 4 "SourcePassword" (.str sp) (.cons 102 "Target" (.list (.cons (.str "10.0.0.2:6379") .nil))
    (.cons 5 "TargetPassword" (.str tp) .nil))))))

/-- a configuration-like value (locations 0 and 2 stand for the raw password fields) -/
def confWith (sp tp : String) : GoVal :=
  .struct (.cons 50 "Id" (.str "shake") (.cons 0 "SourcePasswordRaw" (.str sp)
    (.cons 2 "TargetPasswordRaw" (.str tp) (.cons 51 "Parallel" (.num 32) .nil))))

end RSVerif.Spec.LogFlow
