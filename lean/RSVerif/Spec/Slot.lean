import RSVerif.Basic
/-
Specification of the Redis Cluster key → slot rule (cluster-spec, "Keys distribution model" and
"Hash tags"):

  HASH_SLOT = CRC16(hashed part) mod 16384
  hashed part = the bytes between the FIRST `{` and the FIRST `}` following it, if that substring
                is non-empty; the whole key otherwise (no `{`, no `}` after it, or `{}`).
  CRC16 = CRC-16/XMODEM: width 16, polynomial 0x1021, init 0, no reflection, no final xor,
          processed bit by bit, most significant bit first.

Independent of any table. Core Lean only.
-/
namespace RSVerif.Spec.Slot
open RSVerif

def poly : UInt16 := 0x1021

/-- shift one bit out at the top (MSB first) -/
def bitStep (c : UInt16) : UInt16 :=
  if c &&& 0x8000 = 0x8000 then (c <<< 1) ^^^ poly else c <<< 1

def bitStep8 (c : UInt16) : UInt16 :=
  bitStep (bitStep (bitStep (bitStep (bitStep (bitStep (bitStep (bitStep c)))))))

/-- absorb one byte: xor into the high byte, then 8 bit steps -/
def byteStep (crc : UInt16) (b : UInt8) : UInt16 := bitStep8 (crc ^^^ (b.toUInt16 <<< 8))

def update (crc : UInt16) (bs : Bytes) : UInt16 := bs.foldl byteStep crc

/-- CRC-16/XMODEM of a byte string -/
def crc16 (bs : Bytes) : UInt16 := update 0 bs

def openBrace : UInt8 := 0x7b   -- '{'
def closeBrace : UInt8 := 0x7d  -- '}'

/-- everything after the first occurrence of `c`, if there is one -/
def afterFirst (c : UInt8) : Bytes → Option Bytes
  | [] => none
  | b :: bs => if b = c then some bs else afterFirst c bs

/-- everything before the first occurrence of `c`, if there is one -/
def beforeFirst (c : UInt8) : Bytes → Option Bytes
  | [] => none
  | b :: bs => if b = c then some [] else (beforeFirst c bs).map (b :: ·)

/-- the hash tag: bytes between the first `{` and the first `}` after it -/
def hashTag (k : Bytes) : Option Bytes :=
  match afterFirst openBrace k with
  | none => none
  | some rest => beforeFirst closeBrace rest

/-- the part of the key that is hashed -/
def hashedPart (k : Bytes) : Bytes :=
  match hashTag k with
  | some (t :: ts) => t :: ts
  | _ => k

def slots : Nat := 16384

/-- the Redis Cluster hash slot of a key -/
def slotSpec (k : Bytes) : Nat := (crc16 (hashedPart k)).toNat % slots

/-- `[l, r]` membership as used by every range statement of C15 -/
def inRange (l r : Int) (slot : Nat) : Bool := decide (l ≤ (slot : Int)) && decide ((slot : Int) ≤ r)

/-- decimal rendering of a natural number (`strconv.Itoa` for `i ≥ 0`), used for the names of the
    synthetic latency keys -/
def itoa (i : Nat) : Bytes := (Nat.toDigits 10 i).map fun c => UInt8.ofNat c.toNat

end RSVerif.Spec.Slot
