import RSVerif.Basic
/-
Spec for C20 (source re-discovery). Core Lean only; nothing here comes from the Go source.

* what a probe of a node can yield, and which answer that is: `master`, `replica`, or `faulty`
  (unreachable, error answer, no role reported);
* which role an `INFO replication` text reports;
* what a successful selection must satisfy (`Correct`, and its executable form `correct`).
-/
namespace RSVerif.Spec.Supervisor
open RSVerif

/-- What one probe of one node yields: the connection cannot be opened; the `INFO replication` command
fails (I/O error, error reply, nil / non-string reply); or the node sends an INFO text. -/
inductive Probe where
  | connErr
  | cmdErr
  | info (text : Bytes)
deriving DecidableEq, Repr

/-- the tolerated faults -/
inductive ProbeErr where
  | conn | cmd | invalidRole
deriving DecidableEq, Repr

/-- the known nodes of a shard: `slot.SyncNode{Source, Slaves}` -/
structure SyncNode where
  source : String
  slaves : List String
deriving DecidableEq, Repr

def ascii (cs : List Char) : Bytes := cs.map fun c => UInt8.ofNat c.toNat

/-- `role:master` -/
def masterLine : Bytes := ascii ['r', 'o', 'l', 'e', ':', 'm', 'a', 's', 't', 'e', 'r']
/-- `role:slave` -/
def slaveLine : Bytes := ascii ['r', 'o', 'l', 'e', ':', 's', 'l', 'a', 'v', 'e']

/-- Scan of an INFO text. Lines end with LF (Redis sends CRLF, the CR is then the last byte of the line and
harmless). At the start of a line, `role:master` / `role:slave` decides; anywhere else in a line these
bytes mean nothing. `true` = master, `false` = replica, `none` = no role reported. -/
def roleFrom : (atLineStart : Bool) → Bytes → Option Bool
  | _, [] => none
  | true, b :: rest =>
    if masterLine.isPrefixOf (b :: rest) then some true
    else if slaveLine.isPrefixOf (b :: rest) then some false
    else roleFrom (b == 10) rest
  | false, b :: rest => roleFrom (b == 10) rest

/-- the role reported by an `INFO replication` reply -/
def reportedRole (text : Bytes) : Option Bool := roleFrom true text

/-- `(isMaster, error)` the property expects the tool to conclude from a probe -/
def nodeState : Probe → Except ProbeErr Bool
  | .connErr => .error .conn
  | .cmdErr => .error .cmd
  | .info text =>
    match reportedRole text with
    | some b => .ok b
    | none => .error .invalidRole

inductive Answer where
  | master | replica | faulty
deriving DecidableEq, Repr

/-- the answer of a node, as the property sees it -/
def answer (p : Probe) : Answer :=
  match nodeState p with
  | .ok true => .master
  | .ok false => .replica
  | .error _ => .faulty

/-- What the property demands of a returned node `n`, given the known nodes `hs` (by position) and what
each position answered in the attempt that returned. -/
structure Correct (hs : List String) (ans : Nat → Answer) (n : SyncNode) : Prop where
  /-- the chosen source is a known node that answered `master` -/
  chosen_master : ∃ i, hs[i]? = some n.source ∧ ans i = .master
  /-- every other known node is listed as a replica -/
  others_listed : ∀ h ∈ hs, h ≠ n.source → h ∈ n.slaves
  /-- and nothing else is -/
  nothing_invented : ∀ h ∈ n.slaves, h ∈ hs

/-- names at the positions that answered `master`, positions counted from `i` -/
def masterNames (ans : Nat → Answer) : Nat → List String → List String
  | _, [] => []
  | i, h :: hs => if ans i = .master then h :: masterNames ans (i + 1) hs else masterNames ans (i + 1) hs

/-- executable form of `Correct` (used by the driver to accept answers the deterministic model does not
give, e.g. a different choice among several masters) -/
def correct (hs : List String) (ans : Nat → Answer) (n : SyncNode) : Bool :=
  (masterNames ans 0 hs).contains n.source &&
  hs.all (fun h => h == n.source || n.slaves.contains h) &&
  n.slaves.all (fun h => hs.contains h)

end RSVerif.Spec.Supervisor
