import RSVerif.Basic
/-
C13 specification: where the keys of a write command are — BY THE REDIS COMMAND REFERENCE, written by hand
(DESIGN.md Appendix F) and independent of the repo's `RedisCommands` table — and what a key filter is allowed
to do to such a command.

A command's argument list (command name excluded) is *parsed* into segments: a non-key argument, or a key
together with its companion arguments (the value of an `MSET` pair). Filtering keeps every non-key segment,
keeps a key segment iff its key passes, keeps the order, and drops the command iff no key passes.
-/
namespace RSVerif.Spec.CommandKeys
open RSVerif

/-- bytes of an ASCII name (UTF-8 of ASCII text is the ASCII bytes; cheap for the kernel to evaluate) -/
def ascii (s : String) : Bytes := s.toUTF8.data.toList

/-! ### key positions per command -/

inductive KeyClass
  | single       -- argument 0 is the key, the rest are options/values
  | firstTwo     -- arguments 0 and 1 are keys (source, destination), the rest are options
  | all          -- every argument is a key
  | allButLast   -- every argument but the final timeout is a key
  | everySecond  -- key value key value …
  | afterSub     -- argument 0 is a sub-command/operation, every later argument is a key
deriving DecidableEq, Repr

def allNames : List String := ["del", "unlink", "sinterstore", "sunionstore", "sdiffstore", "pfmerge"]
def allButLastNames : List String := ["brpop", "blpop"]
def firstTwoNames : List String := ["brpoplpush", "rpoplpush", "smove", "rename", "renamenx"]
def everySecondNames : List String := ["mset", "msetnx"]
def afterSubNames : List String := ["bitop"]
def singleNames : List String := [
  "set", "setnx", "setex", "psetex", "append", "setbit", "bitfield", "setrange", "incr", "decr",
  "rpush", "lpush", "rpushx", "lpushx", "linsert", "rpop", "lpop", "lset", "ltrim", "lrem",
  "sadd", "srem", "spop", "zadd", "zincrby", "zrem", "zremrangebyscore", "zremrangebyrank", "zremrangebylex",
  "hset", "hsetnx", "hmset", "hincrby", "hincrbyfloat", "hdel", "incrby", "decrby", "incrbyfloat", "getset",
  "move", "expire", "expireat", "pexpire", "pexpireat", "persist", "restore", "restore-asking", "geoadd", "pfadd"]

/-- the write commands whose keys the tool filters, with their key layout -/
def commandClasses : List (String × KeyClass) :=
  allNames.map (·, .all) ++ allButLastNames.map (·, .allButLast) ++ firstTwoNames.map (·, .firstTwo) ++
  everySecondNames.map (·, .everySecond) ++ afterSubNames.map (·, .afterSub) ++ singleNames.map (·, .single)

/-- Redis command names are case-insensitive (ASCII). -/
def lowerByte (b : UInt8) : UInt8 := if 65 ≤ b ∧ b ≤ 90 then b + 32 else b
def lower (name : Bytes) : Bytes := name.map lowerByte

/-- key layout of an (already lower-case) command name; `none` = not a key-addressed write command -/
def classOfLower (name : Bytes) : Option KeyClass :=
  (commandClasses.find? (fun p => ascii p.1 == name)).map (·.2)

def keyClass (name : Bytes) : Option KeyClass := classOfLower (lower name)

/-! ### segments -/

inductive Seg
  | opt (a : Bytes)                          -- a non-key argument
  | key (k : Bytes) (companions : List Bytes) -- a key and the arguments that belong to it
deriving DecidableEq, Repr

def Seg.flat : Seg → List Bytes
  | .opt a => [a]
  | .key k cs => k :: cs

def keysThenLast : List Bytes → List Seg
  | [] => []
  | [t] => [.opt t]
  | k :: rest => .key k [] :: keysThenLast rest

def pairs : List Bytes → Option (List Seg)
  | [] => some []
  | [_] => none
  | k :: v :: rest => (pairs rest).map (Seg.key k [v] :: ·)

/-- the argument list of a command of the given layout, segmented; `none` = not a valid arity -/
def parse : KeyClass → List Bytes → Option (List Seg)
  | .single, k :: opts => some (.key k [] :: opts.map .opt)
  | .firstTwo, a :: b :: opts => some (.key a [] :: .key b [] :: opts.map .opt)
  | .all, k :: ks => some ((k :: ks).map (.key · []))
  | .allButLast, a :: b :: rest => some (keysThenLast (a :: b :: rest))
  | .everySecond, k :: v :: rest => pairs (k :: v :: rest)
  | .afterSub, op :: k :: ks => some (.opt op :: (k :: ks).map (.key · []))
  | _, _ => none

def Seg.key? : Seg → Option Bytes
  | .opt _ => none
  | .key k _ => some k

/-- the keys a segmented command names -/
def keysOf (segs : List Seg) : List Bytes := segs.filterMap Seg.key?

def validArity (cls : KeyClass) (args : List Bytes) : Bool := (parse cls args).isSome

/-! ### the rewrite -/

inductive Verdict
  | drop
  | forward (args : List Bytes)
deriving DecidableEq, Repr

def Seg.kept (pass : Bytes → Bool) : Seg → Bool
  | .opt _ => true
  | .key k _ => pass k

def Seg.passingKey (pass : Bytes → Bool) : Seg → Bool
  | .opt _ => false
  | .key k _ => pass k

def rewriteSegs (pass : Bytes → Bool) (segs : List Seg) : Verdict :=
  if segs.any (Seg.passingKey pass) then .forward ((segs.filter (Seg.kept pass)).flatMap Seg.flat) else .drop

/-- what a key filter `pass` does to the arguments of a command with layout `cls`; `none` = invalid arity -/
def rewriteSpec (pass : Bytes → Bool) (cls : KeyClass) (args : List Bytes) : Option Verdict :=
  (parse cls args).map (rewriteSegs pass)

/-! ### the configured filter: prefix lists -/

structure FilterCfg where
  whitelist : List Bytes
  blacklist : List Bytes
deriving DecidableEq, Repr

def FilterCfg.active (c : FilterCfg) : Bool := !c.whitelist.isEmpty || !c.blacklist.isEmpty

/-- the tool's own checkpoint hash; keys with this prefix are never forwarded by a key filter -/
def checkpointKey : Bytes := ascii "redis-shake-checkpoint"

/-- a key passes iff it is not one of the tool's checkpoint keys and, if a blacklist is given, it starts with
    none of its prefixes; else, if a whitelist is given, it starts with one of its prefixes. -/
def keyPasses (c : FilterCfg) (key : Bytes) : Bool :=
  !checkpointKey.isPrefixOf key &&
    (if !c.blacklist.isEmpty then !c.blacklist.any (·.isPrefixOf key)
     else if !c.whitelist.isEmpty then c.whitelist.any (·.isPrefixOf key)
     else true)

/-- The whole property as a function: the verdict for command `name args` under configuration `c`.
    `none` = the argument count is not valid for the command (no requirement). -/
def filterSpec (c : FilterCfg) (name : Bytes) (args : List Bytes) : Option Verdict :=
  if !c.active then some (.forward args)
  else match keyClass name with
    | none => some (.forward args)
    | some cls => rewriteSpec (keyPasses c) cls args

end RSVerif.Spec.CommandKeys
