import RSVerif.Basic
/-
MiniRedis as far as property C07 needs it: a target that keeps a *selected database per
connection*, executes the data commands it receives in arrival order (one global order — the
server is single threaded) and remembers, for each executed command, on which connection and in
which database it ran.  What a single data command does to a key is C02's business; here only the
coarse effect needed to talk about "DEL races a later chunk" (D12) is specified (`applyExec`).
Core Lean only.
-/
namespace RSVerif.Spec.MiniRedisC07
open RSVerif

/-- the command words `RestoreRdbEntry` uses -/
inductive CmdName
  | restore | set | del | exists | hset | rpush | sadd | zadd | pexpire | scriptLoad
  /-- anything else (never produced by the pinned `RestoreRdbEntry`; kept so that a trace can be represented) -/
  | other
deriving DecidableEq, Repr, Inhabited

/-- A command that `RestoreRdbEntry` may put on the wire (everything except `SELECT`, which only the
    worker loop issues).  `arg` is the argument that identifies the element (HSET field, RPUSH element,
    SCRIPT LOAD body); `-`/empty where the trace does not record one. -/
structure DataCmd where
  name : CmdName
  key : Bytes
  arg : Bytes
deriving DecidableEq, Repr, Inhabited

/-- One executed data command, as the server saw it. -/
structure Exec where
  conn : Nat
  /-- database selected on `conn` at the moment the command arrived -/
  db : Nat
  cmd : DataCmd
  /-- the reply was not an error -/
  ok : Bool
deriving DecidableEq, Repr

structure Server where
  /-- selected database of every connection (a fresh connection is in database 0) -/
  sel : Nat → Nat := fun _ => 0
  /-- executed data commands, oldest first -/
  log : List Exec := []

def Server.select (s : Server) (conn db : Nat) : Server :=
  { s with sel := fun c => if c = conn then db else s.sel c }

def Server.exec (s : Server) (conn : Nat) (c : DataCmd) (ok : Bool) : Server :=
  { s with log := s.log ++ [{ conn := conn, db := s.sel conn, cmd := c, ok := ok }] }

@[simp] theorem Server.select_log (s : Server) (c d : Nat) : (s.select c d).log = s.log := rfl
@[simp] theorem Server.select_sel (s : Server) (c d i : Nat) :
    (s.select c d).sel i = if i = c then d else s.sel i := rfl
@[simp] theorem Server.exec_sel (s : Server) (c : Nat) (x : DataCmd) (ok : Bool) :
    (s.exec c x ok).sel = s.sel := rfl
@[simp] theorem Server.exec_log (s : Server) (c : Nat) (x : DataCmd) (ok : Bool) :
    (s.exec c x ok).log = s.log ++ [{ conn := c, db := s.sel c, cmd := x, ok := ok }] := rfl

/-- `(db, command)` pairs in execution order. -/
def Server.executed (s : Server) : List (Nat × DataCmd) := s.log.map fun x => (x.db, x.cmd)

/-! ### Coarse keyspace: which elements a key holds (enough for "DEL wipes what an earlier HSET wrote") -/

abbrev Keyspace := List ((Nat × Bytes) × List Bytes)

def Keyspace.get (ks : Keyspace) (d : Nat) (k : Bytes) : Option (List Bytes) :=
  match ks with
  | [] => none
  | (a, v) :: r => if a = (d, k) then some v else Keyspace.get r d k

def Keyspace.erase (ks : Keyspace) (d : Nat) (k : Bytes) : Keyspace :=
  ks.filter fun p => !(decide (p.1 = (d, k)))

def Keyspace.put (ks : Keyspace) (d : Nat) (k : Bytes) (v : List Bytes) : Keyspace :=
  ((d, k), v) :: Keyspace.erase ks d k

/-- lexicographic order on byte strings (only used to keep set-like values in a canonical order) -/
def bytesLt : Bytes → Bytes → Bool
  | [], [] => false
  | [], _ :: _ => true
  | _ :: _, [] => false
  | a :: as, b :: bs => a < b || (a == b && bytesLt as bs)

/-- insert into a sorted duplicate-free list (the elements of a hash / set / sorted set are a set) -/
def insertSorted (x : Bytes) : List Bytes → List Bytes
  | [] => [x]
  | y :: ys => if x = y then y :: ys else if bytesLt x y then x :: y :: ys else y :: insertSorted x ys

/-- effect of one executed command: `del` removes the key, `restore`/`set` replace it, `hset`/`sadd`/`zadd` add their
    element to a set, `rpush` appends to a list, everything else (`exists`, `pexpire`, `script`) and every
    command that was answered with an error leaves the elements alone. -/
def applyExec (ks : Keyspace) (x : Exec) : Keyspace :=
  if !x.ok then ks
  else match x.cmd.name with
  | .del => ks.erase x.db x.cmd.key
  | .restore | .set => ks.put x.db x.cmd.key [x.cmd.arg]
  | .hset | .sadd | .zadd => ks.put x.db x.cmd.key (insertSorted x.cmd.arg ((ks.get x.db x.cmd.key).getD []))
  | .rpush => ks.put x.db x.cmd.key ((ks.get x.db x.cmd.key).getD [] ++ [x.cmd.arg])
  | _ => ks

def keyspaceOf (log : List Exec) : Keyspace := log.foldl applyExec []

/-- elements of `(d,k)` after the log has been executed -/
def valueAfter (log : List Exec) (d : Nat) (k : Bytes) : Option (List Bytes) := (keyspaceOf log).get d k

end RSVerif.Spec.MiniRedisC07
