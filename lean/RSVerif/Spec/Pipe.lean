import RSVerif.Basic
/-
C09 — specification of the pipe: what a user of `pipe.Reader` / `pipe.Writer` relies on.

The vocabulary (errors, atomic steps, what a step returns) is shared with the executable model
(`RSVerif.Model.Pipe`).  The abstract pipe is a bounded FIFO queue of bytes plus the close state of
each side and one "parked" flag per side.  It is *nondeterministic* exactly where the property
leaves a choice open: a read that finds data may return ANY non-empty prefix of the queue that
fits the caller's buffer, a write that finds room may accept ANY non-empty prefix that fits.
Core Lean only.
-/
namespace RSVerif.Pipe

/-- error classes (what `errors.Cause` of the Go error is) -/
inductive Err where
  | eof                 -- io.EOF            (default of Writer.Close)
  | closed              -- io.ErrClosedPipe  (default of Reader.Close; every I/O on a closed side)
  | custom (n : Nat)    -- the error handed to CloseWithError
  deriving DecidableEq, Repr

/-- result of one `readSome`: either the thread parks inside `rwait.Wait()`, or the call returns
    `(len data, err)` with `data` copied into the caller's buffer. -/
inductive RObs where
  | park
  | ret (data : Bytes) (err : Option Err)
  deriving DecidableEq, Repr

/-- result of one `writeSome`: park inside `wwait.Wait()`, or return `(n, err)`. -/
inductive WObs where
  | park
  | ret (n : Nat) (err : Option Err)
  deriving DecidableEq, Repr

/-- the atomic steps: each is one critical section of `pipe.mu`. -/
inductive Step where
  | readSome (k : Nat)            -- reader thread: `readSome(b)` with `len(b) = k`
  | writeSome (bs : Bytes)        -- writer thread: `writeSome(bs)`
  | rclose (e : Option Err)       -- Reader.Close (none) / CloseWithError (some e), any thread
  | wclose (e : Option Err)       -- Writer.Close / CloseWithError, any thread
  | buffered                      -- Reader.Buffered, any thread
  | available                     -- Writer.Available, any thread
  deriving DecidableEq, Repr

inductive Obs where
  | r (o : RObs)
  | w (o : WObs)
  | closeOk                       -- RClose / WClose return nil
  | count (n : Nat) (err : Option Err)
  | disabled                      -- the thread that would take this step is parked: it cannot
  deriving DecidableEq, Repr

/-- bytes accepted from the writer by a step -/
def wrote : Step → Obs → Bytes
  | .writeSome bs, .w (.ret n _) => bs.take n
  | _, _ => []

/-- bytes handed to the reader by a step -/
def got : Step → Obs → Bytes
  | .readSome _, .r (.ret data _) => data
  | _, _ => []

def writtenOf : List (Step × Obs) → Bytes
  | [] => []
  | (s, o) :: t => wrote s o ++ writtenOf t

def readOutOf : List (Step × Obs) → Bytes
  | [] => []
  | (s, o) :: t => got s o ++ readOutOf t

/-- the abstract pipe -/
structure APipe where
  cap : Nat
  q : Bytes
  rerr : Option Err
  werr : Option Err
  rPark : Bool
  wPark : Bool

/-- first close wins -/
def setOnce (old : Option Err) (e : Err) : Option Err :=
  match old with
  | none => some e
  | some x => some x

/-- The specification: which observation / successor a step may have. -/
inductive Next : APipe → Step → Obs → APipe → Prop where
  -- reads ------------------------------------------------------------------------------------
  | rDisabled (a k) : a.rPark = true → Next a (.readSome k) .disabled a
  | rClosed (a k) : a.rPark = false → a.rerr ≠ none →
      Next a (.readSome k) (.r (.ret [] (some .closed))) a
  | rZero (a) : a.rPark = false → a.rerr = none →
      Next a (.readSome 0) (.r (.ret [] (if a.q ≠ [] then none else a.werr))) a
  | rData (a k n) : a.rPark = false → a.rerr = none → 0 < k → 1 ≤ n → n ≤ k → n ≤ a.q.length →
      Next a (.readSome k) (.r (.ret (a.q.take n) none)) { a with q := a.q.drop n, wPark := false }
  | rDrained (a k e) : a.rPark = false → a.rerr = none → 0 < k → a.q = [] → a.werr = some e →
      Next a (.readSome k) (.r (.ret [] (some e))) a
  | rPark (a k) : a.rPark = false → a.rerr = none → 0 < k → a.q = [] → a.werr = none →
      Next a (.readSome k) (.r .park) { a with rPark := true }
  -- writes -----------------------------------------------------------------------------------
  | wDisabled (a bs) : a.wPark = true → Next a (.writeSome bs) .disabled a
  | wClosed (a bs) : a.wPark = false → a.werr ≠ none →
      Next a (.writeSome bs) (.w (.ret 0 (some .closed))) a
  | wReaderGone (a bs e) : a.wPark = false → a.werr = none → a.rerr = some e →
      Next a (.writeSome bs) (.w (.ret 0 (some e))) a
  | wZero (a) : a.wPark = false → a.werr = none → a.rerr = none →
      Next a (.writeSome []) (.w (.ret 0 none)) a
  | wData (a bs n) : a.wPark = false → a.werr = none → a.rerr = none → bs ≠ [] →
      1 ≤ n → n ≤ bs.length → a.q.length + n ≤ a.cap →
      Next a (.writeSome bs) (.w (.ret n none)) { a with q := a.q ++ bs.take n, rPark := false }
  | wPark (a bs) : a.wPark = false → a.werr = none → a.rerr = none → bs ≠ [] → a.q.length = a.cap →
      Next a (.writeSome bs) (.w .park) { a with wPark := true }
  -- closes: first error wins, both sides are woken, a reader close discards what is buffered ----
  | rclose (a e) :
      Next a (.rclose e) .closeOk
        { a with rerr := setOnce a.rerr (e.getD .closed), q := [], rPark := false, wPark := false }
  | wclose (a e) :
      Next a (.wclose e) .closeOk
        { a with werr := setOnce a.werr (e.getD .eof), rPark := false, wPark := false }
  -- counters ----------------------------------------------------------------------------------
  | bufferedClosed (a e) : a.rerr = some e → Next a .buffered (.count 0 (some e)) a
  | bufferedSome (a) : a.rerr = none → a.q ≠ [] → Next a .buffered (.count a.q.length none) a
  | bufferedNone (a) : a.rerr = none → a.q = [] → Next a .buffered (.count 0 a.werr) a
  | availWClosed (a e) : a.werr = some e → Next a .available (.count 0 (some e)) a
  | availRClosed (a e) : a.werr = none → a.rerr = some e → Next a .available (.count 0 (some e)) a
  | avail (a) : a.werr = none → a.rerr = none → Next a .available (.count (a.cap - a.q.length) none) a

end RSVerif.Pipe
