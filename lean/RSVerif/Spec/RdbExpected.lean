import RSVerif.Spec.Rdb
import RSVerif.Spec.Crc64
import RSVerif.Model.RdbRead
/-
What the user relies on (C01): the records a well-formed RDB file must be delivered as.
`Rdb.Entry` (the record type of the model) is reused as the record type of the spec.
-/
namespace RSVerif.Spec.Rdb
open RSVerif RSVerif.Rdb

/-- a DUMP payload: type byte, serialized value, 2-byte LE version, 8-byte LE CRC-64 of all that precedes -/
def dumpPayload (version : UInt16) (t : UInt8) (body : Bytes) : Bytes :=
  [t] ++ body ++ le16 version ++ le64 (Spec.Crc64.crc64 ([t] ++ body ++ le16 version))

def expiryMs : Expiry → Nat
  | .none => 0
  | .sec b => leVal b * 1000
  | .ms b => leVal b

/- `dump` below is the payload wrapper; the property instantiates it with `dumpPayload 6`. -/

/-- continuation records of a hash delivered in chunks: the remaining pairs `ps`, chunk after chunk -/
def contRecords (dump : UInt8 → Bytes → Bytes) (L db : Nat) (key : Bytes) : Nat → List Pair → List Entry
  | 0, _ => []
  | f + 1, ps =>
    match ps with
    | [] => []
    | _ =>
      { db := db, key := key, type := 4, value := dump 4 (serPairs (takeChunk L 0 ps).1),
        realMemberCount := (takeChunk L 0 ps).1.length, needReadLen := 0 } ::
      contRecords dump L db key f (takeChunk L 0 ps).2

/-- records of one key -/
def keyRecords (dump : UInt8 → Bytes → Bytes) (L db : Nat) (exp : Expiry) (idle : Option ELen) (freq : Option UInt8)
    (name : RStr) (v : Value) : List Entry :=
  let base : Entry := { db := db, key := logical name, type := v.type, value := [],
                        expireAt := expiryMs exp, idle := (idle.map (·.val)).getD 0,
                        freq := (freq.map (·.toNat)).getD 0, needReadLen := 1 }
  match v with
  | .hash n fvs =>
    let c := (takeChunk L (encLen ⟨fvs.length, n⟩).length fvs).1
    let r := (takeChunk L (encLen ⟨fvs.length, n⟩).length fvs).2
    { base with value := dump 4 (encLen ⟨fvs.length, n⟩ ++ serPairs c),
                realMemberCount := if r = [] then 0 else c.length } ::
      contRecords dump L db (logical name) r.length r
  | _ => [{ base with value := dump v.type (serValue v) }]

/-- the records of a file, in file order; `db` = currently selected database -/
def expected (dump : UInt8 → Bytes → Bytes) (L : Nat) : Nat → List Item → List Entry
  | _, [] => []
  | db, .aux _ _ :: is => expected dump L db is
  | db, .resizeDb _ _ :: is => expected dump L db is
  | db, .moduleAux _ _ :: is => expected dump L db is
  | _, .selectDb n :: is => expected dump L n.val is
  | db, .lua _ s :: is =>
    { db := db, key := luaText, type := 0xFA, value := logical s } :: expected dump L db is
  | db, .key exp idle freq name v :: is => keyRecords dump L db exp idle freq name v ++ expected dump L db is

end RSVerif.Spec.Rdb
