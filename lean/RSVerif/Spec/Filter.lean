import RSVerif.Basic
import RSVerif.Generated.FilterConsts
/-
C06 — specification of "excluded by configuration", written from the property statement and the
documentation of the `filter.*` settings in conf/redis-shake.conf, NOT from filter.go.

  * a key blacklist excludes any key STARTING WITH a listed prefix; a key whitelist passes only such keys;
  * database lists match database NUMBERS exactly (an entry is the decimal numeral of the number);
  * a slot list (full phase of sync only) passes only keys hashing to a listed slot;
  * script commands / Lua scripts are excluded exactly when `filter.lua` is set;
  * the tool's own checkpoint keys are never copied by full sync / restore, nor by any path once a key
    filter is configured; the internal bookkeeping command is never forwarded.

Core Lean only.
-/
namespace RSVerif.Spec.Filter
open RSVerif

/-- The six `filter.*` settings (`conf.Options.Filter*`, configure.go:36-41); list entries as raw bytes. -/
structure Cfg where
  keyBlack : List Bytes := []
  keyWhite : List Bytes := []
  dbBlack  : List Bytes := []
  dbWhite  : List Bytes := []
  slots    : List Bytes := []
  lua      : Bool := false
deriving DecidableEq, Repr

/-- the four data paths of the statement -/
inductive Path | fullSync | restore | incr | rump
deriving DecidableEq, Repr

/-! ### keys -/

/-- "some listed prefix is a prefix of `key`" -/
def listed (key : Bytes) (l : List Bytes) : Bool := l.any (fun p => p.isPrefixOf key)

/-- A key filter is configured. -/
def keyFilterOn (cfg : Cfg) : Bool := !cfg.keyBlack.isEmpty || !cfg.keyWhite.isEmpty

/-- Excluded by the key lists. The settings file allows at most one of the two lists; when both are
    given the blacklist alone decides (the whitelist is not consulted) — for at-most-one configurations this
    is the plain reading "blacklist: listed ⇒ out; whitelist: not listed ⇒ out" (`keyExcluded_union`). -/
def keyExcluded (cfg : Cfg) (key : Bytes) : Bool :=
  if !cfg.keyBlack.isEmpty then listed key cfg.keyBlack
  else if !cfg.keyWhite.isEmpty then !listed key cfg.keyWhite
  else false

/-- the plain reading for configurations with at most one key list -/
def keyExcludedUnion (cfg : Cfg) (key : Bytes) : Bool :=
  (!cfg.keyBlack.isEmpty && listed key cfg.keyBlack) || (!cfg.keyWhite.isEmpty && !listed key cfg.keyWhite)

/-- the tool's own checkpoint keys: `redis-shake-checkpoint` and its per-shard variants (a suffix is
    appended for cluster targets, `ChoseSlotInRange`) -/
def isCheckpointKey (key : Bytes) : Bool := Generated.checkpointKey.isPrefixOf key

/-- "not copied by full sync or restore, nor by any path once a key filter is configured" -/
def checkpointExcluded (p : Path) (cfg : Cfg) (key : Bytes) : Bool :=
  isCheckpointKey key && (p == .fullSync || p == .restore || keyFilterOn cfg)

/-! ### databases -/

/-- canonical decimal numeral of an integer (`0`, `7`, `15`, `-3`) -/
def decimal (i : Int) : Bytes := (Int.repr i).toByteArray.data.toList

/-- "database lists match database numbers exactly": some entry is the numeral of `db` -/
def dbListed (db : Int) (l : List Bytes) : Bool := l.any (fun e => e == decimal db)

def dbExcluded (cfg : Cfg) (db : Int) : Bool :=
  if !cfg.dbBlack.isEmpty then dbListed db cfg.dbBlack
  else if !cfg.dbWhite.isEmpty then !dbListed db cfg.dbWhite
  else false

/-! ### slots -/

def isDigit (b : UInt8) : Bool := 48 ≤ b && b ≤ 57

/-- value of a non-empty all-digit string -/
def digitsVal : Bytes → Nat → Option Nat
  | [], acc => some acc
  | b :: bs, acc => if isDigit b then digitsVal bs (acc * 10 + (b.toNat - 48)) else none

def digits? (s : Bytes) : Option Nat := if s.isEmpty then none else digitsVal s 0

/-- an entry of `filter.slot` denotes a number: optional sign, at least one digit (what the start-up check
    `strconv.Atoi(val)` of sanitize.go accepts) -/
def numeral? (s : Bytes) : Option Int :=
  match s with
  | [] => none
  | c :: rest =>
    if c == 43 then (digits? rest).map (fun n => (n : Int))
    else if c == 45 then (digits? rest).map (fun n => -(n : Int))
    else (digits? s).map (fun n => (n : Int))

/-- every slot entry is a numeral (enforced at start-up by SanitizeOptions) -/
def slotsValid (cfg : Cfg) : Bool := cfg.slots.all (fun e => (numeral? e).isSome)

def slotListed (slot : Nat) (l : List Bytes) : Bool := l.any (fun e => numeral? e == some (slot : Int))

/-- full phase of sync only: with a slot list, a key passes only if it hashes to a listed slot -/
def slotExcluded (cfg : Cfg) (slot : Nat) : Bool := !cfg.slots.isEmpty && !slotListed slot cfg.slots

/-! ### the decision for a (db, key) -/

/-- `(db, key)` is excluded by configuration on path `p` (slot list apart) -/
def excluded (p : Path) (cfg : Cfg) (db : Int) (key : Bytes) : Bool :=
  dbExcluded cfg db || checkpointExcluded p cfg key || keyExcluded cfg key

/-- full sync: additionally the slot list (`slot` = the cluster slot the key hashes to) -/
def excludedFullSync (cfg : Cfg) (db : Int) (key : Bytes) (slot : Nat) : Bool :=
  excluded .fullSync cfg db key || slotExcluded cfg slot

/-! ### commands and scripts -/

def lowerAscii (b : UInt8) : UInt8 := if 65 ≤ b && b ≤ 90 then b + 32 else b

/-- `cmd` is the (lower-case) name `name` written in any letter case -/
def isName (cmd name : Bytes) : Bool := cmd.map lowerAscii == name

def nEval    : Bytes := [0x65, 0x76, 0x61, 0x6c]                    -- "eval"
def nEvalsha : Bytes := [0x65, 0x76, 0x61, 0x6c, 0x73, 0x68, 0x61]  -- "evalsha"
def nScript  : Bytes := [0x73, 0x63, 0x72, 0x69, 0x70, 0x74]        -- "script"
def nOpinfo  : Bytes := [0x6f, 0x70, 0x69, 0x6e, 0x66, 0x6f]        -- "opinfo"
def nLua     : Bytes := [0x6c, 0x75, 0x61]                          -- "lua" (aux field carrying a script)

def scriptCmd (cmd : Bytes) : Bool := isName cmd nEval || isName cmd nEvalsha || isName cmd nScript

/-- the tool's internal bookkeeping command -/
def internalCmd (cmd : Bytes) : Bool := isName cmd nOpinfo

/-- a command name is excluded: bookkeeping always, script commands exactly when `filter.lua` -/
def cmdExcluded (cfg : Cfg) (cmd : Bytes) : Bool := internalCmd cmd || (cfg.lua && scriptCmd cmd)

/-- a Lua script carried in a snapshot is excluded exactly when `filter.lua` -/
def luaExcluded (cfg : Cfg) : Bool := cfg.lua

def isAscii (s : Bytes) : Bool := s.all (· < 128)

end RSVerif.Spec.Filter
