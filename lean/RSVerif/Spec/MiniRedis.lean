import RSVerif.Model.SyncBasic
/-
MiniRedis — the specification of the target peer, restricted to what the incremental sender issues
(DESIGN.md §2.5, Appendix E): SELECT, MULTI/EXEC (queue, apply atomically at EXEC, a lost connection
drops the open transaction), HSET on the checkpoint hash, PING, and *abstract* data commands: every other
command acts on the dataset through an arbitrary deterministic `apply db cmd`, so nothing proved here
depends on which Redis commands are replicated nor on their being idempotent. Core Lean only.

Trusted as a description of a real server. Not modelled: queue-time rejection of a command inside
MULTI (EXECABORT), `databases` limit of SELECT, replies.
-/
namespace RSVerif.Spec.MiniRedis
open RSVerif RSVerif.Sync

/-- a command as received: name and arguments -/
abbrev Cmd := String × List Bytes

inductive Op
  | select (db : Int)
  | multi
  | exec
  | ckpt (field val : Bytes)   -- HSET <checkpoint key> field val
  | noop                       -- PING; also a SELECT whose argument is not an integer (error reply)
  | data
deriving DecidableEq, Repr

/-- command table lookup (case-insensitive, as in a server) -/
def classify (ck : Bytes) (c : Cmd) : Op :=
  let n := normName c.1
  if n = "select" then
    match c.2 with
    | [a] => match parseIntU a with
      | some k => .select k
      | none => .noop
    | _ => .noop
  else if n = "multi" then .multi
  else if n = "exec" then .exec
  else if n = "ping" then .noop
  else if n = "hset" then
    match c.2 with
    | [k, f, v] => if k = ck then .ckpt f v else .data
    | _ => .data
  else .data

/-- the target as seen through one connection -/
structure St (D : Type) where
  data : D                               -- the dataset (all logical dbs)
  ckpt : List (Int × Bytes × Bytes)      -- checkpoint hash bindings (db, field, value), newest first
  db : Int                               -- database selected on this connection
  q : Option (List Cmd)                  -- commands queued by an open MULTI

variable {D : Type}

/-- execute one command immediately (outside MULTI, or while EXEC drains the queue) -/
def execNow (ck : Bytes) (apply : Int → Cmd → D → D) (s : St D) (c : Cmd) : St D :=
  match classify ck c with
  | .select k => { s with db := k }
  | .ckpt f v => { s with ckpt := (s.db, f, v) :: s.ckpt }
  | .data => { s with data := apply s.db c s.data }
  | _ => s

/-- the server receives one command on the connection -/
def recv (ck : Bytes) (apply : Int → Cmd → D → D) (s : St D) (c : Cmd) : St D :=
  match s.q with
  | some q =>
    match classify ck c with
    | .exec => q.foldl (execNow ck apply) { s with q := none }
    | .multi => s                        -- "MULTI calls can not be nested": error reply, queue kept
    | _ => { s with q := some (q ++ [c]) }
  | none =>
    match classify ck c with
    | .multi => { s with q := some [] }
    | .exec => s                         -- "EXEC without MULTI"
    | _ => execNow ck apply s c

def replay (ck : Bytes) (apply : Int → Cmd → D → D) (s : St D) (cs : List Cmd) : St D :=
  cs.foldl (recv ck apply) s

/-- the connection is lost: an open transaction is discarded -/
def drop (s : St D) : St D := { s with q := none }

/-- a new connection to the same server -/
def reconnect (s : St D) : St D := { s with q := none, db := 0 }

/-- the reference behaviour: every command executed immediately, in order -/
def plain (ck : Bytes) (apply : Int → Cmd → D → D) (s : St D) (cs : List Cmd) : St D :=
  cs.foldl (execNow ck apply) s

/-- newest value of `field` of the checkpoint hash in database `db` -/
def hget (s : St D) (db : Int) (field : Bytes) : Option Bytes :=
  (s.ckpt.find? (fun e => e.1 == db && e.2.1 == field)).map (fun e => e.2.2)

/-- the integer stored under `field` of the checkpoint hash of database `db` -/
def storedInt (s : St D) (db : Int) (field : Bytes) : Option Int :=
  (hget s db field).bind parseIntU

/-- What the checkpoint loader (owned by C14) must return: the database whose checkpoint hash holds the
greatest offset, and that offset (`LoadCheckpoint` folds `offset > newestOffset` over the databases). -/
def NewestCheckpoint (s : St D) (offField : Bytes) (db : Int) (off : Int) : Prop :=
  storedInt s db offField = some off ∧
  ∀ d o, storedInt s d offField = some o → o ≤ off ∧ (o = off → d = db)

/-- the log instance of the dataset: which command ran in which database, in order. Every `apply`
factors through it, and appending is not idempotent. -/
abbrev Log := List (Int × Cmd)
def logApply : Int → Cmd → Log → Log := fun db c l => l ++ [(db, c)]

end RSVerif.Spec.MiniRedis
