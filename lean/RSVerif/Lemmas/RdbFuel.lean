import RSVerif.Lemmas.RdbLoader
/-
Reader lemmas for C01, part 6: the fuel of the model's NextBinEntry loop is irrelevant once it suffices.
-/
set_option linter.unusedSimpArgs false
namespace RSVerif.Lemmas.Rdb
open RSVerif RSVerif.Rdb RSVerif.Spec.Rdb

theorem nextLoop_mono (pf : Bytes → Bool) (fr : Bool) (L : Nat) (f : Nat) :
    ∀ (st : LState) (acc : Entry) (inp : Bytes) x,
      nextLoop pf fr L f st acc inp = .ok x → nextLoop pf fr L (f + 1) st acc inp = .ok x := by
  induction f with
  | zero => intro st acc inp x h; simp [nextLoop, fail] at h
  | succ f ih =>
    intro st acc inp x h
    rw [nextLoop] at h
    rw [nextLoop]
    split at h
    · exact absurd h (by simp)
    · rename_i t r heq
      simp only [heq]
      split at h
      case h_1 =>
        simp only [] at h ⊢
        by_cases hc : (lenient readString r).1 = some luaName
        · rw [if_pos hc] at h ⊢; exact h
        · rw [if_neg hc] at h ⊢; exact ih _ _ _ _ h
      case h_2 => exact ih _ _ _ _ h
      case h_3 =>
        cases hD : readN 8 r with
        | error e => rw [hD] at h; exact absurd h (by simp)
        | ok p => rw [hD] at h; exact ih _ _ _ _ h
      case h_4 =>
        cases hD : readN 4 r with
        | error e => rw [hD] at h; exact absurd h (by simp)
        | ok p => rw [hD] at h; exact ih _ _ _ _ h
      case h_5 =>
        cases hD : readLength r with
        | error e => rw [hD] at h; exact absurd h (by simp)
        | ok p => rw [hD] at h; exact ih _ _ _ _ h
      case h_6 => exact h
      case h_7 =>
        cases hD : readLength r with
        | error e => rw [hD] at h; exact absurd h (by simp)
        | ok p =>
          rw [hD] at h
          simp only [] at h ⊢
          cases hM : moduleLoop pf fr p.2.length p.2 with
          | error e => rw [hM] at h; exact absurd h (by simp)
          | ok q => rw [hM] at h; exact ih _ _ _ _ h
      case h_8 =>
        cases hD : readLength r with
        | error e => rw [hD] at h; exact absurd h (by simp)
        | ok p => rw [hD] at h; exact ih _ _ _ _ h
      case h_9 =>
        cases hD : readByte r with
        | error e => rw [hD] at h; exact absurd h (by simp)
        | ok p => rw [hD] at h; exact ih _ _ _ _ h
      case h_10 => exact h

theorem nextLoop_mono_le (pf : Bytes → Bool) (fr : Bool) (L : Nat) (f g : Nat) (hfg : f ≤ g)
    (st : LState) (acc : Entry) (inp : Bytes) x
    (h : nextLoop pf fr L f st acc inp = .ok x) : nextLoop pf fr L g st acc inp = .ok x := by
  induction g with
  | zero => have : f = 0 := by omega
            subst this; exact h
  | succ g ih =>
    by_cases hfe : f = g + 1
    · subst hfe; exact h
    · exact nextLoop_mono pf fr L g st acc inp x (ih (by omega))

end RSVerif.Lemmas.Rdb
