import RSVerif.Lemmas.HandoffReply
namespace RSVerif.Lemmas.Handoff
open RSVerif RSVerif.Handoff

theorem sameWord_iff {w kw : Bytes} : Spec.Handoff.sameWord w kw = true ↔ lower w = kw := by
  simp [Spec.Handoff.sameWord, lower_eq]

/-- `+CONTINUE` in any letter case: same run id, `offset - 1` of what was requested. -/
theorem sendPSyncContinue_cont (f : Spec.Handoff.Cont) (hf : f.wf = true) (inRunid : Bytes) (inOffset : Int) :
    sendPSyncContinue inRunid inOffset f.stream = .cont inRunid (psyncOffset inOffset - 1) f.cmds := by
  have hw : lower f.word = kwContinue := by
    rw [← kwContinue_eq]; exact sameWord_iff.mp hf
  obtain ⟨hsp, hlf, hasc⟩ := word_props kwContinue_lower hw
  have hplus : PLUS ≠ LF := by decide
  unfold sendPSyncContinue Spec.Handoff.Cont.stream
  have e : Spec.Handoff.newlines f.j ++ [43] ++ f.word ++ Spec.Handoff.crlf ++ f.cmds
      = Spec.Handoff.newlines f.j ++ PLUS :: (f.word ++ CR :: LF :: f.cmds) := by
    simp [Spec.Handoff.crlf, PLUS, CR, LF]
  rw [e, skipLF_newlines _ _ _ hplus]
  simp only [true_or, if_true]
  rw [readLine_text _ _ hlf]
  simp only [List.getLast?_append, List.getLast?_singleton, Option.some_or, ne_eq, not_true_eq_false, if_false,
    List.dropLast_concat]
  have : PLUS ≠ MINUS := by decide
  simp only [this, if_false]
  unfold interpretStatus
  rw [splitSp_word _ hsp]
  simp [hasc, hw]

theorem denote_chars {ds : Bytes} {v : Nat} (h : Spec.Handoff.denote ds = some v) :
    ∀ b ∈ ds, b ≠ LF ∧ b ≠ SP := by
  obtain ⟨_, hall, _⟩ := denote_parts h
  intro b hb
  have := digit_not_sign (List.all_eq_true.mp hall b hb)
  exact ⟨this.2.2.1, this.2.2.2.1⟩

theorem denoteInt_chars {s : Bytes} {v : Int} (h : Spec.Handoff.denoteInt s = some v) :
    ∀ b ∈ s, b ≠ LF ∧ b ≠ SP := by
  unfold Spec.Handoff.denoteInt at h
  split at h
  · rename_i hm
    cases s with
    | nil => simp at hm
    | cons c ds =>
      simp only [List.head?_cons, Option.some.injEq] at hm
      subst hm
      simp only [List.tail_cons] at h
      split at h
      · rename_i u hu
        intro b hb
        simp only [List.mem_cons] at hb
        rcases hb with rfl | hb
        · decide
        · exact denote_chars hu b hb
      · cases h
  · split at h
    · rename_i u hu
      exact denote_chars hu
    · cases h

theorem sendPSyncContinue_full (f : Spec.Handoff.Full) (hf : f.wf = true) (inRunid : Bytes) (inOffset : Int) :
    sendPSyncContinue inRunid inOffset f.stream = .full f.id f.offset f.bulk.stream := by
  unfold Spec.Handoff.Full.wf at hf
  simp only [Bool.and_eq_true] at hf
  obtain ⟨⟨⟨hword, hid⟩, hoff⟩, _⟩ := hf
  have hw : lower f.word = kwFullresync := by
    rw [← kwFullresync_eq]; exact sameWord_iff.mp hword
  obtain ⟨hsp, hlf, hasc⟩ := word_props kwFullresync_lower hw
  -- the announced offset
  obtain ⟨v, hv, hv64⟩ : ∃ v, Spec.Handoff.denoteInt f.offTxt = some v ∧ Spec.Handoff.int64 v = true := by
    cases h : Spec.Handoff.denoteInt f.offTxt with
    | none => rw [h] at hoff; cases hoff
    | some v => rw [h] at hoff; exact ⟨v, rfl, hoff⟩
  have hpi := parseInt_of_denoteInt hv hv64
  have hoffset : f.offset = v := by simp [Spec.Handoff.Full.offset, hv]
  have hoc := denoteInt_chars hv
  have hidc : ∀ b ∈ f.id, b ≠ SP ∧ b ≠ LF := by
    intro b hb
    have := List.all_eq_true.mp hid b hb
    simp only [Bool.and_eq_true, bne_iff_ne, ne_eq] at this
    exact ⟨this.1, this.2⟩
  have hplus : PLUS ≠ LF := by decide
  unfold sendPSyncContinue Spec.Handoff.Full.stream
  have e : Spec.Handoff.newlines f.j ++ [43] ++ f.word ++ [32] ++ f.id ++ [32] ++ f.offTxt ++ Spec.Handoff.crlf ++ f.bulk.stream
      = Spec.Handoff.newlines f.j ++ PLUS :: ((f.word ++ SP :: (f.id ++ SP :: f.offTxt)) ++ CR :: LF :: f.bulk.stream) := by
    simp [Spec.Handoff.crlf, PLUS, CR, LF, SP]
  rw [e, skipLF_newlines _ _ _ hplus]
  simp only [true_or, if_true]
  have htext : ∀ b ∈ f.word ++ SP :: (f.id ++ SP :: f.offTxt), b ≠ LF := by
    intro b hb
    simp only [List.mem_append, List.mem_cons] at hb
    rcases hb with hb | rfl | hb | rfl | hb
    · exact hlf b hb
    · decide
    · exact (hidc b hb).2
    · decide
    · exact (hoc b hb).1
  rw [readLine_text _ _ htext]
  simp only [List.getLast?_append, List.getLast?_singleton, Option.some_or, ne_eq, not_true_eq_false, if_false,
    List.dropLast_concat]
  have : PLUS ≠ MINUS := by decide
  simp only [this, if_false]
  unfold interpretStatus
  rw [splitSp_append _ _ hsp, splitSp_append _ _ (fun b hb => (hidc b hb).1), splitSp_word _ (fun b hb => (hoc b hb).2)]
  simp [hasc, hw, hpi, hoffset]

end RSVerif.Lemmas.Handoff
