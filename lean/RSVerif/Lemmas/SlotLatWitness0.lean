import RSVerif.Lemmas.SlotLatWitnessCheck
import RSVerif.Generated.C15LatWitness0
/-
Kernel check of the regenerated latency-key witnesses for slots 0..2047 (8 chunks of 256
rows; one `decide +kernel` per chunk — the quantifier is a finite generated table). One of 8 such
modules, checked in parallel; rebuilt only when the latency key prefix changes.
-/
namespace RSVerif.Lemmas.Slot
open RSVerif

theorem lat_witness_chunk_0 : latChunkOK 0 Generated.C15.latencyWitness0 = true := by decide +kernel
theorem lat_witness_chunk_1 : latChunkOK 256 Generated.C15.latencyWitness1 = true := by decide +kernel
theorem lat_witness_chunk_2 : latChunkOK 512 Generated.C15.latencyWitness2 = true := by decide +kernel
theorem lat_witness_chunk_3 : latChunkOK 768 Generated.C15.latencyWitness3 = true := by decide +kernel
theorem lat_witness_chunk_4 : latChunkOK 1024 Generated.C15.latencyWitness4 = true := by decide +kernel
theorem lat_witness_chunk_5 : latChunkOK 1280 Generated.C15.latencyWitness5 = true := by decide +kernel
theorem lat_witness_chunk_6 : latChunkOK 1536 Generated.C15.latencyWitness6 = true := by decide +kernel
theorem lat_witness_chunk_7 : latChunkOK 1792 Generated.C15.latencyWitness7 = true := by decide +kernel

theorem lat_witness_module_0 : ∀ s, 0 ≤ s → s < 2048 → ∃ i, latRowOK i s = true := by
  intro s h1 h2
  rcases Nat.lt_or_ge s 256 with h | h1
  · exact lat_chunk_covers 0 _ lat_witness_chunk_0 s h1 (by omega)
  rcases Nat.lt_or_ge s 512 with h | h1
  · exact lat_chunk_covers 256 _ lat_witness_chunk_1 s h1 (by omega)
  rcases Nat.lt_or_ge s 768 with h | h1
  · exact lat_chunk_covers 512 _ lat_witness_chunk_2 s h1 (by omega)
  rcases Nat.lt_or_ge s 1024 with h | h1
  · exact lat_chunk_covers 768 _ lat_witness_chunk_3 s h1 (by omega)
  rcases Nat.lt_or_ge s 1280 with h | h1
  · exact lat_chunk_covers 1024 _ lat_witness_chunk_4 s h1 (by omega)
  rcases Nat.lt_or_ge s 1536 with h | h1
  · exact lat_chunk_covers 1280 _ lat_witness_chunk_5 s h1 (by omega)
  rcases Nat.lt_or_ge s 1792 with h | h1
  · exact lat_chunk_covers 1536 _ lat_witness_chunk_6 s h1 (by omega)
  exact lat_chunk_covers 1792 _ lat_witness_chunk_7 s h1 (by omega)

end RSVerif.Lemmas.Slot
