import RSVerif.Spec.Slot
import RSVerif.Generated.C15Search
/-
The Boolean check the kernel runs on every generated witness chunk (Generated/C15Witness*.lean),
and what a successful chunk check means. Deliberately imports only the specification and the facts
the witness table depends on (prefix, separator, alphabet, suffix length), so that the 8 witness
modules are rebuilt only when one of those changes. Core Lean only.
-/
namespace RSVerif.Lemmas.Slot
open RSVerif RSVerif.Spec.Slot

/-- a row is the suffix read as a big-endian base-256 number of `n` digits -/
def rowBytes : Nat → Nat → Bytes
  | 0, _ => []
  | n + 1, x => rowBytes n (x / 256) ++ [UInt8.ofNat (x % 256)]

/-- row check: the suffix (of the coded length by construction) consists of letters of the coded
    alphabet, and the bitwise CRC16 continued from the state after the checkpoint prefix lands in `slot` -/
def rowOK (x : Nat) (slot : Nat) : Bool :=
  let w := rowBytes Generated.C15.suffixLen x
  w.all (fun c => decide (Generated.C15.suffixLo ≤ c) && decide (c ≤ Generated.C15.suffixHi)) &&
  (update Generated.C15.checkpointPrefixState w).toNat % slots == slot

/-- chunk check: 256 rows, row `i` is a witness for slot `base + i` -/
def chunkOK (base : Nat) (ws : List Nat) : Bool :=
  ws.length == 256 && (ws.zipIdx base).all fun p => rowOK p.1 p.2

theorem chunk_covers (base : Nat) (ws : List Nat) (h : chunkOK base ws = true) :
    ∀ s, base ≤ s → s < base + 256 → ∃ x, rowOK x s = true := by
  intro s h1 h2
  simp only [chunkOK, Bool.and_eq_true, beq_iff_eq, List.all_eq_true] at h
  obtain ⟨hl, hall⟩ := h
  have hi : s - base < ws.length := by omega
  refine ⟨ws[s - base], ?_⟩
  have := hall (ws[s - base], s) (List.mem_zipIdx_iff_le_and_getElem?_sub.2 ⟨h1, by simp [hi]⟩)
  simpa using this

theorem rowBytes_length : ∀ n x, (rowBytes n x).length = n := by
  intro n
  induction n with
  | zero => intro x; rfl
  | succ n ih => intro x; simp [rowBytes, ih]

end RSVerif.Lemmas.Slot
