import RSVerif.Lemmas.SlotLatWitnessCheck
import RSVerif.Generated.C15LatWitness4
/-
Kernel check of the regenerated latency-key witnesses for slots 8192..10239 (8 chunks of 256
rows; one `decide +kernel` per chunk — the quantifier is a finite generated table). One of 8 such
modules, checked in parallel; rebuilt only when the latency key prefix changes.
-/
namespace RSVerif.Lemmas.Slot
open RSVerif

theorem lat_witness_chunk_32 : latChunkOK 8192 Generated.C15.latencyWitness32 = true := by decide +kernel
theorem lat_witness_chunk_33 : latChunkOK 8448 Generated.C15.latencyWitness33 = true := by decide +kernel
theorem lat_witness_chunk_34 : latChunkOK 8704 Generated.C15.latencyWitness34 = true := by decide +kernel
theorem lat_witness_chunk_35 : latChunkOK 8960 Generated.C15.latencyWitness35 = true := by decide +kernel
theorem lat_witness_chunk_36 : latChunkOK 9216 Generated.C15.latencyWitness36 = true := by decide +kernel
theorem lat_witness_chunk_37 : latChunkOK 9472 Generated.C15.latencyWitness37 = true := by decide +kernel
theorem lat_witness_chunk_38 : latChunkOK 9728 Generated.C15.latencyWitness38 = true := by decide +kernel
theorem lat_witness_chunk_39 : latChunkOK 9984 Generated.C15.latencyWitness39 = true := by decide +kernel

theorem lat_witness_module_4 : ∀ s, 8192 ≤ s → s < 10240 → ∃ i, latRowOK i s = true := by
  intro s h1 h2
  rcases Nat.lt_or_ge s 8448 with h | h1
  · exact lat_chunk_covers 8192 _ lat_witness_chunk_32 s h1 (by omega)
  rcases Nat.lt_or_ge s 8704 with h | h1
  · exact lat_chunk_covers 8448 _ lat_witness_chunk_33 s h1 (by omega)
  rcases Nat.lt_or_ge s 8960 with h | h1
  · exact lat_chunk_covers 8704 _ lat_witness_chunk_34 s h1 (by omega)
  rcases Nat.lt_or_ge s 9216 with h | h1
  · exact lat_chunk_covers 8960 _ lat_witness_chunk_35 s h1 (by omega)
  rcases Nat.lt_or_ge s 9472 with h | h1
  · exact lat_chunk_covers 9216 _ lat_witness_chunk_36 s h1 (by omega)
  rcases Nat.lt_or_ge s 9728 with h | h1
  · exact lat_chunk_covers 9472 _ lat_witness_chunk_37 s h1 (by omega)
  rcases Nat.lt_or_ge s 9984 with h | h1
  · exact lat_chunk_covers 9728 _ lat_witness_chunk_38 s h1 (by omega)
  exact lat_chunk_covers 9984 _ lat_witness_chunk_39 s h1 (by omega)

end RSVerif.Lemmas.Slot
