import RSVerif.Lemmas.SlotLatWitnessCheck
import RSVerif.Generated.C15LatWitness5
/-
Kernel check of the regenerated latency-key witnesses for slots 10240..12287 (8 chunks of 256
rows; one `decide +kernel` per chunk — the quantifier is a finite generated table). One of 8 such
modules, checked in parallel; rebuilt only when the latency key prefix changes.
-/
namespace RSVerif.Lemmas.Slot
open RSVerif

theorem lat_witness_chunk_40 : latChunkOK 10240 Generated.C15.latencyWitness40 = true := by decide +kernel
theorem lat_witness_chunk_41 : latChunkOK 10496 Generated.C15.latencyWitness41 = true := by decide +kernel
theorem lat_witness_chunk_42 : latChunkOK 10752 Generated.C15.latencyWitness42 = true := by decide +kernel
theorem lat_witness_chunk_43 : latChunkOK 11008 Generated.C15.latencyWitness43 = true := by decide +kernel
theorem lat_witness_chunk_44 : latChunkOK 11264 Generated.C15.latencyWitness44 = true := by decide +kernel
theorem lat_witness_chunk_45 : latChunkOK 11520 Generated.C15.latencyWitness45 = true := by decide +kernel
theorem lat_witness_chunk_46 : latChunkOK 11776 Generated.C15.latencyWitness46 = true := by decide +kernel
theorem lat_witness_chunk_47 : latChunkOK 12032 Generated.C15.latencyWitness47 = true := by decide +kernel

theorem lat_witness_module_5 : ∀ s, 10240 ≤ s → s < 12288 → ∃ i, latRowOK i s = true := by
  intro s h1 h2
  rcases Nat.lt_or_ge s 10496 with h | h1
  · exact lat_chunk_covers 10240 _ lat_witness_chunk_40 s h1 (by omega)
  rcases Nat.lt_or_ge s 10752 with h | h1
  · exact lat_chunk_covers 10496 _ lat_witness_chunk_41 s h1 (by omega)
  rcases Nat.lt_or_ge s 11008 with h | h1
  · exact lat_chunk_covers 10752 _ lat_witness_chunk_42 s h1 (by omega)
  rcases Nat.lt_or_ge s 11264 with h | h1
  · exact lat_chunk_covers 11008 _ lat_witness_chunk_43 s h1 (by omega)
  rcases Nat.lt_or_ge s 11520 with h | h1
  · exact lat_chunk_covers 11264 _ lat_witness_chunk_44 s h1 (by omega)
  rcases Nat.lt_or_ge s 11776 with h | h1
  · exact lat_chunk_covers 11520 _ lat_witness_chunk_45 s h1 (by omega)
  rcases Nat.lt_or_ge s 12032 with h | h1
  · exact lat_chunk_covers 11776 _ lat_witness_chunk_46 s h1 (by omega)
  exact lat_chunk_covers 12032 _ lat_witness_chunk_47 s h1 (by omega)

end RSVerif.Lemmas.Slot
