import RSVerif.Model.IncrParse
import RSVerif.Spec.IncrSync
import RSVerif.Lemmas.SyncBasic
/-
Helper lemmas about the parser model: what one loop iteration does to a SELECT and to any other command.
-/
namespace RSVerif.Lemmas.IncrParse
open RSVerif RSVerif.Sync RSVerif.IncrParse RSVerif.Spec.IncrSync

/-- command names as `redis.ParseArgs` returns them: already lower case -/
def Normalized (cmds : List SrcCmd) : Prop := ∀ c ∈ cmds, normName c.cmd = c.cmd

/-- the key filter leaves SELECT alone (`select` is not a row of `filter.RedisCommands`) -/
def SelectNeutral (cfg : PCfg) : Prop := ∀ args, cfg.keyFilter "select" args = (args, false)

theorem eqFold_select (c : String) (h : normName c = c) : eqFold c "select" = (c == "select") := by
  have e : normName "select" = "select" := by decide
  unfold eqFold; rw [h, e]

theorem eqFold_publish (c : String) (h : normName c = c) : eqFold c "publish" = (c == "publish") := by
  have e : normName "publish" = "publish" := by decide
  unfold eqFold; rw [h, e]

/-- the item a surviving command becomes -/
def itemOf (cfg : PCfg) (base : Int) (st : PState) (c : SrcCmd) : Item :=
  { cmd := c.cmd, args := (cfg.keyFilter c.cmd c.args).1, off := base + c.pos, db := st.lastDb }

theorem some_ite {α : Type} (p : Prop) [Decidable p] (st : PState) (a b : α) :
    (if p then some (st, a) else some (st, b)) = some (st, if p then a else b) := by
  split <;> rfl

/-- one iteration on a command that is not a SELECT -/
theorem pstep_other (cfg : PCfg) (base : Int) (st : PState) (c : SrcCmd)
    (hn : normName c.cmd = c.cmd) (hs : c.cmd ≠ "select") :
    pstep cfg base st c =
      match dropStatus cfg c with
      | none => none
      | some dropped =>
        some (st, if st.bypass || dropped || (cfg.keyFilter c.cmd c.args).2 then [] else [itemOf cfg base st c]) := by
  have hsel : eqFold c.cmd "select" = false := by rw [eqFold_select _ hn]; simpa using hs
  unfold pstep dropStatus isSentinelHello itemOf
  by_cases hp : c.cmd = "ping"
  · simp only [hp, bne_self_eq_false, Bool.false_eq_true, if_false, beq_self_eq_true, if_true,
      Bool.or_false, Bool.false_and]
    exact some_ite _ _ _ _
  · have hp' : (c.cmd != "ping") = true := by simpa using hp
    have hp'' : (c.cmd == "ping") = false := by simpa using hp
    simp only [hp', if_true, hsel, Bool.false_eq_true, if_false, hp'']
    by_cases hf : cfg.filterCmd c.cmd = true
    · simp [hf]
    · simp only [hf, Bool.false_eq_true, if_false]
      by_cases hpub : eqFold c.cmd "publish" = true
      · simp only [hpub, if_true]
        cases hargs : c.args with
        | nil => rfl
        | cons a0 rest =>
          simp only []
          by_cases hh : eqFoldBytes a0 sentinelHello = true
          · simp [hh]
          · simp only [hh, Bool.false_eq_true, if_false]
            by_cases hb : st.bypass = true
            · simp [hb]
            · simp only [hb, Bool.false_eq_true, if_false, Bool.or_false, Bool.false_or, Bool.false_and]
              exact some_ite _ _ _ _
      · simp only [hpub, Bool.false_eq_true, if_false]
        by_cases hb : st.bypass = true
        · simp [hb]
        · simp only [hb, Bool.false_eq_true, if_false, Bool.or_false, Bool.false_or, Bool.false_and]
          exact some_ite _ _ _ _

/-- the loop variables after a SELECT of database `n` -/
def afterSelect (cfg : PCfg) (st : PState) (n : Int) : PState :=
  { lastDb := if cfg.d8fix && cfg.targetDB != -1 then st.lastDb else n, bypass := cfg.filterDB n }

/-- one iteration on a SELECT -/
theorem pstep_select (cfg : PCfg) (base : Int) (st : PState) (c : SrcCmd) (hk : SelectNeutral cfg)
    (hs : c.cmd = "select") :
    pstep cfg base st c =
      match c.args with
      | [a] =>
        match atoi a with
        | none => none
        | some n =>
          let st' := afterSelect cfg st n
          if cfg.filterDB n then some (st', [])
          else if cfg.targetDB != -1 then
            if cfg.targetDB != st'.lastDb then
              some ({ st' with lastDb := cfg.targetDB },
                    [{ cmd := "SELECT", args := [fmtInt cfg.targetDB], off := base + c.pos, db := cfg.targetDB }])
            else some (st', [])
          else some (st', [{ cmd := "select", args := [a], off := base + c.pos, db := st'.lastDb }])
      | _ => none := by
  have e1 : ("select" != "ping") = true := by decide
  have e2 : eqFold "select" "select" = true := by decide
  unfold pstep
  simp only [hs, e1, e2, if_true]
  cases hargs : c.args with
  | nil => rfl
  | cons a rest =>
    cases rest with
    | cons b r => rfl
    | nil =>
      simp only []
      cases hat : atoi a with
      | none => rfl
      | some n =>
        simp only [afterSelect, hk [a]]
        by_cases hf : cfg.filterDB n = true
        · simp [hf]
        · simp [hf]


theorem ploop_cons (cfg : PCfg) (base : Int) (st : PState) (c : SrcCmd) (cs : List SrcCmd) :
    ploop cfg base st (c :: cs) =
      match pstep cfg base st c with
      | none => ([], true)
      | some (st', out) => (out ++ (ploop cfg base st' cs).1, (ploop cfg base st' cs).2) := by
  rw [ploop]
  cases pstep cfg base st c with
  | none => rfl
  | some p => rfl

/-- SELECT items (forwarded `select`, injected `SELECT`, the initial `select`) -/
def isSel (it : Item) : Bool := it.cmd == "select" || it.cmd == "SELECT"

theorem not_upper_select (c : String) (hn : normName c = c) : c ≠ "SELECT" := by
  intro h
  rw [h] at hn
  revert hn
  decide

/-- the non-SELECT items are exactly the survivors, in order, with the key filter's arguments and the tag
`base + pos` -/
theorem ploop_survivors (cfg : PCfg) (base : Int) (hk : SelectNeutral cfg) (cmds : List SrcCmd)
    (hn : Normalized cmds) (st : PState) (hab : (ploop cfg base st cmds).2 = false) :
    ((ploop cfg base st cmds).1.filter (fun it => !isSel it)).map (fun it => (it.cmd, it.args, it.off)) =
      (survivors cfg st.bypass cmds).map (fun c => (c.cmd, (cfg.keyFilter c.cmd c.args).1, base + c.pos)) := by
  induction cmds generalizing st with
  | nil => rfl
  | cons c cs ih =>
    have hnc : normName c.cmd = c.cmd := hn c (by simp)
    have hn' : Normalized cs := fun x hx => hn x (by simp [hx])
    rw [ploop_cons] at hab ⊢
    by_cases hs : c.cmd = "select"
    · rw [pstep_select cfg base st c hk hs] at hab ⊢
      rw [survivors, if_pos hs]
      cases hargs : c.args with
      | nil => simp [hargs] at hab
      | cons a rest =>
        cases rest with
        | cons b r => simp [hargs] at hab
        | nil =>
          simp only [hargs] at hab ⊢
          cases hat : atoi a with
          | none => simp [hat] at hab
          | some n =>
            simp only [hat] at hab ⊢
            by_cases hf : cfg.filterDB n = true
            · simp only [hf, if_true] at hab ⊢
              simpa [afterSelect, hf] using ih hn' (afterSelect cfg st n) hab
            · simp only [hf, Bool.false_eq_true, if_false] at hab ⊢
              have hf' : cfg.filterDB n = false := by simpa using hf
              by_cases ht : (cfg.targetDB != -1) = true
              · simp only [ht, if_true] at hab ⊢
                by_cases hl : (cfg.targetDB != (afterSelect cfg st n).lastDb) = true
                · simp only [hl, if_true] at hab ⊢
                  have := ih hn' { afterSelect cfg st n with lastDb := cfg.targetDB } hab
                  simpa [afterSelect, hf', isSel] using this
                · simp only [hl, Bool.false_eq_true, if_false] at hab ⊢
                  simpa [afterSelect, hf'] using ih hn' (afterSelect cfg st n) hab
              · simp only [ht, Bool.false_eq_true, if_false] at hab ⊢
                have := ih hn' (afterSelect cfg st n) hab
                simpa [afterSelect, hf', isSel] using this
    · rw [pstep_other cfg base st c hnc hs] at hab ⊢
      rw [survivors, if_neg hs]
      cases hd : dropStatus cfg c with
      | none => simp [hd] at hab
      | some dropped =>
        simp only [hd] at hab ⊢
        have hrest := ih hn' st hab
        have hns : isSel (itemOf cfg base st c) = false := by
          simp [isSel, itemOf, hs, not_upper_select c.cmd hnc]
        by_cases hcond : (st.bypass || dropped || (cfg.keyFilter c.cmd c.args).2) = true
        · have hcond2 : (!st.bypass && !dropped && !(cfg.keyFilter c.cmd c.args).2) = false := by
            cases hb : st.bypass <;> cases hdd : dropped <;> cases hkk : (cfg.keyFilter c.cmd c.args).2 <;>
              simp_all
          simp only [hcond, if_true, hcond2, Bool.false_eq_true, if_false, List.nil_append]
          exact hrest
        · have hcond2 : (!st.bypass && !dropped && !(cfg.keyFilter c.cmd c.args).2) = true := by
            cases hb : st.bypass <;> cases hdd : dropped <;> cases hkk : (cfg.keyFilter c.cmd c.args).2 <;>
              simp_all
          simp only [hcond, Bool.false_eq_true, if_false, hcond2, if_true, List.cons_append, List.nil_append,
            List.filter_cons, hns, Bool.not_false, List.map_cons]
          rw [hrest]
          rfl

end RSVerif.Lemmas.IncrParse
