import RSVerif.Lemmas.SlotWitnessCheck
import RSVerif.Generated.C15Witness1
/-
Kernel check of the regenerated witness candidates for slots 2048..4095 (8 chunks of 256 rows;
one `decide +kernel` per chunk — the quantifier is a finite generated table). One of 8 such modules,
so that lake checks them in parallel; rebuilt only when a CRC16-relevant fact of the source changes.
-/
namespace RSVerif.Lemmas.Slot
open RSVerif

theorem witness_chunk_8 : chunkOK 2048 Generated.C15.slotWitness8 = true := by decide +kernel
theorem witness_chunk_9 : chunkOK 2304 Generated.C15.slotWitness9 = true := by decide +kernel
theorem witness_chunk_10 : chunkOK 2560 Generated.C15.slotWitness10 = true := by decide +kernel
theorem witness_chunk_11 : chunkOK 2816 Generated.C15.slotWitness11 = true := by decide +kernel
theorem witness_chunk_12 : chunkOK 3072 Generated.C15.slotWitness12 = true := by decide +kernel
theorem witness_chunk_13 : chunkOK 3328 Generated.C15.slotWitness13 = true := by decide +kernel
theorem witness_chunk_14 : chunkOK 3584 Generated.C15.slotWitness14 = true := by decide +kernel
theorem witness_chunk_15 : chunkOK 3840 Generated.C15.slotWitness15 = true := by decide +kernel

theorem witness_module_1 : ∀ s, 2048 ≤ s → s < 4096 → ∃ x, rowOK x s = true := by
  intro s h1 h2
  rcases Nat.lt_or_ge s 2304 with h | h1
  · exact chunk_covers 2048 _ witness_chunk_8 s h1 (by omega)
  rcases Nat.lt_or_ge s 2560 with h | h1
  · exact chunk_covers 2304 _ witness_chunk_9 s h1 (by omega)
  rcases Nat.lt_or_ge s 2816 with h | h1
  · exact chunk_covers 2560 _ witness_chunk_10 s h1 (by omega)
  rcases Nat.lt_or_ge s 3072 with h | h1
  · exact chunk_covers 2816 _ witness_chunk_11 s h1 (by omega)
  rcases Nat.lt_or_ge s 3328 with h | h1
  · exact chunk_covers 3072 _ witness_chunk_12 s h1 (by omega)
  rcases Nat.lt_or_ge s 3584 with h | h1
  · exact chunk_covers 3328 _ witness_chunk_13 s h1 (by omega)
  rcases Nat.lt_or_ge s 3840 with h | h1
  · exact chunk_covers 3584 _ witness_chunk_14 s h1 (by omega)
  exact chunk_covers 3840 _ witness_chunk_15 s h1 (by omega)

end RSVerif.Lemmas.Slot
