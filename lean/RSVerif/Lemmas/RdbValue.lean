import RSVerif.Lemmas.RdbLzf
/-
Reader lemmas for C01, part 3: every non-hash value is skipped exactly (`Consumes` combinators).
-/
set_option linter.unusedSimpArgs false
namespace RSVerif.Lemmas.Rdb
open RSVerif RSVerif.Rdb RSVerif.Spec.Rdb

/-- a unit reader `f` *consumes exactly* `a`: on `a ++ r` it succeeds and leaves `r`, for every `r` -/
def Consumes (f : R Unit) (a : Bytes) : Prop := ∀ r, f (a ++ r) = .ok ((), r)

theorem Consumes.andThen {f g : R Unit} {a b : Bytes} (hf : Consumes f a) (hg : Consumes g b) :
    Consumes (andThen f g) (a ++ b) := by
  intro r
  simp [Rdb.andThen, List.append_assoc, hf (b ++ r), hg r]

theorem consumes_nil_repeat (f : R Unit) : Consumes (repeatR f 0) [] := by
  intro r; rfl

theorem Consumes.repeat {α : Type} {f : R Unit} (serX : α → Bytes) (xs : List α)
    (h : ∀ x ∈ xs, Consumes f (serX x)) : Consumes (repeatR f xs.length) (xs.map serX).flatten := by
  induction xs with
  | nil => intro r; rfl
  | cons x xs ih =>
    intro r
    simp only [List.length_cons, List.map_cons, List.flatten_cons, repeatR, List.append_assoc]
    rw [h x (by simp)]
    exact ih (fun y hy => h y (by simp [hy])) r

theorem Consumes.counted {α : Type} {f : R Unit} (serX : α → Bytes) (n : LenForm) (xs : List α)
    (hn : cntOk n xs.length) (h : ∀ x ∈ xs, Consumes f (serX x)) :
    Consumes (counted f) (encLen ⟨xs.length, n⟩ ++ (xs.map serX).flatten) := by
  intro r
  simp only [Rdb.counted, List.append_assoc]
  rw [readLength_enc _ hn.2, readOf_not64 _ hn.1]
  exact Consumes.repeat serX xs h r

theorem consumes_skipString (s : RStr) (h : strOk s) : Consumes skipString (serStr s) :=
  fun r => skipString_ser s r h

theorem consumes_skipLength (e : ELen) (h : e.fits) : Consumes skipLength (encLen e) :=
  fun r => skipLength_enc e h r

theorem consumes_skipN (b : Bytes) (n : Nat) (h : b.length = n) : Consumes (skipN n) b := by
  intro r; simp [skipN, readN_append' n b r h]

theorem consumes_readDouble (b : Bytes) (h : b.length = 8) : Consumes readDouble b := by
  intro r; simp [readDouble, readN_append' 8 b r h]

theorem consumes_readFloat (pf : Bytes → Bool) (s : Score) (h : scoreOk pf s) :
    Consumes (readFloat pf) (serScore s) := by
  intro r
  cases s with
  | text bs =>
    obtain ⟨h1, h2⟩ := h
    have hb : (UInt8.ofNat bs.length).toNat = bs.length := ofNat_toNat _ (by omega)
    have : ¬ bs.length ≥ 253 := by omega
    simp [serScore, readFloat, hb, this, readN_append, h2]
  | nan => simp [serScore, readFloat]
  | pinf => simp [serScore, readFloat]
  | ninf => simp [serScore, readFloat]

theorem consumes_pair (p : RStr × RStr) (h : strOk p.1 ∧ strOk p.2) :
    Consumes (Rdb.andThen skipString skipString) (serPair p) :=
  (consumes_skipString _ h.1).andThen (consumes_skipString _ h.2)

theorem consumes_pel (p : Pel) (h : pelOk p) :
    Consumes (Rdb.andThen (skipN 16) (Rdb.andThen (skipN 8) skipLength)) (serPel p) := by
  have := (consumes_skipN p.id 16 h.1).andThen ((consumes_skipN p.seen 8 h.2.1).andThen (consumes_skipLength p.count h.2.2))
  simpa [serPel, List.append_assoc] using this

theorem consumes_consumer (c : Consumer) (h : consumerOk c) :
    Consumes (Rdb.andThen skipString (Rdb.andThen (skipN 8) (Rdb.counted (skipN 16)))) (serConsumer c) := by
  obtain ⟨h1, h2, h3, h4⟩ := h
  have hc : Consumes (Rdb.counted (skipN 16)) (encLen ⟨c.pel.length, c.npel⟩ ++ (c.pel.map id).flatten) :=
    Consumes.counted id c.npel c.pel h3 (fun x hx => consumes_skipN x 16 (h4 x hx))
  have := (consumes_skipString c.name h1).andThen ((consumes_skipN c.seen 8 h2).andThen hc)
  simpa [serConsumer, List.append_assoc] using this

theorem consumes_group (g : CGroup) (h : groupOk g) :
    Consumes (Rdb.andThen skipString <| Rdb.andThen skipLength <| Rdb.andThen skipLength <|
      Rdb.andThen (Rdb.counted (Rdb.andThen (skipN 16) <| Rdb.andThen (skipN 8) skipLength)) <|
      Rdb.counted (Rdb.andThen skipString <| Rdb.andThen (skipN 8) <| Rdb.counted (skipN 16))) (serGroup g) := by
  obtain ⟨h1, h2, h3, h4, h5, h6, h7⟩ := h
  have hp := Consumes.counted serPel g.npel g.pel h4 (fun x hx => consumes_pel x (h5 x hx))
  have hc := Consumes.counted serConsumer g.ncons g.consumers h6 (fun x hx => consumes_consumer x (h7 x hx))
  have := (consumes_skipString g.name h1).andThen ((consumes_skipLength _ h2).andThen
    ((consumes_skipLength _ h3).andThen (hp.andThen hc)))
  simpa [serGroup, List.append_assoc] using this

theorem consumes_stream (nlp : LenForm) (lps : List (RStr × RStr)) (items lastMs lastSeq : ELen)
    (ng : LenForm) (groups : List CGroup) (pf : Bytes → Bool)
    (h : valueOk pf (.stream nlp lps items lastMs lastSeq ng groups)) :
    Consumes skipStream (serValue (.stream nlp lps items lastMs lastSeq ng groups)) := by
  obtain ⟨h1, h2, h3, h4, h5, h6, h7⟩ := h
  have hl := Consumes.counted serPair nlp lps h1 (fun x hx => consumes_pair x (h2 x hx))
  have hg := Consumes.counted serGroup ng groups h6 (fun x hx => consumes_group x (h7 x hx))
  have := hl.andThen ((consumes_skipLength _ h3).andThen ((consumes_skipLength _ h4).andThen
    ((consumes_skipLength _ h5).andThen hg)))
  simpa [serValue, serPairs, skipStream, List.append_assoc] using this

/-- every non-hash value is skipped exactly, and the chunk state is reset -/
theorem readObjectValue_plain (pf : Bytes → Bool) (L : Nat) (v : Value) (cs : ChunkSt) (rest : Bytes)
    (hv : valueOk pf v) (hnh : v.type ≠ 4) :
    readObjectValue pf L v.type cs (serValue v ++ rest) = .ok ({}, rest) := by
  cases v with
  | str t s =>
    obtain ⟨ht, hs⟩ := hv
    have := consumes_skipString s hs rest
    rcases ht with rfl | rfl | rfl | rfl | rfl | rfl <;>
      simp [Value.type, readObjectValue, serValue, this]
  | seq t n xs =>
    obtain ⟨ht, hn, hx⟩ := hv
    have := Consumes.counted serStr n xs hn (fun x h => consumes_skipString x (hx x h)) rest
    simp only [List.append_assoc] at this
    rcases ht with rfl | rfl | rfl <;>
      simp [Value.type, readObjectValue, serValue, serStrs, this]
  | zset n xs =>
    obtain ⟨hn, hx⟩ := hv
    have := Consumes.counted (fun p : RStr × Score => serStr p.1 ++ serScore p.2) n xs hn
      (fun x h => (consumes_skipString x.1 (hx x h).1).andThen (consumes_readFloat pf x.2 (hx x h).2)) rest
    simp only [List.append_assoc] at this
    simp [Value.type, readObjectValue, serValue, this]
  | zset2 n xs =>
    obtain ⟨hn, hx⟩ := hv
    have := Consumes.counted (fun p : RStr × Bytes => serStr p.1 ++ p.2) n xs hn
      (fun x h => (consumes_skipString x.1 (hx x h).1).andThen (consumes_readDouble x.2 (hx x h).2)) rest
    simp only [List.append_assoc] at this
    simp [Value.type, readObjectValue, serValue, this]
  | hash n fvs => simp [Value.type] at hnh
  | stream nlp lps items lastMs lastSeq ng groups =>
    have := consumes_stream nlp lps items lastMs lastSeq ng groups pf hv rest
    simp [Value.type, readObjectValue, this]

end RSVerif.Lemmas.Rdb
