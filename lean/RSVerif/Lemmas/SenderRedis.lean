import RSVerif.Lemmas.Sender
import RSVerif.Lemmas.MiniRedis
/-
The sender's wire replayed into MiniRedis: group-by-group semantics, cuts, the checkpoint entries.
-/
namespace RSVerif.Lemmas.SenderRedis
open RSVerif RSVerif.Sync RSVerif.Sender RSVerif.Spec.IncrSync RSVerif.Spec.MiniRedis
open RSVerif.Lemmas.Sender RSVerif.Lemmas.MiniRedis

/-- the command a forwarded item puts on the wire -/
def cmdOf (it : Item) : Cmd := (it.cmd, it.args)

/-- the target reads the item as SELECT, PING or a data command (not as MULTI/EXEC/checkpoint HSET) -/
def plainItem (ck : Bytes) (it : Item) : Bool :=
  match classify ck (cmdOf it) with
  | .select _ | .noop | .data => true
  | _ => false

variable {D : Type} (apply : Int → Cmd → D → D) (rc : RenderCfg)

def hsetCmd (field val : Bytes) : Cmd := ("hset", [rc.ckName, field, val])

/-- the checkpoint commands of a group, in program order -/
def ckptCmds (g : Group) : List Cmd :=
  if g.batched then
    (if g.runId then [hsetCmd rc (runIdField rc) rc.runId,
                      hsetCmd rc (versionField rc) (fmtInt Generated.SyncConsts.fcvCheckpointCurrent)] else [])
      ++ [hsetCmd rc (offsetField rc) (fmtInt (lastOff g.items))]
  else []

/-- everything a group executes on the target -/
def groupBody (g : Group) : List Cmd := g.items.map cmdOf ++ ckptCmds rc g

theorem renderWire_append (a b : List Wire) : renderWire rc (a ++ b) = renderWire rc a ++ renderWire rc b := by
  simp [renderWire, List.filterMap_append]

theorem renderWire_fwd (l : List Item) : renderWire rc (l.map Wire.fwd) = l.map cmdOf := by
  induction l with
  | nil => rfl
  | cons a l ih => simp_all [renderWire, Wire.render, cmdOf]

theorem renderWire_cons (w : Wire) (ws : List Wire) :
    renderWire rc (w :: ws) = (Wire.render rc w).toList ++ renderWire rc ws := by
  simp only [renderWire, List.filterMap_cons]
  cases Wire.render rc w <;> rfl

theorem render_group (g : Group) :
    renderWire rc g.wire =
      if g.batched then ("multi", []) :: groupBody rc g ++ [("exec", [])] else g.items.map cmdOf := by
  have e0 : renderWire rc [] = [] := rfl
  unfold Group.wire groupBody ckptCmds
  cases hb : g.batched <;> cases hr : g.runId <;>
    simp [renderWire_append, renderWire_fwd, renderWire_cons, e0, Wire.render, hsetCmd]

theorem classify_hset (f v : Bytes) : classify rc.ckName (hsetCmd rc f v) = .ckpt f v := by
  have h : normName "hset" = "hset" := by decide
  simp [classify, hsetCmd, h]

theorem ckptCmds_notTx (g : Group) : ∀ c ∈ ckptCmds rc g, notTx rc.ckName c := by
  intro c hc
  unfold ckptCmds at hc
  have key : ∀ f v, notTx rc.ckName (hsetCmd rc f v) := by
    intro f v; simp [notTx, classify_hset]
  cases hb : g.batched <;> cases hr : g.runId <;> simp [hb, hr] at hc
  · subst hc; exact key _ _
  · rcases hc with h | h | h <;> subst h <;> exact key _ _

theorem plainItem_notTx (ck : Bytes) (it : Item) (h : plainItem ck it = true) : notTx ck (cmdOf it) := by
  unfold plainItem at h
  unfold notTx
  split at h <;> simp_all

theorem groupBody_notTx (g : Group) (h : ∀ it ∈ g.items, plainItem rc.ckName it = true) :
    ∀ c ∈ groupBody rc g, notTx rc.ckName c := by
  intro c hc
  rcases List.mem_append.mp hc with h1 | h1
  · obtain ⟨it, hit, rfl⟩ := List.mem_map.mp h1
    exact plainItem_notTx _ _ (h it hit)
  · exact ckptCmds_notTx rc g c h1

/-- a complete group executes as its body, in place -/
theorem replay_group (s : St D) (g : Group) (hq : s.q = none)
    (h : ∀ it ∈ g.items, plainItem rc.ckName it = true) :
    replay rc.ckName apply s (renderWire rc g.wire) = plain rc.ckName apply s (groupBody rc g) := by
  rw [render_group]
  cases hb : g.batched
  · simp only [Bool.false_eq_true, if_false]
    have : groupBody rc g = g.items.map cmdOf := by simp [groupBody, ckptCmds, hb]
    rw [this]
    exact replay_plain _ _ _ _ hq (fun c hc => by
      obtain ⟨it, hit, rfl⟩ := List.mem_map.mp hc
      exact plainItem_notTx _ _ (h it hit))
  · simp only [if_true]
    exact replay_block _ _ _ _ hq (groupBody_notTx rc g h)

theorem replay_groups (s : St D) (gs : List Group) (hq : s.q = none)
    (h : ∀ it ∈ gItems gs, plainItem rc.ckName it = true) :
    replay rc.ckName apply s (renderWire rc (wireOf gs)) = plain rc.ckName apply s (gs.flatMap (groupBody rc)) := by
  induction gs generalizing s with
  | nil => rfl
  | cons g gs ih =>
    simp only [wireOf, List.flatMap_cons, renderWire_append, replay_append, plain_append] at *
    have hg : ∀ it ∈ g.items, plainItem rc.ckName it = true := fun it hit => h it (by simp [gItems, hit])
    rw [replay_group apply rc s g hq hg]
    exact ih _ (by rw [plain_q]; exact hq) (fun it hit => h it (by
      simp only [gItems, List.flatMap_cons, List.mem_append] at *; exact Or.inr hit))


/-! ### cutting the wire -/

theorem take_flatten_cases {α : Type} (L : List (List α)) (p : Nat) :
    (L.flatten.take p = L.flatten) ∨
    ∃ L1 x L2 j, L = L1 ++ x :: L2 ∧ j < x.length ∧ L.flatten.take p = L1.flatten ++ x.take j := by
  induction L generalizing p with
  | nil => left; simp
  | cons x L ih =>
    by_cases hp : p < x.length
    · right
      refine ⟨[], x, L, p, rfl, hp, ?_⟩
      simp [List.take_append_of_le_length (Nat.le_of_lt hp)]
    · have hp' : x.length ≤ p := Nat.le_of_not_lt hp
      rcases ih (p - x.length) with h | ⟨L1, y, L2, j, hL, hj, h⟩
      · left
        simp only [List.flatten_cons, List.take_append, h]
        rw [List.take_of_length_le hp']
      · right
        refine ⟨x :: L1, y, L2, j, by simp [hL], hj, ?_⟩
        simp only [List.flatten_cons, List.take_append, h]
        rw [List.take_of_length_le hp', List.append_assoc]

theorem renderWire_wireOf (gs : List Group) :
    renderWire rc (wireOf gs) = (gs.map (fun g => renderWire rc g.wire)).flatten := by
  induction gs with
  | nil => rfl
  | cons g gs ih =>
    simp only [wireOf, List.flatMap_cons, renderWire_append, List.map_cons, List.flatten_cons] at *
    rw [ih]

theorem drop_of_q_none (s : St D) (h : s.q = none) : drop s = s := by
  cases s; simp_all [drop]

/-- a group that is not wrapped in MULTI/EXEC carries at most one command (resume mode: a lone ping) -/
def SmallPlain (g : Group) : Prop := g.batched = false → g.items.length ≤ 1

/-- **cut**: whatever prefix of the command sequence reached the target before the connection was lost,
the target is in the state reached after a whole number of groups -/
theorem cut_groups (s0 : St D) (hq : s0.q = none) (gs : List Group)
    (hpl : ∀ it ∈ gItems gs, plainItem rc.ckName it = true) (hsm : ∀ g ∈ gs, SmallPlain g) (p : Nat) :
    ∃ k, k ≤ gs.length ∧
      drop (replay rc.ckName apply s0 ((renderWire rc (wireOf gs)).take p)) =
        plain rc.ckName apply s0 ((gs.take k).flatMap (groupBody rc)) := by
  rw [renderWire_wireOf]
  rcases take_flatten_cases (gs.map (fun g => renderWire rc g.wire)) p with h | ⟨L1, x, L2, j, hL, hj, h⟩
  · refine ⟨gs.length, Nat.le_refl _, ?_⟩
    rw [h, ← renderWire_wireOf, replay_groups apply rc s0 gs hq hpl, List.take_length]
    exact drop_of_q_none _ (by rw [plain_q]; exact hq)
  · obtain ⟨g1, gr, hgs, hg1, hgr⟩ := List.map_eq_append_iff.mp hL
    obtain ⟨g, g2, hgr2, hx, _⟩ := List.map_eq_cons_iff.mp hgr
    subst hgr2
    subst hgs
    refine ⟨g1.length, by simp, ?_⟩
    have hpl1 : ∀ it ∈ gItems g1, plainItem rc.ckName it = true := fun it hit => hpl it (by
      simp only [gItems, List.flatMap_append, List.mem_append] at *; exact Or.inl hit)
    have hplg : ∀ it ∈ g.items, plainItem rc.ckName it = true := fun it hit => hpl it (by
      simp only [gItems, List.flatMap_append, List.flatMap_cons, List.mem_append] at *; exact Or.inr (Or.inl hit))
    rw [h, replay_append, ← hg1, ← renderWire_wireOf, replay_groups apply rc s0 g1 hq hpl1]
    have hq1 : (plain rc.ckName apply s0 (g1.flatMap (groupBody rc))).q = none := by rw [plain_q]; exact hq
    simp only [List.take_left']
    generalize plain rc.ckName apply s0 (g1.flatMap (groupBody rc)) = s1 at hq1 ⊢
    subst hx
    rw [render_group] at hj ⊢
    cases hb : g.batched
    · have hlen := hsm g (by simp) hb
      simp only [hb, Bool.false_eq_true, if_false, List.length_map] at hj ⊢
      have : j = 0 := by omega
      subst this
      simpa [replay] using drop_of_q_none s1 hq1
    · simp only [hb, if_true] at hj ⊢
      cases j with
      | zero => simpa [replay] using drop_of_q_none s1 hq1
      | succ n =>
        have hn : n ≤ (groupBody rc g).length := by
          simp only [List.length_cons, List.length_append, List.length_nil] at hj; omega
        exact replay_block_prefix _ _ s1 _ hq1 (groupBody_notTx rc g hplg) n hn


/-! ### dataset and selected database evolve independently of the checkpoint hash -/

def core (s : St D) : D × Int := (s.data, s.db)

def execCore (ck : Bytes) (x : D × Int) (c : Cmd) : D × Int :=
  match classify ck c with
  | .select k => (x.1, k)
  | .data => (apply x.2 c x.1, x.2)
  | _ => x

theorem core_execNow (ck : Bytes) (s : St D) (c : Cmd) :
    core (execNow ck apply s c) = execCore apply ck (core s) c := by
  unfold execNow execCore core
  split <;> simp_all

theorem core_plain (ck : Bytes) (s : St D) (cs : List Cmd) :
    core (plain ck apply s cs) = cs.foldl (execCore apply ck) (core s) := by
  induction cs generalizing s with
  | nil => rfl
  | cons c cs ih =>
    simp only [plain, List.foldl_cons] at *
    rw [ih, core_execNow]

theorem execCore_hset (x : D × Int) (f v : Bytes) : execCore apply rc.ckName x (hsetCmd rc f v) = x := by
  simp [execCore, classify_hset]

theorem core_ckptCmds (x : D × Int) (g : Group) :
    (ckptCmds rc g).foldl (execCore apply rc.ckName) x = x := by
  unfold ckptCmds
  cases g.batched <;> cases g.runId <;> simp [execCore_hset]

theorem core_groupBody (x : D × Int) (g : Group) :
    (groupBody rc g).foldl (execCore apply rc.ckName) x = (g.items.map cmdOf).foldl (execCore apply rc.ckName) x := by
  simp [groupBody, List.foldl_append, core_ckptCmds]

theorem core_groups (x : D × Int) (gs : List Group) :
    (gs.flatMap (groupBody rc)).foldl (execCore apply rc.ckName) x =
      ((gItems gs).map cmdOf).foldl (execCore apply rc.ckName) x := by
  induction gs generalizing x with
  | nil => rfl
  | cons g gs ih =>
    simp only [gItems, List.flatMap_cons, List.foldl_append, List.map_append, core_groupBody] at *
    rw [ih]

/-- forwarded items never touch the checkpoint hash -/
theorem plain_items_ckpt (ck : Bytes) (s : St D) (items : List Item)
    (h : ∀ it ∈ items, plainItem ck it = true) :
    (plain ck apply s (items.map cmdOf)).ckpt = s.ckpt := by
  induction items generalizing s with
  | nil => rfl
  | cons it items ih =>
    simp only [List.map_cons, plain, List.foldl_cons] at *
    rw [ih _ (fun x hx => h x (by simp [hx]))]
    have := h it (by simp)
    unfold plainItem at this
    unfold execNow
    split <;> simp_all

/-- a lone ping does nothing -/
theorem execCore_ping (ck : Bytes) (x : D × Int) (it : Item) (h : it.cmd = "ping") :
    execCore apply ck x (cmdOf it) = x := by
  have e : normName "ping" = "ping" := by decide
  simp [execCore, classify, cmdOf, h, e]

theorem foldl_pings (ck : Bytes) (x : D × Int) (P : List Item) (h : ∀ it ∈ P, it.cmd = "ping") :
    (P.map cmdOf).foldl (execCore apply ck) x = x := by
  induction P with
  | nil => rfl
  | cons it P ih =>
    simp only [List.map_cons, List.foldl_cons]
    rw [execCore_ping apply ck x it (h it (by simp))]
    exact ih (fun y hy => h y (by simp [hy]))

end RSVerif.Lemmas.SenderRedis
