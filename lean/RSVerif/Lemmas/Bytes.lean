import RSVerif.Basic
/-
Endianness round trips for the 64-bit little-endian trailer (core Lean only).
-/
set_option linter.unusedSimpArgs false
namespace RSVerif.Lemmas.Bytes
open RSVerif

theorem tb_piece (n k i : Nat) : ((n >>> k % 256) <<< k % 18446744073709551616).testBit i
    = (decide (i < 64) && (decide (k ≤ i) && (decide (i - k < 8) && n.testBit i))) := by
  rw [show (256:Nat) = 2^8 from rfl, show (18446744073709551616:Nat) = 2^64 from rfl,
    Nat.testBit_mod_two_pow, Nat.testBit_shiftLeft, Nat.testBit_mod_two_pow, Nat.testBit_shiftRight]
  by_cases h : k ≤ i
  · have : k + (i - k) = i := by omega
    simp [h, this]
  · simp [h]

theorem ofLe64_le64 (x : UInt64) : ofLe64 (le64 x) = x := by
  unfold ofLe64 le64
  apply UInt64.eq_of_toBitVec_eq
  ext i hi
  simp [BitVec.getElem_eq_testBit_toNat]
  simp only [tb_piece]
  have h0 : (x.toNat % 256).testBit i = (decide (i < 8) && x.toNat.testBit i) :=
    Nat.testBit_mod_two_pow x.toNat 8 i
  rw [h0]
  cases x.toNat.testBit i
  · simp
  · simp; omega

theorem u8_testBit_ge (a : UInt8) (j : Nat) (h : 8 ≤ j) : a.toNat.testBit j = false := by
  apply Nat.testBit_lt_two_pow
  calc a.toNat < 256 := a.toNat_lt
    _ = 2 ^ 8 := rfl
    _ ≤ 2 ^ j := Nat.pow_le_pow_right (by omega) h

theorem tb_sh (a : UInt8) (k i : Nat) : (a.toNat <<< k % 18446744073709551616).testBit i
    = (decide (i < 64) && (decide (k ≤ i) && a.toNat.testBit (i - k))) := by
  rw [show (18446744073709551616:Nat) = 2^64 from rfl, Nat.testBit_mod_two_pow, Nat.testBit_shiftLeft]

theorem le64_ofLe64 (a b c d e f g h : UInt8) : le64 (ofLe64 [a,b,c,d,e,f,g,h]) = [a,b,c,d,e,f,g,h] := by
  unfold ofLe64 le64
  simp only [List.cons.injEq, and_true]
  refine ⟨?_, ?_, ?_, ?_, ?_, ?_, ?_, ?_⟩
  · apply UInt8.eq_of_toBitVec_eq
    ext i hi
    simp [BitVec.getElem_eq_testBit_toNat]
  · apply UInt8.eq_of_toBitVec_eq
    ext i hi
    simp [BitVec.getElem_eq_testBit_toNat]
    rw [show (256:Nat) = 2^8 from rfl, Nat.testBit_mod_two_pow, Nat.testBit_shiftRight]
    simp only [Nat.testBit_or, tb_sh]
    have ha := u8_testBit_ge a; have hb := u8_testBit_ge b; have hc := u8_testBit_ge c
    have hd := u8_testBit_ge d; have he := u8_testBit_ge e; have hf := u8_testBit_ge f
    have hg := u8_testBit_ge g; have hh := u8_testBit_ge h
    have hcase : i = 0 ∨ i = 1 ∨ i = 2 ∨ i = 3 ∨ i = 4 ∨ i = 5 ∨ i = 6 ∨ i = 7 := by omega
    rcases hcase with rfl | rfl | rfl | rfl | rfl | rfl | rfl | rfl <;> simp [ha, hb, hc, hd, he, hf, hg, hh]
  · apply UInt8.eq_of_toBitVec_eq
    ext i hi
    simp [BitVec.getElem_eq_testBit_toNat]
    rw [show (256:Nat) = 2^8 from rfl, Nat.testBit_mod_two_pow, Nat.testBit_shiftRight]
    simp only [Nat.testBit_or, tb_sh]
    have ha := u8_testBit_ge a; have hb := u8_testBit_ge b; have hc := u8_testBit_ge c
    have hd := u8_testBit_ge d; have he := u8_testBit_ge e; have hf := u8_testBit_ge f
    have hg := u8_testBit_ge g; have hh := u8_testBit_ge h
    have hcase : i = 0 ∨ i = 1 ∨ i = 2 ∨ i = 3 ∨ i = 4 ∨ i = 5 ∨ i = 6 ∨ i = 7 := by omega
    rcases hcase with rfl | rfl | rfl | rfl | rfl | rfl | rfl | rfl <;> simp [ha, hb, hc, hd, he, hf, hg, hh]
  · apply UInt8.eq_of_toBitVec_eq
    ext i hi
    simp [BitVec.getElem_eq_testBit_toNat]
    rw [show (256:Nat) = 2^8 from rfl, Nat.testBit_mod_two_pow, Nat.testBit_shiftRight]
    simp only [Nat.testBit_or, tb_sh]
    have ha := u8_testBit_ge a; have hb := u8_testBit_ge b; have hc := u8_testBit_ge c
    have hd := u8_testBit_ge d; have he := u8_testBit_ge e; have hf := u8_testBit_ge f
    have hg := u8_testBit_ge g; have hh := u8_testBit_ge h
    have hcase : i = 0 ∨ i = 1 ∨ i = 2 ∨ i = 3 ∨ i = 4 ∨ i = 5 ∨ i = 6 ∨ i = 7 := by omega
    rcases hcase with rfl | rfl | rfl | rfl | rfl | rfl | rfl | rfl <;> simp [ha, hb, hc, hd, he, hf, hg, hh]
  · apply UInt8.eq_of_toBitVec_eq
    ext i hi
    simp [BitVec.getElem_eq_testBit_toNat]
    rw [show (256:Nat) = 2^8 from rfl, Nat.testBit_mod_two_pow, Nat.testBit_shiftRight]
    simp only [Nat.testBit_or, tb_sh]
    have ha := u8_testBit_ge a; have hb := u8_testBit_ge b; have hc := u8_testBit_ge c
    have hd := u8_testBit_ge d; have he := u8_testBit_ge e; have hf := u8_testBit_ge f
    have hg := u8_testBit_ge g; have hh := u8_testBit_ge h
    have hcase : i = 0 ∨ i = 1 ∨ i = 2 ∨ i = 3 ∨ i = 4 ∨ i = 5 ∨ i = 6 ∨ i = 7 := by omega
    rcases hcase with rfl | rfl | rfl | rfl | rfl | rfl | rfl | rfl <;> simp [ha, hb, hc, hd, he, hf, hg, hh]
  · apply UInt8.eq_of_toBitVec_eq
    ext i hi
    simp [BitVec.getElem_eq_testBit_toNat]
    rw [show (256:Nat) = 2^8 from rfl, Nat.testBit_mod_two_pow, Nat.testBit_shiftRight]
    simp only [Nat.testBit_or, tb_sh]
    have ha := u8_testBit_ge a; have hb := u8_testBit_ge b; have hc := u8_testBit_ge c
    have hd := u8_testBit_ge d; have he := u8_testBit_ge e; have hf := u8_testBit_ge f
    have hg := u8_testBit_ge g; have hh := u8_testBit_ge h
    have hcase : i = 0 ∨ i = 1 ∨ i = 2 ∨ i = 3 ∨ i = 4 ∨ i = 5 ∨ i = 6 ∨ i = 7 := by omega
    rcases hcase with rfl | rfl | rfl | rfl | rfl | rfl | rfl | rfl <;> simp [ha, hb, hc, hd, he, hf, hg, hh]
  · apply UInt8.eq_of_toBitVec_eq
    ext i hi
    simp [BitVec.getElem_eq_testBit_toNat]
    rw [show (256:Nat) = 2^8 from rfl, Nat.testBit_mod_two_pow, Nat.testBit_shiftRight]
    simp only [Nat.testBit_or, tb_sh]
    have ha := u8_testBit_ge a; have hb := u8_testBit_ge b; have hc := u8_testBit_ge c
    have hd := u8_testBit_ge d; have he := u8_testBit_ge e; have hf := u8_testBit_ge f
    have hg := u8_testBit_ge g; have hh := u8_testBit_ge h
    have hcase : i = 0 ∨ i = 1 ∨ i = 2 ∨ i = 3 ∨ i = 4 ∨ i = 5 ∨ i = 6 ∨ i = 7 := by omega
    rcases hcase with rfl | rfl | rfl | rfl | rfl | rfl | rfl | rfl <;> simp [ha, hb, hc, hd, he, hf, hg, hh]
  · apply UInt8.eq_of_toBitVec_eq
    ext i hi
    simp [BitVec.getElem_eq_testBit_toNat]
    rw [show (256:Nat) = 2^8 from rfl, Nat.testBit_mod_two_pow, Nat.testBit_shiftRight]
    simp only [Nat.testBit_or, tb_sh]
    have ha := u8_testBit_ge a; have hb := u8_testBit_ge b; have hc := u8_testBit_ge c
    have hd := u8_testBit_ge d; have he := u8_testBit_ge e; have hf := u8_testBit_ge f
    have hg := u8_testBit_ge g; have hh := u8_testBit_ge h
    have hcase : i = 0 ∨ i = 1 ∨ i = 2 ∨ i = 3 ∨ i = 4 ∨ i = 5 ∨ i = 6 ∨ i = 7 := by omega
    rcases hcase with rfl | rfl | rfl | rfl | rfl | rfl | rfl | rfl <;> simp [ha, hb, hc, hd, he, hf, hg, hh]

theorem le64_length (x : UInt64) : (le64 x).length = 8 := rfl

theorem le64_inj (x y : UInt64) (h : le64 x = le64 y) : x = y := by
  rw [← ofLe64_le64 x, ← ofLe64_le64 y, h]

/-- `binary.LittleEndian.Uint64` is injective on 8-byte slices -/
theorem ofLe64_inj (s t : Bytes) (hs : s.length = 8) (ht : t.length = 8) (h : ofLe64 s = ofLe64 t) : s = t := by
  match s, hs with
  | [a,b,c,d,e,f,g,i], _ =>
    match t, ht with
    | [a',b',c',d',e',f',g',i'], _ =>
      rw [← le64_ofLe64 a b c d e f g i, ← le64_ofLe64 a' b' c' d' e' f' g' i', h]

end RSVerif.Lemmas.Bytes
