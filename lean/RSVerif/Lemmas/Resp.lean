import RSVerif.Model.Resp
/-
Helper lemmas for property C10 (RESP codec): decimal text, the line reader, what each decoder step consumes,
irrelevance of the model's nesting budget, round trip, rejection building blocks, truncation. Core Lean only.
-/
namespace RSVerif.Lemmas.Resp
open RSVerif RSVerif.Spec.Resp RSVerif.Resp

/-! ### decimal -/

theorem digitChar_toNat (n : Nat) (h : n < 10) : (digitChar n).toNat = 48 + n := by
  unfold digitChar
  simp [UInt8.toNat_ofNat', Nat.mod_eq_of_lt (show 48 + n < 256 by omega)]

theorem isDigit_iff (b : UInt8) : isDigit b = true ↔ 48 ≤ b.toNat ∧ b.toNat ≤ 57 := by
  unfold isDigit
  simp [UInt8.le_iff_toNat_le]

theorem isDigit_digitChar (n : Nat) (h : n < 10) : isDigit (digitChar n) = true := by
  rw [isDigit_iff, digitChar_toNat n h]; omega

theorem u8_ne_of_toNat_ne {a b : UInt8} (h : a.toNat ≠ b.toNat) : a ≠ b := by
  intro e; exact h (by rw [e])

theorem isDigit_ne {b : UInt8} (h : isDigit b = true) : b ≠ 10 ∧ b ≠ 13 ∧ b ≠ 43 ∧ b ≠ 45 ∧ b ≠ 32 := by
  rw [isDigit_iff] at h
  refine ⟨?_, ?_, ?_, ?_, ?_⟩ <;> apply u8_ne_of_toNat_ne <;> simp <;> omega

theorem natDigitsF_digits : ∀ (f n : Nat), ∀ b ∈ natDigitsF f n, isDigit b = true
  | 0, _, b, h => by simp [natDigitsF] at h
  | f + 1, n, b, h => by
    unfold natDigitsF at h
    split at h
    · simp at h; subst h; exact isDigit_digitChar n (by assumption)
    · simp at h
      rcases h with h | h
      · exact natDigitsF_digits f _ b h
      · subst h; exact isDigit_digitChar _ (Nat.mod_lt _ (by omega))

theorem natDigitsF_ne_nil (f n : Nat) : natDigitsF (f + 1) n ≠ [] := by
  unfold natDigitsF
  split <;> simp

theorem parseDigits_append (a b : Bytes) (acc : Nat) :
    parseDigits acc (a ++ b) = (parseDigits acc a).bind (fun x => parseDigits x b) := by
  induction a generalizing acc with
  | nil => simp [parseDigits]
  | cons x xs ih =>
    simp only [List.cons_append, parseDigits]
    split
    · exact ih _
    · simp

theorem parseDigits_natDigitsF : ∀ (f n : Nat), n < f → parseDigits 0 (natDigitsF f n) = some n
  | 0, _, h => by omega
  | f + 1, n, h => by
    unfold natDigitsF
    split
    · rename_i h10
      simp [parseDigits, isDigit_digitChar n h10, digitChar_toNat n h10]
    · rename_i h10
      have hm : n % 10 < 10 := Nat.mod_lt _ (by omega)
      rw [parseDigits_append, parseDigits_natDigitsF f (n / 10) (by omega)]
      simp [parseDigits, isDigit_digitChar _ hm, digitChar_toNat _ hm]
      omega

theorem fmtNat_digits (n : Nat) : ∀ b ∈ fmtNat n, isDigit b = true := natDigitsF_digits _ _
theorem fmtNat_ne_nil (n : Nat) : fmtNat n ≠ [] := natDigitsF_ne_nil _ _

theorem parseUint_fmtNat (n : Nat) : parseUint (fmtNat n) = some n := by
  unfold parseUint
  have h := fmtNat_ne_nil n
  split
  · contradiction
  · exact parseDigits_natDigitsF _ _ (by omega)

/-- every byte of a rendered integer is a digit or the minus sign -/
theorem fmtInt_bytes (i : Int) : ∀ b ∈ fmtInt i, isDigit b = true ∨ b = 45 := by
  intro b hb
  unfold fmtInt at hb
  split at hb
  · simp at hb
    rcases hb with hb | hb
    · exact Or.inr hb
    · exact Or.inl (fmtNat_digits _ b hb)
  · exact Or.inl (fmtNat_digits _ b hb)

theorem fmtInt_noLF (i : Int) : (10 : UInt8) ∉ fmtInt i := by
  intro h
  rcases fmtInt_bytes i 10 h with h | h
  · exact (isDigit_ne h).1 rfl
  · exact absurd h (by decide)

theorem fmtInt_ne_nil (i : Int) : fmtInt i ≠ [] := by
  unfold fmtInt
  split
  · simp
  · exact fmtNat_ne_nil _

/-- `strconv.ParseInt(strconv.FormatInt(i, 10), 10, 64) = i` for every 64-bit `i` (on the model) -/
theorem parseInt_fmtInt (i : Int) (h : isInt64 i) : parseInt (fmtInt i) = some i := by
  unfold isInt64 at h
  unfold fmtInt
  split
  · rename_i hneg
    simp only [parseInt]
    simp [parseUint_fmtNat]
    omega
  · rename_i hpos
    have hne := fmtNat_ne_nil i.natAbs
    match hs : fmtNat i.natAbs with
    | [] => exact absurd hs hne
    | c :: t =>
      have hc : isDigit c = true := fmtNat_digits i.natAbs c (by rw [hs]; simp)
      have := isDigit_ne hc
      simp only [parseInt]
      have e1 : (c == 45) = false := by simp [this.2.2.2.1]
      have e2 : (c == 43) = false := by simp [this.2.2.1]
      simp only [e1, e2, Bool.or_self, Bool.false_eq_true, ↓reduceIte]
      rw [← hs, parseUint_fmtNat]
      simp
      omega
/-! ### decodeType -/

theorem decodeType_skip (k : Nat) (t : UInt8) (ht : t ≠ 10) (rest : Bytes) (off : Nat) :
    decodeType (List.replicate k 10 ++ t :: rest) off = .ok (t, rest, off + k + 1) := by
  induction k generalizing off with
  | zero => simp [decodeType, ht]
  | succ k ih =>
    simp only [List.replicate_succ, List.cons_append, decodeType, ↓reduceIte]
    rw [ih]; congr 3; omega

theorem decodeType_inv : ∀ (inp : Bytes) (off : Nat) (t : UInt8) (rest : Bytes) (off' : Nat),
    decodeType inp off = .ok (t, rest, off') →
    ∃ k, inp = List.replicate k 10 ++ t :: rest ∧ off' = off + k + 1 ∧ t ≠ 10
  | [], off, t, rest, off', h => by simp [decodeType] at h
  | b :: bs, off, t, rest, off', h => by
    unfold decodeType at h
    split at h
    · rename_i hb
      obtain ⟨k, h1, h2, h3⟩ := decodeType_inv bs (off + 1) t rest off' h
      refine ⟨k + 1, ?_, by omega, h3⟩
      rw [hb, h1]; simp [List.replicate_succ]
    · rename_i hb
      simp at h
      obtain ⟨h1, h2, h3⟩ := h
      subst h1 h2 h3
      exact ⟨0, by simp, by omega, hb⟩

theorem decodeType_eof (k : Nat) (off : Nat) : decodeType (List.replicate k 10) off = .error .eof := by
  induction k generalizing off with
  | zero => simp [decodeType]
  | succ k ih => simp only [List.replicate_succ, decodeType, ↓reduceIte]; exact ih _

/-- `decodeType` fails only with EOF -/
theorem decodeType_err : ∀ (inp : Bytes) (off : Nat) (e : Err), decodeType inp off = .error e → e = .eof
  | [], _, e, h => by simp [decodeType] at h; exact h.symm
  | b :: bs, off, e, h => by
    unfold decodeType at h
    split at h
    · exact decodeType_err bs _ e h
    · simp at h

/-! ### ReadBytes('\n') -/

theorem splitLF_append (s rest : Bytes) (hs : (10 : UInt8) ∉ s) :
    splitLF (s ++ 10 :: rest) = some (s ++ [10], rest) := by
  induction s with
  | nil => simp [splitLF]
  | cons x xs ih =>
    have hx : x ≠ 10 := by intro e; exact hs (by simp [e])
    have hxs : (10 : UInt8) ∉ xs := by intro e; exact hs (by simp [e])
    simp [splitLF, hx, ih hxs]

theorem splitLF_none (s : Bytes) (hs : (10 : UInt8) ∉ s) : splitLF s = none := by
  induction s with
  | nil => simp [splitLF]
  | cons x xs ih =>
    have hx : x ≠ 10 := by intro e; exact hs (by simp [e])
    have hxs : (10 : UInt8) ∉ xs := by intro e; exact hs (by simp [e])
    simp [splitLF, hx, ih hxs]

theorem splitLF_inv : ∀ (inp l r : Bytes), splitLF inp = some (l, r) →
    ∃ s, l = s ++ [10] ∧ (10 : UInt8) ∉ s ∧ inp = s ++ 10 :: r
  | [], l, r, h => by simp [splitLF] at h
  | b :: bs, l, r, h => by
    unfold splitLF at h
    split at h
    · rename_i hb
      simp at h
      obtain ⟨h1, h2⟩ := h
      exact ⟨[], by simp [← h1, hb], by simp, by simp [hb, h2]⟩
    · rename_i hb
      split at h
      · simp at h
      · rename_i l' r' hrec
        simp at h
        obtain ⟨h1, h2⟩ := h
        obtain ⟨s, e1, e2, e3⟩ := splitLF_inv bs l' r' hrec
        refine ⟨b :: s, by simp [← h1, e1], ?_, by simp [e3, h2]⟩
        intro hm
        simp at hm
        rcases hm with hm | hm
        · exact hb hm.symm
        · exact e2 hm

/-! ### decodeText -/

/-- the CR test of `decodeText` / `decodeSingleLineBulkBytesArray` on a line `s ++ [LF]` -/
theorem crTest (s : Bytes) :
    ((s ++ [10]).length < 2 ∨ (s ++ [10]).getD ((s ++ [10]).length - 2) 0 ≠ 13) ↔ ¬ ∃ b, s = b ++ [13] := by
  rcases List.eq_nil_or_concat s with h | ⟨b, c, h⟩
  · subst h; simp
  · subst h
    simp [List.getD_eq_getElem?_getD]
    intro h; omega

theorem decodeText_ok (s rest : Bytes) (off : Nat) (hs : (10 : UInt8) ∉ s) :
    decodeText (s ++ crlf ++ rest) off = .ok (s, rest, off + s.length + 2) := by
  have h13 : (10 : UInt8) ∉ s ++ [13] := by simp [hs]
  have e : s ++ crlf ++ rest = (s ++ [13]) ++ 10 :: rest := by simp [crlf]
  unfold decodeText
  rw [e, splitLF_append _ _ h13]
  have hno : ¬ ((s ++ [13] ++ [10]).length < 2 ∨ (s ++ [13] ++ [10]).getD ((s ++ [13] ++ [10]).length - 2) 0 ≠ 13) := by
    rw [crTest]; simp
  simp only [hno, ↓reduceIte]
  simp
  omega

theorem decodeText_inv (inp : Bytes) (off : Nat) (b rest : Bytes) (off' : Nat)
    (h : decodeText inp off = .ok (b, rest, off')) :
    inp = b ++ crlf ++ rest ∧ off' = off + b.length + 2 ∧ (10 : UInt8) ∉ b := by
  unfold decodeText at h
  split at h
  · simp at h
  · rename_i line r hsp
    obtain ⟨s, e1, e2, e3⟩ := splitLF_inv _ _ _ hsp
    subst e1
    split at h
    · simp at h
    · rename_i hcr
      rw [crTest] at hcr
      simp only [Classical.not_not] at hcr
      obtain ⟨b', hb'⟩ := hcr
      subst hb'
      simp at h
      obtain ⟨h1, h2, h3⟩ := h
      subst h1 h2 h3
      exact ⟨by simp [e3, crlf], by omega, fun hm => e2 (by simp [hm])⟩

theorem decodeText_err (inp : Bytes) (off : Nat) (e : Err) (h : decodeText inp off = .error e) :
    e = .eof ∨ e = .crlf := by
  unfold decodeText at h
  split at h
  · simp at h; exact Or.inl h.symm
  · split at h
    · simp at h; exact Or.inr h.symm
    · simp at h

/-! ### decodeInt -/

theorem decodeInt_ok (i : Int) (hi : isInt64 i) (rest : Bytes) (off : Nat) :
    decodeInt (fmtInt i ++ crlf ++ rest) off = .ok (i, rest, off + (fmtInt i).length + 2) := by
  unfold decodeInt
  rw [decodeText_ok _ _ _ (fmtInt_noLF i)]
  simp [parseInt_fmtInt i hi]

/-- general form: any text that parses -/
theorem decodeInt_ok' (s : Bytes) (n : Int) (hs : (10 : UInt8) ∉ s) (hp : parseInt s = some n) (rest : Bytes) (off : Nat) :
    decodeInt (s ++ crlf ++ rest) off = .ok (n, rest, off + s.length + 2) := by
  unfold decodeInt
  rw [decodeText_ok _ _ _ hs]
  simp [hp]

theorem decodeInt_inv (inp : Bytes) (off : Nat) (n : Int) (rest : Bytes) (off' : Nat)
    (h : decodeInt inp off = .ok (n, rest, off')) :
    ∃ s, inp = s ++ crlf ++ rest ∧ off' = off + s.length + 2 ∧ parseInt s = some n := by
  unfold decodeInt at h
  split at h
  · simp at h
  · rename_i b r o ht
    obtain ⟨e1, e2, _⟩ := decodeText_inv _ _ _ _ _ ht
    split at h
    · simp at h
    · rename_i m hp
      simp at h
      obtain ⟨h1, h2, h3⟩ := h
      subst h1 h2 h3
      exact ⟨b, e1, e2, hp⟩

theorem decodeInt_err (inp : Bytes) (off : Nat) (e : Err) (h : decodeInt inp off = .error e) :
    e = .eof ∨ e = .crlf ∨ e = .badInt := by
  unfold decodeInt at h
  split at h
  · rename_i e' ht
    simp at h; subst h
    rcases decodeText_err _ _ _ ht with h | h <;> simp [h]
  · split at h
    · simp at h; simp [← h]
    · simp at h

/-! ### decodeBulkBytes -/

theorem decodeBulk_nil (rest : Bytes) (off : Nat) :
    decodeBulkBytes (fmtInt (-1) ++ crlf ++ rest) off = .ok (none, rest, off + (fmtInt (-1)).length + 2) := by
  unfold decodeBulkBytes
  rw [decodeInt_ok (-1) (by decide)]
  simp

theorem decodeBulk_some (b rest : Bytes) (off : Nat) (hb : b.length ≤ maxLen) :
    decodeBulkBytes (fmtInt b.length ++ crlf ++ (b ++ crlf) ++ rest) off
      = .ok (some b, rest, off + (fmtInt b.length).length + 2 + (b.length + 2)) := by
  unfold maxLen at hb
  unfold decodeBulkBytes
  have e : fmtInt b.length ++ crlf ++ (b ++ crlf) ++ rest = fmtInt b.length ++ crlf ++ (b ++ crlf ++ rest) := by simp
  rw [e, decodeInt_ok (b.length : Int) (by unfold isInt64; omega)]
  have h1 : ¬ ((b.length : Int) < -1) := by omega
  have h2 : ¬ ((b.length : Int) = -1) := by omega
  have h3 : ¬ ((b.length : Int) + 2 > 9223372036854775807) := by omega
  simp only [h1, h2, h3, ↓reduceIte, Int.toNat_natCast]
  have h4 : ¬ ((b ++ crlf ++ rest).length < b.length + 2) := by simp [crlf]
  simp only [h4, ↓reduceIte]
  have t : List.take (b.length + 2) (b ++ crlf ++ rest) = b ++ crlf := List.take_left' (by simp [crlf])
  have d : List.drop (b.length + 2) (b ++ crlf ++ rest) = rest := List.drop_left' (by simp [crlf])
  rw [t, d]
  simp [crlf, List.getD_eq_getElem?_getD]

theorem decodeBulk_inv (inp : Bytes) (off : Nat) (v : Option Bytes) (rest : Bytes) (off' : Nat)
    (h : decodeBulkBytes inp off = .ok (v, rest, off')) :
    ∃ pre, inp = pre ++ rest ∧ off' = off + pre.length := by
  unfold decodeBulkBytes at h
  split at h
  · simp at h
  · rename_i n r o hi
    obtain ⟨s, e1, e2, _⟩ := decodeInt_inv _ _ _ _ _ hi
    split at h
    · simp at h
    · split at h
      · simp at h
        obtain ⟨_, h2, h3⟩ := h
        subst h2 h3
        exact ⟨s ++ crlf, e1, by simp [e2, crlf]; omega⟩
      · split at h
        · simp at h
        · dsimp only at h
          split at h
          · simp at h
          · rename_i hlen
            split at h
            · simp at h
            · simp at h
              obtain ⟨_, h2, h3⟩ := h
              refine ⟨s ++ crlf ++ r.take (n.toNat + 2), ?_, ?_⟩
              · rw [e1, ← h2]; simp
              · rw [← h3, e2]
                simp [crlf, List.length_take]
                omega

theorem decodeBulk_err (inp : Bytes) (off : Nat) (e : Err) (h : decodeBulkBytes inp off = .error e) : e ≠ .fuel := by
  unfold decodeBulkBytes at h
  split at h
  · rename_i e' hi
    simp at h; subst h
    rcases decodeInt_err _ _ _ hi with h | h | h <;> simp [h]
  · dsimp only at h
    repeat' split at h
    all_goals simp at h
    all_goals simp [← h]

/-! ### inline -/

theorem decodeInline_inv (inp : Bytes) (off : Nat) (v : Resp) (rest : Bytes) (off' : Nat)
    (h : decodeInline inp off = .ok (v, rest, off')) :
    ∃ pre, inp = pre ++ rest ∧ off' = off + pre.length ∧ pre ≠ [] := by
  unfold decodeInline at h
  split at h
  · simp at h
  · rename_i line r hsp
    obtain ⟨s, e1, _, e3⟩ := splitLF_inv _ _ _ hsp
    split at h
    · simp at h
    · simp at h
      obtain ⟨_, h2, h3⟩ := h
      subst h2 h3 e1
      exact ⟨s ++ [10], by simp [e3], rfl, by simp⟩

theorem decodeInline_err (inp : Bytes) (off : Nat) (e : Err) (h : decodeInline inp off = .error e) : e ≠ .fuel := by
  unfold decodeInline at h
  repeat' split at h
  all_goals simp at h
  all_goals simp [← h]

/-! ### the array loop and the recursive decoder: what is consumed -/

/-- `g` consumes a non-empty prefix and advances the offset by its length -/
def Consumes (g : Bytes → Nat → DRes Resp) : Prop :=
  ∀ inp off v rest off', g inp off = .ok (v, rest, off') →
    ∃ pre, inp = pre ++ rest ∧ pre ≠ [] ∧ off' = off + pre.length

theorem decodeSeq_consumes (g : Bytes → Nat → DRes Resp) (hg : Consumes g) :
    ∀ (n : Nat) (inp : Bytes) (off : Nat) (xs : List Resp) (rest : Bytes) (off' : Nat),
    decodeSeq g n inp off = .ok (xs, rest, off') →
    ∃ pre, inp = pre ++ rest ∧ off' = off + pre.length ∧ xs.length = n
  | 0, inp, off, xs, rest, off', h => by
    simp [decodeSeq] at h
    obtain ⟨h1, h2, h3⟩ := h
    subst h1 h2 h3
    exact ⟨[], by simp, by simp, rfl⟩
  | n + 1, inp, off, xs, rest, off', h => by
    unfold decodeSeq at h
    split at h
    · simp at h
    · rename_i x r1 o1 hx
      obtain ⟨p1, e1, _, e2⟩ := hg _ _ _ _ _ hx
      split at h
      · simp at h
      · rename_i ys r2 o2 hys
        obtain ⟨p2, f1, f2, f3⟩ := decodeSeq_consumes g hg n _ _ _ _ _ hys
        simp at h
        obtain ⟨h1, h2, h3⟩ := h
        subst h1 h2 h3
        exact ⟨p1 ++ p2, by rw [e1, f1]; simp, by rw [f2, e2]; simp; omega, by simp [f3]⟩

theorem startsInline_of_decodeType {inp : Bytes} {off : Nat} {t : UInt8} {r : Bytes} {o : Nat}
    (h : decodeType inp off = .ok (t, r, o)) : startsInline inp = !isTypeByte t := by
  obtain ⟨k, e1, _, e3⟩ := decodeType_inv _ _ _ _ _ h
  unfold startsInline
  rw [e1, decodeType_skip k t e3]

/-- What a successful `decodeResp` consumed, for the repaired (`fx = true`) and the pinned (`fx = false`) decoder:
a non-empty prefix of the stream; the offset advances by its length — plus one in the pinned decoder when the value
is an inline command line at depth 0 (D13). -/
theorem decodeRespG_consumes (fx : Bool) : ∀ (f d : Nat) (inp : Bytes) (off : Nat) (v : Resp) (rest : Bytes) (off' : Nat),
    decodeRespG fx f d inp off = .ok (v, rest, off') →
    ∃ pre, inp = pre ++ rest ∧ pre ≠ [] ∧
      off' = off + pre.length + (if (!fx && d == 0 && startsInline inp) then 1 else 0)
  | 0, d, inp, off, v, rest, off', h => by simp [decodeRespG] at h
  | f + 1, d, inp, off, v, rest, off', h => by
    unfold decodeRespG decodeBody at h
    split at h
    · simp at h
    · rename_i t r1 o1 hty
      have hsi := startsInline_of_decodeType hty
      obtain ⟨k, e1, e2, e3⟩ := decodeType_inv _ _ _ _ _ hty
      -- common way to finish: the rest of the value consumed `p2` from `r1`
      have fin : ∀ (p2 : Bytes), r1 = p2 ++ rest → off' = o1 + p2.length → isTypeByte t = true →
          ∃ pre, inp = pre ++ rest ∧ pre ≠ [] ∧
            off' = off + pre.length + (if (!fx && d == 0 && startsInline inp) then 1 else 0) := by
        intro p2 h1 h2 h3
        refine ⟨List.replicate k 10 ++ t :: p2, by rw [e1, h1]; simp, by simp, ?_⟩
        rw [hsi, h3]; simp; omega
      split at h
      · rename_i ht
        split at h
        · simp at h
        · rename_i b r o hd
          obtain ⟨a1, a2, _⟩ := decodeText_inv _ _ _ _ _ hd
          simp at h; obtain ⟨_, h2, h3⟩ := h; subst h2 h3
          exact fin (b ++ crlf) (by rw [a1]) (by rw [a2]; simp [crlf]; omega) (by simp [isTypeByte, ht])
      · split at h
        · rename_i ht
          split at h
          · simp at h
          · rename_i b r o hd
            obtain ⟨a1, a2, _⟩ := decodeText_inv _ _ _ _ _ hd
            simp at h; obtain ⟨_, h2, h3⟩ := h; subst h2 h3
            exact fin (b ++ crlf) (by rw [a1]) (by rw [a2]; simp [crlf]; omega) (by simp [isTypeByte, ht])
        · split at h
          · rename_i ht
            split at h
            · simp at h
            · rename_i i r o hd
              obtain ⟨s, a1, a2, _⟩ := decodeInt_inv _ _ _ _ _ hd
              simp at h; obtain ⟨_, h2, h3⟩ := h; subst h2 h3
              exact fin (s ++ crlf) (by rw [a1]) (by rw [a2]; simp [crlf]; omega) (by simp [isTypeByte, ht])
          · split at h
            · rename_i ht
              split at h
              · simp at h
              · rename_i b r o hd
                obtain ⟨p, a1, a2⟩ := decodeBulk_inv _ _ _ _ _ hd
                simp at h; obtain ⟨_, h2, h3⟩ := h; subst h2 h3
                exact fin p a1 a2 (by simp [isTypeByte, ht])
            · split at h
              · rename_i ht
                split at h
                · simp at h
                · rename_i n r2 o2 hd
                  obtain ⟨s, a1, a2, _⟩ := decodeInt_inv _ _ _ _ _ hd
                  split at h
                  · simp at h
                  · split at h
                    · simp at h; obtain ⟨_, h2, h3⟩ := h; subst h2 h3
                      exact fin (s ++ crlf) (by rw [a1]) (by rw [a2]; simp [crlf]; omega) (by simp [isTypeByte, ht])
                    · split at h
                      · simp at h
                      · rename_i xs r o hs
                        have hg : Consumes (decodeRespG fx f (d + 1)) := by
                          intro inp off v rest off' hh
                          obtain ⟨pre, b1, b2, b3⟩ := decodeRespG_consumes fx f (d + 1) _ _ _ _ _ hh
                          exact ⟨pre, b1, b2, by simpa using b3⟩
                        obtain ⟨p, c1, c2, _⟩ := decodeSeq_consumes _ hg _ _ _ _ _ _ hs
                        simp at h; obtain ⟨_, h2, h3⟩ := h; subst h2 h3
                        exact fin (s ++ crlf ++ p) (by rw [a1, c1]; simp) (by rw [c2, a2]; simp [crlf]; omega)
                          (by simp [isTypeByte, ht])
              · rename_i n43 n45 n58 n36 n42
                split at h
                · simp at h
                · rename_i hd0
                  simp only [Decidable.not_not] at hd0
                  obtain ⟨p, c1, c2, c3⟩ := decodeInline_inv _ _ _ _ _ h
                  have htb : isTypeByte t = false := by simp [isTypeByte, n43, n45, n58, n36, n42]
                  -- the line starts with the un-read byte
                  obtain ⟨p', hp'⟩ : ∃ p', p = t :: p' := by
                    cases p with
                    | nil => exact absurd rfl c3
                    | cons a p' => simp at c1; exact ⟨p', by rw [c1.1]⟩
                  subst hp'
                  simp at c1
                  refine ⟨List.replicate k 10 ++ t :: p', by rw [e1, c1]; simp, by simp, ?_⟩
                  rw [hsi, htb, hd0, c2]
                  cases fx <;> simp <;> omega

/-! ### the nesting budget of the model is irrelevant -/

theorem decodeSeq_ne_fuel (g : Bytes → Nat → DRes Resp) (hg : Consumes g) (L : Nat)
    (hL : ∀ inp off, inp.length < L → g inp off ≠ .error .fuel) :
    ∀ (n : Nat) (inp : Bytes) (off : Nat), inp.length < L → decodeSeq g n inp off ≠ .error .fuel
  | 0, inp, off, _ => by simp [decodeSeq]
  | n + 1, inp, off, hl => by
    unfold decodeSeq
    split
    · rename_i e he
      intro h; simp at h; subst h
      exact hL _ _ hl he
    · rename_i x r1 o1 hx
      obtain ⟨p1, e1, _, _⟩ := hg _ _ _ _ _ hx
      have : r1.length < L := by rw [e1] at hl; simp at hl; omega
      have ih := decodeSeq_ne_fuel g hg L hL n r1 o1 this
      split
      · rename_i e he
        intro h; simp at h; subst h
        exact ih he
      · simp

theorem consumes_decodeRespG (fx : Bool) (f d : Nat) : Consumes (decodeRespG fx f (d + 1)) := by
  intro inp off v rest off' hh
  obtain ⟨pre, b1, b2, b3⟩ := decodeRespG_consumes fx f (d + 1) _ _ _ _ _ hh
  exact ⟨pre, b1, b2, by simpa using b3⟩

/-- with a budget above the number of bytes left the decoder never runs out of budget -/
theorem decodeRespG_ne_fuel (fx : Bool) : ∀ (f d : Nat) (inp : Bytes) (off : Nat),
    inp.length < f → decodeRespG fx f d inp off ≠ .error .fuel
  | 0, _, _, _, h => by omega
  | f + 1, d, inp, off, hl => by
    unfold decodeRespG decodeBody
    split
    · rename_i e he
      have := decodeType_err _ _ _ he
      subst this; simp
    · rename_i t r1 o1 hty
      obtain ⟨k, e1, e2, e3⟩ := decodeType_inv _ _ _ _ _ hty
      split
      · split
        · rename_i e he
          rcases decodeText_err _ _ _ he with h | h <;> simp [h]
        · simp
      · split
        · split
          · rename_i e he
            rcases decodeText_err _ _ _ he with h | h <;> simp [h]
          · simp
        · split
          · split
            · rename_i e he
              rcases decodeInt_err _ _ _ he with h | h | h <;> simp [h]
            · simp
          · split
            · split
              · rename_i e he
                have := decodeBulk_err _ _ _ he
                simpa using this
              · simp
            · split
              · split
                · rename_i e he
                  rcases decodeInt_err _ _ _ he with h | h | h <;> simp [h]
                · rename_i n r2 o2 hd
                  obtain ⟨s, a1, _, _⟩ := decodeInt_inv _ _ _ _ _ hd
                  have hr2 : r2.length < f := by
                    rw [e1, a1] at hl; simp at hl; omega
                  split
                  · simp
                  · split
                    · simp
                    · have := decodeSeq_ne_fuel (decodeRespG fx f (d + 1)) (consumes_decodeRespG fx f d) f
                        (fun inp off h => decodeRespG_ne_fuel fx f (d + 1) inp off h) n.toNat r2 o2 hr2
                      split
                      · rename_i e he
                        intro h; simp at h; subst h; exact this he
                      · simp
              · split
                · simp
                · intro h
                  exact decodeInline_err _ _ _ h rfl

theorem decodeSeq_mono (g g' : Bytes → Nat → DRes Resp)
    (hgg : ∀ inp off, g inp off ≠ .error .fuel → g' inp off = g inp off) :
    ∀ (n : Nat) (inp : Bytes) (off : Nat),
    decodeSeq g n inp off ≠ .error .fuel → decodeSeq g' n inp off = decodeSeq g n inp off
  | 0, inp, off, _ => by simp [decodeSeq]
  | n + 1, inp, off, h => by
    unfold decodeSeq at h ⊢
    have h1 : g inp off ≠ .error .fuel := by
      intro hc; rw [hc] at h; simp at h
    rw [hgg _ _ h1]
    split
    · rfl
    · rename_i x r1 o1 hx
      rw [hx] at h
      simp only at h
      have h2 : decodeSeq g n r1 o1 ≠ .error .fuel := by
        intro hc; rw [hc] at h; simp at h
      rw [decodeSeq_mono g g' hgg n r1 o1 h2]

theorem decodeBody_mono' (fx : Bool) (g g' : Bytes → Nat → DRes Resp)
    (hgg : ∀ inp off, g inp off ≠ .error .fuel → g' inp off = g inp off) (d : Nat) (inp : Bytes) (off : Nat) :
    decodeBody fx g d inp off = .error .fuel ∨ decodeBody fx g' d inp off = decodeBody fx g d inp off := by
  unfold decodeBody
  split
  · exact Or.inr rfl
  · split
    · exact Or.inr rfl
    · split
      · exact Or.inr rfl
      · split
        · exact Or.inr rfl
        · split
          · exact Or.inr rfl
          · split
            · split
              · exact Or.inr rfl
              · rename_i n r2 o2 hd
                split
                · exact Or.inr rfl
                · split
                  · exact Or.inr rfl
                  · by_cases hc : decodeSeq g n.toNat r2 o2 = .error .fuel
                    · left; rw [hc]
                    · right; rw [decodeSeq_mono g g' hgg _ _ _ hc]
            · exact Or.inr rfl

theorem decodeBody_mono (fx : Bool) (g g' : Bytes → Nat → DRes Resp)
    (hgg : ∀ inp off, g inp off ≠ .error .fuel → g' inp off = g inp off) (d : Nat) (inp : Bytes) (off : Nat)
    (h : decodeBody fx g d inp off ≠ .error .fuel) : decodeBody fx g' d inp off = decodeBody fx g d inp off := by
  rcases decodeBody_mono' fx g g' hgg d inp off with h' | h'
  · exact absurd h' h
  · exact h'

/-- one more unit of budget does not change a result that was not "out of budget" -/
theorem decodeRespG_fuel_succ (fx : Bool) : ∀ (f d : Nat) (inp : Bytes) (off : Nat),
    decodeRespG fx f d inp off ≠ .error .fuel → decodeRespG fx (f + 1) d inp off = decodeRespG fx f d inp off
  | 0, _, _, _, h => by simp [decodeRespG] at h
  | f + 1, d, inp, off, h => by
    rw [decodeRespG, decodeRespG] at *
    exact decodeBody_mono fx _ _ (fun inp off hh => decodeRespG_fuel_succ fx f (d + 1) inp off hh) d inp off h

/-- any budget above the number of bytes left gives the same result -/
theorem decodeRespG_fuel_irrelevant (fx : Bool) (d : Nat) (inp : Bytes) (off : Nat) :
    ∀ (k : Nat), decodeRespG fx (inp.length + 1 + k) d inp off = decodeRespG fx (inp.length + 1) d inp off
  | 0 => rfl
  | k + 1 => by
    have ih := decodeRespG_fuel_irrelevant fx d inp off k
    have hne : decodeRespG fx (inp.length + 1 + k) d inp off ≠ .error .fuel :=
      decodeRespG_ne_fuel fx _ d inp off (by omega)
    rw [show inp.length + 1 + (k + 1) = (inp.length + 1 + k) + 1 by omega, decodeRespG_fuel_succ fx _ d inp off hne, ih]

/-! ### round trip -/

theorem noLF_of_contains {b : Bytes} (h : (!b.contains 10) = true) : (10 : UInt8) ∉ b := by
  simpa using h

theorem decodeSeq_cons_ok (g : Bytes → Nat → DRes Resp) (n : Nat) (inp : Bytes) (off : Nat)
    (x : Resp) (r1 : Bytes) (o1 : Nat) (xs : List Resp) (r2 : Bytes) (o2 : Nat)
    (h1 : g inp off = .ok (x, r1, o1)) (h2 : decodeSeq g n r1 o1 = .ok (xs, r2, o2)) :
    decodeSeq g (n + 1) inp off = .ok (x :: xs, r2, o2) := by
  simp [decodeSeq, h1, h2]

mutual
theorem roundtripG (fx : Bool) : ∀ (v : Resp), WF v = true → ∀ (f d k : Nat) (rest : Bytes) (off : Nat), depth v ≤ f →
    decodeRespG fx f d (List.replicate k 10 ++ enc v ++ rest) off = .ok (v, rest, off + k + (enc v).length)
  | .str b, hwf, f, d, k, rest, off, hf => by
    obtain ⟨f', rfl⟩ : ∃ f', f = f' + 1 := ⟨f - 1, by simp [depth] at hf; omega⟩
    have hb := noLF_of_contains (by simpa [WF] using hwf)
    have e : List.replicate k 10 ++ enc (.str b) ++ rest = List.replicate k 10 ++ 43 :: (b ++ crlf ++ rest) := by simp [enc]
    rw [decodeRespG, decodeBody, e, decodeType_skip k 43 (by decide)]
    simp only [↓reduceIte, decodeText_ok _ _ _ hb]
    simp [enc, crlf]; omega
  | .err b, hwf, f, d, k, rest, off, hf => by
    obtain ⟨f', rfl⟩ : ∃ f', f = f' + 1 := ⟨f - 1, by simp [depth] at hf; omega⟩
    have hb := noLF_of_contains (by simpa [WF] using hwf)
    have e : List.replicate k 10 ++ enc (.err b) ++ rest = List.replicate k 10 ++ 45 :: (b ++ crlf ++ rest) := by simp [enc]
    rw [decodeRespG, decodeBody, e, decodeType_skip k 45 (by decide)]
    simp only [show ¬ ((45 : UInt8) = 43) by decide, ↓reduceIte, decodeText_ok _ _ _ hb]
    simp [enc, crlf]; omega
  | .int i, hwf, f, d, k, rest, off, hf => by
    obtain ⟨f', rfl⟩ : ∃ f', f = f' + 1 := ⟨f - 1, by simp [depth] at hf; omega⟩
    have hi : isInt64 i := by simpa [WF] using hwf
    have e : List.replicate k 10 ++ enc (.int i) ++ rest = List.replicate k 10 ++ 58 :: (fmtInt i ++ crlf ++ rest) := by simp [enc]
    rw [decodeRespG, decodeBody, e, decodeType_skip k 58 (by decide)]
    simp only [show ¬ ((58 : UInt8) = 43) by decide, show ¬ ((58 : UInt8) = 45) by decide, ↓reduceIte, decodeInt_ok i hi]
    simp [enc, crlf]; omega
  | .bulk none, hwf, f, d, k, rest, off, hf => by
    obtain ⟨f', rfl⟩ : ∃ f', f = f' + 1 := ⟨f - 1, by simp [depth] at hf; omega⟩
    have e : List.replicate k 10 ++ enc (.bulk none) ++ rest = List.replicate k 10 ++ 36 :: (fmtInt (-1) ++ crlf ++ rest) := by simp [enc]
    rw [decodeRespG, decodeBody, e, decodeType_skip k 36 (by decide)]
    simp only [show ¬ ((36 : UInt8) = 43) by decide, show ¬ ((36 : UInt8) = 45) by decide,
      show ¬ ((36 : UInt8) = 58) by decide, ↓reduceIte, decodeBulk_nil]
    simp [enc, crlf]; omega
  | .bulk (some b), hwf, f, d, k, rest, off, hf => by
    obtain ⟨f', rfl⟩ : ∃ f', f = f' + 1 := ⟨f - 1, by simp [depth] at hf; omega⟩
    have hb : b.length ≤ maxLen := by simpa [WF] using hwf
    have e : List.replicate k 10 ++ enc (.bulk (some b)) ++ rest
        = List.replicate k 10 ++ 36 :: (fmtInt b.length ++ crlf ++ (b ++ crlf) ++ rest) := by simp [enc]
    rw [decodeRespG, decodeBody, e, decodeType_skip k 36 (by decide)]
    simp only [show ¬ ((36 : UInt8) = 43) by decide, show ¬ ((36 : UInt8) = 45) by decide,
      show ¬ ((36 : UInt8) = 58) by decide, ↓reduceIte, decodeBulk_some b rest _ hb]
    simp [enc, crlf]; omega
  | .arr none, hwf, f, d, k, rest, off, hf => by
    obtain ⟨f', rfl⟩ : ∃ f', f = f' + 1 := ⟨f - 1, by simp [depth] at hf; omega⟩
    have e : List.replicate k 10 ++ enc (.arr none) ++ rest = List.replicate k 10 ++ 42 :: (fmtInt (-1) ++ crlf ++ rest) := by simp [enc]
    rw [decodeRespG, decodeBody, e, decodeType_skip k 42 (by decide)]
    simp only [show ¬ ((42 : UInt8) = 43) by decide, show ¬ ((42 : UInt8) = 45) by decide,
      show ¬ ((42 : UInt8) = 58) by decide, show ¬ ((42 : UInt8) = 36) by decide, ↓reduceIte,
      decodeInt_ok (-1) (by decide)]
    simp [enc, crlf]; omega
  | .arr (some l), hwf, f, d, k, rest, off, hf => by
    obtain ⟨f', rfl⟩ : ∃ f', f = f' + 1 := ⟨f - 1, by simp [depth] at hf; omega⟩
    have hf' : depthL l ≤ f' := by simp [depth] at hf; omega
    have hw : l.length ≤ maxLen ∧ WFL l = true := by simpa [WF] using hwf
    have hl : isInt64 (l.length : Int) := by unfold isInt64; have := hw.1; unfold maxLen at this; omega
    have e : List.replicate k 10 ++ enc (.arr (some l)) ++ rest
        = List.replicate k 10 ++ 42 :: (fmtInt l.length ++ crlf ++ (encL l ++ rest)) := by simp [enc]
    rw [decodeRespG, decodeBody, e, decodeType_skip k 42 (by decide)]
    simp only [show ¬ ((42 : UInt8) = 43) by decide, show ¬ ((42 : UInt8) = 45) by decide,
      show ¬ ((42 : UInt8) = 58) by decide, show ¬ ((42 : UInt8) = 36) by decide, ↓reduceIte,
      decodeInt_ok (l.length : Int) hl]
    have h1 : ¬ ((l.length : Int) < -1) := by omega
    have h2 : ¬ ((l.length : Int) = -1) := by omega
    simp only [h1, h2, ↓reduceIte, Int.toNat_natCast, roundtripL fx l hw.2 f' (d + 1) rest _ hf']
    simp [enc, crlf]; omega
theorem roundtripL (fx : Bool) : ∀ (l : List Resp), WFL l = true → ∀ (f d : Nat) (rest : Bytes) (off : Nat), depthL l ≤ f →
    decodeSeq (decodeRespG fx f d) l.length (encL l ++ rest) off = .ok (l, rest, off + (encL l).length)
  | [], _, f, d, rest, off, _ => by simp [decodeSeq, encL]
  | x :: xs, hwf, f, d, rest, off, hf => by
    have hw : WF x = true ∧ WFL xs = true := by simpa [WFL] using hwf
    have hd : depth x ≤ f ∧ depthL xs ≤ f := by simp [depthL] at hf; omega
    have h1 := roundtripG fx x hw.1 f d 0 (encL xs ++ rest) off hd.1
    have h2 := roundtripL fx xs hw.2 f d rest (off + 0 + (enc x).length) hd.2
    have e : encL (x :: xs) ++ rest = List.replicate 0 10 ++ enc x ++ (encL xs ++ rest) := by simp [encL]
    rw [List.length_cons, e, decodeSeq_cons_ok _ _ _ _ _ _ _ _ _ _ h1 h2]
    simp [encL]; omega
end

/-! ### rejection: building blocks -/

theorem decodeText_crlf (s rest : Bytes) (off : Nat) (hs : (10 : UInt8) ∉ s) (hcr : ¬ ∃ b, s = b ++ [13]) :
    decodeText (s ++ 10 :: rest) off = .error .crlf := by
  unfold decodeText
  rw [splitLF_append _ _ hs]
  simp only [(crTest s).mpr hcr, ↓reduceIte]

theorem decodeText_eof (s : Bytes) (off : Nat) (hs : (10 : UInt8) ∉ s) : decodeText s off = .error .eof := by
  unfold decodeText; rw [splitLF_none s hs]

theorem decodeInt_crlf (s rest : Bytes) (off : Nat) (hs : (10 : UInt8) ∉ s) (hcr : ¬ ∃ b, s = b ++ [13]) :
    decodeInt (s ++ 10 :: rest) off = .error .crlf := by
  unfold decodeInt; rw [decodeText_crlf s rest off hs hcr]

theorem decodeInt_eof (s : Bytes) (off : Nat) (hs : (10 : UInt8) ∉ s) : decodeInt s off = .error .eof := by
  unfold decodeInt; rw [decodeText_eof s off hs]

theorem decodeInt_badInt (s rest : Bytes) (off : Nat) (hs : (10 : UInt8) ∉ s) (hp : parseInt s = none) :
    decodeInt (s ++ crlf ++ rest) off = .error .badInt := by
  unfold decodeInt; rw [decodeText_ok s rest off hs]; simp [hp]

theorem parseDigits_some_digits : ∀ (s : Bytes) (acc n : Nat), parseDigits acc s = some n → ∀ b ∈ s, isDigit b = true
  | [], _, _, _, b, hb => by simp at hb
  | x :: xs, acc, n, h, b, hb => by
    unfold parseDigits at h
    split at h
    · rename_i hx
      simp at hb
      rcases hb with hb | hb
      · subst hb; exact hx
      · exact parseDigits_some_digits xs _ n h b hb
    · simp at h

/-- shape of every text `strconv.ParseInt(·, 10, 64)` accepts: an optional sign, then at least one digit, digits only -/
theorem parseInt_some_shape (s : Bytes) (n : Int) (h : parseInt s = some n) :
    ∃ c t, s = c :: t ∧ (isDigit c = true ∨ c = 43 ∨ c = 45) ∧ (∀ b ∈ t, isDigit b = true) ∧
      (isDigit c = true ∨ t ≠ []) := by
  unfold parseInt at h
  split at h
  · simp at h
  · rename_i c t
    refine ⟨c, t, rfl, ?_⟩
    dsimp only at h
    split at h
    · simp at h
    · rename_i un hu
      unfold parseUint at hu
      split at hu
      · simp at hu
      · rename_i hne
        have hd := parseDigits_some_digits _ _ _ hu
        by_cases hsign : (c == 43 || c == 45) = true
        · simp only [hsign, ↓reduceIte] at hd hne
          refine ⟨?_, hd, Or.inr (by simpa using hne)⟩
          simp at hsign
          rcases hsign with h | h <;> simp [h]
        · simp only [hsign, Bool.false_eq_true, ↓reduceIte] at hd
          exact ⟨Or.inl (hd c (by simp)), fun b hb => hd b (by simp [hb]), Or.inl (hd c (by simp))⟩

theorem parseInt_some_noLF (s : Bytes) (n : Int) (h : parseInt s = some n) : (10 : UInt8) ∉ s := by
  obtain ⟨c, t, e, hc, ht, _⟩ := parseInt_some_shape s n h
  subst e
  intro hm
  simp at hm
  rcases hm with hm | hm
  · rcases hc with hc | hc | hc
    · exact (isDigit_ne hc).1 hm.symm
    · rw [hc] at hm; exact absurd hm (by decide)
    · rw [hc] at hm; exact absurd hm (by decide)
  · exact (isDigit_ne (ht _ hm)).1 rfl

/-- the decoder's view of a value header: after `k` LF bytes the type byte `t` -/
theorem decodeBody_type (fx : Bool) (g : Bytes → Nat → DRes Resp) (d k : Nat) (t : UInt8) (ht : t ≠ 10) (r : Bytes) (off : Nat) :
    decodeBody fx g d (List.replicate k 10 ++ t :: r) off =
      (if t = 43 then
        match decodeText r (off + k + 1) with
        | .error e => .error e
        | .ok (b, r, o) => .ok (.str b, r, o)
      else if t = 45 then
        match decodeText r (off + k + 1) with
        | .error e => .error e
        | .ok (b, r, o) => .ok (.err b, r, o)
      else if t = 58 then
        match decodeInt r (off + k + 1) with
        | .error e => .error e
        | .ok (i, r, o) => .ok (.int i, r, o)
      else if t = 36 then
        match decodeBulkBytes r (off + k + 1) with
        | .error e => .error e
        | .ok (b, r, o) => .ok (.bulk b, r, o)
      else if t = 42 then
        match decodeInt r (off + k + 1) with
        | .error e => .error e
        | .ok (n, rest2, off2) =>
          if n < -1 then .error .arrayLen
          else if n = -1 then .ok (.arr none, rest2, off2)
          else
            match decodeSeq g n.toNat rest2 off2 with
            | .error e => .error e
            | .ok (xs, r, o) => .ok (.arr (some xs), r, o)
      else if d ≠ 0 then .error .badType
      else decodeInline (t :: r) (if fx then off + k + 1 - 1 else off + k + 1)) := by
  rw [decodeBody, decodeType_skip k t ht]
  rfl

/-! ### an unknown type byte inside an array -/

theorem decodeRespG_fuel_add (fx : Bool) (f d : Nat) (inp : Bytes) (off : Nat)
    (h : decodeRespG fx f d inp off ≠ .error .fuel) :
    ∀ j, decodeRespG fx (f + j) d inp off = decodeRespG fx f d inp off
  | 0 => rfl
  | j + 1 => by
    have ih := decodeRespG_fuel_add fx f d inp off h j
    rw [show f + (j + 1) = (f + j) + 1 by omega, decodeRespG_fuel_succ fx _ d inp off (by rw [ih]; exact h), ih]

/-- decoding one well-formed value with ANY budget: either out of budget, or the value -/
theorem roundtripG_anyfuel (fx : Bool) (v : Resp) (hwf : WF v = true) (f d : Nat) (rest : Bytes) (off : Nat) :
    decodeRespG fx f d (enc v ++ rest) off = .error .fuel ∨
    decodeRespG fx f d (enc v ++ rest) off = .ok (v, rest, off + (enc v).length) := by
  by_cases h : decodeRespG fx f d (enc v ++ rest) off = .error .fuel
  · exact Or.inl h
  · right
    have h1 := decodeRespG_fuel_add fx f d _ off h (depth v)
    have h2 := roundtripG fx v hwf (f + depth v) d 0 rest off (by omega)
    simp only [List.replicate_zero, List.nil_append, Nat.add_zero] at h2
    rw [← h1, h2]

theorem decodeSeq_badType (fx : Bool) (f d : Nat) (t : UInt8) (ht : t ≠ 10) (htb : isTypeByte t = false) (tail : Bytes) :
    ∀ (l : List Resp), WFL l = true → depthL l ≤ f → ∀ (m : Nat) (off : Nat),
    decodeSeq (decodeRespG fx (f + 1) (d + 1)) (l.length + (m + 1)) (encL l ++ t :: tail) off = .error .badType
  | [], _, _, m, off => by
    have hb : decodeRespG fx (f + 1) (d + 1) (t :: tail) off = .error .badType := by
      have := decodeBody_type fx (decodeRespG fx f (d + 1 + 1)) (d + 1) 0 t ht tail off
      simp only [List.replicate_zero, List.nil_append] at this
      rw [decodeRespG, this]
      simp [isTypeByte] at htb
      simp [htb]
    simp [encL, decodeSeq, hb]
  | x :: xs, hwf, hf, m, off => by
    have hw : WF x = true ∧ WFL xs = true := by simpa [WFL] using hwf
    have hd : depth x ≤ f ∧ depthL xs ≤ f := by simp [depthL] at hf; omega
    have h1 := roundtripG fx x hw.1 (f + 1) (d + 1) 0 (encL xs ++ t :: tail) off (by omega)
    have ih := decodeSeq_badType fx f d t ht htb tail xs hw.2 hd.2 m (off + 0 + (enc x).length)
    have e : encL (x :: xs) ++ t :: tail = List.replicate 0 10 ++ enc x ++ (encL xs ++ t :: tail) := by simp [encL]
    have e2 : (x :: xs).length + (m + 1) = (xs.length + (m + 1)) + 1 := by simp; omega
    rw [e2, e]
    unfold decodeSeq
    rw [h1]
    simp only [ih]

/-! ### truncation -/

theorem strictPrefix_line_noLF (b p s : Bytes) (hb : (10 : UInt8) ∉ b) (hs : s ≠ []) (h : p ++ s = b ++ crlf) :
    (10 : UInt8) ∉ p := by
  rcases List.eq_nil_or_concat s with h0 | ⟨s', c, h1⟩
  · exact absurd h0 hs
  · subst h1
    have e : (p ++ s') ++ [c] = (b ++ [13]) ++ [10] := by simpa [crlf] using h
    have := (List.append_inj' e rfl).1
    intro hm
    have : (10 : UInt8) ∈ b ++ [13] := by rw [← this]; simp [hm]
    simp at this
    exact hb this

/-- a cut through `line ++ CRLF ++ more`: inside the line (then no LF has been seen), or after it -/
theorem cut_line (h' p s more : Bytes) (hh : (10 : UInt8) ∉ h') (_hs : s ≠ []) (e : p ++ s = h' ++ crlf ++ more) :
    (10 : UInt8) ∉ p ∨ ∃ p', p = h' ++ crlf ++ p' ∧ p' ++ s = more := by
  rcases List.append_eq_append_iff.mp e with ⟨a', e1, e2⟩ | ⟨c', e1, e2⟩
  · -- h' ++ crlf = p ++ a'
    by_cases ha : a' = []
    · subst ha
      right
      exact ⟨[], by simpa using e1.symm, by simp [e2]⟩
    · left
      exact strictPrefix_line_noLF h' p a' hh ha e1.symm
  · right
    exact ⟨c', e1, e2.symm⟩

theorem decodeBulk_eof_hdr (p : Bytes) (off : Nat) (hp : (10 : UInt8) ∉ p) : decodeBulkBytes p off = .error .eof := by
  unfold decodeBulkBytes; rw [decodeInt_eof p off hp]

theorem decodeBulk_eof_body (b p s : Bytes) (off : Nat) (hb : b.length ≤ maxLen) (hs : s ≠ []) (e : p ++ s = b ++ crlf) :
    decodeBulkBytes (fmtInt b.length ++ crlf ++ p) off = .error .eof := by
  unfold maxLen at hb
  unfold decodeBulkBytes
  rw [decodeInt_ok (b.length : Int) (by unfold isInt64; omega)]
  have h1 : ¬ ((b.length : Int) < -1) := by omega
  have h2 : ¬ ((b.length : Int) = -1) := by omega
  have h3 : ¬ ((b.length : Int) + 2 > 9223372036854775807) := by omega
  have hl : p.length < b.length + 2 := by
    have := congrArg List.length e
    simp [crlf] at this
    have : 0 < s.length := List.length_pos_iff.mpr hs
    omega
  simp only [h1, h2, h3, ↓reduceIte, Int.toNat_natCast, hl]

def EofOrFuel {α : Type} (r : DRes α) : Prop := r = .error .eof ∨ r = .error .fuel

theorem eofOrFuel_map {α β : Type} (r : DRes α) (h : EofOrFuel r) (k : α × Bytes × Nat → DRes β) :
    EofOrFuel (match r with | .error e => .error e | .ok x => k x) := by
  rcases h with h | h <;> rw [h] <;> simp [EofOrFuel]

mutual
theorem prefixG (fx : Bool) : ∀ (v : Resp), WF v = true → ∀ (p s : Bytes), s ≠ [] → p ++ s = enc v →
    ∀ (f d k : Nat) (off : Nat), EofOrFuel (decodeRespG fx f d (List.replicate k 10 ++ p) off)
  | v, hwf, p, s, hs, e, 0, d, k, off => Or.inr rfl
  | v, hwf, [], s, hs, e, f + 1, d, k, off => by
    left
    rw [decodeRespG, decodeBody, List.append_nil, decodeType_eof]
  | .str b, hwf, t :: p, s, hs, e, f + 1, d, k, off => by
    have hb := noLF_of_contains (by simpa [WF] using hwf)
    simp only [enc, List.cons_append, List.cons.injEq] at e
    obtain ⟨rfl, e⟩ := e
    have := strictPrefix_line_noLF b p s hb hs e
    left
    rw [decodeRespG, decodeBody_type _ _ _ _ _ (by decide)]
    simp [decodeText_eof p _ this]
  | .err b, hwf, t :: p, s, hs, e, f + 1, d, k, off => by
    have hb := noLF_of_contains (by simpa [WF] using hwf)
    simp only [enc, List.cons_append, List.cons.injEq] at e
    obtain ⟨rfl, e⟩ := e
    have := strictPrefix_line_noLF b p s hb hs e
    left
    rw [decodeRespG, decodeBody_type _ _ _ _ _ (by decide)]
    simp [decodeText_eof p _ this]
  | .int i, hwf, t :: p, s, hs, e, f + 1, d, k, off => by
    simp only [enc, List.cons_append, List.cons.injEq] at e
    obtain ⟨rfl, e⟩ := e
    have := strictPrefix_line_noLF _ p s (fmtInt_noLF i) hs e
    left
    rw [decodeRespG, decodeBody_type _ _ _ _ _ (by decide)]
    simp [decodeInt_eof p _ this]
  | .bulk none, hwf, t :: p, s, hs, e, f + 1, d, k, off => by
    simp only [enc, List.cons_append, List.cons.injEq] at e
    obtain ⟨rfl, e⟩ := e
    have := strictPrefix_line_noLF _ p s (fmtInt_noLF (-1)) hs e
    left
    rw [decodeRespG, decodeBody_type _ _ _ _ _ (by decide)]
    simp [decodeBulk_eof_hdr p _ this]
  | .bulk (some b), hwf, t :: p, s, hs, e, f + 1, d, k, off => by
    have hb : b.length ≤ maxLen := by simpa [WF] using hwf
    simp only [enc, List.cons_append, List.cons.injEq] at e
    obtain ⟨rfl, e⟩ := e
    left
    rw [decodeRespG, decodeBody_type _ _ _ _ _ (by decide)]
    rcases cut_line _ p s _ (fmtInt_noLF b.length) hs e with h | ⟨p', rfl, e'⟩
    · simp [decodeBulk_eof_hdr p _ h]
    · simp only [show ¬ ((36 : UInt8) = 43) by decide, show ¬ ((36 : UInt8) = 45) by decide,
        show ¬ ((36 : UInt8) = 58) by decide, ↓reduceIte, decodeBulk_eof_body b p' s _ hb hs e']
  | .arr none, hwf, t :: p, s, hs, e, f + 1, d, k, off => by
    simp only [enc, List.cons_append, List.cons.injEq] at e
    obtain ⟨rfl, e⟩ := e
    have := strictPrefix_line_noLF _ p s (fmtInt_noLF (-1)) hs e
    left
    rw [decodeRespG, decodeBody_type _ _ _ _ _ (by decide)]
    simp [decodeInt_eof p _ this]
  | .arr (some l), hwf, t :: p, s, hs, e, f + 1, d, k, off => by
    have hw : l.length ≤ maxLen ∧ WFL l = true := by simpa [WF] using hwf
    have hl : isInt64 (l.length : Int) := by unfold isInt64; have := hw.1; unfold maxLen at this; omega
    simp only [enc, List.cons_append, List.cons.injEq] at e
    obtain ⟨rfl, e⟩ := e
    rw [decodeRespG, decodeBody_type _ _ _ _ _ (by decide)]
    rcases cut_line _ p s _ (fmtInt_noLF l.length) hs e with h | ⟨p', rfl, e'⟩
    · left; simp [decodeInt_eof p _ h]
    · have h1 : ¬ ((l.length : Int) < -1) := by omega
      have h2 : ¬ ((l.length : Int) = -1) := by omega
      simp only [show ¬ ((42 : UInt8) = 43) by decide, show ¬ ((42 : UInt8) = 45) by decide,
        show ¬ ((42 : UInt8) = 58) by decide, show ¬ ((42 : UInt8) = 36) by decide, ↓reduceIte,
        decodeInt_ok (l.length : Int) hl, h1, h2, Int.toNat_natCast]
      rcases prefixL fx l hw.2 p' s hs e' f (d + 1) (off + k + 1 + (fmtInt (l.length : Int)).length + 2) with h | h <;>
        simp only [h] <;> first | exact Or.inl rfl | exact Or.inr rfl
theorem prefixL (fx : Bool) : ∀ (l : List Resp), WFL l = true → ∀ (p s : Bytes), s ≠ [] → p ++ s = encL l →
    ∀ (f d : Nat) (off : Nat), EofOrFuel (decodeSeq (decodeRespG fx f d) l.length p off)
  | [], _, p, s, hs, e, f, d, off => by
    simp [encL] at e; exact absurd e.2 hs
  | x :: xs, hwf, p, s, hs, e, f, d, off => by
    have hw : WF x = true ∧ WFL xs = true := by simpa [WFL] using hwf
    simp only [encL] at e
    rw [List.length_cons]
    unfold decodeSeq
    rcases List.append_eq_append_iff.mp e with ⟨a', e1, e2⟩ | ⟨c', e1, e2⟩
    · -- enc x = p ++ a'
      by_cases ha : a' = []
      · -- the cut is exactly after `x`
        subst ha
        simp only [List.append_nil] at e1
        subst e1
        simp only [List.nil_append] at e2
        subst e2
        rcases roundtripG_anyfuel fx x hw.1 f d [] off with h | h
        · rw [List.append_nil] at h; rw [h]; exact Or.inr rfl
        · rw [List.append_nil] at h; rw [h]
          rcases prefixL fx xs hw.2 [] (encL xs) hs rfl f d (off + (enc x).length) with h | h <;>
            simp only [h] <;> first | exact Or.inl rfl | exact Or.inr rfl
      · have := prefixG fx x hw.1 p a' ha e1.symm f d 0 off
        simp only [List.replicate_zero, List.nil_append] at this
        rcases this with h | h <;> simp only [h] <;> first | exact Or.inl rfl | exact Or.inr rfl
    · -- p = enc x ++ c'
      subst e1
      rcases roundtripG_anyfuel fx x hw.1 f d c' off with h | h
      · rw [h]; exact Or.inr rfl
      · rw [h]
        rcases prefixL fx xs hw.2 c' s hs e2.symm f d (off + (enc x).length) with h | h <;>
          simp only [h] <;> first | exact Or.inl rfl | exact Or.inr rfl
end

/-! ### encoder model = specification -/

theorem itos_eq_fmtInt (i : Int) (h : isInt64 i)
    (hoff : Generated.C10.imapFillOff + Generated.C10.imapLookupOff = 0)
    (hk : 0 ≤ Generated.C10.imapLookupOff ∧ Generated.C10.imapLookupOff ≤ 9223372036854775807) :
    itos i = fmtInt i := by
  unfold itos
  dsimp only
  split
  · rename_i hc
    unfold imapEntry
    congr 1
    unfold wrap64 at hc ⊢
    unfold isInt64 at h
    generalize Generated.C10.imapLookupOff = a at *
    generalize Generated.C10.imapFillOff = b at *
    generalize Generated.C10.imapLen = c at *
    omega
  · rfl

mutual
theorem encodeResp_eq (hI : ∀ i, isInt64 i → itos i = fmtInt i) : ∀ (v : Resp), WF v = true → encodeResp v = enc v
  | .str b, _ => by simp [encodeResp, enc]
  | .err b, _ => by simp [encodeResp, enc]
  | .int i, h => by
    have hi : isInt64 i := by simpa [WF] using h
    simp [encodeResp, enc, encodeInt, hI i hi]
  | .bulk none, _ => by simp [encodeResp, enc, encodeInt, hI (-1) (by decide)]
  | .bulk (some b), h => by
    have hb : b.length ≤ maxLen := by simpa [WF] using h
    have : isInt64 (b.length : Int) := by unfold isInt64; unfold maxLen at hb; omega
    simp [encodeResp, enc, encodeInt, hI _ this]
  | .arr none, _ => by simp [encodeResp, enc, encodeInt, hI (-1) (by decide)]
  | .arr (some l), h => by
    have hw : l.length ≤ maxLen ∧ WFL l = true := by simpa [WF] using h
    have : isInt64 (l.length : Int) := by unfold isInt64; have := hw.1; unfold maxLen at this; omega
    simp [encodeResp, enc, encodeInt, hI _ this, encodeList_eq hI l hw.2]
theorem encodeList_eq (hI : ∀ i, isInt64 i → itos i = fmtInt i) : ∀ (l : List Resp), WFL l = true → encodeList l = encL l
  | [], _ => by simp [encodeList, encL]
  | x :: xs, h => by
    have hw : WF x = true ∧ WFL xs = true := by simpa [WFL] using h
    simp [encodeList, encL, encodeResp_eq hI x hw.1, encodeList_eq hI xs hw.2]
end

/-! ### handler.go -/

theorem asBulks_map (args : List (Option Bytes)) : asBulks (args.map Resp.bulk) = .ok args := by
  induction args with
  | nil => simp [asBulks]
  | cons a as ih => simp [asBulks, ih]

theorem asBulks_inv : ∀ (items : List Resp) (bs : List (Option Bytes)), asBulks items = .ok bs → items = bs.map Resp.bulk
  | [], bs, h => by simp [asBulks] at h; subst h; rfl
  | .bulk b :: xs, bs, h => by
    simp only [asBulks] at h
    split at h
    · simp at h
    · rename_i cs hc
      simp at h; subst h
      simp [asBulks_inv xs cs hc]
  | .str _ :: _, _, h => by simp [asBulks] at h
  | .err _ :: _, _, h => by simp [asBulks] at h
  | .int _ :: _, _, h => by simp [asBulks] at h
  | .arr _ :: _, _, h => by simp [asBulks] at h

/-! ### streams -/

theorem decodeStream_offsets : ∀ (n : Nat) (inp : Bytes) (off : Nat),
    ∀ x ∈ (decodeStream true n inp off).1, x.2.1 + x.2.2 = off + inp.length
  | 0, _, _, x, hx => by simp [decodeStream] at hx
  | n + 1, inp, off, x, hx => by
    unfold decodeStream at hx
    split at hx
    · simp at hx
    · rename_i v rest off' hd
      obtain ⟨pre, e1, _, e2⟩ := decodeRespG_consumes true _ _ _ _ _ _ _ hd
      simp at e2
      simp only [List.mem_cons] at hx
      rcases hx with hx | hx
      · subst hx; simp [e1, e2]; omega
      · have := decodeStream_offsets n rest off' x hx
        rw [this, e1, e2]; simp; omega

/-! ### nesting depth is bounded by the encoded length -/

mutual
theorem depth_le : ∀ v : Resp, depth v ≤ (enc v).length
  | .str b => by simp [depth, enc]
  | .err b => by simp [depth, enc]
  | .int i => by simp [depth, enc]
  | .bulk none => by simp [depth, enc]
  | .bulk (some b) => by simp [depth, enc]
  | .arr none => by simp [depth, enc]
  | .arr (some l) => by
    have := depthL_le l
    simp [depth, enc]; omega
theorem depthL_le : ∀ l : List Resp, depthL l ≤ (encL l).length
  | [] => by simp [depthL, encL]
  | x :: xs => by
    have := depth_le x
    have := depthL_le xs
    simp [depthL, encL]; omega
end

end RSVerif.Lemmas.Resp
