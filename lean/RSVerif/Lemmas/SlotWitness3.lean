import RSVerif.Lemmas.SlotWitnessCheck
import RSVerif.Generated.C15Witness3
/-
Kernel check of the regenerated witness candidates for slots 6144..8191 (8 chunks of 256 rows;
one `decide +kernel` per chunk — the quantifier is a finite generated table). One of 8 such modules,
so that lake checks them in parallel; rebuilt only when a CRC16-relevant fact of the source changes.
-/
namespace RSVerif.Lemmas.Slot
open RSVerif

theorem witness_chunk_24 : chunkOK 6144 Generated.C15.slotWitness24 = true := by decide +kernel
theorem witness_chunk_25 : chunkOK 6400 Generated.C15.slotWitness25 = true := by decide +kernel
theorem witness_chunk_26 : chunkOK 6656 Generated.C15.slotWitness26 = true := by decide +kernel
theorem witness_chunk_27 : chunkOK 6912 Generated.C15.slotWitness27 = true := by decide +kernel
theorem witness_chunk_28 : chunkOK 7168 Generated.C15.slotWitness28 = true := by decide +kernel
theorem witness_chunk_29 : chunkOK 7424 Generated.C15.slotWitness29 = true := by decide +kernel
theorem witness_chunk_30 : chunkOK 7680 Generated.C15.slotWitness30 = true := by decide +kernel
theorem witness_chunk_31 : chunkOK 7936 Generated.C15.slotWitness31 = true := by decide +kernel

theorem witness_module_3 : ∀ s, 6144 ≤ s → s < 8192 → ∃ x, rowOK x s = true := by
  intro s h1 h2
  rcases Nat.lt_or_ge s 6400 with h | h1
  · exact chunk_covers 6144 _ witness_chunk_24 s h1 (by omega)
  rcases Nat.lt_or_ge s 6656 with h | h1
  · exact chunk_covers 6400 _ witness_chunk_25 s h1 (by omega)
  rcases Nat.lt_or_ge s 6912 with h | h1
  · exact chunk_covers 6656 _ witness_chunk_26 s h1 (by omega)
  rcases Nat.lt_or_ge s 7168 with h | h1
  · exact chunk_covers 6912 _ witness_chunk_27 s h1 (by omega)
  rcases Nat.lt_or_ge s 7424 with h | h1
  · exact chunk_covers 7168 _ witness_chunk_28 s h1 (by omega)
  rcases Nat.lt_or_ge s 7680 with h | h1
  · exact chunk_covers 7424 _ witness_chunk_29 s h1 (by omega)
  rcases Nat.lt_or_ge s 7936 with h | h1
  · exact chunk_covers 7680 _ witness_chunk_30 s h1 (by omega)
  exact chunk_covers 7936 _ witness_chunk_31 s h1 (by omega)

end RSVerif.Lemmas.Slot
